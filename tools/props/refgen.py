"""Generator of documents with rich, acyclic reference graphs (shared by the C05 / C07 / C08 checks):
clip-path and mask chains of any length, patterns inside masks inside patterns, gradients with href,
filters with feImage pointing into and outside defs, markers, symbols with a viewBox (generated clip
paths), objectBoundingBox definitions shared by several elements (clones with generated ids),
context paint, text with paint servers and text paths, nested SVG images with their own definitions.
Every random choice comes from the caller's SplitMix64."""
import base64
import re

NS = 'xmlns="http://www.w3.org/2000/svg" xmlns:xlink="http://www.w3.org/1999/xlink"'
GEN_LIKE = ['clipPath1', 'clipPath2', 'mask1', 'filter1', 'filter2', 'pattern1', 'linearGradient1',
            'radialGradient1', 'image1', 'clipPath3', 'mask2', 'linearGradient2']


class RefDoc:
    def __init__(self, rng, depth=0, id_style='plain', with_text=True, with_image=True, big=False):
        self.rng = rng
        self.depth = depth
        self.with_text = with_text
        self.with_image = with_image
        self.ids = []
        self.id_style = id_style
        self.n = 0
        k = 6 if big else 4
        kinds = []
        for kind, mx in (('clip', k), ('mask', k - 1), ('pat', k - 1), ('lg', 3), ('rg', 2), ('filt', 3), ('marker', 2),
                         ('sym', 2), ('shape', 3)):
            kinds += [kind] * rng.below(mx + 1)
        rng.shuffle(kinds)
        self.defs = [(kind, self.new_id(kind)) for kind in kinds]
        self.body_ids = []
        self.extra_defs = []

    def hidden_user(self):
        """an element that is not painted and is the only user of a fresh gradient / pattern (direct, or inherited from a group)"""
        rng = self.rng
        i = self.new_id('hid')
        k = rng.below(3)
        if k == 0:
            self.extra_defs.append(_grad(i, 'red'))
        elif k == 1:
            self.extra_defs.append('<radialGradient id="%s"><stop offset="0" stop-color="white"/><stop offset="1" stop-color="blue"/></radialGradient>' % i)
        else:
            self.extra_defs.append('<pattern id="%s" patternUnits="userSpaceOnUse" width="6" height="6"><rect width="3" height="3"%s/></pattern>'
                                   % (i, self.ref_attrs(-1, allow_filter=False).replace(' visibility="visible"', '')))
        v = rng.choice(['hidden', 'collapse'])
        paint = rng.choice(['fill="url(#%s)"', 'stroke="url(#%s)" stroke-width="3"', 'fill="url(#%s)" stroke="url(#%s)"']).replace('%s', i)
        x, y = rng.below(50), rng.below(50)
        shape = '<rect x="%d" y="%d" width="%d" height="%d"%%s/>' % (x, y, 10 + rng.below(30), 10 + rng.below(30))
        r = rng.below(4)
        if r == 0:
            return shape % (' visibility="%s" %s' % (v, paint))
        if r == 1:
            return '<g visibility="%s">%s</g>' % (v, shape % (' ' + paint))
        if r == 2:
            return '<g %s>%s<circle cx="20" cy="20" r="5" fill="black" stroke="none"/></g>' % (paint, shape % (' visibility="%s"' % v))
        return '<g visibility="%s" %s><g>%s</g></g>' % (v, paint, shape % '')

    def new_id(self, kind):
        self.n += 1
        if self.id_style == 'genlike' and self.rng.below(3) == 0:
            cand = [g for g in GEN_LIKE if g not in self.ids]
            if cand:
                i = self.rng.choice(cand)
                self.ids.append(i)
                return i
        i = '%s%d' % (kind, self.n)
        if self.id_style == 'weird' and self.rng.below(3) == 0:
            i = i + self.rng.choice(['-x', '.y', '_é', ':z'])
        self.ids.append(i)
        return i

    def later(self, idx, kinds):
        return [d for d in self.defs[idx + 1:] if d[0] in kinds]

    def ref_attrs(self, idx, allow_filter=True, in_clip=False):
        """presentation attributes that reference later definitions"""
        rng = self.rng
        a = ''
        servers = self.later(idx, ('lg', 'rg', 'pat'))
        if servers and rng.below(2) and not in_clip:
            a += ' fill="url(#%s)"' % rng.choice(servers)[1]
        elif rng.below(3) == 0:
            a += ' fill="%s"' % rng.choice(['red', '#00ff00', 'none', 'blue'])
        if servers and rng.below(4) == 0 and not in_clip:
            a += ' stroke="url(#%s)" stroke-width="3"' % rng.choice(servers)[1]
        clips = self.later(idx, ('clip',))
        if clips and rng.below(3) == 0:
            a += ' clip-path="url(#%s)"' % rng.choice(clips)[1]
        masks = self.later(idx, ('mask',))
        if masks and rng.below(3) == 0 and not in_clip:
            a += ' mask="url(#%s)"' % rng.choice(masks)[1]
        filts = self.later(idx, ('filt',))
        if filts and allow_filter and rng.below(4) == 0 and not in_clip:
            fs = ['url(#%s)' % rng.choice(filts)[1]]
            if rng.below(3) == 0:
                fs.append(rng.choice(['blur(1)', 'url(#%s)' % rng.choice(filts)[1], 'sepia(0.5)']))
            a += ' filter="%s"' % ' '.join(fs)
        if rng.below(6) == 0:
            a += ' opacity="0.5"'
        if not in_clip and rng.below(10) == 0:
            a += ' style="%s"' % rng.choice(['mix-blend-mode:screen', 'isolation:isolate', 'mix-blend-mode:multiply;isolation:isolate'])
        if rng.below(6) == 0:
            a += ' transform="translate(%d %d)"' % (rng.below(20), rng.below(20))
        if rng.below(9) == 0:
            a += ' visibility="%s"' % rng.choice(['hidden', 'collapse', 'hidden', 'visible'])
        return a

    def shape(self, idx, with_id=False, in_clip=False):
        rng = self.rng
        x, y, w, h = rng.below(60), rng.below(60), 10 + rng.below(60), 10 + rng.below(60)
        ida = ''
        if with_id or rng.below(4) == 0:
            i = self.new_id('el')
            ida = ' id="%s"' % i
        k = rng.below(4)
        attrs = self.ref_attrs(idx, in_clip=in_clip)
        if not in_clip and rng.below(8) == 0:
            # a stroked horizontal line: its object bounding box has no height
            if ' stroke=' not in attrs:
                attrs += ' stroke="black" stroke-width="4"'
            return '<line%s x1="%d" y1="%d" x2="%d" y2="%d"%s/>' % (ida, x, y + 20, x + w, y + 20, attrs)
        pats = self.later(idx, ('pat',))
        if not in_clip and len(pats) >= 2 and rng.below(6) == 0:
            a, b = pats[0][1], pats[-1][1]
            attrs = re.sub(r' (fill|stroke)="[^"]*"| stroke-width="[^"]*"', '', attrs)
            return '<rect%s x="%d" y="%d" width="%d" height="%d" fill="url(#%s)" stroke="url(#%s)" stroke-width="8"%s/>' % (ida, x, y, w, h, a, b, attrs)
        if k == 0:
            return '<rect%s x="%d" y="%d" width="%d" height="%d"%s/>' % (ida, x, y, w, h, attrs)
        if k == 1:
            return '<circle%s cx="%d" cy="%d" r="%d"%s/>' % (ida, x + 20, y + 20, 5 + w // 3, attrs)
        if k == 2:
            markers = self.later(idx, ('marker',))
            ma = ''
            if markers and rng.below(2) and not in_clip:
                ma = ' marker-%s="url(#%s)"' % (rng.choice(['start', 'mid', 'end']), rng.choice(markers)[1])
            if ' stroke=' not in attrs:
                attrs += ' stroke="black"'
            return '<path%s d="M %d %d L %d %d L %d %d"%s%s/>' % (ida, x, y, x + w, y, x + w, y + h, attrs, ma)
        if in_clip:
            return '<rect%s x="%d" y="%d" width="%d" height="%d"%s/>' % (ida, x, y, w, h, attrs)
        inner = ''.join(self.shape(idx) for _ in range(1 + rng.below(2)))
        return '<g%s%s>%s</g>' % (ida, attrs, inner)

    def content(self, idx, n=None, in_clip=False):
        n = n if n is not None else 1 + self.rng.below(3)
        return ''.join(self.shape(idx, in_clip=in_clip) for _ in range(n))

    def units(self, attr):
        r = self.rng.below(3)
        if r == 0:
            return ''
        return ' %s="%s"' % (attr, 'userSpaceOnUse' if r == 1 else 'objectBoundingBox')

    def definition(self, idx):
        rng = self.rng
        kind, i = self.defs[idx]
        if kind == 'clip':
            a = self.units('clipPathUnits')
            nxt = self.later(idx, ('clip',))
            if nxt and rng.below(2):
                a += ' clip-path="url(#%s)"' % nxt[0][1]     # chains of any length: always the next clip path
            body = self.content(idx, in_clip=True)
            if self.with_text and rng.below(8) == 0:
                body += '<text x="10" y="40" font-size="30">A</text>'
            if 'objectBoundingBox' in a:
                body = '<rect x="0.1" y="0.1" width="0.8" height="0.8"/>'
            return '<clipPath id="%s"%s>%s</clipPath>' % (i, a, body)
        if kind == 'mask':
            a = self.units('maskUnits')
            a += ' x="0" y="0" width="%s" height="%s"' % (('1', '1') if 'objectBoundingBox' in a or 'maskUnits' not in a else ('100', '100'))
            nxt = self.later(idx, ('mask',))
            if nxt and rng.below(2):
                a += ' mask="url(#%s)"' % nxt[0][1]
            if rng.below(4) == 0:
                a += ' mask-type="alpha"'
            return '<mask id="%s"%s>%s</mask>' % (i, a, self.content(idx))
        if kind == 'pat':
            a = self.units('patternUnits')
            wh = ('0.25', '0.25') if 'userSpaceOnUse' not in a else ('20', '20')
            a += ' width="%s" height="%s"' % wh
            hr = self.later(idx, ('pat',))
            if hr and rng.below(4) == 0:
                return '<pattern id="%s"%s xlink:href="#%s"/>' % (i, a, hr[0][1])
            if rng.below(3) == 0:
                a += ' viewBox="0 0 40 40"'
            return '<pattern id="%s"%s>%s</pattern>' % (i, a, self.content(idx))
        if kind in ('lg', 'rg'):
            tag = 'linearGradient' if kind == 'lg' else 'radialGradient'
            a = self.units('gradientUnits')
            if 'userSpaceOnUse' in a:
                a += ' x1="0" x2="100"' if kind == 'lg' else ' cx="50" cy="50" r="40"'
            hr = self.later(idx, ('lg', 'rg'))
            if hr and rng.below(3) == 0:
                return '<%s id="%s"%s xlink:href="#%s"/>' % (tag, i, a, hr[0][1])
            if rng.below(4) == 0:
                a += ' spreadMethod="%s"' % rng.choice(['reflect', 'repeat'])
            return '<%s id="%s"%s><stop offset="0" stop-color="white"/><stop offset="1" stop-color="%s"/></%s>' % (
                tag, i, a, rng.choice(['black', 'red', 'green']), tag)
        if kind == 'filt':
            a = self.units('filterUnits')
            prims = []
            for _ in range(1 + rng.below(3)):
                r = rng.below(6)
                if r == 0:
                    tg = self.later(idx, ('shape',)) + [('body', b) for b in self.body_ids]
                    if tg:
                        prims.append('<feImage xlink:href="#%s"/>' % rng.choice(tg)[1])
                    else:
                        prims.append('<feFlood flood-color="green" flood-opacity="0.5"/>')
                elif r == 1:
                    prims.append('<feOffset dx="3" dy="2"/>')
                elif r == 2:
                    prims.append('<feGaussianBlur stdDeviation="1"/>')
                elif r == 3:
                    prims.append('<feFlood flood-color="blue" flood-opacity="0.3" result="fl"/>')
                elif r == 4:
                    prims.append('<feMerge><feMergeNode in="fl"/><feMergeNode in="SourceGraphic"/></feMerge>')
                else:
                    prims.append('<feComposite in2="SourceAlpha" operator="in"/>')
            return '<filter id="%s"%s>%s</filter>' % (i, a, ''.join(prims))
        if kind == 'marker':
            return '<marker id="%s" markerWidth="6" markerHeight="6" refX="3" refY="3"%s>%s</marker>' % (
                i, rng.choice(['', ' viewBox="0 0 20 20"', ' markerUnits="userSpaceOnUse"']), self.content(idx, 1))
        if kind == 'sym':
            return '<symbol id="%s"%s>%s</symbol>' % (i, rng.choice(['', ' viewBox="0 0 50 50"', ' viewBox="0 0 80 40" overflow="visible"']),
                                                     self.content(idx))
        # a plain shape inside defs (feImage / use target)
        return '<rect id="%s" x="5" y="5" width="30" height="30"%s/>' % (i, self.ref_attrs(idx, allow_filter=False))

    def text(self):
        rng = self.rng
        servers = [d for d in self.defs if d[0] in ('lg', 'rg', 'pat')]
        a = ''
        if servers and rng.below(2):
            a += ' fill="url(#%s)"' % rng.choice(servers)[1]
        if servers and rng.below(4) == 0:
            a += ' stroke="url(#%s)"' % rng.choice(servers)[1]
        if rng.below(3) == 0:
            a += ' text-decoration="underline"'
        if rng.below(3) == 0:
            i = self.new_id('tp')
            vis = rng.below(2)
            p = '<path id="%s" d="M 10 %d C 40 10 60 90 90 50" fill="none" stroke="gray"/>' % (i, 30 + rng.below(40))
            p = p if vis else '<defs>%s</defs>' % p
            return p + '<text font-size="14"%s><textPath xlink:href="#%s">on a path</textPath></text>' % (a, i)
        inner = 'abc' if rng.below(2) else 'a<tspan fill="green" dy="5">b</tspan>c'
        return '<text x="10" y="%d" font-size="%d"%s>%s</text>' % (20 + rng.below(60), 12 + rng.below(20), a, inner)

    def build(self):
        rng = self.rng
        # body first (feImage may point at body elements), definitions in index order
        body = []
        for _ in range(2 + rng.below(4)):
            r = rng.below(10)
            if r < 6 and rng.below(5) == 0:
                body.append(self.hidden_user())
            elif r < 6:
                i = None
                s = self.shape(-1, with_id=rng.below(3) == 0)
                body.append(s)
                if ' id="' in s.split('>')[0]:
                    self.body_ids.append(s.split(' id="')[1].split('"')[0])
            elif r == 6:
                syms = [d for d in self.defs if d[0] in ('sym', 'shape')]
                if syms:
                    body.append('<use xlink:href="#%s" x="%d" y="%d"%s%s/>' % (
                        rng.choice(syms)[1], rng.below(40), rng.below(40),
                        rng.choice(['', ' width="40" height="40"']), self.ref_attrs(-1)))
            elif r == 7 and self.with_text:
                body.append(self.text())
            elif r == 8 and self.with_image and self.depth == 0:
                inner = RefDoc(rng, depth=1, id_style=self.id_style, with_text=False, with_image=False).build()
                body.append('<image x="5" y="5" width="60" height="60" xlink:href="data:image/svg+xml;base64,%s"/>'
                            % base64.b64encode(inner.encode()).decode())
            else:
                # two elements sharing objectBoundingBox definitions (clones with generated ids)
                servers = [d for d in self.defs if d[0] in ('clip', 'mask', 'pat', 'lg', 'filt')]
                if servers:
                    k, i = rng.choice(servers)
                    at = {'clip': 'clip-path', 'mask': 'mask', 'pat': 'fill', 'lg': 'fill', 'filt': 'filter'}[k]
                    body.append('<rect x="0" y="0" width="40" height="40" %s="url(#%s)"/><rect x="50" y="50" width="30" height="45" %s="url(#%s)"/>'
                                % (at, i, at, i))
        defs = ''.join(self.definition(k) for k in range(len(self.defs))) + ''.join(self.extra_defs)
        return '<svg %s width="100" height="100" viewBox="0 0 100 100"><defs>%s</defs>%s</svg>' % (NS, defs, ''.join(body))


def gen_ref_doc(rng, **kw):
    return RefDoc(rng, **kw).build()


# ------------------------------------------------------------------------------------------------
# Hand-made reference shapes that random generation reaches too rarely (each one was a miss of a seeded change once).
# Every document is valid today: no known class applies, so any problem reported on them is a violation.
# ------------------------------------------------------------------------------------------------
def _grad(i, color):
    return ('<linearGradient id="%s" gradientUnits="userSpaceOnUse" x1="0" x2="20"><stop offset="0" stop-color="white"/>'
            '<stop offset="1" stop-color="%s"/></linearGradient>' % (i, color))


def crafted_docs():
    out = units_docs() + marker_docs() + [specular_doc(v) for v in SPECULAR_VALUES] + feimage_image_docs() + subregion_docs() + hidden_docs() + nested_docs() + clip_nested_docs()
    # a path whose fill AND stroke are different patterns; what the stroke pattern's content uses is used nowhere else
    for res, attr, definition in [
        ('only-g', 'fill="url(#only-g)"', _grad('only-g', 'red')),
        ('only-c', 'clip-path="url(#only-c)"', '<clipPath id="only-c"><circle cx="5" cy="5" r="4"/></clipPath>'),
        ('only-m', 'mask="url(#only-m)"', '<mask id="only-m" maskUnits="userSpaceOnUse" x="0" y="0" width="10" height="10"><rect width="8" height="8" fill="white"/></mask>'),
        ('only-f', 'filter="url(#only-f)"', '<filter id="only-f" filterUnits="userSpaceOnUse" x="0" y="0" width="10" height="10"><feOffset dx="1"/></filter>'),
        ('only-p', 'fill="url(#only-p)"', '<pattern id="only-p" patternUnits="userSpaceOnUse" width="4" height="4"><rect width="2" height="2" fill="blue"/></pattern>'),
    ]:
        for order in (0, 1):
            fillp = '<pattern id="pf" patternUnits="userSpaceOnUse" width="10" height="10"><rect width="6" height="6" fill="green"/></pattern>'
            strokep = ('<pattern id="ps" patternUnits="userSpaceOnUse" width="10" height="10"><rect width="9" height="9" %s/></pattern>' % attr)
            if 'fill=' not in attr:
                strokep = strokep.replace('<rect width="9"', '<rect fill="orange" width="9"')
            paints = ('fill="url(#pf)" stroke="url(#ps)"', 'fill="url(#ps)" stroke="url(#pf)"')[order]
            out.append('<svg %s width="100" height="100"><defs>%s%s%s</defs><rect x="10" y="10" width="70" height="60" stroke-width="12" %s/></svg>'
                       % (NS, definition, fillp, strokep, paints))
    # an objectBoundingBox definition whose FIRST user has an empty bounding box (stroked horizontal line), then a normal user
    line = '<line x1="10" y1="30" x2="90" y2="30" stroke="black" stroke-width="6" %s/>'
    rect = '<rect x="10" y="50" width="60" height="40" fill="green" %s/>'
    for attr, definition in [
        ('mask="url(#m1)"', '<mask id="m1"><rect x="0.1" y="0.1" width="0.8" height="0.8" fill="white"/></mask>'),
        ('mask="url(#m1)"', '<mask id="m1" maskContentUnits="objectBoundingBox"><rect x="0.1" y="0.1" width="0.8" height="0.8" fill="white"/></mask>'),
        ('clip-path="url(#c1)"', '<clipPath id="c1" clipPathUnits="objectBoundingBox"><rect x="0.1" y="0.1" width="0.8" height="0.8"/></clipPath>'),
        ('filter="url(#f1)"', '<filter id="f1"><feOffset dx="2" dy="2"/></filter>'),
        ('fill="url(#g1)"', '<linearGradient id="g1"><stop offset="0" stop-color="white"/><stop offset="1" stop-color="red"/></linearGradient>'),
        ('fill="url(#p1)"', '<pattern id="p1" width="0.25" height="0.25"><rect width="6" height="6" fill="blue"/></pattern>'),
    ]:
        # (until round 4 the third user had two `x` attributes and the fill users two `fill` attributes: not XML, silently rejected)
        urect = rect.replace(' fill="green"', '') if attr.startswith('fill=') else rect
        for users in ((line, urect), (line, urect, urect.replace('x="10" y="50"', 'x="40" y="5"')), (urect, line, urect.replace('width="60"', 'width="30"'))):
            out.append('<svg %s width="100" height="100"><defs>%s</defs>%s</svg>' % (NS, definition, ''.join(u % attr for u in users)))
    return out


GROUP_ATTRS = [('opacity', 'opacity="0.5"'), ('blend', 'style="mix-blend-mode:multiply"'), ('isolate', 'style="isolation:isolate"'),
               ('clip', 'clip-path="url(#gc)"'), ('mask', 'mask="url(#gm)"'), ('filter', 'filter="url(#gf)"'),
               ('transform', 'transform="translate(3 4)"')]


def group_attr_docs():
    """a group with every pair of group-forming attributes (blend + isolate share one `style`)"""
    defs = ('<clipPath id="gc"><rect width="60" height="60"/></clipPath>'
            '<mask id="gm" maskUnits="userSpaceOnUse" x="0" y="0" width="80" height="80"><rect width="70" height="70" fill="white"/></mask>'
            '<filter id="gf" filterUnits="userSpaceOnUse" x="0" y="0" width="90" height="90"><feOffset dx="2"/></filter>')
    out = []
    for i in range(len(GROUP_ATTRS)):
        for j in range(i + 1, len(GROUP_ATTRS)):
            a, b = GROUP_ATTRS[i][1], GROUP_ATTRS[j][1]
            if a.startswith('style=') and b.startswith('style='):
                a, b = 'style="mix-blend-mode:multiply;isolation:isolate"', ''
            out.append('<svg %s width="100" height="100"><defs>%s</defs><rect width="100" height="100" fill="yellow"/>'
                       '<g id="gg" %s %s><rect x="10" y="10" width="50" height="50" fill="blue"/><circle cx="60" cy="60" r="20" fill="red"/></g></svg>'
                       % (NS, defs, a, b))
    return out


def size_docs():
    """documents whose size is not integral (physical units, tiny sizes); (document, list of option overrides)"""
    body = '<rect width="50%" height="50%" fill="green"/><circle cx="3" cy="3" r="2"/>'
    docs = []
    for wh in [('210mm', '297.3mm'), ('0.4', '0.3'), ('33.3333pt', '7.77in'), ('100.5', '0.62'), ('12.345678', '1234.5678'),
               ('2.54cm', '1pc')]:
        docs.append(('<svg %s width="%s" height="%s" viewBox="0 0 20 10">%s</svg>' % (NS, wh[0], wh[1], body),
                     [dict(cp=0, tp=0), dict(cp=2, tp=8), dict(cp=1, tp=3), dict(cp=3, tp=12)]))
    return docs


def units_docs():
    """every units combination of filters, masks, clip paths and patterns, shared by 2-3 users with different boxes"""
    out = []
    users2 = '<rect x="5" y="5" width="40" height="30" fill="green" %(a)s/><rect x="50" y="40" width="30" height="50" fill="blue" %(a)s/>'
    users3 = users2 + '<circle cx="30" cy="70" r="15" fill="red" %(a)s/>'
    U = ['userSpaceOnUse', 'objectBoundingBox']
    for users in (users2, users3):
        for u1 in U:
            for u2 in U:
                region = 'x="0" y="0" width="100" height="100"' if u1 == U[0] else 'x="0" y="0" width="1" height="1"'
                off = '3' if u2 == U[0] else '0.1'
                out.append('<svg %s width="100" height="100"><filter id="fu" filterUnits="%s" primitiveUnits="%s" %s><feOffset dx="%s" dy="%s"/>'
                           '<feFlood flood-color="red" flood-opacity="0.3"/><feMerge><feMergeNode in="result1"/><feMergeNode/></feMerge></filter>%s</svg>'
                           % (NS, u1, u2, region, off, off, users % dict(a='filter="url(#fu)"')))
                cont = '<rect x="2" y="2" width="30" height="30" fill="white"/>' if u2 == U[0] else '<rect x="0.1" y="0.1" width="0.7" height="0.7" fill="white"/>'
                out.append('<svg %s width="100" height="100"><mask id="mu" maskUnits="%s" maskContentUnits="%s" %s>%s</mask>%s</svg>'
                           % (NS, u1, u2, region, cont, users % dict(a='mask="url(#mu)"')))
                wh = 'width="10" height="10"' if u1 == U[0] else 'width="0.25" height="0.25"'
                pc = '<rect width="5" height="5" fill="black"/>' if u2 == U[0] else '<rect width="0.1" height="0.1" fill="black"/>'
                out.append('<svg %s width="100" height="100"><pattern id="pu" patternUnits="%s" patternContentUnits="%s" %s>%s</pattern>%s</svg>'
                           % (NS, u1, u2, wh, pc, (users % dict(a='stroke="url(#pu)" stroke-width="4"')).replace('fill="green"', 'fill="url(#pu)"')))
            cc = '<circle cx="20" cy="20" r="18"/>' if u1 == U[0] else '<circle cx="0.5" cy="0.5" r="0.4"/>'
            out.append('<svg %s width="100" height="100"><clipPath id="cu" clipPathUnits="%s">%s</clipPath>%s</svg>'
                       % (NS, u1, cc, users % dict(a='clip-path="url(#cu)"')))
    return out


def marker_docs():
    """marker content that needs a viewport clip group (nested svg with a size, use of a sized symbol) on paths with several
    marker positions: marker instances must not carry the ids of the marker children"""
    path = '<path id="path1" d="M 20 20 L 100 100 L 180 20" fill="none" stroke="black" %s/>'
    allpos = 'marker-start="url(#marker1)" marker-mid="url(#marker1)" marker-end="url(#marker1)"'
    two = 'marker-start="url(#marker1)" marker-end="url(#marker1)"'
    bodies = [
        '<svg id="svg2" x="-5" y="-5" width="10" height="10"><circle id="circle1" cx="5" cy="5" r="30" fill="green"/></svg>',
        '<use id="use1" xlink:href="#sym1" x="-5" y="-5" width="10" height="10"/>',
        '<g id="g1"><circle id="circle1" r="5" fill="green"/><image id="img1" width="4" height="4" xlink:href="data:image/png;base64,'
        'iVBORw0KGgoAAAANSUhEUgAAAAQAAAAECAIAAAAmkwkpAAAAFElEQVR4nGP8z8DAwMDAxMDAwMAAAA0GAQOGZq0kAAAAAElFTkSuQmCC"/></g>',
        '<svg id="svg3" width="10" height="10" viewBox="0 0 20 20" overflow="visible"><rect id="r3" width="8" height="8"/></svg>',
    ]
    out = []
    for b in bodies:
        for pos in (allpos, two):
            out.append('<svg %s viewBox="0 0 200 200" width="200" height="200"><symbol id="sym1" viewBox="0 0 10 10"><circle id="circle2" cx="5" cy="5" r="30" fill="green"/></symbol>'
                       '<marker id="marker1" overflow="visible">%s</marker>%s</svg>' % (NS, b, path % pos))
    return out


SPECULAR_VALUES = [None, '0.5', '0', '1', '128', '128.5', '256', '-3', '0.999', '1.001', '64', '127.99', '1e-3', '0.25']


def specular_doc(v):
    a = '' if v is None else ' specularExponent="%s"' % v
    return ('<svg %s width="100" height="100"><filter id="f" filterUnits="userSpaceOnUse" x="0" y="0" width="100" height="100">'
            '<feSpecularLighting%s><feDistantLight azimuth="10" elevation="20"/></feSpecularLighting></filter>'
            '<rect width="50" height="50" filter="url(#f)"/></svg>' % (NS, a))


PNG_4x4 = "iVBORw0KGgoAAAANSUhEUgAAAAQAAAAECAIAAAAmkwkpAAAAFElEQVR4nGP8z8DAwMDAxMDAwMAAAA0GAQOGZq0kAAAAAElFTkSuQmCC"


def feimage_image_docs():
    """feImage whose href is an IMAGE (raster or SVG data URL), for every kind of preserveAspectRatio, in non-square regions"""
    svg_img = base64.b64encode(('<svg xmlns="http://www.w3.org/2000/svg" width="20" height="10"><rect width="20" height="10" fill="red"/>'
                                '<circle cx="5" cy="5" r="4" fill="blue"/></svg>').encode()).decode()
    hrefs = ['data:image/png;base64,' + PNG_4x4, 'data:image/svg+xml;base64,' + svg_img]
    out = []
    for h in hrefs:
        for par in [None, 'none', 'xMidYMid meet', 'xMidYMid slice', 'xMinYMax slice', 'xMaxYMin meet', 'xMaxYMax slice']:
            for region in ('x="5" y="5" width="60" height="30"', 'x="10" y="0" width="20" height="70"'):
                a = '' if par is None else ' preserveAspectRatio="%s"' % par
                out.append('<svg %s width="100" height="100"><filter id="fi" filterUnits="userSpaceOnUse" %s><feImage xlink:href="%s"%s/></filter>'
                           '<rect x="5" y="5" width="80" height="80" fill="green" filter="url(#fi)"/>'
                           '<image x="60" y="60" width="30" height="15" xlink:href="%s"%s id="im"/></svg>' % (NS, region, h, a, h, a))
    return out


def subregion_docs():
    """filter primitives whose subregion equals the filter region in some of x / y / width / height and differs in the others:
    all 16 combinations, in both primitiveUnits (the writer elides exactly the equal ones)"""
    out = []
    for pu in ('userSpaceOnUse', 'objectBoundingBox'):
        eq = ('25', '25', '50', '50') if pu == 'userSpaceOnUse' else ('0.25', '0.25', '0.5', '0.5')
        ne = ('35', '45', '30', '20') if pu == 'userSpaceOnUse' else ('0.35', '0.45', '0.3', '0.2')
        for mask in range(16):
            attrs = ' '.join('%s="%s"' % (n, (ne if mask & (1 << i) else eq)[i]) for i, n in enumerate(('x', 'y', 'width', 'height')))
            out.append('<svg %s width="100" height="100"><filter id="fs" filterUnits="userSpaceOnUse" primitiveUnits="%s" x="25" y="25" width="50" height="50">'
                       '<feFlood flood-color="red" flood-opacity="0.6" %s/><feOffset in="SourceGraphic" dx="2" %s result="o"/>'
                       '<feMerge><feMergeNode in="result1"/><feMergeNode in="o"/></feMerge></filter>'
                       '<rect width="100" height="100" fill="blue" filter="url(#fs)"/></svg>' % (NS, pu, attrs, attrs))
    return out


def _rgrad(i, color):
    return ('<radialGradient id="%s" gradientUnits="userSpaceOnUse" cx="20" cy="20" r="15"><stop offset="0" stop-color="white"/>'
            '<stop offset="1" stop-color="%s"/></radialGradient>' % (i, color))


def _pat(i, inner):
    return '<pattern id="%s" patternUnits="userSpaceOnUse" width="8" height="8">%s</pattern>' % (i, inner)


def hidden_docs():
    """paint servers used ONLY by elements that are not painted (visibility=hidden / collapse): the paths stay in the tree with
    their fill and stroke and the writer emits their url(#id), so the servers must be in the tree's collections.
    Direct, inherited from a group (the paint and / or the visibility), only inside a pattern / mask / clip-path / marker /
    symbol content, a hidden user of a pattern whose content has the only use, hidden text and hidden spans."""
    lg, rg = _grad('hlg', 'red'), _rgrad('hrg', 'blue')
    pt = _pat('hpt', '<rect width="4" height="4" fill="green"/>')
    vis = '<rect x="60" y="60" width="30" height="30" fill="orange"/>'
    out = []

    def doc(defs, body):
        out.append('<svg %s width="100" height="100"><defs>%s</defs>%s%s</svg>' % (NS, defs, body, vis))

    for v in ('hidden', 'collapse'):
        # direct: fill and stroke of one hidden shape; each kind alone
        doc(lg + rg + pt, '<rect id="h1" x="5" y="5" width="40" height="40" visibility="%s" fill="url(#hlg)" stroke="url(#hrg)" stroke-width="4"/>'
                          '<circle id="h2" cx="30" cy="70" r="12" visibility="%s" fill="url(#hpt)"/>' % (v, v))
        doc(lg, '<rect x="5" y="5" width="40" height="40" visibility="%s" fill="url(#hlg)"/>' % v)
        doc(rg, '<path d="M 5 5 L 50 5 L 50 50 Z" visibility="%s" fill="none" stroke="url(#hrg)" stroke-width="5"/>' % v)
        doc(pt, '<ellipse cx="30" cy="30" rx="20" ry="10" visibility="%s" fill="url(#hpt)"/>' % v)
        # inherited: visibility from the group, paint on the children / paint from the group, visibility on the child / both on the group
        doc(lg + rg, '<g visibility="%s"><rect x="5" y="5" width="40" height="40" fill="url(#hlg)"/><circle cx="30" cy="70" r="12" stroke="url(#hrg)"/></g>' % v)
        doc(lg + pt, '<g fill="url(#hlg)" stroke="url(#hpt)" stroke-width="3"><rect x="5" y="5" width="40" height="40" visibility="%s"/></g>' % v)
        doc(rg, '<g id="hg" fill="url(#hrg)" visibility="%s" opacity="0.5"><g><rect x="5" y="5" width="40" height="40"/><circle cx="30" cy="70" r="12"/></g></g>' % v)
        # a visible child of a hidden group re-enables painting: one server used by the visible child, one only by the hidden sibling
        doc(lg + rg, '<g visibility="%s"><rect x="5" y="5" width="40" height="40" fill="url(#hlg)"/>'
                     '<rect x="5" y="50" width="40" height="40" visibility="visible" fill="url(#hrg)"/></g>' % v)
        # only inside a pattern that a hidden element uses
        doc(lg + _pat('hp2', '<rect width="6" height="6" fill="url(#hlg)"/>'),
            '<rect x="5" y="5" width="40" height="40" visibility="%s" fill="url(#hp2)"/>' % v)
        # hidden content of a pattern / mask / clip path / marker / symbol that a VISIBLE element uses
        doc(rg + _pat('hp3', '<rect width="6" height="6" fill="black"/><rect width="3" height="3" visibility="%s" fill="url(#hrg)"/>' % v),
            '<rect x="5" y="5" width="40" height="40" fill="url(#hp3)"/>')
        doc(lg + '<mask id="hm" maskUnits="userSpaceOnUse" x="0" y="0" width="100" height="100"><rect width="50" height="50" fill="white"/>'
                 '<rect width="30" height="30" visibility="%s" fill="url(#hlg)"/></mask>' % v,
            '<rect x="5" y="5" width="40" height="40" fill="green" mask="url(#hm)"/>')
        doc(pt + '<marker id="hmk" markerWidth="6" markerHeight="6" refX="3" refY="3"><rect width="6" height="6" visibility="%s" fill="url(#hpt)"/>'
                 '<circle cx="3" cy="3" r="2"/></marker>' % v,
            '<path d="M 10 10 L 40 10 L 40 40" fill="none" stroke="black" marker-mid="url(#hmk)"/>')
        doc(lg + '<symbol id="hs"><rect width="20" height="20" visibility="%s" stroke="url(#hlg)"/><circle cx="10" cy="10" r="5"/></symbol>' % v,
            '<use xlink:href="#hs" x="10" y="10"/>')
        doc(rg + '<filter id="hf" filterUnits="userSpaceOnUse" x="0" y="0" width="100" height="100"><feImage xlink:href="#hfi"/></filter>'
                 '<rect id="hfi" width="20" height="20" visibility="%s" fill="url(#hrg)"/>' % v,
            '<rect x="5" y="5" width="40" height="40" fill="green" filter="url(#hf)"/>')
        # a hidden path carrying markers is not split into marker instances; its own paints stay
        doc(lg + '<marker id="hmk2" markerWidth="6" markerHeight="6"><circle cx="3" cy="3" r="2" fill="url(#hlg)"/></marker>' + rg,
            '<path d="M 10 10 L 40 10 L 40 40" visibility="%s" fill="none" stroke="url(#hrg)" marker-start="url(#hmk2)"/>' % v)
        # text: hidden as a whole, and with one hidden span (flattened text keeps the span's visibility on its paths)
        doc(lg, '<text x="5" y="40" font-size="30" visibility="%s" fill="url(#hlg)">Ab</text>' % v)
        doc(lg + rg, '<text x="5" y="40" font-size="30" fill="black">A<tspan visibility="%s" fill="url(#hlg)" stroke="url(#hrg)">b</tspan>c</text>' % v)
        doc(pt, '<text x="5" y="40" font-size="30" fill="black" visibility="%s">A<tspan visibility="visible">b</tspan>'
                '<tspan fill="url(#hpt)" text-decoration="underline">c</tspan></text>' % v)
    # an objectBoundingBox gradient shared by a hidden and a visible element with different boxes, and by two hidden ones
    obb = '<linearGradient id="hob"><stop offset="0" stop-color="white"/><stop offset="1" stop-color="red"/></linearGradient>'
    doc(obb, '<rect x="5" y="5" width="40" height="20" visibility="hidden" fill="url(#hob)"/><rect x="5" y="50" width="20" height="40" fill="url(#hob)"/>')
    doc(obb, '<rect x="5" y="5" width="40" height="20" visibility="hidden" fill="url(#hob)"/><rect x="5" y="50" width="20" height="40" visibility="collapse" stroke="url(#hob)"/>')
    return out


def nested_docs():
    """a nested SVG image is converted with its own id generator: the outer and the inner tree both get `filter1` / `clipPath1` /
    `mask1` (or both author the same id); the outer collections must hold both objects (identity, not id)"""
    out = []
    for outer_f, inner_f, defs in [
        ('filter="blur(1)"', 'filter="blur(2)"', ''),
        ('filter="drop-shadow(2 2 1 red)"', 'filter="sepia(0.5)"', ''),
        ('filter="url(#same)"', 'filter="url(#same)"', '<filter id="same" filterUnits="userSpaceOnUse" x="0" y="0" width="90" height="90"><feOffset dx="%d"/></filter>'),
    ]:
        inner = ('<svg xmlns="http://www.w3.org/2000/svg" width="40" height="40">%s<rect width="30" height="30" fill="blue" %s/></svg>'
                 % (defs % 3 if defs else '', inner_f))
        img = '<image id="nim" x="50" y="50" width="40" height="40" xlink:href="data:image/svg+xml;base64,%s"/>' % base64.b64encode(inner.encode()).decode()
        for order in (0, 1):
            body = ['<rect id="nr" x="5" y="5" width="40" height="40" fill="green" %s/>' % outer_f, img]
            out.append('<svg %s width="100" height="100">%s%s</svg>' % (NS, defs % 1 if defs else '', ''.join(body[::-1] if order else body)))
    return out


def clip_nested_docs():
    """clipPath children that become groups in usvg (a transform on a text / use, a child with its own clip-path, both): the writer
    recurses into them (write_clip_path_children) and skips a group only when both levels carry a clip-path"""
    inner = '<clipPath id="cin"><rect x="10" y="10" width="60" height="60"/></clipPath><clipPath id="cin2"><circle cx="40" cy="40" r="35"/></clipPath>'
    shape = '<rect id="shc" x="15" y="15" width="50" height="50" clip-path="url(#cin2)"/><rect id="sh" x="5" y="5" width="30" height="30"/><g id="shg" transform="translate(5 5)"><rect width="20" height="20"/><circle cx="30" cy="30" r="8" clip-path="url(#cin2)"/></g>'
    kids = [
        '<text x="10" y="50" font-size="40" transform="translate(3 4)">AB</text>',
        '<text x="10" y="50" font-size="40" transform="rotate(10)" clip-path="url(#cin)">A<tspan fill="red">B</tspan></text>',
        '<use xlink:href="#sh" transform="translate(20 20)"/><use xlink:href="#sh" x="30" clip-path="url(#cin)"/>',
        '<rect x="5" y="5" width="50" height="50" clip-path="url(#cin)"/><circle cx="60" cy="60" r="30" transform="scale(0.9)"/>',
        '<use xlink:href="#sh" clip-path="url(#cin)" transform="translate(10 0)"/><text x="5" y="80" font-size="30">C</text>',
        '<use xlink:href="#shg" x="10"/>',
        '<use xlink:href="#shg" x="10" clip-path="url(#cin)"/>',
        # a group WITHOUT a clip-path (the use's transform) around a group WITH one (the referenced shape's own clip-path): entered
        '<use xlink:href="#shc" transform="translate(2 2)"/>',
        '<use xlink:href="#shc" transform="translate(2 2)"/><use xlink:href="#sh" x="40"/>',
        # both levels clipped (`<use clip-path>` of a shape with its own clip-path): write_clip_path_children skips the inner group, the shape
        # is NOT written and the re-parsed tree is smaller: known class clip-child-double-clip (C07 / C08), corpus/witness/C07-clip-child-double-clip.svg
        '<use xlink:href="#shc" transform="translate(2 2)" clip-path="url(#cin)"/><rect x="50" y="50" width="20" height="20"/>',
    ]
    out = []
    for k in kids:
        for outer in ('', ' clip-path="url(#cin2)"'):
            out.append('<svg %s width="100" height="100"><defs>%s%s<clipPath id="cnest"%s>%s</clipPath></defs>'
                       '<rect width="100" height="100" fill="green" clip-path="url(#cnest)"/></svg>' % (NS, inner, shape, outer, k))
    return out
