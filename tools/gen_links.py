"""T1 plug-in: Gen/LinkGuards.v - the loop guards of usvg's reference handling, read from the source.

For every place where the parser follows a reference (use expansion, xlink:href chains, the svgtree
pre-pass `fix_recursive_*`, and the converter's clipPath / mask / filter / pattern / marker recursion)
the guard that stops a cycle is looked up syntactically in the function that is supposed to contain it.
Each guard becomes a boolean in Gen/LinkGuards.v; the models in Model/SvgBuild.v and Model/Links.v apply
a guard only `if G_... then`, and the termination / neutralisation theorems are stated over these
generated booleans.  A guard that disappears (or is moved behind the recursive call, or a recursive call
that no longer receives the state with the element pushed) turns its boolean into `false`: the model then
recurses like the edited code and the proof obligation fails; the tie is reported broken as well.
"""
import re

PROPS = ['C03', 'C01']

CLIP = 'crates/usvg/src/parser/clippath.rs'
MASK = 'crates/usvg/src/parser/mask.rs'
FILT = 'crates/usvg/src/parser/filter.rs'
PAINT = 'crates/usvg/src/parser/paint_server.rs'
MARK = 'crates/usvg/src/parser/marker.rs'
TREE = 'crates/usvg/src/parser/svgtree/mod.rs'
PARSE = 'crates/usvg/src/parser/svgtree/parse.rs'
TEXT = 'crates/usvg/src/parser/svgtree/text.rs'


def strip_comments(src):
    src = re.sub(r"/\*.*?\*/", "", src, flags=re.S)
    return re.sub(r"//[^\n]*", "", src)


def fn_body(src, name, after=None):
    """Text between the braces of `fn name`."""
    start = 0
    if after:
        m = re.search(after, src)
        if not m:
            return None
        start = m.end()
    m = re.search(r"\bfn\s+%s\b" % re.escape(name), src[start:])
    if not m:
        return None
    i = src.index('{', start + m.end())
    j = close_brace(src, i)
    return src[i + 1:j] if j is not None else None


def squash(t):
    return re.sub(r"\s+", "", t)


def close_brace(src, i):
    """Index of the brace closing the one at src[i]; string and char literals are skipped."""
    depth = 0
    j = i
    n = len(src)
    while j < n:
        ch = src[j]
        if ch == '"':
            j += 1
            while j < n and src[j] != '"':
                j += 2 if src[j] == '\\' else 1
        elif ch == "'" and j + 2 < n and (src[j + 2] == "'" or (src[j + 1] == '\\' and j + 3 < n and src[j + 3] == "'")):
            j += 3 if src[j + 2] == "'" else 4
            continue
        elif ch == '{':
            depth += 1
        elif ch == '}':
            depth -= 1
            if depth == 0:
                return j
        j += 1
    return None


def if_blocks(body, cond_pat):
    """All `if <cond> { block }` with cond matching cond_pat (no braces in cond) -> list of (cond, block, start, end)."""
    out = []
    for m in re.finditer(r"\bif\s+([^{};]*?)\{", body, re.S):
        cond = re.sub(r"\s+", "", m.group(1))
        if not re.search(cond_pat, cond):
            continue
        i = m.end() - 1
        j = close_brace(body, i)
        if j is None:
            continue
        out.append((cond, body[i + 1:j], m.start(), j + 1))
    return out


def ws(p):
    """Regex from a code fragment: any whitespace run matches \\s*, everything else is literal."""
    parts = re.split(r"\s+", p.strip())
    return r"\s*".join(re.escape(x) for x in parts)


def first(pat, body):
    m = re.search(pat, body, re.S)
    return m.start() if m else None


def stack_guard(body, stack, var, ret_pat, push_var, push_node, rebind, calls):
    """-> (check_ok, push_ok).
    check_ok: `if state.<stack>.contains(&<var>) { ... <ret> }` precedes every conversion call.
    push_ok : `<push_var>.<stack>.push(<push_node>)` (+ `let state = &<push_var>;` when `rebind`) precedes
              every conversion call, and each call in `calls` given with an explicit state passes the pushed one."""
    call_pos = [p for p in (first(c, body) for c, _ in calls) if p is not None]
    if not call_pos:
        return False, False
    firstcall = min(call_pos)
    blocks = if_blocks(body, r"^state\.%s\.contains\(&%s\)$" % (stack, var))
    check_ok = bool(blocks) and blocks[0][2] < firstcall and bool(re.search(ret_pat + r"\s*$", blocks[0][1].strip(), re.S))
    if check_ok:
        # the test is a statement of the function body itself (not nested in another branch, not the `else` of
        # something) and nothing consults the cache of converted definitions before it
        pos = blocks[0][2]
        depth = 0
        i = 0
        while i < pos:
            ch = body[i]
            if ch == '"':
                i += 1
                while i < pos and body[i] != '"':
                    i += 2 if body[i] == '\\' else 1
            elif ch == '{':
                depth += 1
            elif ch == '}':
                depth -= 1
            i += 1
        cpos = first(r"\bcache\s*\.", body)
        if depth != 0 or re.search(r"else\s*$", body[:pos]) or (cpos is not None and cpos < pos):
            check_ok = False
    push_pat = r"let\s+mut\s+%s\s*=\s*state\s*\.\s*clone\s*\(\s*\)\s*;\s*%s\s*\.\s*%s\s*\.\s*push\s*\(\s*%s\s*\)\s*;" % (
        push_var, push_var, stack, push_node)
    if rebind:
        push_pat += r"\s*let\s+state\s*=\s*&\s*%s\s*;" % push_var
    pm = re.search(push_pat, body, re.S)
    push_ok = bool(pm) and pm.end() <= firstcall
    if push_ok and rebind:
        # no later re-binding of `state`
        if re.search(r"\blet\s+(mut\s+)?state\b", body[pm.end():]):
            push_ok = False
    if push_ok:
        for c, must in calls:
            if must is None:
                continue
            for m in re.finditer(c, body, re.S):
                if not re.match(must, body[m.end():], re.S):
                    push_ok = False
    return check_ok, push_ok


def generate(api):
    G = {}          # name -> bool
    notes = {}
    miss = []

    def rd(rel):
        try:
            return strip_comments(api.rd(rel))
        except OSError as e:
            miss.append("%s: %s" % (rel, e))
            return ''

    def setg(name, val, why):
        G[name] = bool(val)
        notes[name] = why
        if not val:
            miss.append("%s (%s)" % (name, why))

    # ---------------------------------------------------------------- converter stacks
    b = fn_body(rd(CLIP), 'convert') or ''
    chk, push = stack_guard(
        b, 'parent_defs', 'node', r"return\s+None\s*;", 'clip_state', 'node', False,
        [(r"\bconvert\s*\(\s*link\s*,", r"\s*&\s*clip_state\s*,"),
         (r"convert_clip_path_elements\s*\(\s*node\s*,", r"\s*&\s*clip_state\s*,")])
    setg('G_CLIP_CHECK', chk, "clippath::convert tests state.parent_defs.contains(&node) before converting anything")
    setg('G_CLIP_PUSH', push, "clippath::convert passes the state with `node` pushed to the linked clipPath and to its children")

    b = fn_body(rd(MASK), 'convert') or ''
    chk, push = stack_guard(
        b, 'parent_defs', 'node', r"return\s+None\s*;", 'mask_state', 'node', True,
        [(r"\bconvert\s*\(\s*link\s*,", r"\s*state\s*,"), (r"convert_children\s*\(\s*node\s*,", r"\s*state\s*,")])
    setg('G_MASK_CHECK', chk, "mask::convert tests state.parent_defs.contains(&node) first")
    setg('G_MASK_PUSH', push, "mask::convert continues with the state that has `node` pushed")

    b = fn_body(rd(FILT), 'convert_url') or ''
    chk, push = stack_guard(
        b, 'parent_defs', 'node', r"return\s+Err\s*\(\s*\(\s*\)\s*\)\s*;", 'filter_state', 'node', True,
        [(r"\bcollect_children\s*\(", None)])
    setg('G_FILTER_CHECK', chk, "filter::convert_url tests state.parent_defs.contains(&node) first")
    setg('G_FILTER_PUSH', push, "filter::convert_url continues with the state that has `node` pushed")

    b = fn_body(rd(PAINT), 'convert_pattern') or ''
    chk, push = stack_guard(
        b, 'parent_defs', 'node', r"return\s+None\s*;", 'pattern_state', 'node', True,
        [(r"convert_children\s*\(\s*node_with_children\s*,", r"\s*state\s*,")])
    setg('G_PATTERN_CHECK', chk, "paint_server::convert_pattern tests state.parent_defs.contains(&node) first")
    setg('G_PATTERN_PUSH', push, "paint_server::convert_pattern continues with the state that has `node` pushed")

    msrc = rd(MARK)
    b = fn_body(msrc, 'convert') or ''
    blocks = if_blocks(b, r"^state\.parent_markers\.contains\(&marker\)$")
    r = first(r"\bresolve\s*\(", b)
    setg('G_MARKER_CHECK', bool(blocks) and r is not None and blocks[0][3] <= r and squash(blocks[0][1]).endswith('continue;'),
         "marker::convert skips a marker that is in state.parent_markers before resolving it")
    b = fn_body(msrc, 'resolve') or ''
    m = re.search(r"let\s+mut\s+marker_state\s*=\s*state\s*\.\s*clone\s*\(\s*\)\s*;\s*marker_state\s*\.\s*parent_markers\s*\.\s*push\s*"
                  r"\(\s*marker_node\s*\)\s*;\s*converter\s*::\s*convert_children\s*\(\s*marker_node\s*,\s*&\s*marker_state\s*,", b, re.S)
    n_calls = len(re.findall(r"convert_children\s*\(", b))
    setg('G_MARKER_PUSH', bool(m) and n_calls == 1, "marker::resolve converts the marker content with the marker pushed on parent_markers")

    # ---------------------------------------------------------------- the in-progress lists start empty at the two roots only
    import glob as _glob
    import os as _os
    import translate as _tr
    n_defs = n_marks = n_reset = n_lit = 0
    base = _os.path.join(_tr.REPO, 'crates/usvg/src/parser')
    for path in sorted(_glob.glob(_os.path.join(base, '**', '*.rs'), recursive=True)):
        try:
            src = strip_comments(open(path, encoding='utf-8').read())
        except OSError:
            continue
        n_defs += len(re.findall(r"\bparent_defs\s*:\s*(?!self\b)(?!state\b)[^,}]*?(?:Vec\s*::\s*new|vec\s*!|Default)", src))
        n_marks += len(re.findall(r"\bparent_markers\s*:\s*(?!self\b)(?!state\b)[^,}]*?(?:Vec\s*::\s*new|vec\s*!|Default)", src))
        n_reset += len(re.findall(r"\.\s*parent_(?:defs|markers)\s*(?:=[^=]|\.\s*(?:clear|pop|truncate|drain|retain|remove|swap_remove)\s*\()", src))
        n_lit += len(re.findall(r"(?<![A-Za-z0-9_:])State\s*\{", src)) - len(re.findall(r"\bstruct\s+State\s*\{|\bimpl\s+State\s*\{", src))
    setg('G_STATE_ROOTS', n_defs == 2 and n_marks == 2 and n_lit == 2 and n_reset == 0,
         "State literals exist only in convert_doc / resolve_svg_size (empty in-progress lists), and no code resets parent_defs / parent_markers "
         "(found %d + %d empty initialisations, %d State literals, %d resets)" % (n_defs, n_marks, n_lit, n_reset))

    # ---------------------------------------------------------------- HrefIter
    b = fn_body(rd(TREE), 'next', after=r"impl\s*<[^>]*>\s*Iterator\s+for\s+HrefIter") or ''
    blocks = if_blocks(b, r"link\.id\(\)==|self\.steps>")
    terms = blocks[0][0].split('||') if blocks else []
    stop = bool(blocks) and squash(blocks[0][1]).endswith('self.is_finished=true;returnNone;') \
        and bool(re.search(r"self\s*\.\s*steps\s*\+=\s*1\s*;\s*$", b[:blocks[0][2]]))
    tail = "" if stop else " (the guarded branch no longer ends the iteration, or the step counter is not advanced before the test)"
    setg('G_HREF_SELF', stop and 'link.id()==self.curr' in terms, "HrefIter stops at a link to the current element" + tail)
    setg('G_HREF_ORIGIN', stop and 'link.id()==self.origin' in terms, "HrefIter stops at a link to the first element" + tail)
    setg('G_HREF_STEPS', stop and 'self.steps>self.doc.nodes.len()' in terms, "HrefIter stops after nodes.len() steps" + tail)

    # ---------------------------------------------------------------- use expansion
    psrc = rd(PARSE)
    b = fn_body(psrc, 'parse_svg_use_element') or ''
    rec = first(r"\bparse_xml_node\s*\(", b)
    b1 = if_blocks(b, r"(^|\|\|)link==")
    c1 = b1[0][0].split('||') if b1 else []
    ok1 = bool(b1) and rec is not None and b1[0][3] <= rec and squash(b1[0][1]).endswith('returnOk(());')
    setg('G_USE_SELF', ok1 and 'link==node' in c1, "a `use` that links itself is not expanded")
    setg('G_USE_ORIGIN', ok1 and 'origin.contains(&link.id())' in c1,
         "a `use` that links an element on the in-progress list (`origin`) is not expanded")
    # the in-progress list: ancestors of the use and the link are pushed before the recursive call and popped after it
    mpush = re.search(r"let\s+origin_len\s*=\s*origin\s*\.\s*len\s*\(\s*\)\s*;\s*origin\s*\.\s*extend\s*\(\s*node\s*\.\s*ancestors\s*\(\s*\)\s*\.\s*map\s*\(\s*\|\s*n\s*\|\s*n\s*\.\s*id\s*\(\s*\)\s*\)\s*\)\s*;\s*"
                      r"origin\s*\.\s*push\s*\(\s*link\s*\.\s*id\s*\(\s*\)\s*\)\s*;\s*let\s+result\s*=\s*parse_xml_node\s*\(\s*link\s*,\s*origin\s*,", b)
    mpop = re.search(r"origin\s*\.\s*truncate\s*\(\s*origin_len\s*\)\s*;\s*result\s*$", b.strip())
    n_rec = len(re.findall(r"\bparse_xml_node\s*\(", b))
    setg('G_USE_PUSH', bool(mpush) and bool(mpop) and n_rec == 1 and not re.search(r"origin\s*\.\s*(clear|pop|remove|retain)", b),
         "the ancestors of the `use` and its target are on the in-progress list while the target is expanded")
    empty0 = bool(re.search(r"parse_xml_node_children\s*\(\s*xml\s*\.\s*root\s*\(\s*\)\s*,\s*&\s*mut\s+Vec\s*::\s*new\s*\(\s*\)\s*,", fn_body(psrc, 'parse') or ''))
    if not empty0:
        miss.append("parse() no longer starts with an empty in-progress list")
    b2 = if_blocks(b, r"(^|\|\|)link2==")
    c2 = b2[0][0].split('||') if b2 else []
    b3 = if_blocks(b, r"^is_recursive$")
    scan = re.search(r"\.\s*descendants\s*\(\s*\)\s*\.\s*skip\s*\(\s*1\s*\)\s*\.\s*filter\s*\(\s*\|\s*n\s*\|\s*n\s*\.\s*has_tag_name\s*\(\s*\(\s*SVG_NS\s*,\s*\"use\"\s*\)\s*\)\s*\)", b)
    okscan = (bool(b2) and bool(b3) and bool(scan) and rec is not None and b2[0][3] <= rec and b3[0][3] <= rec
              and squash(b2[0][1]).startswith('is_recursive=true;') and squash(b3[0][1]).endswith('returnOk(());')
              and bool(re.search(r"let\s+Some\s*\(\s*link2\s*\)\s*=\s*resolve_href\s*\(\s*link_child\s*,\s*id_map\s*\)", b)))
    setg('G_USE_SCAN_NODE', okscan and 'link2==node' in c2, "a `use` is not expanded when a `use` below its target links back to it")
    setg('G_USE_SCAN_LINK', okscan and 'link2==link' in c2, "a `use` is not expanded when a `use` below its target links the target")
    before = (lambda m: bool(m) and rec is not None and m.start() < rec)
    mt = re.search(r"if\s+parse_tag_name\s*\(\s*link\s*\)\s*\.\s*is_none\s*\(\s*\)\s*\{\s*return\s+Ok", b)
    setg('G_USE_SVG_ONLY', before(mt), "a `use` that links a non-SVG element is not expanded")
    # depth increments
    step_use = None
    mcall = re.search(r"parse_svg_use_element\s*\(\s*node\s*,\s*origin\s*,\s*node_id\s*,\s*style_sheet\s*,\s*depth\s*\+\s*(\d+)\s*,",
                      fn_body(psrc, 'parse_xml_node') or '')
    mrec = re.search(r"parse_xml_node\s*\(\s*link\s*,\s*origin\s*,\s*parent_id\s*,\s*style_sheet\s*,\s*true\s*,\s*depth\s*\+\s*(\d+)\s*,", b)
    if mcall and mrec:
        step_use = int(mcall.group(1)) + int(mrec.group(1))
    mkid = re.search(r"parse_xml_node_children\s*\(\s*node\s*,\s*origin\s*,\s*node_id\s*,\s*style_sheet\s*,\s*ignore_ids\s*,\s*depth\s*\+\s*(\d+)\s*,",
                     fn_body(psrc, 'parse_xml_node') or '')
    step_kid = int(mkid.group(1)) if mkid else None
    kids_same_depth = bool(re.search(r"parse_xml_node\s*\(\s*node\s*,\s*origin\s*,\s*parent_id\s*,\s*style_sheet\s*,\s*ignore_ids\s*,\s*depth\s*,",
                                     fn_body(psrc, 'parse_xml_node_children') or ''))
    if step_use is None:
        miss.append("depth increment of the use expansion not recognised")
        step_use = 0
    if step_kid is None or not kids_same_depth:
        miss.append("depth increment of parse_xml_node_children not recognised")
        step_kid = 0
    # the depth test must come before anything else in parse_xml_node, the node test before the append
    pb = fn_body(psrc, 'parse_xml_node') or ''
    setg('G_DEPTH_FIRST', bool(re.match(r"\s*if\s+depth\s*>\s*[\d_]+\s*\{\s*return\s+Err\s*\(\s*Error\s*::\s*NodesLimitReached\s*\)\s*;\s*\}", pb)),
         "parse_xml_node tests the depth limit before doing anything else")
    eb = fn_body(psrc, 'parse_svg_element') or ''
    mlim = re.search(r"if\s+doc\s*\.\s*nodes\s*\.\s*len\s*\(\s*\)\s*>\s*[\d_]+\s*\{\s*return\s+Err\s*\(\s*Error\s*::\s*NodesLimitReached\s*\)\s*;\s*\}", eb)
    mapp = first(r"doc\s*\.\s*append\s*\(", eb)
    setg('G_NODES_BEFORE_APPEND', bool(mlim) and mapp is not None and mlim.end() <= mapp and len(re.findall(r"doc\s*\.\s*append\s*\(", eb)) == 1,
         "parse_svg_element tests the node limit before its only append")

    # ---------------------------------------------------------------- depth limit inside `text`
    tsrc = rd(TEXT)
    tb = fn_body(tsrc, 'parse_svg_text_element_impl') or ''
    mlim = re.match(r"\s*if\s+depth\s*>\s*([\d_]+)\s*\{\s*return\s+Err\s*\(\s*Error\s*::\s*NodesLimitReached\s*\)\s*;\s*\}", tb)
    mmain = re.match(r"\s*if\s+depth\s*>\s*([\d_]+)\s*\{", pb)
    same = bool(mlim) and bool(mmain) and mlim.group(1).replace('_', '') == mmain.group(1).replace('_', '')
    setg('G_TEXT_DEPTH', same, "parse_svg_text_element_impl tests the same depth limit as parse_xml_node before doing anything else")
    t_entry = re.search(r"parse_svg_text_element\s*\(\s*node\s*,\s*node_id\s*,\s*style_sheet\s*,\s*depth\s*,\s*doc\s*\)", pb)
    t_first = re.search(r"parse_svg_text_element_impl\s*\(\s*parent\s*,\s*parent_id\s*,\s*style_sheet\s*,\s*space\s*,\s*depth\s*\+\s*(\d+)\s*,\s*doc\s*\)",
                        fn_body(tsrc, 'parse_svg_text_element') or '')
    t_rec = re.findall(r"parse_svg_text_element_impl\s*\(\s*node\s*,\s*node_id\s*,\s*style_sheet\s*,\s*space\s*,\s*depth\s*\+\s*(\d+)\s*,\s*doc\s*\)", tb)
    n_rec_calls = len(re.findall(r"parse_svg_text_element_impl\s*\(", tb))
    step_text = None
    if t_entry and t_first and len(t_rec) == 1 and n_rec_calls == 1 and t_first.group(1) == t_rec[0]:
        step_text = int(t_rec[0])
    if step_text is None:
        miss.append("depth increment of parse_svg_text_element_impl not recognised")
        step_text = 0

    # ---------------------------------------------------------------- pre-pass
    pbody = fn_body(psrc, 'parse') or ''
    steps = []
    for m in re.finditer(r"\b(fix_recursive_\w+)\s*\(([^;]*?)\)\s*;", pbody):
        fn, args = m.group(1), re.sub(r"\s+", "", m.group(2))
        if fn == 'fix_recursive_patterns' and args == '&mutdoc':
            steps.append('PPatterns')
        elif fn == 'fix_recursive_links' and args == 'EId::ClipPath,AId::ClipPath,&mutdoc':
            steps.append('PLinkClip')
        elif fn == 'fix_recursive_links' and args == 'EId::Mask,AId::Mask,&mutdoc':
            steps.append('PLinkMask')
        elif fn == 'fix_recursive_links' and args == 'EId::Filter,AId::Filter,&mutdoc':
            steps.append('PLinkFilter')
        elif fn == 'fix_recursive_fe_image' and args == '&mutdoc':
            steps.append('PFeImage')
        else:
            steps.append('PUnknown')
            miss.append("unrecognised pre-pass call %s(%s)" % (fn, args))
    if not steps:
        miss.append("no fix_recursive_* call found in parse()")
    fb = fn_body(psrc, 'fix_recursive_patterns') or ''
    pl = re.findall(r"while\s+let\s+Some\s*\(\s*node_id\s*\)\s*=\s*find_recursive_pattern\s*\(\s*AId\s*::\s*(\w+)\s*,\s*doc\s*\)\s*\{\s*"
                    r"let\s+idx\s*=\s*doc\s*\.\s*get\s*\(\s*node_id\s*\)\s*\.\s*attribute_id\s*\(\s*AId\s*::\s*(\w+)\s*\)\s*\.\s*unwrap\s*\(\s*\)\s*;\s*"
                    r"doc\s*\.\s*attrs\s*\[\s*idx\s*\]\s*\.\s*value\s*=\s*roxmltree\s*::\s*StringStorage\s*::\s*Borrowed\s*\(\s*\"none\"\s*\)\s*;\s*\}", fb)
    setg('G_PRE_PAT_LOOPS', pl == [('Fill', 'Fill'), ('Stroke', 'Stroke')], "fix_recursive_patterns runs the fill loop and then the stroke loop")
    fb = fn_body(psrc, 'fix_recursive_links') or ''
    setg('G_PRE_LINK_LOOP', bool(re.search(
        r"while\s+let\s+Some\s*\(\s*node_id\s*\)\s*=\s*find_recursive_link\s*\(\s*eid\s*,\s*aid\s*,\s*doc\s*\)\s*\{\s*"
        r"let\s+idx\s*=\s*doc\s*\.\s*get\s*\(\s*node_id\s*\)\s*\.\s*attribute_id\s*\(\s*aid\s*\)\s*\.\s*unwrap\s*\(\s*\)\s*;\s*"
        r"doc\s*\.\s*attrs\s*\[\s*idx\s*\]\s*\.\s*value\s*=\s*roxmltree\s*::\s*StringStorage\s*::\s*Borrowed\s*\(\s*\"none\"\s*\)\s*;\s*\}", fb)),
        "fix_recursive_links replaces the attribute found by find_recursive_link with `none` until nothing is found")
    fb = fn_body(psrc, 'find_recursive_link') or ''
    setg('G_PRE_LINK_SELF', bool(re.search(r"if\s+link\s*==\s*node\s*\{\s*return\s+Some\s*\(\s*child\s*\.\s*id\s*\)\s*;", fb)),
         "find_recursive_link reports a descendant that links the element itself")
    setg('G_PRE_LINK_TWO', bool(re.search(r"for\s+node2\s+in\s+link\s*\.\s*descendants\s*\(\s*\)\s*\{\s*if\s+let\s+Some\s*\(\s*link2\s*\)\s*=\s*node2\s*\.\s*node_attribute\s*\(\s*aid\s*\)\s*\{\s*"
                                          r"if\s+link2\s*==\s*node\s*\{\s*return\s+Some\s*\(\s*node2\s*\.\s*id\s*\)\s*;", fb)),
         "find_recursive_link reports a descendant of the linked element that links back")
    fb = fn_body(psrc, 'find_recursive_pattern') or ''
    setg('G_PRE_PAT_SELF', bool(re.search(r"if\s+link_id\s*==\s*pattern_node\s*\.\s*element_id\s*\(\s*\)\s*\{\s*return\s+Some\s*\(\s*node\s*\.\s*id\s*\)\s*;", fb)),
         "find_recursive_pattern reports pattern content painted with the pattern itself")
    setg('G_PRE_PAT_TWO', bool(re.search(r"if\s+link_id2\s*==\s*pattern_node\s*\.\s*element_id\s*\(\s*\)\s*\{\s*return\s+Some\s*\(\s*node2\s*\.\s*id\s*\)\s*;", fb))
         and bool(re.search(r"doc\s*\.\s*element_by_id\s*\(\s*link_id\s*\)", fb)),
         "find_recursive_pattern reports content of the linked element painted with the pattern")
    fb = fn_body(psrc, 'fix_recursive_fe_image') or ''
    setg('G_PRE_FEIMAGE', bool(re.search(r"if\s+url\s*==\s*filter_id\s*\{\s*ids\s*\.\s*push\s*\(\s*link\s*\.\s*id\s*\)\s*;", fb))
         and bool(re.search(r"for\s+id\s+in\s+ids\s*\{\s*let\s+idx\s*=\s*doc\s*\.\s*get\s*\(\s*id\s*\)\s*\.\s*attribute_id\s*\(\s*AId\s*::\s*Filter\s*\)\s*\.\s*unwrap\s*\(\s*\)\s*;\s*"
                            r"doc\s*\.\s*attrs\s*\[\s*idx\s*\]\s*\.\s*value\s*=\s*roxmltree\s*::\s*StringStorage\s*::\s*Borrowed\s*\(\s*\"none\"\s*\)\s*;", fb)),
         "fix_recursive_fe_image removes the filter of an feImage target that uses the filter the feImage is in")

    # ---------------------------------------------------------------- pre-pass: what the scans range over (frame clause)
    miss3 = []          # ties that concern C03 only

    def setg3(name, val, why):
        G[name] = bool(val)
        notes[name] = why
        if not val:
            miss3.append("%s (%s)" % (name, why))
    fb = fn_body(psrc, 'find_recursive_link') or ''
    setg3('G_PRE_LINK_SCOPE',
         bool(re.search(r"for\s+node\s+in\s+doc\s*\.\s*root\s*\(\s*\)\s*\.\s*descendants\s*\(\s*\)\s*\.\s*filter\s*\(\s*\|\s*n\s*\|\s*n\s*\.\s*tag_name\s*\(\s*\)\s*==\s*Some\s*\(\s*eid\s*\)\s*\)\s*"
                        r"\{\s*for\s+child\s+in\s+node\s*\.\s*descendants\s*\(\s*\)\s*\{\s*if\s+let\s+Some\s*\(\s*link\s*\)\s*=\s*child\s*\.\s*node_attribute\s*\(\s*aid\s*\)\s*\{", fb))
         and len(re.findall(r"\breturn\s+Some\b", fb)) == 2,
         "find_recursive_link looks only at elements named `eid` and, first, only at references held by their own descendants")
    fb = fn_body(psrc, 'find_recursive_pattern') or ''
    setg3('G_PRE_PAT_SCOPE',
         bool(re.search(r"for\s+pattern_node\s+in\s+doc\s*\.\s*root\s*\(\s*\)\s*\.\s*descendants\s*\(\s*\)\s*\.\s*filter\s*\(\s*\|\s*n\s*\|\s*n\s*\.\s*tag_name\s*\(\s*\)\s*==\s*Some\s*\(\s*EId\s*::\s*Pattern\s*\)\s*\)\s*"
                        r"\{\s*for\s+node\s+in\s+pattern_node\s*\.\s*descendants\s*\(\s*\)\s*\{\s*let\s+value\s*=\s*match\s+node\s*\.\s*attribute\s*\(\s*aid\s*\)", fb))
         and bool(re.search(r"for\s+node2\s+in\s+linked_node\s*\.\s*descendants\s*\(\s*\)\s*\{\s*let\s+value2\s*=\s*match\s+node2\s*\.\s*attribute\s*\(\s*aid\s*\)", fb))
         and len(re.findall(r"\breturn\s+Some\b", fb)) == 2,
         "find_recursive_pattern looks only at pattern elements and, first, only at paints of their own descendants")

    # ---------------------------------------------------------------- list-valued filter attributes (second pass)
    tsrc2 = rd(TREE)
    nb = fn_body(tsrc2, 'node_attribute') or ''
    fv = re.search(r"impl\s*<[^>]*>\s*FromValue\s*<[^>]*>\s*for\s+SvgNode\s*<[^>]*>\s*\{", tsrc2)
    fvb = ''
    if fv:
        j = close_brace(tsrc2, fv.end() - 1)
        fvb = tsrc2[fv.end():j] if j is not None else ''
    pat_iri = (r"let\s+id\s*=\s*if\s+aid\s*==\s*AId\s*::\s*Href\s*\{\s*svgtypes\s*::\s*IRI\s*::\s*from_str\s*\(\s*value\s*\)\s*\.\s*ok\s*\(\s*\)\s*\.\s*map\s*\(\s*\|\s*v\s*\|\s*v\s*\.\s*0\s*\)\s*\}"
               r"\s*else\s*\{\s*svgtypes\s*::\s*FuncIRI\s*::\s*from_str\s*\(\s*value\s*\)\s*\.\s*ok\s*\(\s*\)\s*\.\s*map\s*\(\s*\|\s*v\s*\|\s*v\s*\.\s*0\s*\)\s*\}\s*\?\s*;")
    setg3('G_NODEATTR_FUNCIRI', bool(re.search(pat_iri, nb)) and bool(re.search(pat_iri, fvb)),
          "node_attribute / attribute::<SvgNode> resolve a single (Func)IRI only: a list-valued filter attribute is no link for them")
    fsrc = rd(FILT)
    cb = fn_body(fsrc, 'convert') or ''
    m_url = re.search(r"svgtypes\s*::\s*FilterValue\s*::\s*Url\s*\(\s*url\s*\)\s*=>\s*\{", cb)
    ub = ''
    if m_url:
        j = close_brace(cb, m_url.end() - 1)
        ub = squash(cb[m_url.end():j]) if j is not None else ''
    via = (ub == "ifletSome(link)=node.document().element_by_id(url){ifletOk(res)=convert_url(link,state,object_bbox,cache){ifletSome(f)=res{filters.push(f);}}"
                 "else{has_invalid_urls=true;}}else{has_invalid_urls=true;}"
           and len(re.findall(r"\bconvert_url\s*\(", cb)) == 1 and not re.search(r"\bcollect_children\s*\(|\blet\s+(mut\s+)?state\b", cb)
           and bool(re.search(r"for\s+func\s+in\s+svgtypes\s*::\s*FilterValueListParser\s*::\s*from\s*\(\s*value\s*\)\s*\{", cb)))
    setg3('G_FLIST_VIA_URL', via, "filter::convert follows every url entry of the list through convert_url with the caller's state, and nothing else")
    setg3('G_FLIST_DROP_RULE', bool(re.search(r"if\s+filters\s*\.\s*is_empty\s*\(\s*\)\s*&&\s*has_invalid_urls\s*\{\s*return\s+Err\s*\(\s*\(\s*\)\s*\)\s*;\s*\}\s*Ok\s*\(\s*filters\s*\)\s*$", cb.strip())),
          "filter::convert fails (element dropped) exactly when no filter was produced and an url was invalid")

    # ---------------------------------------------------------------- chain walks of is_cacheable (second pass)
    for rel, aid, name in ((CLIP, 'ClipPath', 'G_CLIP_CHAIN_VISITED'), (MASK, 'Mask', 'G_MASK_CHAIN_VISITED')):
        cb2 = fn_body(rd(rel), 'is_cacheable') or ''
        okc = bool(re.search(r"let\s+mut\s+chain\s*=\s*vec\s*!\s*\[\s*node\s*\]\s*;\s*while\s+let\s+Some\s*\(\s*link\s*\)\s*=\s*chain\s*\.\s*last\s*\(\s*\)\s*\.\s*and_then\s*\(\s*\|\s*n\s*\|\s*"
                             r"n\s*\.\s*attribute\s*::\s*<\s*SvgNode\s*>\s*\(\s*AId\s*::\s*%s\s*\)\s*\)\s*\{\s*if\s+chain\s*\.\s*contains\s*\(\s*&\s*link\s*\)\s*\{\s*break\s*;\s*\}\s*"
                             r"chain\s*\.\s*push\s*\(\s*link\s*\)\s*;\s*\}" % aid, cb2)) \
            and len(re.findall(r"\b(while|loop|for)\b", cb2)) == 1
        setg3(name, okc, "%s is_cacheable follows the %s chain only through elements it has not visited yet" % (rel.rsplit('/', 1)[1], aid))

    # ---------------------------------------------------------------- every link-following construct of parser/** (second pass)
    SITE_PATS = (('NodeAttr', r"\.\s*node_attribute\s*\("), ('AttrNode', r"\.\s*(?:try_|find_)?attribute\s*::\s*<\s*SvgNode\s*>\s*\("),
                 ('HrefIter', r"\.\s*href_iter\s*\(\s*\)"), ('ById', r"\.\s*element_by_id\s*\("), ('UseHref', r"\bresolve_href\s*\("))
    sites = []
    for path in sorted(_glob.glob(_os.path.join(base, '**', '*.rs'), recursive=True)):
        try:
            src = strip_comments(open(path, encoding='utf-8').read())
        except OSError:
            continue
        relp = _os.path.relpath(path, base)
        fns = [(m.start(), m.group(1)) for m in re.finditer(r"\bfn\s+(\w+)", src)]
        cnt = {}
        for kind, pat in SITE_PATS:
            for m in re.finditer(pat, src):
                fn = '?'
                for pos, nm in fns:
                    if pos < m.start():
                        fn = nm
                if re.match(r"\s*fn\s", src[max(0, m.start() - 4):m.start() + 1]):
                    continue
                cnt[(fn, kind)] = cnt.get((fn, kind), 0) + 1
        for (fn, kind), c in sorted(cnt.items()):
            sites.append((relp, fn, kind, c))

    # ---------------------------------------------------------------- switch and textPath (final pass)
    swb = squash(fn_body(rd('crates/usvg/src/parser/switch.rs'), 'convert') or '')
    cvb = fn_body(rd('crates/usvg/src/parser/converter.rs'), 'convert_element') or ''
    setg3('G_SWITCH_AS_GROUP',
          swb.startswith("letchild=node.children().find(|n|is_condition_passed(*n,state.opt))?;"
                         "ifletSome(g)=converter::convert_group(node,state,false,cache,parent,&|cache,g|{converter::convert_element(child,state,cache,g);})"
                         "{parent.children.push(Node::Group(Box::new(g)));}")
          and bool(re.search(r"if\s+tag_name\s*==\s*EId\s*::\s*Switch\s*\{\s*super\s*::\s*switch\s*::\s*convert\s*\(\s*node\s*,\s*state\s*,\s*cache\s*,\s*parent\s*\)\s*;\s*return\s*;", cvb))
          and bool(re.search(r"!\s*tag_name\s*\.\s*is_graphic\s*\(\s*\)\s*&&\s*!\s*matches\s*!\s*\(\s*tag_name\s*,\s*EId\s*::\s*G\s*\|\s*EId\s*::\s*Switch\s*\|\s*EId\s*::\s*Svg\s*\)", cvb)),
          "switch::convert converts ONE child through convert_group / convert_element with the caller's state (a switch is a container "
          "like g / svg for the reference graph: element filter `G | Switch | Svg` of convert_element)")
    tfb = fn_body(rd('crates/usvg/src/parser/text.rs'), 'resolve_text_flow') or ''
    uses = re.findall(r"\blinked_node\b[^;]*;", tfb)
    shp = rd('crates/usvg/src/parser/shapes.rs')
    setg3('G_TEXTPATH_NO_FOLLOW',
          len(re.findall(r"\blinked_node\b", tfb)) == 4
          and bool(re.search(r"let\s+linked_node\s*=\s*node\s*\.\s*attribute\s*::\s*<\s*SvgNode\s*>\s*\(\s*AId\s*::\s*Href\s*\)\s*\?\s*;\s*let\s+path\s*=\s*super\s*::\s*shapes\s*::\s*convert\s*\(\s*linked_node\s*,\s*state\s*\)\s*\?\s*;", tfb))
          and bool(re.search(r"linked_node\s*\.\s*resolve_transform\s*\(", tfb)) and bool(re.search(r"linked_node\s*\.\s*element_id\s*\(", tfb))
          and not re.search(r"convert_(element|group|children|clip_path_elements)\s*\(", tfb)
          and not re.search(r"node_attribute\s*\(|attribute\s*::\s*<\s*SvgNode\s*>|href_iter\s*\(|element_by_id\s*\(|convert_(element|group|children)\s*\(", shp),
          "textPath: the referenced element is only handed to shapes::convert (geometry), resolve_transform and element_id; shapes.rs follows no reference")
    mkb = fn_body(msrc, 'resolve') or ''
    setg3('G_MARKER_LIMIT',
          bool(re.search(r"cache\s*\.\s*nested_marker_instances\s*\+=\s*1\s*;\s*if\s+cache\s*\.\s*nested_marker_instances\s*>\s*NESTED_MARKER_INSTANCES_LIMIT\s*\{[^{}]*return\s*;", mkb))
          and bool(re.search(r"const\s+NESTED_MARKER_INSTANCES_LIMIT\s*:\s*usize\s*=\s*[\d_]+\s*;", msrc))
          and len(re.findall(r"nested_marker_instances\s*(?:=[^=]|-=)", "".join(strip_comments(open(pp, encoding='utf-8').read()) for pp in sorted(_glob.glob(_os.path.join(base, '**', '*.rs'), recursive=True))))) == 0,
          "marker::resolve counts the marker instances created inside other markers in the Cache and returns once the limit is exceeded; the counter is never reset")

    # ---------------------------------------------------------------- nested documents (image / feImage -> load_sub_svg)
    IMG = 'crates/usvg/src/parser/image.rs'
    isrc = rd(IMG)
    sb = fn_body(isrc, 'load_sub_svg') or ''
    mo = re.search(r"let\s+sub_opt\s*=\s*Options\s*\{", sb)
    lit = ''
    if mo:
        j = close_brace(sb, mo.end() - 1)
        lit = sb[mo.end():j] if j is not None else ''
    mr = re.search(r"\bimage_href_resolver\s*:\s*ImageHrefResolver\s*\{", lit)
    rlit = ''
    if mr:
        j = close_brace(lit, mr.end() - 1)
        rlit = lit[mr.end():j] if j is not None else ''
    g_data = bool(re.search(r"\bresolve_data\s*:\s*Box\s*::\s*new\s*\(\s*\|\s*_\s*,\s*_\s*,\s*_\s*\|\s*None\s*\)", rlit))
    g_string = bool(re.search(r"\bresolve_string\s*:\s*Box\s*::\s*new\s*\(\s*\|\s*_\s*,\s*_\s*\|\s*None\s*\)", rlit))
    n_from = 0
    for path in sorted(_glob.glob(_os.path.join(base, '**', '*.rs'), recursive=True)):
        try:
            n_from += len(re.findall(r"\bTree\s*::\s*from_\w+\s*\(", strip_comments(open(path, encoding='utf-8').read())))
        except OSError:
            pass
    g_used = (bool(mo) and len(re.findall(r"\bTree\s*::\s*from_\w+\s*\(", sb)) == 1 and n_from == 1
              and bool(re.search(r"Tree\s*::\s*from_data\s*\(\s*data\s*,\s*&\s*sub_opt\s*\)", sb))
              and not re.search(r"\bsub_opt\s*\.\s*\w+\s*=[^=]|let\s+mut\s+sub_opt\b", sb)
              and len(re.findall(r"\blet\s+sub_opt\b", sb)) == 1)
    for name, val, why in (
            ('G_SUB_OPT_USED', g_used, "load_sub_svg parses the sub-document with its own `sub_opt`, and that is the only Tree::from_* call in parser/** (found %d)" % n_from),
            ('G_SUB_DATA_NONE', g_data, "the sub-document's resolve_data returns None (no nested data: documents)"),
            ('G_SUB_STRING_NONE', g_string, "the sub-document's resolve_string returns None (no nested files)")):
        setg3(name, val, why)

    out = [api.HEADER,
           "(* Guards of usvg's reference handling as found in the source (tools/gen_links.py). *)",
           "From Coq Require Import ZArith List String.\nImport ListNotations.\n",
           "Inductive pstep := PPatterns | PLinkClip | PLinkMask | PLinkFilter | PFeImage | PUnknown.\n"]
    for k in sorted(G):
        out.append("(* %s *)\nDefinition %s : bool := %s." % (notes[k], k, 'true' if G[k] else 'false'))
    out.append("\n(* depth + n of the recursive parse_xml_node calls: children, target of a `use` *)")
    out.append("Definition KID_DEPTH_STEP : Z := (%d)%%Z." % step_kid)
    out.append("Definition USE_DEPTH_STEP : Z := (%d)%%Z." % step_use)
    out.append("(* ... and of parse_svg_text_element_impl below a `text` element *)")
    out.append("Definition TEXT_DEPTH_STEP : Z := (%d)%%Z." % step_text)
    out.append("\n(* the fix_recursive_* calls of svgtree::parse(), in order *)")
    out.append("Definition PREPASS : list pstep := [%s].\n" % "; ".join(steps))
    out.append("(* every link-following construct of crates/usvg/src/parser/**: (file, enclosing fn, construct, occurrences) *)")
    out.append("Inductive skind := NodeAttr | AttrNode | HrefIter | ById | UseHref.")
    out.append("Open Scope string_scope.")
    out.append("Definition SITES : list (string * string * skind * nat) := [\n  %s\n]." % ";\n  ".join(
        '("%s", "%s", %s, %d)' % (f, fn, k, c) for f, fn, k, c in sites))
    out.append("Close Scope string_scope.\n")
    api.write_gen('LinkGuards.v', "\n".join(out))
    if miss3:
        api.broken('guards', 'pre-pass scope / nested-document guards', ['C03'], "; ".join(miss3))
    if miss:
        api.broken('guards', 'reference-loop guards', PROPS, "; ".join(miss))
    elif not miss3:
        api.ok('tables', 'link_guards', guards=len(G), prepass=steps)
