#!/usr/bin/env python3
"""Build the given Coq files (paths relative to coq/, e.g. Proofs/ViewBox.v) and their RV dependencies.
Per-file locks: safe to run concurrently with other builds.  usage: tools/coqbuild.py Proofs/X.v [Props/Cxx.v ...]"""
import os
import sys
sys.path.insert(0, os.path.dirname(os.path.abspath(__file__)))
import vlib

ctx = vlib.Ctx('coqbuild', 'quick', 1)
ok, log, failed = ctx.coq_build(sys.argv[1:], timeout=3000)
print(log)
print("OK" if ok else "FAILED: %s" % failed)
sys.exit(0 if ok else 1)
