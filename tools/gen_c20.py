"""Gen/C20Cli.v: source-derived parts of the resvg command-line tool (crates/resvg/src/main.rs).

  * argument validation: the accept conditions of parse_dpi / parse_length / parse_zoom / parse_font_size
    (and of the usvg binary's copies) and the defaults (`unwrap_or(96)`, `unwrap_or(12)`)
  * `enum FitTo`, `FitTo::fit_to_size` (arm by arm), `FitTo::fit_to_transform`
  * the -w / -h / -z decision chain of parse_args (FitTo + default_size)
  * `fit_to_rect` of main.rs (through rs2coq), the order of the steps of `process`, the `.unwrap()` / `?` /
    `return Err` sites of render_svg, trim_pixmap, process (ledger)
The tiny-skia-path IntSize arithmetic the arms call (scale_to_width, ...) is third-party code: hand-modelled in
Model/Cli.v and tied by the `c20-fit` correspondence op.
"""
import re

PROPS = ['C20']
REL = 'crates/resvg/src/main.rs'
REL_USVG = 'crates/usvg/src/main.rs'


def coq_str(s):
    s = re.sub(r"\s+", " ", s.strip())
    s = ''.join(ch if 32 <= ord(ch) < 127 else '?' for ch in s)
    return '"' + s.replace('"', '""') + '"'


def strip_comments(src):
    src = re.sub(r"//[^\n]*", lambda m: ' ' * len(m.group(0)), src)
    return re.sub(r"/\*.*?\*/", lambda m: re.sub(r"[^\n]", ' ', m.group(0)), src, flags=re.S)


def cond_to_coq(cond, var, dom, U):
    """Translate the accept condition of a parse_* function.  Supported: (A..=B).contains(&n), n OP c, c OP n, &&."""
    cond = cond.strip()
    parts = [p.strip() for p in cond.split('&&')]
    out = []
    for p in parts:
        p = re.sub(r"^\((.*)\)$", r"\1", p) if p.count('(') == 1 and p.startswith('(') and p.endswith(')') and '..' not in p else p
        m = re.match(r"^\(\s*(\d+)\s*\.\.=\s*(\d+)\s*\)\s*\.contains\(\s*&%s\s*\)$" % var, p)
        if m:
            out.append("(%s <=? n)%%Z && (n <=? %s)%%Z" % (m.group(1), m.group(2)))
            continue
        m = re.match(r"^\(\s*(\d+)\s*\.\.\s*(\d+)\s*\)\s*\.contains\(\s*&%s\s*\)$" % var, p)
        if m:
            out.append("(%s <=? n)%%Z && (n <? %s)%%Z" % (m.group(1), m.group(2)))
            continue
        m = re.match(r"^%s\s*(<=|>=|<|>|==|!=)\s*(\d+(?:\.\d+)?)$" % var, p)
        if m:
            op, c = m.group(1), m.group(2)
        else:
            m = re.match(r"^(\d+(?:\.\d+)?)\s*(<=|>=|<|>)\s*%s$" % var, p)
            if not m:
                raise U("unsupported validation condition %r" % p)
            c, op = m.group(1), {'<': '>', '>': '<', '<=': '>=', '>=': '<='}[m.group(2)]
        if dom == 'Z':
            if '.' in c:
                raise U("float literal in integer condition %r" % p)
            f = {'<': '(n <? %s)%%Z', '<=': '(n <=? %s)%%Z', '>': '(%s <? n)%%Z', '>=': '(%s <=? n)%%Z',
                 '==': '(n =? %s)%%Z', '!=': 'negb (n =? %s)%%Z'}[op]
            out.append(f % c)
        else:
            from fractions import Fraction
            fr = Fraction(c)
            q = "(%d # %d)" % (fr.numerator, fr.denominator)
            f = {'<': 'Qltb n %s', '<=': 'Qleb n %s', '>': 'Qltb %s n', '>=': 'Qleb %s n'}.get(op)
            if f is None:
                raise U("unsupported float comparison %r" % p)
            out.append(f % q)
    return " && ".join("(%s)" % o for o in out)


def parse_fn_cond(api, src, name):
    """-> (domain, coq condition) of `fn name(s: &str) -> Result<T, String>` with the shape
    let n: T = s.parse()...; if COND { Ok(n) } else { Err(..) }"""
    rs = api.rs2coq
    params, ret, body = rs.find_fn(src, name)
    m = re.search(r"let\s+(\w+)\s*:\s*(u32|u8|f32|usize|u64)\s*=\s*s\.parse\(\)", body)
    if not m:
        raise api.Unsupported("%s: `let n: T = s.parse()` not found" % name)
    var, ty = m.group(1), m.group(2)
    m2 = re.search(r"if\s+(.*?)\s*\{\s*Ok\(\s*%s\s*\)\s*\}\s*else\s*\{\s*Err\(" % var, body, re.S)
    if not m2:
        raise api.Unsupported("%s: `if COND { Ok(n) } else { Err(..) }` not found" % name)
    dom = 'Q' if ty == 'f32' else 'Z'
    return dom, ty, cond_to_coq(m2.group(1), var, dom, api.Unsupported)


ARM_EXPRS = [
    (r"^Some\(\s*size\s*\)$", lambda m: "Some size"),
    (r"^size\.(scale_to_width|scale_to_height|scale_by)\(\s*(\w+)\s*\)$", lambda m: "isize_%s size %s" % (m.group(1), m.group(2))),
    (r"^(?:tiny_skia::)?IntSize::from_wh\(\s*(\w+)\s*,\s*(\w+)\s*\)\.map\(\s*\|\s*(\w+)\s*\|\s*size\.(scale_to)\(\s*(\w+)\s*\)\s*\)$",
     lambda m: ("option_map (fun %s => isize_%s size %s) (isize_from_wh %s %s)" % (m.group(3), m.group(4), m.group(5), m.group(1), m.group(2)))),
    (r"^(?:tiny_skia::)?IntSize::from_wh\(\s*(\w+)\s*,\s*(\w+)\s*\)$", lambda m: "isize_from_wh %s %s" % (m.group(1), m.group(2))),
]


def generate(api):
    try:
        _generate(api)
    except (api.Unsupported, OSError, ValueError, IndexError, KeyError) as e:
        api.broken('cli', 'c20', PROPS, e)


def _generate(api):
    rs = api.rs2coq
    U = api.Unsupported
    raw = api.rd(REL)
    src = strip_comments(raw)
    L = [api.HEADER,
         "From Coq Require Import String.\nFrom RV Require Import Model.Base Model.GeomPrims Model.CliPrims.\nImport ListNotations.\nLocal Open Scope string_scope.\nLocal Open Scope Z_scope.\n"]

    # ---------------------------------------------------------------- validation ranges
    L.append("(* %s: accept conditions of the parse_* argument validators (n = the parsed number) *)" % REL)
    for fn in ('parse_dpi', 'parse_length', 'parse_zoom', 'parse_font_size'):
        dom, ty, cond = parse_fn_cond(api, src, fn)
        L.append("Definition %s_ok (n : %s) : bool := %s.   (* parsed as %s *)" % (fn, dom, cond, ty))
        L.append("Definition %s_type : string := %s." % (fn, coq_str(ty)))
    m = re.search(r"opt_value_from_fn\(\s*\"--dpi\"\s*,\s*parse_dpi\s*\)\?\s*\.unwrap_or\(\s*(\d+)\s*\)", src)
    if not m:
        raise U("default dpi (`.unwrap_or(N)`) not found")
    L.append("Definition DEFAULT_DPI : Z := %s." % m.group(1))
    m = re.search(r"opt_value_from_fn\(\s*\"--font-size\"\s*,\s*parse_font_size\s*\)\?\s*\.unwrap_or\(\s*(\d+)\s*\)", src)
    if not m:
        raise U("default font size not found")
    L.append("Definition DEFAULT_FONT_SIZE : Z := %s." % m.group(1))
    # which validator guards which option
    guards = []
    for opt, fn in re.findall(r"opt_value_from_fn\(\s*(\[[^\]]*\]|\"[^\"]*\")\s*,\s*(parse_\w+)\s*\)", raw):
        guards.append((re.sub(r"[\[\]\"\s]", "", opt), fn))
    L.append("Definition c20_option_validators : list (string * string) := [%s]."
             % "; ".join("(%s, %s)" % (coq_str(a), coq_str(b)) for a, b in guards))
    # the usvg binary has its own copies of parse_dpi / parse_font_size / parse_length: they must agree
    usrc = strip_comments(api.rd(REL_USVG))
    for fn in ('parse_dpi', 'parse_length', 'parse_font_size'):
        dom, ty, cond = parse_fn_cond(api, usrc, fn)
        L.append("Definition usvg_%s_ok (n : %s) : bool := %s." % (fn, dom, cond))
    # usvg binary: WriteOptions defaults.  Each option's default must be a LITERAL in the code (not another option's value) and agree
    # with the help text and with the library's `impl Default for WriteOptions`.
    uraw = api.rd(REL_USVG)
    dom, ty, cond = parse_fn_cond(api, usrc, 'parse_precision')
    L.append("Definition usvg_parse_precision_ok (n : %s) : bool := %s." % (dom, cond))
    params, ret, ubody = rs.find_fn(usrc, 'process')
    wsrc = strip_comments(api.rd('crates/usvg/src/writer.rs'))
    dm = re.search(r"impl\s+Default\s+for\s+WriteOptions\s*\{.*?Self\s*\{(.*?)\}", wsrc, re.S)
    if not dm:
        raise U("impl Default for WriteOptions not found")
    for fld, opt in (('coordinates_precision', '--coordinates-precision'), ('transforms_precision', '--transforms-precision')):
        m = re.search(r"\b%s\s*:\s*args\.%s\.unwrap_or\(\s*(\d+)\s*\)" % (fld, fld), ubody)
        if not m:
            raise U("usvg process(): the default of %s is not a literal `args.%s.unwrap_or(N)`" % (fld, fld))
        hm = re.search(re.escape(opt) + r"\s+NUM.*?\[values:\s*(\d+)\.\.(\d+)\s*\(inclusive\)\]\s*\[default:\s*(\d+)\]", uraw, re.S)
        if not hm:
            raise U("usvg help text: values/default of %s not found" % opt)
        lm = re.search(r"\b%s\s*:\s*(\d+)\s*," % fld, dm.group(1))
        if not lm:
            raise U("WriteOptions::default(): %s not found" % fld)
        L.append("Definition usvg_%s_default : Z := %s.   (* code *)" % (fld, m.group(1)))
        L.append("Definition usvg_%s_help : Z * Z * Z := (%s, %s, %s).   (* help text: values lo..hi, default *)" % (fld, hm.group(1), hm.group(2), hm.group(3)))
        L.append("Definition lib_%s_default : Z := %s.   (* usvg::WriteOptions::default() *)" % (fld, lm.group(1)))
    L.append("")

    # ---------------------------------------------------------------- resources_dir resolution (both binaries)
    L.append("Inductive res_src := ResExplicit | ResInputDir | ResNone.")
    CANON = r"std::fs::canonicalize\(\w+\) \.ok\(\) \.and_then\(\|p\| p\.parent\(\)\.map\(\|p\| p\.to_path_buf\(\)\)\)"
    SHAPES = [
        # explicit option first, else the input file's directory, else none
        (r"let resources_dir = match args\.resources_dir \{ Some\((?:ref )?v\) => Some\(v(?:\.clone\(\))?\), None => \{ "
         r"if let InputFrom::File\(ref \w+\) = in_svg \{ " + CANON + r" \} else \{ None \} \} \};",
         "if explicit then ResExplicit else if file_input then ResInputDir else ResNone"),
        (r"let resources_dir = match args\.resources_dir \{ Some\((?:ref )?v\) => Some\(v(?:\.clone\(\))?\), None => \{ "
         r"match in_svg \{ InputFrom::Stdin => None, InputFrom::File\(ref \w+\) => \{ " + CANON + r" \} \} \} \};",
         "if explicit then ResExplicit else if file_input then ResInputDir else ResNone"),
    ]
    for tool, tsrc, fn in (('resvg', src, 'parse_args'), ('usvg', usrc, 'process')):
        p_, r_, b_ = rs.find_fn(tsrc, fn)
        b1 = re.sub(r"\s+", " ", b_)
        if len(re.findall(r"let resources_dir\b", b1)) != 1:
            raise U("%s %s(): expected exactly one `let resources_dir`" % (tool, fn))
        rule = None
        for pat, coq in SHAPES:
            if re.search(pat, b1):
                rule = coq
        if rule is None:
            raise U("%s %s(): the resolution of resources_dir has an unexpected shape (explicit --resources-dir must win, "
                    "else the input file's directory, else none)" % (tool, fn))
        # the resolved value must be what goes into usvg::Options (field init shorthand `resources_dir,`)
        if not re.search(r"usvg::Options \{ resources_dir,", b1):
            raise U("%s %s(): `usvg::Options { resources_dir, ..` not found" % (tool, fn))
        L.append("(* crates/%s/src/main.rs :: %s, resolution of Options::resources_dir *)" % (tool, fn))
        L.append("Definition %s_resources_dir (explicit file_input : bool) : res_src := %s." % (tool, rule))
    L.append("")

    # ---------------------------------------------------------------- enum FitTo
    m = re.search(r"enum\s+FitTo\s*\{(.*?)\n\}", src, re.S)
    if not m:
        raise U("enum FitTo not found")
    variants = re.findall(r"(\w+)\s*(?:\(([^)]*)\))?\s*,", m.group(1))
    expect = [('Original', ''), ('Width', 'u32'), ('Height', 'u32'), ('Size', 'u32, u32'), ('Zoom', 'f32')]
    got = [(a, re.sub(r"\s+", " ", b.strip())) for a, b in variants]
    if got != expect:
        raise U("enum FitTo changed: %r" % (got,))
    L.append("Inductive FitTo := FitOriginal | FitWidth (w : Z) | FitHeight (h : Z) | FitSize (w h : Z) | FitZoom (z : Q).")

    # ---------------------------------------------------------------- FitTo::fit_to_size
    params, ret, body = rs.find_fn(src, 'fit_to_size', after=r"impl\s+FitTo\s*\{")
    mm = re.search(r"match\s+\*self\s*\{(.*)\}\s*\}\s*$", body.strip(), re.S)
    if not mm:
        raise U("fit_to_size: `match *self { .. }` not found")
    arms_txt = mm.group(1)
    arms = re.findall(r"FitTo::(\w+)\s*(?:\(([^)]*)\))?\s*=>\s*(.*?),\s*(?=FitTo::|\Z)", arms_txt.strip() + "\n", re.S)
    if [a[0] for a in arms] != ['Original', 'Width', 'Height', 'Size', 'Zoom']:
        raise U("fit_to_size arms: %r" % ([a[0] for a in arms],))
    L.append("(* %s :: FitTo::fit_to_size *)" % REL)
    L.append("Definition fit_to_size (f : FitTo) (size : isize) : option isize :=\n  match f with")
    for name, binders, expr in arms:
        expr = re.sub(r"\s+", " ", expr.strip()).rstrip(',')
        expr = re.sub(r"\s*\.\s*", ".", expr)
        coq = None
        for pat, fn in ARM_EXPRS:
            em = re.match(pat, expr)
            if em:
                coq = fn(em)
                break
        if coq is None:
            raise U("fit_to_size arm %s: unsupported expression %r" % (name, expr))
        bs = [b.strip() for b in binders.split(',')] if binders.strip() else []
        L.append("  | Fit%s%s => %s" % (name, ''.join(' ' + b for b in bs), coq))
    L.append("  end.\n")

    # ---------------------------------------------------------------- FitTo::fit_to_transform
    params, ret, body = rs.find_fn(src, 'fit_to_transform', after=r"impl\s+FitTo\s*\{")
    b = re.sub(r"\s+", " ", body)
    shape = (r"\{ let (\w+) = size\.to_size\(\); let (\w+) = match self\.fit_to_size\(size\) \{ Some\((\w+)\) => \3\.to_size\(\), "
             r"None => return tiny_skia::Transform::default\(\), \}; tiny_skia::Transform::from_scale\( "
             r"(\w+)\.(width|height)\(\) / (\w+)\.(width|height)\(\), (\w+)\.(width|height)\(\) / (\w+)\.(width|height)\(\), \) \}")
    sm = re.match(shape, b.strip())
    if not sm:
        raise U("fit_to_transform has an unexpected shape")
    s1, s2 = sm.group(1), sm.group(2)

    def acc(var, fld):
        base = {s1: 'size', s2: 'v'}.get(var)
        if base is None:
            raise U("fit_to_transform: unknown variable " + var)
        return "inject_Z (is_%s %s)" % ('w' if fld == 'width' else 'h', base)
    L.append("(* %s :: FitTo::fit_to_transform  (IntSize::to_size is exact: u32 -> f32 is idealised) *)" % REL)
    L.append("Definition fit_to_transform (f : FitTo) (size : isize) : ts :=\n  match fit_to_size f size with\n  | Some v => from_scale (%s / %s)%%Q (%s / %s)%%Q\n  | None => ts_identity\n  end.\n"
             % (acc(sm.group(4), sm.group(5)), acc(sm.group(6), sm.group(7)), acc(sm.group(8), sm.group(9)), acc(sm.group(10), sm.group(11))))

    # ---------------------------------------------------------------- -w/-h/-z decision chain
    params, ret, body = rs.find_fn(src, 'parse_args')
    m0 = re.search(r"let\s+mut\s+fit_to\s*=\s*FitTo::(\w+)\s*;\s*let\s+mut\s+default_size\s*=\s*usvg::Size::from_wh\(\s*([\d.]+)\s*,\s*([\d.]+)\s*\)\.unwrap\(\)\s*;", body)
    if not m0 or m0.group(1) != 'Original':
        raise U("parse_args: initial fit_to / default_size not found")
    d0 = (m0.group(2), m0.group(3))
    chain = body[m0.end():]
    branches = []
    pos = 0
    first = True
    while True:
        bm = re.match(r"\s*(?:else\s+)?if\s+let\s+(.*?)\s*=\s*(.*?)\s*\{", chain[pos:], re.S) if not first else \
            re.match(r"\s*if\s+let\s+(.*?)\s*=\s*(.*?)\s*\{", chain[pos:], re.S)
        if not bm:
            break
        first = False
        k = pos + bm.end() - 1
        depth = 0
        j = k
        while True:
            if chain[j] == '{':
                depth += 1
            elif chain[j] == '}':
                depth -= 1
                if depth == 0:
                    break
            j += 1
        blk = chain[k + 1:j]
        pat = re.sub(r"\s+", "", bm.group(1))
        scr = re.sub(r"\s+", "", bm.group(2))
        dm = re.search(r"default_size\s*=\s*usvg::Size::from_wh\(\s*(.*?)\s*,\s*(.*?)\s*\)\.unwrap\(\)\s*;", blk, re.S)
        fm = re.search(r"fit_to\s*=\s*FitTo::(\w+)\s*(?:\(([^)]*)\))?\s*;", blk)
        if not fm:
            raise U("parse_args: branch without fit_to assignment")
        branches.append((pat, scr, (dm.group(1), dm.group(2)) if dm else None, fm.group(1), fm.group(2) or ''))
        pos = j + 1
        if not re.match(r"\s*else\s+if\s+let", chain[pos:]):
            break
    if len(branches) < 1:
        raise U("parse_args: fit decision chain not found")

    def ds_expr(e):
        e = e.strip()
        m = re.match(r"^(\w+)\s+as\s+f32$", e)
        if m:
            return "inject_Z %s" % m.group(1)
        if re.match(r"^[\d.]+$", e):
            from fractions import Fraction
            fr = Fraction(e)
            return "(%d # %d)" % (fr.numerator, fr.denominator)
        raise U("default_size component %r" % e)
    SCR = {'(args.width,args.height)': ('aw, ah', {'(Some(w),Some(h))': 'Some w, Some h'}),
           'args.width': ('aw', {'Some(w)': 'Some w'}), 'args.height': ('ah', {'Some(h)': 'Some h'}),
           'args.zoom': ('az', {'Some(z)': 'Some z'})}
    L.append("(* %s :: parse_args, the -w/-h/-z -> (default_size, FitTo) decision *)" % REL)
    L.append("Definition decide_fit (aw ah : option Z) (az : option Q) : (Q * Q) * FitTo :=")
    closing = []
    ind = "  "
    for pat, scr, ds, ctor, cargs in branches:
        if scr not in SCR or pat not in SCR[scr][1]:
            raise U("parse_args: unsupported `if let %s = %s`" % (pat, scr))
        dsx = "(%s, %s)" % (ds_expr(ds[0]), ds_expr(ds[1])) if ds else "((%s)%%Q, (%s)%%Q)" % tuple(ds_expr(x) for x in d0)
        if ds:
            dsx = "((%s)%%Q, (%s)%%Q)" % (ds_expr(ds[0]), ds_expr(ds[1]))
        args_ = ''.join(' ' + a.strip() for a in cargs.split(',')) if cargs.strip() else ''
        L.append("%smatch %s with\n%s| %s => (%s, Fit%s%s)\n%s| %s =>" % (ind, SCR[scr][0], ind, SCR[scr][1][pat], dsx, ctor, args_, ind,
                                                                             '_, _' if ',' in SCR[scr][0] else '_'))
        closing.append(ind + "end")
        ind += "  "
    L.append("%s(((%s)%%Q, (%s)%%Q), FitOriginal)" % (ind, ds_expr(d0[0]), ds_expr(d0[1])))
    L.extend(reversed(closing))
    L[-1] += ".\n"

    # ---------------------------------------------------------------- fit_to_rect (main.rs copy)
    cfg = dict(dom='Z', types={'IntRect': 'irect', 'i32': 'Z', 'u32': 'Z'},
               methods={'left': 'ix', 'top': 'iy', 'right': 'i_right', 'bottom': 'i_bottom', 'x': 'ix', 'y': 'iy', 'width': 'iw', 'height': 'ih'},
               calls={'IntRect::from_ltrb': 'irect_from_ltrb', 'tiny_skia::IntRect::from_ltrb': 'irect_from_ltrb',
                      'IntRect::from_xywh': 'irect_from_xywh', 'tiny_skia::IntRect::from_xywh': 'irect_from_xywh'},
               ret='option irect')
    cfg['types']['tiny_skia::IntRect'] = 'irect'
    d = rs.translate_fn(raw, 'fit_to_rect', cfg, 'cli_fit_to_rect')
    L.append("(* %s :: fit_to_rect *)\n%s\n" % (REL, d))

    # ---------------------------------------------------------------- trim_pixmap: shape
    params, ret, body = rs.find_fn(src, 'trim_pixmap')
    tb = re.sub(r"\s+", " ", body)
    trim_shape = (r"\{ let content_area = tree\.root\(\)\.layer_bounding_box\(\); "
                  r"let limit = tiny_skia::IntRect::from_xywh\(0, 0, pixmap\.width\(\), pixmap\.height\(\)\)\.unwrap\(\); "
                  r"let content_area = content_area\.transform\(transform\)\?; "
                  r"let content_area = tiny_skia::IntRect::from_xywh\( content_area\.x\(\)\.floor\(\) as i32, content_area\.y\(\)\.floor\(\) as i32, "
                  r"std::cmp::max\(1, content_area\.width\(\)\.ceil\(\) as u32\), std::cmp::max\(1, content_area\.height\(\)\.ceil\(\) as u32\), \)\?; "
                  r"let content_area = fit_to_rect\(content_area, limit\)\?; "
                  r"let content_area = tiny_skia::IntRect::from_xywh\( content_area\.x\(\), content_area\.y\(\), content_area\.width\(\), content_area\.height\(\), \)\?; "
                  r"pixmap\.clone_rect\(content_area\) \}")
    L.append("Definition c20_trim_shape_ok : bool := %s.   (* trim_pixmap has the modelled statement sequence *)"
             % ('true' if re.match(trim_shape, tb.strip()) else 'false'))
    # render_svg uses trim_pixmap(..).unwrap_or(pixmap)
    params, ret, rbody = rs.find_fn(src, 'render_svg')
    L.append("Definition c20_trim_fallback_ok : bool := %s.   (* render_svg: trim_pixmap(tree, ts, &pixmap).unwrap_or(pixmap) *)"
             % ('true' if re.search(r"trim_pixmap\(\s*tree\s*,\s*ts\s*,\s*&pixmap\s*\)\s*\.unwrap_or\(\s*pixmap\s*\)", rbody) else 'false'))

    # --export-area-page: draw_pixmap only when the offset box fits i32; Pixmap::new results are checked with `?`
    rb = re.sub(r"\s+", " ", rbody)
    guard = re.search(r"let \(x, y\) = \(\(bbox\.x\(\) \* ts\.sx\) as i32, \(bbox\.y\(\) \* ts\.sy\) as i32\); if tiny_skia::IntRect::from_xywh\(x, y, pixmap\.width\(\), "
                      r"pixmap\.height\(\)\)\.is_some\(\) \{ page_pixmap\.draw_pixmap\( x, y,", rb)
    # the page offset of the exported node: scaled by the page transform (fix 85fde2f) or not
    om = re.search(r"let \(x, y\) = \((.*?)\); if tiny_skia::IntRect::from_xywh\(x, y,", rb)
    if not om:
        raise U("render_svg: the page offset `let (x, y) = ..` not found")
    off = re.sub(r"\s+", "", om.group(1))
    if off == "(bbox.x()*ts.sx)asi32,(bbox.y()*ts.sy)asi32":
        off_scaled = 'true'
    elif off == "bbox.x()asi32,bbox.y()asi32":
        off_scaled = 'false'
    else:
        raise U("render_svg: unsupported page offset expression %r" % om.group(1))
    L.append("Definition c20_page_offset_scaled : bool := %s.   (* (bbox.x() * ts.sx) as i32, (bbox.y() * ts.sy) as i32 *)" % off_scaled)
    # which size the transform of an exported node is fitted to (fix bd4cb7e)
    tm = re.search(r"let ts = if args\.export_area_page \{ args\.fit_to\.fit_to_transform\((tree|bbox)\.size\(\)\.to_int_size\(\)\) \} else \{ "
                   r"args\.fit_to\.fit_to_transform\((tree|bbox)\.size\(\)\.to_int_size\(\)\) \}; resvg::render_node\(node, ts,", rb)
    if tm:
        src_page, src_plain = tm.group(1), tm.group(2)
    else:
        tm = re.search(r"let ts = args\.fit_to\.fit_to_transform\((tree|bbox)\.size\(\)\.to_int_size\(\)\); resvg::render_node\(node, ts,", rb)
        if not tm:
            raise U("render_svg: the transform of the exported node has an unexpected shape")
        src_page = src_plain = tm.group(1)
    cn = {'tree': 'SrcDoc', 'bbox': 'SrcNode'}
    L.append("Inductive fit_source := SrcDoc | SrcNode.")
    L.append("(* %s :: render_svg, --export-id: the size the node's transform is fitted to *)" % REL)
    L.append("Definition export_fit_source (area_page : bool) : fit_source := if area_page then %s else %s." % (cn[src_page], cn[src_plain]))
    n_draw = len(re.findall(r"\.draw_pixmap\(", rb))
    # all canvas allocations of render_svg go through `new_pixmap(size)?` (fix 943ffd6); the helper has the checked shape
    n_direct = len(re.findall(r"Pixmap::new\(", rb))
    n_helper = len(re.findall(r"= new_pixmap\(size\)\?;", rb))
    try:
        hp, hr, hb = rs.find_fn(src, 'new_pixmap')
        hb1 = re.sub(r"\s+", " ", hb)
        helper_ok = bool(re.match(
            r"\{ let too_large = \|\| \"target size is too large\"\.to_string\(\); let len = \(size\.width\(\) as usize\) \.checked_mul\(size\.height\(\) as usize\) "
            r"\.and_then\(\|n\| n\.checked_mul\(4\)\) \.ok_or_else\(too_large\)\?; let mut data: Vec<u8> = Vec::new\(\); "
            r"data\.try_reserve_exact\(len\)\.map_err\(\|_\| too_large\(\)\)\?; data\.resize\(len, 0\); "
            r"tiny_skia::Pixmap::from_vec\(data, size\)\.ok_or_else\(too_large\) \}$", hb1.strip()))
    except U:
        helper_ok = False
    L.append("Definition c20_canvas_alloc_ok : bool := %s.   (* render_svg: %d x `new_pixmap(size)?`, %d direct Pixmap::new; helper shape %s *)"
             % ('true' if (n_helper == 3 and n_direct == 0 and helper_ok) else 'false', n_helper, n_direct, helper_ok))
    L.append("Definition c20_draw_guard_ok : bool := %s.   (* render_svg: %d draw_pixmap call(s) guarded by IntRect::from_xywh(..).is_some() *)"
             % ('true' if (guard and n_draw == 1) else 'false', n_draw))
    # ---------------------------------------------------------------- render_svg: source-derived control skeleton (round 4, 2nd pass)
    # Every fallible expression (`?`, `return Err`) of render_svg must be one of the recognised steps; the steps are emitted in
    # source order per branch: --export-id, its trailing `if args.export_area_page {..}` block, normal, its --export-area-drawing arm.
    def block_at(text, i):
        d = 0
        j = i
        while True:
            if text[j] == '{':
                d += 1
            elif text[j] == '}':
                d -= 1
                if d == 0:
                    return j
            j += 1
    m_e = re.search(r"let img = if let Some\(ref id\) = args\.export_id \{", rb)
    if not m_e:
        raise U("render_svg: `let img = if let Some(ref id) = args.export_id {` not found")
    e0 = m_e.end() - 1
    e1 = block_at(rb, e0)
    m_n = re.match(r"\s*else \{", rb[e1 + 1:])
    if not m_n:
        raise U("render_svg: the normal (else) branch not found")
    n0 = e1 + 1 + m_n.end() - 1
    n1 = block_at(rb, n0)
    if not re.match(r"\s*;\s*if args\.perf \{.*?\}\s*Ok\(img\)\s*\}\s*$", rb[n1 + 1:]):
        raise U("render_svg: unexpected statements after `let img = ..;`")
    exp_t, nor_t = rb[e0 + 1:e1], rb[n0 + 1:n1]
    m_p = re.search(r"if args\.export_area_page \{(?=(?:(?!if args\.export_area_page).)*$)", exp_t)
    if not m_p:
        raise U("render_svg: trailing `if args.export_area_page {` block not found")
    p0 = m_p.end() - 1
    p1 = block_at(exp_t, p0)
    if not (re.search(r"page_pixmap \}$", exp_t[:p1 + 1].rstrip()) and re.match(r"\s*else \{ pixmap \}\s*$", exp_t[p1 + 1:])):
        raise U("render_svg: the --export-area-page block must end with `page_pixmap } else { pixmap }`")
    m_d = re.search(r"if args\.export_area_drawing \{ (trim_pixmap\(tree, ts, &pixmap\)\.unwrap_or\(pixmap\)) \} else \{ pixmap \}\s*$", nor_t)
    if not m_d:
        raise U("render_svg: `if args.export_area_drawing { trim_pixmap(tree, ts, &pixmap).unwrap_or(pixmap) } else { pixmap }` not found")
    RSTEPS = [
        ('RsLookup', r"let node = match tree\.node_by_id\(id\) \{ Some\(node\) => node, None => return Err\(format!\(\"([^\"]*)\", id\)\), \};", True),
        ('RsNodeBox', r"let bbox = node \.abs_layer_bounding_box\(\) \.ok_or_else\(\|\| \"([^\"]*)\"\.to_string\(\)\)\?;", True),
        ('RsFit', r"let size = args \.fit_to \.fit_to_size\((tree|bbox)\.size\(\)\.to_int_size\(\)\) \.ok_or_else\(\|\| \"([^\"]*)\"\.to_string\(\)\)\?;", True),
        ('RsAlloc', r"let mut (?:pixmap|page_pixmap) = new_pixmap\(size\)\?;", True),
        ('RsRenderNode', r"resvg::render_node\(node, ts, &mut pixmap\.as_mut\(\)\);", False),
        ('RsRender', r"resvg::render\(tree, ts, &mut pixmap\.as_mut\(\)\);", False),
        ('RsDraw', r"page_pixmap\.draw_pixmap\(", False),
        ('RsTrim', r"trim_pixmap\(tree, ts, &pixmap\)\.unwrap_or\(pixmap\)", False),
    ]

    def scan(text):
        ev = []
        nf = 0
        for name, pat, fallible in RSTEPS:
            for mm in re.finditer(pat, text):
                if name == 'RsFit':
                    ev.append((mm.start(), "RsFit %s %s" % (cn[mm.group(1)], coq_str(mm.group(2)))))
                elif name in ('RsLookup', 'RsNodeBox'):
                    ev.append((mm.start(), "%s %s" % (name, coq_str(mm.group(1)))))
                else:
                    ev.append((mm.start(), name))
                nf += fallible
        ev.sort()
        n_src = len(re.findall(r"\?\s*;|\?\s*\)|\?\s*\.|return Err\b|panic!|unreachable!|\.expect\(|\.unwrap\(\)", text))
        if n_src != nf:
            raise U("render_svg: %d fallible expressions in a branch, %d recognised" % (n_src, nf))
        return ["(%s)" % x for _, x in ev]
    seg_export = scan(exp_t[:m_p.start()])
    seg_page = scan(exp_t[p0 + 1:p1])
    seg_normal = scan(nor_t[:m_d.start()])
    seg_drawing = scan(m_d.group(1))
    L.append("(* %s :: render_svg, control skeleton: the steps of each branch in source order; every `?` / `return Err` is one of them *)" % REL)
    L.append("Inductive rstep := RsLookup (msg : string) | RsNodeBox (msg : string) | RsFit (src : fit_source) (msg : string) | RsAlloc"
             " | RsRenderNode | RsRender | RsDraw | RsTrim.")
    L.append("Definition c20_render_export : list rstep := [%s]." % "; ".join(seg_export))
    L.append("Definition c20_render_export_page : list rstep := [%s]." % "; ".join(seg_page))
    L.append("Definition c20_render_normal : list rstep := [%s]." % "; ".join(seg_normal))
    L.append("Definition c20_render_normal_drawing : list rstep := [%s]." % "; ".join(seg_drawing))
    # the page offset of the exported node, translated as an expression (f2i32 = `as i32`: truncate, saturate)
    try:
        oast = rs.Parser(rs.tokenize("(" + om.group(1) + ")")).expr()
        oem = rs.Emitter(dict(dom='Q', methods={'x': 'rx', 'y': 'ry', 'width': 'rw', 'height': 'rh'},
                              fields={'sx': 't_sx', 'sy': 't_sy', 'tx': 't_tx', 'ty': 't_ty', 'kx': 't_kx', 'ky': 't_ky'},
                              casts={'i32': 'f2i32', 'f32': None}))
        L.append("(* %s :: render_svg, --export-area-page: where the node's pixmap is drawn on the page *)" % REL)
        L.append("Definition page_offset_gen (bbox : qrect) (ts : ts) : Z * Z :=\n  %s." % oem.expr(oast))
    except rs.Unsupported as ex:
        raise U("render_svg: page offset expression outside the translated subset: %s" % ex)
    # main: exit status and stderr message of a failed run
    mp, mr, mb = rs.find_fn(src, 'main')
    mm_ = re.match(r"\{ if let Err\(e\) = process\(\) \{ eprintln!\(\"Error: \{\}\.\", e\); std::process::exit\((\d+)\); \} \}$",
                   re.sub(r"\s+", " ", mb).strip())
    if not mm_:
        raise U("main: expected `if let Err(e) = process() { eprintln!(\"Error: {}.\", e); std::process::exit(N); }`")
    L.append("Definition c20_main_err_exit : Z := %s.   (* main: std::process::exit(N) after eprintln!(\"Error: {}.\", e) *)" % mm_.group(1))
    # ---------------------------------------------------------------- --languages: what the two tools do to each list item (round 5, seed C20-16)
    for tool, tsrc in (('resvg', src), ('usvg', usrc)):
        lp, lr, lb = rs.find_fn(tsrc, 'parse_languages')
        lbn = re.sub(r"\s+", " ", lb)
        lm = re.search(r"for (\w+) in s\.split\('(.)'\) \{", lbn)
        if not lm:
            raise U("%s parse_languages: `for <item> in s.split('<sep>') {` not found" % tool)
        var, sep = lm.group(1), lm.group(2)
        l0 = lm.end() - 1
        d_, j_ = 0, l0
        while True:
            if lbn[j_] == '{':
                d_ += 1
            elif lbn[j_] == '}':
                d_ -= 1
                if d_ == 0:
                    break
            j_ += 1
        loop = lbn[l0 + 1:j_]
        if len(re.findall(r"\.push\(", loop)) != 1:
            raise U("%s parse_languages: expected exactly one push in the loop" % tool)
        # every method applied (directly or through a rebinding `let <var> = <var>.m1().m2();`) to the item, in source order
        ops = []
        for chain in re.findall(r"\b%s((?:\s*\.\s*\w+\((?:[^()]*)\))+)" % re.escape(var), loop):
            ops += re.findall(r"\.\s*(\w+)\(", chain)
        uncond = not re.search(r"\b(if|match|continue|break|retain|dedup)\b", loop) and not re.search(r"\b(sort|dedup|retain|reverse)\w*\(", lbn)
        tail_ok = bool(re.search(r"\} if langs\.is_empty\(\) \{ return Err\(\"languages list cannot be empty\"\.to_string\(\)\); \} Ok\(langs\) \}$", lbn.strip()))
        L.append("(* %s :: parse_languages: separator, the methods applied to every item, is every item kept (no filter / dedup / reorder) *)"
                 % (REL if tool == 'resvg' else REL_USVG))
        L.append("Definition %s_lang_separator : string := %s." % (tool, coq_str(sep)))
        L.append("Definition %s_lang_item_ops : list string := [%s]." % (tool, "; ".join(coq_str(o) for o in ops)))
        L.append("Definition %s_lang_all_items_kept : bool := %s." % (tool, 'true' if (uncond and tail_ok) else 'false'))
        # the parsed list reaches usvg::Options::languages unchanged
        passed = len(re.findall(r"\blanguages: args\.languages(?:\.clone\(\))?,", tsrc)) == 1 and \
            len(re.findall(r"opt_value_from_fn\(\"--languages\", parse_languages\)\?\s*\.unwrap_or(?:_else)?\((?:\|\| )?vec!\[\"en\"\.to_string\(\)\]\)", tsrc)) == 1
        L.append("Definition %s_lang_passed_unchanged : bool := %s.   (* `--languages` -> parse_languages -> Options { languages: args.languages } ; default [\"en\"] *)"
                 % (tool, 'true' if passed else 'false'))
    L.append("")
    # ---------------------------------------------------------------- process: order of the steps
    params, ret, pbody = rs.find_fn(src, 'process')
    MARK = [('SParseArgs', r"\bparse_args\s*\("), ('SRead', r"std::fs::read\s*\("), ('SReadStdin', r"read_to_end\s*\("),
            ('SGunzip', r"decompress_svgz\s*\("), ('SUtf8', r"from_utf8\s*\("), ('SXml', r"parse_with_options\s*\("),
            ('SFonts', r"\bload_fonts\s*\("), ('STree', r"from_xmltree\s*\("), ('SQueryAll', r"\bquery_all\s*\("),
            ('SRender', r"\brender_svg\s*\("), ('SEncode', r"\bencode_png\s*\("), ('SWriteStdout', r"write_all\s*\("),
            ('SWriteFile', r"\bsave_png\s*\(")]
    found = []
    for name, pat in MARK:
        for mm in re.finditer(pat, pbody):
            found.append((mm.start(), name))
    found.sort()
    L.append("Inductive pstep := SParseArgs | SRead | SReadStdin | SGunzip | SUtf8 | SXml | SFonts | STree | SQueryAll | SRender"
             " | SEncode | SWriteStdout | SWriteFile.")
    L.append("Definition c20_process_steps : list pstep := [%s]." % "; ".join(n for _, n in found))
    # every fallible expression of `process` (`?` or `return Err`) with its position relative to the first write
    wpos = min([p for p, n in found if n in ('SWriteStdout', 'SWriteFile')] or [len(pbody)])
    fall = []
    for mm in re.finditer(r"\?\s*;|return\s+Err\b|\?\s*$", pbody, re.M):
        fall.append(mm.start() < wpos or False)
    # `?` attached to the write itself (save_png(..)?): allowed to be after wpos only when it belongs to the write statement
    after = [mm.start() for mm in re.finditer(r"\?\s*;|return\s+Err\b", pbody) if mm.start() > wpos]
    wends = []
    for p, n in found:
        if n in ('SWriteStdout', 'SWriteFile'):
            e = pbody.find(';', p)
            wends.append((p, e))
    stray = [a for a in after if not any(p <= a <= e + 1 for p, e in wends)]
    L.append("Definition c20_fallible_after_write : Z := %d.   (* `?` / `return Err` after the first write that are not the write itself *)" % len(stray))
    L.append("")

    # ---------------------------------------------------------------- unwrap / expect ledger of the CLI
    L.append("Record usite := { us_fn : string; us_text : string }.")
    us = []
    fi_fns = []
    for mm in re.finditer(r"\bfn\s+(\w+)", src):
        try:
            p_, r_, b_ = rs.find_fn(src[mm.start():], mm.group(1))
        except U:
            continue
        fi_fns.append((mm.group(1), b_))
    seen = set()
    for fn, b_ in fi_fns:
        if fn in seen:
            continue
        seen.add(fn)
        for um in re.finditer(r"[^;{}]*?\.(unwrap|expect)\s*\(", b_):
            text = re.sub(r"\s+", " ", um.group(0)).strip()
            # keep the tail of the expression (last 90 chars) as the key
            us.append((fn, text[-110:]))
    L.append("Definition c20_unwrap_sites : list usite := [\n  %s\n]."
             % ";\n  ".join("{| us_fn := %s; us_text := %s |}" % (coq_str(a), coq_str(b)) for a, b in us))
    L.append("")
    api.write_gen('C20Cli.v', "\n".join(L))
    api.ok('tables', 'c20_cli', branches=len(branches), steps=[n for _, n in found], unwraps=len(us))
