"""Shared machinery for the /verif checks: translator invocation, Coq build + assumption audit,
model evaluation through coqc, harness build/run with crash isolation, violation protocol,
known-findings handling and evidence writing."""
import fcntl
import hashlib
import json
import os
import re
import subprocess
import sys
import time

VERIF = os.path.dirname(os.path.dirname(os.path.abspath(__file__)))
REPO = os.environ.get('VERIF_REPO', '/repo')
WORK = os.path.join(VERIF, 'work')
ALT = os.path.realpath(REPO) != '/repo'
if ALT:
    # Shadow mode (VERIF_REPO=<scratch worktree>): run the same checks against another copy of the
    # repository without touching /verif's build products or evidence.  Used to try seeded changes.
    _h = hashlib.sha256(os.path.realpath(REPO).encode()).hexdigest()[:10]
    SHADOW = os.path.join(WORK, 'alt-' + _h)
    COQ = os.path.join(SHADOW, 'coq')
    HARNESS = os.path.join(SHADOW, 'harness')
    EVID = os.path.join(SHADOW, 'evidence')
    WORK = os.path.join(SHADOW, 'work')
else:
    SHADOW = None
    COQ = os.path.join(VERIF, 'coq')
    HARNESS = os.path.join(VERIF, 'harness')
    EVID = os.path.join(VERIF, 'evidence')
CORPUS = os.path.join(REPO, 'crates/resvg/tests/tests')
TESTS_DIR = os.path.join(REPO, 'crates/resvg/tests')
GUARD = 'resvg_verif'

ALLOWED_AXIOMS = {
    'ClassicalDedekindReals.sig_forall_dec', 'ClassicalDedekindReals.sig_not_dec',
    'FunctionalExtensionality.functional_extensionality_dep', 'Classical_Prop.classic',
}
FORBIDDEN_RE = re.compile(
    r"\b(Admitted|admit|Axiom|Axioms|Parameter|Parameters|Conjecture|Conjectures|Unset\s+Guard\s+Checking|"
    r"bypass_check|Admit\s+Obligations|Unset\s+Positivity|Unset\s+Universe\s+Checking|type-in-type|impredicative-set)\b")


def prepare_shadow():
    """Copy the Coq sources and the harness sources into the shadow tree (keeping build products)."""
    if not ALT:
        return
    os.makedirs(SHADOW, exist_ok=True)
    os.makedirs(WORK, exist_ok=True)
    os.makedirs(EVID, exist_ok=True)
    subprocess.run(['rsync', '-a', '--delete', '--exclude', '*.vo', '--exclude', '*.vok', '--exclude', '*.vos',
                    '--exclude', '*.glob', '--exclude', '*.aux', '--exclude', '.*.d', '--exclude', 'Gen/',
                    '--exclude', 'Makefile', '--exclude', 'Makefile.conf', '--exclude', '.Makefile.d',
                    '--exclude', '_CoqProject.files',
                    os.path.join(VERIF, 'coq') + '/', COQ + '/'], check=True)
    os.makedirs(os.path.join(COQ, 'Gen'), exist_ok=True)
    subprocess.run(['rsync', '-a', '--delete', '--exclude', 'target/', '--exclude', 'Cargo.toml', '--exclude', 'Cargo.lock',
                    os.path.join(VERIF, 'harness') + '/', HARNESS + '/'], check=True)
    toml = open(os.path.join(VERIF, 'harness', 'Cargo.toml')).read().replace('/repo/', os.path.realpath(REPO) + '/')
    tp = os.path.join(HARNESS, 'Cargo.toml')
    if not os.path.exists(tp) or open(tp).read() != toml:
        open(tp, 'w').write(toml)


class Lock:
    def __init__(self, name):
        os.makedirs(WORK, exist_ok=True)
        self.path = os.path.join(WORK, name + '.lock')

    def __enter__(self):
        self.f = open(self.path, 'w')
        fcntl.flock(self.f, fcntl.LOCK_EX)
        return self

    def __exit__(self, *a):
        fcntl.flock(self.f, fcntl.LOCK_UN)
        self.f.close()


def run(cmd, timeout=None, cwd=None, env=None, inp=None):
    e = dict(os.environ)
    e['CARGO_NET_OFFLINE'] = 'true'
    e['VERIF_REPO'] = os.path.realpath(REPO)
    if env:
        e.update(env)
    try:
        p = subprocess.run(cmd, cwd=cwd, env=e, input=inp, stdout=subprocess.PIPE, stderr=subprocess.STDOUT,
                           timeout=timeout, text=True, errors='replace')
        return p.returncode, p.stdout
    except subprocess.TimeoutExpired as ex:
        out = ex.stdout or ''
        if isinstance(out, bytes):
            out = out.decode('utf-8', 'replace')
        return 124, out + "\n[timeout after %ss]" % timeout


class SplitMix64:
    def __init__(self, seed):
        self.s = seed & 0xFFFFFFFFFFFFFFFF

    def next(self):
        self.s = (self.s + 0x9E3779B97F4A7C15) & 0xFFFFFFFFFFFFFFFF
        z = self.s
        z = ((z ^ (z >> 30)) * 0xBF58476D1CE4E5B9) & 0xFFFFFFFFFFFFFFFF
        z = ((z ^ (z >> 27)) * 0x94D049BB133111EB) & 0xFFFFFFFFFFFFFFFF
        return z ^ (z >> 31)

    def below(self, n):
        return self.next() % n

    def choice(self, xs):
        return xs[self.below(len(xs))]

    def uniform(self, a, b):
        return a + (b - a) * (self.next() >> 11) / float(1 << 53)

    def chance(self, p):
        return self.uniform(0, 1) < p

    def shuffle(self, xs):
        for i in range(len(xs) - 1, 0, -1):
            j = self.below(i + 1)
            xs[i], xs[j] = xs[j], xs[i]

    def sample(self, xs, k):
        xs = list(xs)
        self.shuffle(xs)
        return xs[:k]


def corpus_files():
    out = []
    for d, _, fs in os.walk(CORPUS):
        for f in fs:
            if f.endswith('.svg'):
                out.append(os.path.join(d, f))
    out.sort()
    return out


def qstr(x):
    """Exact Coq Q literal of a float (which holds an f32 or f64 value exactly)."""
    from fractions import Fraction
    fr = Fraction(x)
    return "(%d # %d)" % (fr.numerator, fr.denominator)


def zstr(n):
    return "(%d)%%Z" % n


class Ctx:
    def __init__(self, pid, tier, seed):
        self.pid = pid
        self.tier = tier
        self.seed = seed
        self.t0 = time.time()
        self.violations = []      # (text, replay_path, found_input)
        self.known_hits = []
        self.cov = dict(obligations=0, discharged=0, checker_cmd='', trusted_base=[], evaluations=0,
                        distinct_nontrivial=0, rule='', samples=[])
        self.assumptions = []
        prepare_shadow()
        self.rng = SplitMix64(seed ^ int(hashlib.sha256(pid.encode()).hexdigest()[:8], 16))
        self.workdir = os.path.join(WORK, pid)
        os.makedirs(self.workdir, exist_ok=True)
        os.makedirs(EVID, exist_ok=True)
        os.makedirs(os.path.join(EVID, 'replay'), exist_ok=True)
        self.status = None
        self.known = load_known(pid)
        self.distinct = set()

    def log(self, msg):
        print("[%s %6.1fs] %s" % (self.pid, time.time() - self.t0, msg), flush=True)

    # ---------------------------------------------------------------- translator
    def translate(self):
        with Lock('translate'):
            rc, out = run([sys.executable, os.path.join(VERIF, 'tools', 'translate.py')], timeout=120,
                          env={'VERIF_GEN': os.path.join(COQ, 'Gen')})
        if rc != 0:
            self.log("translator failed:\n" + out)
            self.status = dict(broken=[dict(kind='translator', name='translate.py', props=[self.pid], err=out[-500:])])
        else:
            with open(os.path.join(COQ, 'Gen', 'STATUS.json')) as f:
                self.status = json.load(f)
        mine = [b for b in self.status['broken'] if self.pid in b['props']]
        for b in mine:
            self.log("broken tie: %s %s: %s" % (b['kind'], b['name'], b['err']))
        return mine

    # ---------------------------------------------------------------- coq
    # The Coq project is built by this driver, not by make: per-file locks make concurrent checks safe and only
    # the closure of the requested files is ever compiled.
    COQ_FLAGS = ['-q', '-Q', '.', 'RV', '-w', '-notation-overridden,-deprecated-hint-without-locality,-deprecated-instance-without-locality']

    def coq_deps(self, f):
        try:
            src = open(os.path.join(COQ, f)).read()
        except OSError:
            return []
        src = re.sub(r"\(\*.*?\*\)", "", src, flags=re.S)
        out = []
        for m in re.finditer(r"From\s+RV\s+Require\s+(?:Import|Export)\s+(.*?)\.(?=\s|$)", src, re.S):
            for mod in m.group(1).split():
                p = mod.replace('.', '/') + '.v'
                if os.path.exists(os.path.join(COQ, p)) and p not in out:
                    out.append(p)
        return out

    def coq_fresh(self, f, deps):
        vo = os.path.join(COQ, f[:-2] + '.vo')
        if not os.path.exists(vo):
            return False
        t = os.path.getmtime(vo)
        if t < os.path.getmtime(os.path.join(COQ, f)):
            return False
        for d in deps:
            dvo = os.path.join(COQ, d[:-2] + '.vo')
            if not os.path.exists(dvo) or os.path.getmtime(dvo) > t:
                return False
        return True

    def coq_compile_one(self, f, deps, timeout):
        """Compile f if stale, under a per-file lock.  Returns (ok, log)."""
        lockname = 'coq-' + f.replace('/', '_')
        with Lock(lockname):
            if self.coq_fresh(f, deps):
                return True, ''
            vo = os.path.join(COQ, f[:-2] + '.vo')
            try:
                os.remove(vo)
            except OSError:
                pass
            rc, out = run(['coqc'] + self.COQ_FLAGS + [f], cwd=COQ, timeout=timeout)
            if rc != 0:
                try:
                    os.remove(vo)
                except OSError:
                    pass
            return rc == 0, out

    def coq_build(self, files, timeout=1500, jobs=12):
        """Build the given .v files (paths relative to coq/) and everything they depend on.
        Returns (ok, log, failed_files)."""
        import concurrent.futures as cf
        deps = {}
        todo = list(files)
        while todo:
            f = todo.pop()
            if f in deps:
                continue
            deps[f] = self.coq_deps(f)
            todo += deps[f]
        done = {}
        log = []
        t_end = time.time() + timeout
        with cf.ThreadPoolExecutor(max_workers=jobs) as ex:
            running = {}
            while len(done) < len(deps):
                for f in deps:
                    if f in done or f in running:
                        continue
                    if any(done.get(d) is False for d in deps[f]):
                        done[f] = False
                        log.append("%s: skipped (a dependency failed)" % f)
                        continue
                    if all(done.get(d) for d in deps[f]):
                        running[f] = ex.submit(self.coq_compile_one, f, deps[f], max(30, t_end - time.time()))
                if not running:
                    if len(done) < len(deps):
                        continue
                    break
                fin, _ = cf.wait(list(running.values()), return_when=cf.FIRST_COMPLETED)
                for f in [k for k, v in running.items() if v in fin]:
                    ok, out = running.pop(f).result()
                    done[f] = ok
                    if not ok:
                        log.append("%s:\n%s" % (f, out[-3000:]))
        failed = [f for f in deps if not done.get(f)]
        return not failed, "\n".join(log), failed

    def coq_closure(self, vfile):
        """RV-internal dependency closure of a .v file (relative to coq/)."""
        seen = []
        todo = [vfile]
        while todo:
            f = todo.pop()
            if f in seen:
                continue
            seen.append(f)
            todo += self.coq_deps(f)
        return seen

    def coq_props(self, pid=None, extra_targets=()):
        """Build Props/<pid>.v and its closure, audit it.  Returns dict(ok, failed_files, log, theorems)."""
        pid = pid or self.pid
        pv = 'Props/%s.v' % pid
        closure = self.coq_closure(pv)
        # audit sources
        bad = []
        for f in closure:
            src = open(os.path.join(COQ, f)).read()
            src_nc = re.sub(r"\(\*.*?\*\)", "", src, flags=re.S)
            for m in FORBIDDEN_RE.finditer(src_nc):
                bad.append("%s: forbidden token %s" % (f, m.group(1)))
        ok, log, failed = self.coq_build([f for f in closure if f != pv] + list(extra_targets))
        theorems = []
        axioms = {}
        plog = ''
        if not failed:
            with Lock('coq-' + pv.replace('/', '_')):
                rc, plog = run(['coqc'] + self.COQ_FLAGS + [pv], cwd=COQ, timeout=900)
            if rc != 0:
                failed.append(pv)
            else:
                src = open(os.path.join(COQ, pv)).read()
                theorems = re.findall(r"^(?:Theorem|Example|Lemma)\s+(\w+)", src, re.M)
                printed = re.findall(r"^Print Assumptions\s+(\w+)\.", src, re.M)
                blocks = re.split(r"(?m)^(?=Closed under the global context|Axioms:)", plog)
                blocks = [b for b in blocks if b.startswith('Closed') or b.startswith('Axioms:')]
                if len(blocks) != len(printed):
                    bad.append("%s: %d Print Assumptions commands but %d result blocks" % (pv, len(printed), len(blocks)))
                for name, b in zip(printed, blocks):
                    if b.startswith('Closed'):
                        axioms[name] = []
                    else:
                        names = []
                        for line in b.splitlines()[1:]:
                            mm = re.match(r"^([A-Za-z_][\w.']*)", line)   # axiom names start in column 0
                            if mm:
                                names.append(mm.group(1))
                        axioms[name] = names
                        allowed_last = {x.split('.')[-1] for x in ALLOWED_AXIOMS}
                        for a in names:
                            if a.split('.')[-1] not in allowed_last:
                                bad.append("%s: theorem %s depends on non-allowlisted axiom %s" % (pv, name, a))
                missing = [t for t in re.findall(r"^Theorem\s+(\w+)", src, re.M) if t not in printed]
                for t in missing:
                    bad.append("%s: theorem %s has no Print Assumptions" % (pv, t))
        # obligations: Qed-closed statements in the closure
        obl = 0
        dis = 0
        for f in closure:
            src = open(os.path.join(COQ, f)).read()
            src_nc = re.sub(r"\(\*.*?\*\)", "", src, flags=re.S)
            n = len(re.findall(r"\bQed\s*\.", src_nc)) + len(re.findall(r"\bDefined\s*\.", src_nc))
            obl += n
            if f not in failed:
                dis += n
        self.cov['obligations'] += obl
        self.cov['discharged'] += dis
        self.cov['checker_cmd'] = "coqc -Q coq RV <each file of the closure of Props/%s.v, rebuilt when stale> ; coqc coq/Props/%s.v (Print Assumptions audited)" % (pid, pid)
        self.cov.setdefault('theorems', [])
        self.cov['theorems'] += theorems
        self.cov.setdefault('axioms_used', {}).update({k: v for k, v in axioms.items() if v})
        self.cov.setdefault('coq_files', [])
        self.cov['coq_files'] += closure
        res = dict(ok=(not failed and not bad), failed=failed, audit=bad, log=log + '\n' + plog, theorems=theorems)
        if failed:
            self.log("Coq files that no longer check: %s" % failed)
            tail = [l for l in (log + '\n' + plog).splitlines() if l.strip()][-25:]
            self.log("\n".join(tail))
        for b in bad:
            self.log("audit: " + b)
        return res

    def coqchk(self, pid=None, timeout=1500):
        """Thorough tier: re-check the compiled closure of Props/<pid>.vo with the independent checker and
        audit the axioms it reports.  Returns True if fine."""
        pid = pid or self.pid
        if True:
            rc, out = run(['coqchk', '-o', '-silent', '-Q', '.', 'RV', 'RV.Props.%s' % pid], cwd=COQ, timeout=timeout)
        ok = rc == 0
        m = re.search(r"\* Axioms:(.*?)\n\s*\n\* Constants/Inductives relying on type-in-type:(.*?)\n\s*\n"
                      r"\* Constants/Inductives relying on unsafe \(co\)fixpoints:(.*?)\n\s*\n"
                      r"\* Inductives whose positivity is assumed:(.*?)\n", out, re.S)
        axioms = []
        if not m:
            ok = False
        else:
            ax = m.group(1).strip()
            if ax != '<none>':
                axioms = [a.strip() for a in ax.splitlines() if a.strip()]
                for a in axioms:
                    short = a.split()[0]
                    if not any(short.endswith(x) or x.endswith(short) for x in ALLOWED_AXIOMS) \
                            and not any(x.split('.')[-1] == short.split('.')[-1] for x in ALLOWED_AXIOMS):
                        ok = False
                        self.log("coqchk: non-allowlisted axiom %s" % a)
            for g in (2, 3, 4):
                if m.group(g).strip() != '<none>':
                    ok = False
                    self.log("coqchk: unsafe feature in use: %s" % m.group(g).strip())
        self.cov['coqchk'] = dict(ok=ok, axioms=axioms)
        if not ok:
            self.log("coqchk output tail:\n" + out[-1500:])
        return ok

    def coq_eval(self, name, body, imports, timeout=600):
        """Evaluate `body` (vernacular) in a scratch file; returns (rc, stdout)."""
        path = os.path.join(self.workdir, name + '.v')
        # a time limit is meant for an idle 16-core machine: stretch it (at most 4x) when the machine is overloaded, so that
        # a slow evaluation under load is not reported as a broken correspondence
        try:
            timeout = int(timeout * min(4.0, max(1.0, os.getloadavg()[0] / 16.0)))
        except OSError:
            pass
        with open(path, 'w') as f:
            f.write("From RV Require Import %s.\n" % ' '.join(imports))
            f.write(body)
        rc, out = run(['coqc', '-noglob', '-Q', COQ, 'RV', '-w', '-notation-overridden', path],
                      cwd=self.workdir, timeout=timeout)
        for ext in ('.vo', '.vok', '.vos', '.glob'):
            try:
                os.remove(path[:-2] + ext)
            except OSError:
                pass
        return rc, out

    @staticmethod
    def parse_N_list(out):
        """Parse `= [a; b; ...] : list N` (or Z) printed by Eval."""
        m = re.search(r"=\s*\[(.*?)\]\s*:\s*list", out, re.S)
        if not m:
            return None
        body = m.group(1).strip()
        if not body:
            return []
        return [int(re.sub(r"%\w+", "", x).strip().strip('()')) for x in body.split(';')]

    # ---------------------------------------------------------------- harness
    def harness(self, profile='release'):
        """Build the harness against /repo's working tree.  Returns (binary path or None, log)."""
        lockp = os.path.join(HARNESS, 'Cargo.lock')
        if not os.path.exists(lockp):
            import shutil
            shutil.copy(os.path.join(REPO, 'Cargo.lock'), lockp)
        cmd = ['cargo', 'build', '--offline']
        if profile == 'release':
            cmd.append('--release')
        with Lock('cargo-' + profile):
            rc, out = run(cmd, cwd=HARNESS, timeout=1500,
                          env={'RUSTFLAGS': '--cfg %s -Awarnings' % GUARD, 'CARGO_TARGET_DIR': os.path.join(HARNESS, 'target')})
        binp = os.path.join(HARNESS, 'target', 'release' if profile == 'release' else 'debug', 'rvh')
        if rc != 0 or not os.path.exists(binp):
            self.log("harness build failed (%s):\n%s" % (profile, "\n".join(out.splitlines()[-30:])))
            return None, out
        return binp, out

    def rvh(self, binp, args, inp=None, timeout=600, cwd=None):
        return run([binp] + args, inp=inp, timeout=timeout, cwd=cwd or TESTS_DIR)

    def rvh_batch(self, binp, op, items, extra=(), per_item_timeout=20, chunk=None, jobs=16):
        """Run `rvh <op> extra...` over items (one per stdin line; one output line per item, prefixed
        by the item's index).  A worker that dies or hangs is restarted after the offending item, which
        is reported as {'crash': <kind>}.  Returns list aligned with items."""
        import concurrent.futures as cf
        n = len(items)
        results = [None] * n
        if n == 0:
            return results
        chunk = chunk or max(1, min(200, (n + jobs - 1) // jobs))
        chunks = [list(range(i, min(n, i + chunk))) for i in range(0, n, chunk)]

        def work(idxs):
            pos = 0
            while pos < len(idxs):
                cur = idxs[pos:]
                inp = "".join("%d\t%s\n" % (i, items[i]) for i in cur)
                e = dict(os.environ)
                e['VERIF_REPO'] = os.path.realpath(REPO)
                p = subprocess.Popen([binp, op] + list(extra), cwd=TESTS_DIR, stdin=subprocess.PIPE,
                                     stdout=subprocess.PIPE, stderr=subprocess.PIPE, env=e)
                try:
                    out, err = p.communicate(inp.encode(), timeout=per_item_timeout * len(cur) + 30)
                    rc = p.returncode
                    kind = 'exit%d' % rc
                except subprocess.TimeoutExpired:
                    p.kill()
                    out, err = p.communicate()
                    rc = -9
                    kind = 'timeout'
                done = 0
                for line in out.decode('utf-8', 'replace').splitlines():
                    if '\t' not in line:
                        continue
                    k, v = line.split('\t', 1)
                    try:
                        k = int(k)
                    except ValueError:
                        continue
                    if k in cur:
                        results[k] = v
                        done += 1
                if rc == 0 and done == len(cur):
                    return
                # the first item without a result is the culprit
                missing = [i for i in cur if results[i] is None]
                if not missing:
                    return
                bad = missing[0]
                if rc == 0:
                    results[bad] = json.dumps({'crash': 'no-output'})
                else:
                    if rc < 0 and kind != 'timeout':
                        kind = 'signal%d' % (-rc)
                    tail = err.decode('utf-8', 'replace').strip().splitlines()[-3:]
                    results[bad] = json.dumps({'crash': kind, 'stderr': " | ".join(tail)[-400:]})
                pos = idxs.index(bad) + 1
                # keep results of items after `bad` that the dead worker may not have reached: rerun them
                for i in idxs[pos:]:
                    results[i] = None

        with cf.ThreadPoolExecutor(max_workers=jobs) as ex:
            list(ex.map(work, chunks))
        return results

    # ---------------------------------------------------------------- verdicts
    def note_case(self, key, nontrivial=True):
        self.cov['evaluations'] += 1
        if nontrivial:
            self.distinct.add(key if isinstance(key, (str, int)) else json.dumps(key, sort_keys=True))

    def add_sample(self, s, limit=6):
        if len(self.cov['samples']) < limit:
            self.cov['samples'].append(s)

    def violation(self, text, replay, found_input=True):
        """Record a violation.  `replay` is a JSON-serialisable description of the failing input (or of the
        theorem / correspondence that no longer checks)."""
        h = hashlib.sha256(json.dumps(replay, sort_keys=True, default=str).encode()).hexdigest()[:12]
        path = os.path.join(EVID, 'replay', '%s-%s.json' % (self.pid, h))
        with open(path, 'w') as f:
            json.dump(dict(property=self.pid, what=text, found_input=found_input, replay=replay,
                           seed=self.seed, tier=self.tier), f, indent=1, default=str)
        self.violations.append((text, path, found_input))
        self.log("VIOLATION candidate: %s" % text)

    def known_or_violation(self, cls, text, replay):
        """A failing input that belongs to known class `cls` is a KNOWN-FINDING if listed, else a violation."""
        for k in self.known:
            if k['class'] == cls:
                if cls not in [c for c, _ in self.known_hits]:
                    self.known_hits.append((cls, k['text']))
                return True
        self.violation(text, replay)
        return False

    def finish(self, extra_cov=None):
        self.cov['distinct_nontrivial'] = len(self.distinct)
        if extra_cov:
            self.cov.update(extra_cov)
        if not self.cov['samples']:
            self.cov['samples'] = self.cov.get('theorems', [])[:5] or ['(none)']
        ev = dict(property_id=self.pid, tier=self.tier, seed=self.seed, level='proof', coverage=self.cov,
                  assumptions=self.assumptions, wall_s=round(time.time() - self.t0, 2),
                  violations=len(self.violations))
        with open(os.path.join(EVID, self.pid + '.json'), 'w') as f:
            json.dump(ev, f, indent=1, default=str)
        for cls, text in self.known_hits:
            print("KNOWN-FINDING: property=%s %s [class=%s]" % (self.pid, text, cls))
        for k in self.known:
            if k['class'] not in [c for c, _ in self.known_hits]:
                # listed findings are always announced on the unchanged tree (the witness lemma in Coq
                # re-proves them); announce even if this run's sampling did not hit the class
                print("KNOWN-FINDING: property=%s %s [class=%s]" % (self.pid, k['text'], k['class']))
        if self.violations:
            for text, path, found in self.violations:
                print("VIOLATION property=%s replay=%s %s%s" % (self.pid, path, text.replace('\n', ' ')[:300],
                                                                 '' if found else ' no-failing-input-found'))
            return 1
        self.log("OK (%d obligations, %d evaluations, %.0fs)" % (self.cov['obligations'], self.cov['evaluations'],
                                                               time.time() - self.t0))
        return 0


def generic_replay(ctx, path):
    """Re-run a recorded failing input: prints the record and, when it carries documents, what the
    implementation does with them now."""
    r = json.load(open(path))
    print(json.dumps({k: v for k, v in r.items() if k != 'replay'}, indent=1))
    rep = r.get('replay', {})
    print(json.dumps(rep, indent=1, default=str)[:4000])
    docs = [(k, v) for k, v in rep.items() if isinstance(v, str) and v.lstrip().startswith('<') and 'svg' in v[:400]]
    if docs:
        binp, _ = ctx.harness('release')
        if binp:
            outs = ctx.rvh_batch(binp, 'dump', ["%s\t%s" % (rep.get('opts', '-'), d.replace('\n', ' ')) for _, d in docs])
            for (k, _), o in zip(docs, outs):
                print("---- %s -> %s" % (k, (o or '')[:600]))
    return 0


def load_known(pid):
    out = []
    p = os.path.join(VERIF, 'known_findings.txt')
    if not os.path.exists(p):
        return out
    for line in open(p):
        line = line.strip()
        m = re.match(r"known:\s+property=(\w+)\s+class=(\S+)\s+(.*)", line)
        if m and m.group(1) == pid:
            out.append({'class': m.group(2), 'text': m.group(3)})
    return out


BASE_TRUSTED = [
    "Coq 8.16.1 kernel (coqc); vm_compute for finite enumerations and witness lemmas; no native_compute",
    "tools/translate.py + tools/rs2coq.py (source -> Gallina transcription)",
    "harness/ (Rust driver) and tools/ (generators, differ, tolerances)",
    "f32 rounding of finite values is idealised as exact rational arithmetic in Q-modelled functions",
]
