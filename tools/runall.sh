#!/bin/bash
cd /verif
for p in "$@"; do
  s=$(date +%s)
  out=$(./check $p 2>&1)
  rc=$?
  e=$(( $(date +%s) - s ))
  nv=$(echo "$out" | grep -c "^VIOLATION ")
  echo "$p rc=$rc viol=$nv ${e}s"
  if [ $rc -ne 0 ]; then echo "$out" | grep "^VIOLATION " | head -3 | cut -c1-260; fi
done
