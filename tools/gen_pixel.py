"""Translator plug-in for the pixel family (C16, C15).

Generates coq/Gen/PixelTables.v from the CURRENT source of
  crates/resvg/src/filter/mod.rs            the two sRGB lookup tables, multiply_alpha, demultiply_alpha,
                                            f32_bound, into_linear_rgb/from_linear_rgb (which table, which
                                            channel), the step order of into_srgb / into_linear_rgb /
                                            apply_color_matrix / apply_component_transfer / apply_turbulence
  crates/resvg/src/filter/color_matrix.rs   to_normalized_components, from_normalized, the Matrix rows,
                                            the Saturate coefficients and rows, LuminanceToAlpha
  crates/resvg/src/filter/component_transfer.rs   channel wiring of `apply`, the arithmetic of `transfer`
  crates/resvg/src/filter/composite.rs      the `calc` closure and the store expressions of `arithmetic`
  crates/resvg/src/clip.rs / mask.rs        blend modes and call order (for C15)

Every arithmetic expression is translated token by token into exact binary32 operations
(Model/F32.v), so an edited table entry, a changed `+ 0.5`, a dropped multiply or a swapped channel
changes the Coq definitions the theorems are stated over.  Anything that does not match the
expected shape is reported as a broken tie (never a silent default).
"""
import re
from fractions import Fraction

PROPS = ['C16', 'C15']


class Bad(Exception):
    pass


# ------------------------------------------------------------------------------------------------
# tiny f32 expression translator
# ------------------------------------------------------------------------------------------------
TOK = re.compile(r"""\s*(?:
    (?P<num>\d[\d_]*\.\d*(?:[eE][+-]?\d+)?(?:_?f32)?|\d[\d_]*(?:_?f32)?)
  | (?P<id>[A-Za-z_]\w*(?:\.[A-Za-z_]\w*)*)
  | (?P<op>[-+*/()\[\],])
)""", re.X)


def tokenize(s):
    out = []
    pos = 0
    s = s.strip()
    while pos < len(s):
        m = TOK.match(s, pos)
        if not m or m.end() == pos:
            raise Bad("cannot tokenize %r" % s[pos:pos + 25])
        pos = m.end()
        out.append((m.lastgroup, m.group(m.lastgroup)))
    out.append(('eof', ''))
    return out


def lit(text):
    t = text.replace('_', '')
    t = re.sub(r"f32$", "", t)
    fr = Fraction(t)
    if fr.numerator >= 1 << 24 or fr.denominator >= 1 << 24:
        raise Bad("literal %s is not a quotient of two integers below 2^24" % text)
    return "(flit %d %d)" % (fr.numerator, fr.denominator)


class P:
    """env: name -> (coq term, 'f32' | 'int');  lists: name -> coq list of f32 (indexable)"""

    def __init__(self, text, env, lists=None, funs=None):
        self.t = tokenize(text)
        self.i = 0
        self.env = env
        self.lists = lists or {}
        self.funs = funs or {}

    def peek(self):
        return self.t[self.i]

    def take(self, kind=None, val=None):
        k, v = self.t[self.i]
        if (kind and k != kind) or (val is not None and v != val):
            raise Bad("expected %s %s, got %r" % (kind, val, v))
        self.i += 1
        return v

    def parse(self):
        r = self.expr()
        if self.peek()[0] != 'eof':
            raise Bad("trailing tokens from %r" % (self.peek()[1],))
        return r

    def expr(self):
        a, ta = self.term()
        while self.peek() in (('op', '+'), ('op', '-')):
            op = self.take()
            b, tb = self.term()
            if ta != 'f32' or tb != 'f32':
                raise Bad("non-f32 operand of %s" % op)
            a = "(%s %s %s)" % ('fadd' if op == '+' else 'fsub', a, b)
        return a, ta

    def term(self):
        a, ta = self.cast()
        while self.peek() in (('op', '*'), ('op', '/')):
            op = self.take()
            b, tb = self.cast()
            if ta != 'f32' or tb != 'f32':
                raise Bad("non-f32 operand of %s" % op)
            a = "(%s %s %s)" % ('fmul' if op == '*' else 'fdiv', a, b)
        return a, ta

    def cast(self):
        a, ta = self.atom()
        while self.peek() == ('id', 'as'):
            self.take()
            ty = self.take('id')
            if ty == 'f32' and ta == 'int':
                a, ta = "(of_Z %s)" % a, 'f32'
            elif ty == 'u8' and ta == 'f32':
                a, ta = "(to_u8 %s)" % a, 'int'
            elif ty == 'usize' and ta == 'f32':
                a, ta = "(to_usize %s)" % a, 'int'
            else:
                raise Bad("unsupported cast %s as %s" % (ta, ty))
        return a, ta

    def atom(self):
        k, v = self.peek()
        if k == 'num':
            self.take()
            if '.' not in v and not v.endswith('f32'):
                raise Bad("integer literal %s in f32 expression" % v)
            return lit(v), 'f32'
        if k == 'op' and v == '(':
            self.take()
            r = self.expr()
            self.take('op', ')')
            return r
        if k == 'op' and v == '-':
            self.take()
            a, ta = self.cast()
            if ta != 'f32':
                raise Bad("negated non-f32")
            return "(fsub (flit 0 1) %s)" % a, 'f32'   # only used on literals; -x = 0 - x up to the sign of zero
        if k == 'id':
            self.take()
            if self.peek() == ('op', '('):
                if v not in self.funs:
                    raise Bad("call of unknown function %s" % v)
                self.take()
                args = []
                if self.peek() != ('op', ')'):
                    while True:
                        a, ta = self.expr()
                        if ta != 'f32':
                            raise Bad("non-f32 argument")
                        args.append(a)
                        if self.peek() == ('op', ','):
                            self.take()
                            continue
                        break
                self.take('op', ')')
                name, arity = self.funs[v]
                if arity != len(args):
                    raise Bad("%s called with %d arguments" % (v, len(args)))
                return "(%s %s)" % (name, " ".join(args)), 'f32'
            if self.peek() == ('op', '['):
                if v not in self.lists:
                    raise Bad("indexing unknown array %s" % v)
                self.take()
                k2, idx = self.peek()
                if k2 != 'num' or not idx.isdigit():
                    raise Bad("non-literal index into %s" % v)
                self.take()
                self.take('op', ']')
                return "(nth %s %s fzero)" % (idx, self.lists[v]), 'f32'
            if v not in self.env:
                raise Bad("unknown identifier %s" % v)
            return self.env[v]
        raise Bad("unexpected token %r" % v)


def fx(text, env, lists=None, funs=None, want='f32'):
    r, t = P(text, env, lists, funs).parse()
    if t != want:
        raise Bad("expression %r has type %s, expected %s" % (text, t, want))
    return r


CMP = {'>': 'fgt', '<': 'flt', '>=': 'fge', '<=': 'fle'}


def if_chain(text, env):
    """`if a OP b { e } else if ... else { e }` over f32 -> nested Gallina if."""
    text = text.strip()
    m = re.match(r"if\s+(.+?)\s*(>=|<=|>|<)\s*(.+?)\s*\{([^{}]*)\}\s*else\s*(.*)$", text, re.S)
    if m:
        a, op, b, then, rest = m.groups()
        rest = rest.strip()
        if rest.startswith('{') and rest.endswith('}') and not rest.startswith('{if'):
            els = if_chain(rest[1:-1], env) if rest[1:-1].strip().startswith('if') else fx(rest[1:-1], env)
        else:
            els = if_chain(rest, env)
        return "(if %s %s %s then %s else %s)" % (CMP[op], fx(a, env), fx(b, env), fx(then, env), els)
    return fx(text, env)


def body_of(src, fn, after=None):
    from rs2coq import find_fn, Unsupported
    try:
        return find_fn(src, fn, after)[2]
    except Unsupported as e:
        raise Bad(str(e))


def strip_comments(s):
    return re.sub(r"//[^\n]*", "", s)


def table(src, name):
    m = re.search(r"const\s+%s\s*:\s*&\[u8;\s*256\]\s*=\s*&\[(.*?)\];" % name, src, re.S)
    if not m:
        raise Bad("table %s not found" % name)
    vals = [int(x) for x in re.findall(r"\d+", strip_comments(m.group(1)))]
    if len(vals) != 256 or any(v > 255 for v in vals):
        raise Bad("table %s has %d entries" % (name, len(vals)))
    return vals


def zlist(vals, per=16):
    rows = []
    for i in range(0, len(vals), per):
        rows.append("  " + "; ".join("%d" % v for v in vals[i:i + per]))
    return "[\n" + ";\n".join(rows) + "\n]"


def stmts(body):
    """top-level `;`-separated statements of a `{ ... }` block (no nesting analysis beyond braces)."""
    b = strip_comments(body).strip()
    assert b[0] == '{' and b[-1] == '}'
    b = b[1:-1]
    out = []
    depth = 0
    cur = ''
    for ch in b:
        if ch in '{([':
            depth += 1
        elif ch in '})]':
            depth -= 1
        if ch == ';' and depth == 0:
            out.append(cur.strip())
            cur = ''
        else:
            cur += ch
    if cur.strip():
        out.append(cur.strip())
    return out


def same_for_channels(exprs, what):
    """exprs: {channel: text using p.<channel>}; all must be the same expression up to the channel name."""
    norm = set()
    for ch, e in exprs.items():
        if re.search(r"\b(p|pixel)\.%s\b" % ch, e) is None:
            raise Bad("%s: the expression for channel %s does not read that channel: %s" % (what, ch, e))
        others = [c for c in 'rgba' if c != ch and re.search(r"\b(p|pixel)\.%s\b" % c, e)]
        if ch != 'a' and [c for c in others if c != 'a']:
            raise Bad("%s: the expression for channel %s reads channel %s" % (what, ch, others))
        norm.add(re.sub(r"\s+", "", re.sub(r"\b(p|pixel)\.%s\b" % ch, "p.CH", e)))
    if len(norm) != 1:
        raise Bad("%s: channels are computed by different expressions: %s" % (what, sorted(norm)))


def gen_alpha_fn(src, fn):
    """multiply_alpha / demultiply_alpha:  for p in data { let a = E0; p.b = E; p.g = E; p.r = E; }"""
    body = body_of(src, fn)
    m = re.search(r"for\s+p\s+in\s+data\s*(\{.*\})\s*\}\s*$", strip_comments(body), re.S)
    if not m:
        raise Bad("%s: loop `for p in data` not found" % fn)
    ss = stmts(m.group(1))
    if not ss or not re.match(r"let\s+a\s*=", ss[0]):
        raise Bad("%s: first statement is not `let a = ...`" % fn)
    a_expr = re.sub(r"^let\s+a\s*=", "", ss[0])
    chans = {}
    for s in ss[1:]:
        mm = re.match(r"p\.([rgba])\s*=\s*(.*)$", s, re.S)
        if not mm:
            raise Bad("%s: unexpected statement %r" % (fn, s))
        if mm.group(1) in chans:
            raise Bad("%s: channel %s assigned twice" % (fn, mm.group(1)))
        chans[mm.group(1)] = mm.group(2)
    if sorted(chans) != ['b', 'g', 'r']:
        raise Bad("%s: assigns channels %s, expected exactly r, g, b" % (fn, sorted(chans)))
    same_for_channels(chans, fn)
    a_coq = fx(a_expr, {'p.a': ('pa', 'int')})
    ch_coq = fx(chans['r'], {'p.r': ('pc', 'int'), 'a': ('a', 'f32')}, want='int')
    return ("(* filter/mod.rs :: %s   let a =%s;   p.r = %s; *)\n"
            "Definition %s_a (pa : Z) : f32 := %s.\n"
            "Definition %s_ch (pc : Z) (a : f32) : Z := %s.\n"
            % (fn, a_expr, chans['r'].strip(), fn, a_coq, fn, ch_coq))


def gen_lut_fn(src, fn):
    # the free function `fn <name>(data: &mut [RGBA8])`, not the PixmapExt method of the same name
    m = re.search(r"\bfn\s+%s\s*\(\s*data\s*:" % fn, src)
    if not m:
        raise Bad("free fn %s(data: ..) not found" % fn)
    body = strip_comments(body_of(src[m.start():], fn))
    ms = re.findall(r"p\.([rgb])\s*=\s*(\w+)\[p\.([rgb])\s+as\s+usize\]\s*;", body)
    if sorted(m[0] for m in ms) != ['b', 'g', 'r'] or any(m[0] != m[2] for m in ms) or len(set(m[1] for m in ms)) != 1:
        raise Bad("%s: expected p.c = TABLE[p.c as usize] for c in r, g, b with one table; got %r" % (fn, ms))
    if len(re.findall(r"=", body)) != 3:
        raise Bad("%s: unexpected extra assignments" % fn)
    return "(* filter/mod.rs :: %s *)\nDefinition %s_ch (c : Z) : Z := nthZ %s c 0.\n" % (fn, fn, ms[0][1])


STEP_NAMES = {
    'demultiply_alpha': 'StDemul', 'multiply_alpha': 'StMul', 'from_linear_rgb': 'StFromLinear',
    'into_linear_rgb': 'StIntoLinear', 'color_matrix::apply': 'StKernel', 'component_transfer::apply': 'StKernel',
    'turbulence::apply': 'StKernel', 'convolve_matrix::apply': 'StKernel',
}


def gen_steps(src, fn, coq_name, after=None, allowed=None):
    body = strip_comments(body_of(src, fn, after))
    calls = re.findall(r"(?<![\w.])((?:\w+::)?\w+)\s*\(", body)
    steps = [STEP_NAMES[c] for c in calls if c in STEP_NAMES and (allowed is None or c in allowed)]
    if not steps:
        raise Bad("%s: no pixel steps found" % fn)
    return "(* filter/mod.rs :: %s: order of the per-pixel passes *)\nDefinition %s : list step := [%s].\n" % (
        fn, coq_name, "; ".join(steps))


def generate(api):
    out = [api.HEADER,
           "From RV Require Import Model.F32.\nLocal Open Scope Z_scope.\n",
           "Inductive step := StDemul | StMul | StFromLinear | StIntoLinear | StKernel.\n"]
    # clip.rs / mask.rs / render_group go to their own file: C15's closure does not depend on the filter kernels
    out_clip = [api.HEADER, "From RV Require Import Model.F32.\nLocal Open Scope Z_scope.\n"]
    ok = True

    def section(name, f, props=('C16',), dest=None):
        nonlocal ok
        try:
            (out if dest is None else dest).append(f())
            api.ok('tables', name, props=list(props))
        except (Bad, OSError, ValueError, KeyError, IndexError, AssertionError) as e:
            ok = False
            api.broken('pixel', name, list(props), e)

    try:
        mod = api.rd('crates/resvg/src/filter/mod.rs')
        cm = api.rd('crates/resvg/src/filter/color_matrix.rs')
        ct = api.rd('crates/resvg/src/filter/component_transfer.rs')
        comp = api.rd('crates/resvg/src/filter/composite.rs')
    except OSError as e:
        api.broken('pixel', 'sources', PROPS, e)
        return

    for t in ('SRGB_TO_LINEAR_RGB_TABLE', 'LINEAR_RGB_TO_SRGB_TABLE'):
        section(t, lambda t=t: "(* filter/mod.rs :: %s *)\nDefinition %s : list Z := %s.\n" % (t, t, zlist(table(mod, t))))
    section('multiply_alpha', lambda: gen_alpha_fn(mod, 'multiply_alpha'))
    section('demultiply_alpha', lambda: gen_alpha_fn(mod, 'demultiply_alpha'))
    section('into_linear_rgb', lambda: gen_lut_fn(mod, 'into_linear_rgb').replace('into_linear_rgb_ch', 'lut_into_linear_ch'))
    section('from_linear_rgb', lambda: gen_lut_fn(mod, 'from_linear_rgb').replace('from_linear_rgb_ch', 'lut_from_linear_ch'))

    def f32_bound():
        body = strip_comments(body_of(mod, 'f32_bound'))
        body = re.sub(r"debug_assert!\([^;]*\);", "", body).strip()
        assert body[0] == '{' and body[-1] == '}'
        e = if_chain(body[1:-1], {'min': ('min', 'f32'), 'val': ('val', 'f32'), 'max': ('max', 'f32')})
        return "(* filter/mod.rs :: f32_bound *)\nDefinition f32_bound (min val max : f32) : f32 :=\n  %s.\n" % e
    section('f32_bound', f32_bound)

    section('into_srgb', lambda: gen_steps(mod, 'into_srgb', 'into_srgb_steps', after=r"impl\s+PixmapExt\s+for"))
    section('into_linear_rgb_steps', lambda: gen_steps(mod, 'into_linear_rgb', 'into_linear_rgb_steps', after=r"impl\s+PixmapExt\s+for"))
    section('apply_color_matrix', lambda: gen_steps(mod, 'apply_color_matrix', 'apply_color_matrix_steps'))
    section('apply_component_transfer', lambda: gen_steps(mod, 'apply_component_transfer', 'apply_component_transfer_steps'))
    section('apply_turbulence', lambda: gen_steps(mod, 'apply_turbulence', 'apply_turbulence_steps'))

    funs = {'f32_bound': ('f32_bound', 3)}

    # ---------------------------------------------------------------- color_matrix.rs
    def cm_norm():
        body = strip_comments(body_of(cm, 'to_normalized_components'))
        es = re.findall(r"pixel\.([rgba])\s+as\s+f32\s*/\s*([\d.]+)\s*,", body)
        if [e[0] for e in es] != ['r', 'g', 'b', 'a'] or len(set(e[1] for e in es)) != 1:
            raise Bad("to_normalized_components: expected (r, g, b, a) each `as f32 / K`: %r" % es)
        e = fx("c as f32 / %s" % es[0][1], {'c': ('c', 'int')})
        return "(* color_matrix.rs :: to_normalized_components (per channel, order r g b a) *)\nDefinition cm_to_normalized (c : Z) : f32 := %s.\n" % e
    section('cm_to_normalized', cm_norm)

    def cm_from():
        body = strip_comments(body_of(cm, 'from_normalized')).strip()
        e = fx(body[1:-1], {'c': ('c', 'f32')}, funs=funs, want='int')
        return "(* color_matrix.rs :: from_normalized *)\nDefinition cm_from_normalized (c : f32) : Z := %s.\n" % e
    section('cm_from_normalized', cm_from)

    apply_cm = strip_comments(body_of(cm, 'apply'))

    def arm(name, nxt):
        m = re.search(r"ColorMatrix::%s(?:\([^)]*\))?\s*=>\s*\{(.*?)\}\s*ColorMatrix::%s" % (name, nxt), apply_cm, re.S) \
            if nxt else re.search(r"ColorMatrix::%s(?:\([^)]*\))?\s*=>\s*\{(.*)\}\s*\}\s*\}\s*$" % name, apply_cm, re.S)
        if not m:
            raise Bad("color_matrix::apply: arm %s not found" % name)
        return m.group(1)

    env4 = {k: (k, 'f32') for k in 'rgba'}

    def rows(text, names, lists, what):
        res = {}
        for n in names:
            m = re.search(r"let\s+new_%s\s*=\s*([^;]*);" % n, text)
            if not m:
                raise Bad("%s: `let new_%s = ...` not found" % (what, n))
            res[n] = fx(m.group(1), env4, lists=lists)
        stores = dict(re.findall(r"pixel\.([rgba])\s*=\s*from_normalized\(new_([rgba])\)\s*;", text))
        for n in names:
            if stores.get(n) != n:
                raise Bad("%s: pixel.%s is not stored from new_%s (%r)" % (what, n, n, stores))
        if len(re.findall(r"pixel\.[rgba]\s*=", text)) != len(names) + text.count('= 0;'):
            raise Bad("%s: unexpected pixel assignments" % what)
        return res

    def cm_matrix():
        t = arm('Matrix', 'Saturate')
        if not re.search(r"let\s*\(\s*r\s*,\s*g\s*,\s*b\s*,\s*a\s*\)\s*=\s*to_normalized_components\(\*pixel\)", t):
            raise Bad("Matrix arm: channel binding changed")
        r = rows(t, 'rgba', {'m': 'm'}, 'Matrix arm')
        return "(* color_matrix.rs :: apply, ColorMatrix::Matrix rows *)\n" + "".join(
            "Definition cm_matrix_%s (m : list f32) (r g b a : f32) : f32 :=\n  %s.\n" % (n, r[n]) for n in 'rgba')
    section('cm_matrix', cm_matrix)

    def cm_saturate():
        t = arm('Saturate', 'HueRotate')
        m = re.search(r"let\s+m\s*=\s*\[(.*?)\]\s*;", t, re.S)
        if not m:
            raise Bad("Saturate arm: coefficient array not found")
        if not re.search(r"let\s+v\s*=\s*v\.get\(\)\.max\(0\.0\)\s*;", t):
            raise Bad("Saturate arm: `let v = v.get().max(0.0)` changed")
        coefs = [c.strip() for c in m.group(1).split(',') if c.strip()]
        if len(coefs) != 9:
            raise Bad("Saturate arm: %d coefficients" % len(coefs))
        cs = [fx(c, {'v': ('v', 'f32')}) for c in coefs]
        if not re.search(r"let\s*\(\s*r\s*,\s*g\s*,\s*b\s*,\s*_\s*\)\s*=\s*to_normalized_components\(\*pixel\)", t):
            raise Bad("Saturate arm: channel binding changed")
        r = rows(t, 'rgb', {'m': 'm'}, 'Saturate arm')
        return ("(* color_matrix.rs :: apply, ColorMatrix::Saturate *)\n"
                "Definition cm_saturate_coefs (v : f32) : list f32 := [\n  %s\n].\n" % ";\n  ".join(cs) +
                "".join("Definition cm_saturate_%s (m : list f32) (r g b a : f32) : f32 :=\n  %s.\n" % (n, r[n]) for n in 'rgb'))
    section('cm_saturate', cm_saturate)

    def cm_hue():
        t = arm('HueRotate', 'LuminanceToAlpha')
        if not (re.search(r"let\s+angle\s*=\s*angle\.to_radians\(\)\s*;", t) and re.search(r"let\s+a1\s*=\s*angle\.cos\(\)\s*;", t)
                and re.search(r"let\s+a2\s*=\s*angle\.sin\(\)\s*;", t)):
            raise Bad("HueRotate arm: a1 = cos(angle in radians), a2 = sin(..) changed")
        m = re.search(r"let\s+m\s*=\s*\[(.*?)\]\s*;", t, re.S)
        if not m:
            raise Bad("HueRotate arm: coefficient array not found")
        coefs = [c.strip() for c in m.group(1).split(',') if c.strip()]
        if len(coefs) != 9:
            raise Bad("HueRotate arm: %d coefficients" % len(coefs))
        cs = [fx(c, {'a1': ('a1', 'f32'), 'a2': ('a2', 'f32')}) for c in coefs]
        if not re.search(r"let\s*\(\s*r\s*,\s*g\s*,\s*b\s*,\s*_\s*\)\s*=\s*to_normalized_components\(\*pixel\)", t):
            raise Bad("HueRotate arm: channel binding changed")
        r = rows(t, 'rgb', {'m': 'm'}, 'HueRotate arm')
        return ("(* color_matrix.rs :: apply, ColorMatrix::HueRotate; a1 = cos, a2 = sin of the angle in radians (libm, not modelled) *)\n"
                "Definition cm_hue_coefs (a1 a2 : f32) : list f32 := [\n  %s\n].\n" % ";\n  ".join(cs) +
                "".join("Definition cm_hue_%s (m : list f32) (r g b a : f32) : f32 :=\n  %s.\n" % (n, r[n]) for n in 'rgb'))
    section('cm_hue', cm_hue)

    def cm_lum():
        t = arm('LuminanceToAlpha', None)
        m = re.search(r"let\s+new_a\s*=\s*([^;]*);", t)
        if not m:
            raise Bad("LuminanceToAlpha: new_a not found")
        zero = sorted(re.findall(r"pixel\.([rgba])\s*=\s*0\s*;", t))
        if zero != ['b', 'g', 'r'] or not re.search(r"pixel\.a\s*=\s*from_normalized\(new_a\)", t):
            raise Bad("LuminanceToAlpha: stores changed")
        return ("(* color_matrix.rs :: apply, ColorMatrix::LuminanceToAlpha *)\n"
                "Definition cm_luminance_a (r g b a : f32) : f32 :=\n  %s.\n" % fx(m.group(1), env4))
    section('cm_luminance', cm_lum)

    # ---------------------------------------------------------------- component_transfer.rs
    def ct_wiring():
        body = strip_comments(body_of(ct, 'apply'))
        ms = re.findall(r"if\s+!is_dummy\(fe\.func_([rgba])\(\)\)\s*\{\s*pixel\.([rgba])\s*=\s*transfer\(fe\.func_([rgba])\(\),\s*pixel\.([rgba])\)\s*;\s*\}", body)
        if len(ms) != 4 or len(re.findall(r"pixel\.[rgba]\s*=", body)) != 4:
            raise Bad("component_transfer::apply: expected four guarded channel assignments, got %r" % ms)
        idx = {'r': 0, 'g': 1, 'b': 2, 'a': 3}
        return ("(* component_transfer.rs :: apply: (guard function, destination, function, source) per statement *)\n"
                "Definition ct_wiring : list (Z * Z * Z * Z) := [%s].\n"
                % "; ".join("(%d, %d, %d, %d)" % tuple(idx[c] for c in m) for m in ms))
    section('ct_wiring', ct_wiring)

    def ct_transfer():
        body = strip_comments(body_of(ct, 'transfer'))
        m0 = re.search(r"let\s+c\s*=\s*(c\s+as\s+f32[^;]*);", body)
        mlin = re.search(r"TransferFunction::Linear\s*\{\s*slope\s*,\s*intercept\s*\}\s*=>\s*([^,]*),", body)
        mtab = re.search(r"let\s+k\s*=\s*\((c\s*\*\s*\(n\s+as\s+f32\))\)\.floor\(\)\s+as\s+usize\s*;\s*let\s+k\s*=\s*std::cmp::min\(k,\s*n\)\s*;"
                         r"\s*if\s+k\s*==\s*n\s*\{\s*values\[k\]\s*\}\s*else\s*\{\s*let\s+vk\s*=\s*values\[k\]\s*;\s*let\s+vk1\s*=\s*values\[k\s*\+\s*1\]\s*;"
                         r"\s*let\s+k\s*=\s*k\s+as\s+f32\s*;\s*let\s+n\s*=\s*n\s+as\s+f32\s*;\s*([^;{}]*?)\s*\}", body, re.S)
        mn = re.search(r"TransferFunction::Table\(values\)\s*=>\s*\{\s*let\s+n\s*=\s*values\.len\(\)\s*-\s*1\s*;", body)
        mdis = re.search(r"TransferFunction::Discrete\(values\)\s*=>\s*\{\s*let\s+n\s*=\s*values\.len\(\)\s*;\s*let\s+k\s*=\s*\((c\s*\*\s*\(n\s+as\s+f32\))\)\.floor\(\)\s+as\s+usize\s*;"
                         r"\s*values\[std::cmp::min\(k,\s*n\s*-\s*1\)\]\s*\}", body, re.S)
        mfin = re.search(r"\}\s*;\s*(\(f32_bound\([^;]*as\s+u8)\s*\}\s*$", body, re.S)
        if not (m0 and mlin and mtab and mn and mdis and mfin):
            raise Bad("component_transfer::transfer: shape changed (%s)" % [bool(x) for x in (m0, mlin, mtab, mn, mdis, mfin)])
        return ("(* component_transfer.rs :: transfer *)\n"
                "Definition ct_to_f (c : Z) : f32 := %s.\n"
                "Definition ct_linear (slope intercept c : f32) : f32 := %s.\n"
                "(* Table: k = min (floor (c * n)) n with n = len - 1; k = n -> values[k]; else interpolation *)\n"
                "Definition ct_table_pos (c : f32) (n : Z) : Z := to_usize %s.\n"
                "Definition ct_table_interp (vk vk1 c k n : f32) : f32 := %s.\n"
                "(* Discrete: values[min (floor (c * n)) (n - 1)] with n = len *)\n"
                "Definition ct_discrete_pos (c : f32) (n : Z) : Z := to_usize %s.\n"
                "Definition ct_final (c : f32) : Z := %s.\n"
                % (fx(m0.group(1), {'c': ('c', 'int')}),
                   fx(mlin.group(1), {k: (k, 'f32') for k in ('slope', 'c', 'intercept')}),
                   fx(mtab.group(1), {'c': ('c', 'f32'), 'n': ('n', 'int')}),
                   fx(mtab.group(2), {k: (k, 'f32') for k in ('vk', 'vk1', 'c', 'k', 'n')}),
                   fx(mdis.group(1), {'c': ('c', 'f32'), 'n': ('n', 'int')}),
                   fx(mfin.group(1), {'c': ('c', 'f32')}, funs=funs, want='int')))
    section('ct_transfer', ct_transfer)

    # ---------------------------------------------------------------- composite.rs
    def arith():
        body = strip_comments(body_of(comp, 'arithmetic'))
        m = re.search(r"let\s+calc\s*=\s*\|i1,\s*i2,\s*max\|\s*\{\s*let\s+i1\s*=\s*(i1[^;]*);\s*let\s+i2\s*=\s*(i2[^;]*);"
                      r"\s*let\s+result\s*=\s*([^;]*);\s*(?:if\s+!result\.is_finite\(\)\s*\{\s*return\s+(if[^;]*);\s*\}\s*)?(f32_bound\([^;{}]*\))\s*\}\s*;", body, re.S)
        if not m:
            raise Bad("arithmetic: calc closure changed shape")
        n1 = fx(m.group(1), {'i1': ('i', 'int')})
        n2 = fx(m.group(2), {'i2': ('i', 'int')})
        if n1 != n2:
            raise Bad("arithmetic: i1 and i2 are normalised differently")
        envk = {k: (k, 'f32') for k in ('k1', 'k2', 'k3', 'k4', 'i1', 'i2')}
        res = fx(m.group(3), envk)
        benv = {'result': ('result', 'f32'), 'max': ('max', 'f32')}
        bound = fx(m.group(5), benv, funs=funs)
        if m.group(4):     # `if !result.is_finite() { return if result > 0.0 { max } else { 0.0 }; }`
            bound = "(if negb (ffinite result) then %s else %s)" % (if_chain(m.group(4), benv), bound)
        ma = re.search(r"let\s+a\s*=\s*calc\(c1\.a,\s*c2\.a,\s*([\d.]+)\)\s*;\s*if\s+a\.approx_zero_ulps\(4\)\s*\{\s*i\s*\+=\s*1;\s*continue;\s*\}", body)
        if not ma:
            raise Bad("arithmetic: alpha computation / zero test changed")
        st = {}
        for c in 'rgb':
            mc = re.search(r"let\s+%s\s*=\s*\(calc\(c1\.(\w),\s*c2\.(\w),\s*a\)\s*([^;]*?)\)\s*as\s+u8\s*;" % c, body)
            if not mc or mc.group(1) != c or mc.group(2) != c:
                raise Bad("arithmetic: channel %s is not calc(c1.%s, c2.%s, a)" % (c, c, c))
            st[c] = fx("(x %s) as u8" % mc.group(3), {'x': ('x', 'f32')}, want='int')
        if len(set(st.values())) != 1:
            raise Bad("arithmetic: channels stored differently")
        msa = re.search(r"let\s+a\s*=\s*(\(a[^;]*as\s+u8)\s*;", body)
        if not msa:
            raise Bad("arithmetic: alpha store changed")
        if not re.search(r"dest\.data\[i\]\s*=\s*RGBA8\s*\{\s*r,\s*g,\s*b,\s*a\s*\}", body):
            raise Bad("arithmetic: destination store changed")
        return ("(* composite.rs :: arithmetic *)\n"
                "Definition ar_norm (i : Z) : f32 := %s.\n"
                "Definition ar_result (k1 k2 k3 k4 i1 i2 : f32) : f32 :=\n  %s.\n"
                "Definition ar_bound (result max : f32) : f32 := %s.\n"
                "Definition ar_alpha_max : f32 := %s.\n"
                "Definition ar_store_c (x : f32) : Z := %s.\n"
                "Definition ar_store_a (a : f32) : Z := %s.\n"
                % (n1, res, bound, lit(ma.group(1)), st['r'], fx(msa.group(1), {'a': ('a', 'f32')}, want='int')))
    section('arithmetic', arith)

    # ---------------------------------------------------------------- convolve_matrix.rs (extension round 4)
    def convolve():
        cv = strip_comments(body_of(api.rd('crates/resvg/src/filter/convolve_matrix.rs'), 'apply'))
        sub = lambda t: t.replace('matrix.divisor().get()', 'divisor').replace('matrix.bias()', 'bias')
        inits = sorted(re.findall(r"let\s+mut\s+new_([rgba])\s*=\s*0\.0\s*;", cv))
        if inits != ['a', 'b', 'g', 'r']:
            raise Bad("convolve: accumulators are not all initialised with 0.0: %r" % inits)
        acc = {}
        for c in 'rgb':
            m = re.search(r"\bnew_%s\s*\+=\s*([^;]*);" % c, cv)
            if not m:
                raise Bad("convolve: accumulation of new_%s not found" % c)
            acc[c] = m.group(1)
        m = re.search(r"if\s+!matrix\.preserve_alpha\(\)\s*\{\s*new_a\s*\+=\s*([^;]*);\s*\}", cv)
        if not m:
            raise Bad("convolve: guarded accumulation of new_a not found")
        acc['a'] = m.group(1)
        if len(re.findall(r"new_[rgba]\s*\+=", cv)) != 4:
            raise Bad("convolve: unexpected accumulation statements")
        same_for_channels(acc, 'convolve accumulation')
        term = fx(acc['r'], {'p.r': ('c', 'int'), 'k': ('k', 'f32')})
        m = re.search(r"if\s+matrix\.preserve_alpha\(\)\s*\{\s*new_a\s*=\s*([^;]*);\s*\}\s*else\s*\{\s*new_a\s*=\s*([^;]*);\s*\}\s*"
                      r"let\s+bounded_new_a\s*=\s*([^;]*);", cv)
        if not m:
            raise Bad("convolve: computation of new_a / bounded_new_a changed shape")
        a_pres = fx(m.group(1), {'in_p.a': ('in_a', 'int')})
        a_plain = fx(sub(m.group(2)), {k: (k, 'f32') for k in ('new_a', 'divisor', 'bias')})
        bounded = fx(m.group(3), {'new_a': ('new_a', 'f32')}, funs=funs)
        m = re.search(r"let\s+calc\s*=\s*\|x\|\s*\{\s*let\s+x\s*=\s*([^;]*);\s*let\s+x\s*=\s*if\s+matrix\.preserve_alpha\(\)\s*\{([^{};]*)\}\s*else\s*\{([^{};]*)\}\s*;"
                      r"\s*(\([^;{}]*\)\s*as\s+u8)\s*\}\s*;", cv)
        if not m:
            raise Bad("convolve: calc closure changed shape")
        envx = {k: (k, 'f32') for k in ('x', 'divisor', 'bias', 'new_a', 'bounded_new_a')}
        cx = fx(sub(m.group(1)), envx)
        c_pres = fx(m.group(2), envx, funs=funs)
        c_plain = fx(m.group(3), envx, funs=funs)
        c_store = fx(m.group(4), envx, want='int')
        for c in 'rgb':
            if not re.search(r"out_p\.%s\s*=\s*calc\(new_%s\)\s*;" % (c, c), cv):
                raise Bad("convolve: out_p.%s is not calc(new_%s)" % (c, c))
        m = re.search(r"out_p\.a\s*=\s*(\([^;]*as\s+u8)\s*;", cv)
        if not m or len(re.findall(r"out_p\.[rgba]\s*=", cv)) != 4:
            raise Bad("convolve: stores changed")
        a_store = fx(m.group(1), {'bounded_new_a': ('bounded_new_a', 'f32')}, want='int')
        # filter/mod.rs :: apply_convolve_matrix: demultiply only under preserve_alpha, no multiply afterwards
        body = strip_comments(body_of(mod, 'apply_convolve_matrix'))
        calls = [c for c in re.findall(r"(?<![\w.])((?:\w+::)?\w+)\s*\(", body) if c in STEP_NAMES]
        if calls != ['demultiply_alpha', 'convolve_matrix::apply'] or not re.search(
                r"if\s+fe\.preserve_alpha\(\)\s*\{\s*demultiply_alpha\(pixmap\.data_mut\(\)\.as_rgba_mut\(\)\);\s*\}\s*convolve_matrix::apply\(", body):
            raise Bad("apply_convolve_matrix: pass order changed: %r" % calls)
        return ("(* convolve_matrix.rs :: apply (per output pixel; the window sums are folds of cv_term from 0.0) *)\n"
                "Definition cv_term (c : Z) (k : f32) : f32 := %s.\n"
                "Definition cv_alpha_preserve (in_a : Z) : f32 := %s.\n"
                "Definition cv_alpha_plain (new_a divisor bias : f32) : f32 := %s.\n"
                "Definition cv_bounded_a (new_a : f32) : f32 := %s.\n"
                "Definition cv_x (x divisor bias new_a : f32) : f32 := %s.\n"
                "Definition cv_calc_preserve (x bounded_new_a : f32) : f32 := %s.\n"
                "Definition cv_calc_plain (x bounded_new_a : f32) : f32 := %s.\n"
                "Definition cv_store (x : f32) : Z := %s.\n"
                "Definition cv_store_a (bounded_new_a : f32) : Z := %s.\n"
                "(* filter/mod.rs :: apply_convolve_matrix *)\n"
                "Definition apply_convolve_steps (preserve_alpha : bool) : list step := if preserve_alpha then [StDemul; StKernel] else [StKernel].\n"
                % (term, a_pres, a_plain, bounded, cx, c_pres, c_plain, c_store, a_store))
    section('convolve', convolve)

    # ---------------------------------------------------------------- early returns (identity primitives)
    def guard(text, names):
        """`a.approx_zero_ulps(4) && b.approx_eq_ulps(&0.0, 4)` -> Gallina bool over approx_zero4"""
        def atom(t):
            t = t.strip()
            m = re.match(r"^(\w+)\.approx_zero_ulps\(4\)$", t) or re.match(r"^(\w+)\.approx_eq_ulps\(&0\.0,\s*4\)$", t)
            if not m or m.group(1) not in names:
                raise Bad("unsupported guard atom %r" % t)
            return "approx_zero4 %s" % names[m.group(1)]
        ors = []
        for o in text.split('||'):
            ors.append("(" + " && ".join(atom(a) for a in o.split('&&')) + ")")
        return " || ".join(ors)

    def early():
        sc = strip_comments(body_of(mod, 'scale_coordinates'))
        m = re.search(r"Some\(\(\s*([^,]+),\s*([^)]+)\)\)", sc)
        if not m or not re.search(r"let\s*\(sx,\s*sy\)\s*=\s*ts\.get_scale\(\)", sc):
            raise Bad("scale_coordinates changed shape")
        env = {k: (k, 'f32') for k in ('x', 'y', 'sx', 'sy')}
        off = strip_comments(body_of(mod, 'apply_offset'))
        mo = re.search(r"let\s*\(dx,\s*dy\)\s*=\s*match\s+scale_coordinates\(fe\.dx\(\),\s*fe\.dy\(\),\s*ts\)\s*\{\s*Some\(v\)\s*=>\s*v,\s*None\s*=>\s*return\s+Ok\(input\),\s*\}\s*;"
                       r"\s*if\s+([^{}]*?)\s*\{\s*return\s+Ok\(input\);\s*\}", off, re.S)
        if not mo:
            raise Bad("apply_offset: early return not found")
        rs = strip_comments(body_of(mod, 'resolve_std_dev'))
        mr = re.search(r"let\s*\(mut\s+std_dx,\s*mut\s+std_dy\)\s*=\s*scale_coordinates\(std_dx,\s*std_dy,\s*ts\)\?\s*;"
                       r"\s*if\s+([^{}]*?)\s*\{\s*return\s+None;\s*\}", rs, re.S)
        bl = strip_comments(body_of(mod, 'apply_blur'))
        mb = re.search(r"match\s+resolve_std_dev\(fe\.std_dev_x\(\)\.get\(\),\s*fe\.std_dev_y\(\)\.get\(\),\s*ts\)\s*\{\s*Some\(v\)\s*=>\s*v,\s*None\s*=>\s*return\s+Ok\(input\),", bl, re.S)
        if not (mr and mb):
            raise Bad("resolve_std_dev / apply_blur: early return not found")
        return ("(* filter/mod.rs :: scale_coordinates, apply_offset, resolve_std_dev + apply_blur early returns *)\n"
                "Definition scale_coordinates (x y sx sy : f32) : f32 * f32 := (%s, %s).\n"
                "Definition offset_returns_input (dx dy : f32) : bool := %s.\n"
                "Definition blur_returns_input (std_dx std_dy : f32) : bool := %s.\n"
                % (fx(m.group(1), env), fx(m.group(2), env), guard(mo.group(1), {'dx': 'dx', 'dy': 'dy'}),
                   guard(mr.group(1), {'std_dx': 'std_dx', 'std_dy': 'std_dy'})))
    section('early_returns', early)

    # ---------------------------------------------------------------- clip.rs / mask.rs (C15)
    def clip_modes():
        clip = strip_comments(api.rd('crates/resvg/src/clip.rs'))
        ap = body_of(clip, 'apply')
        cg = body_of(clip, 'clip_group')
        fill = re.search(r"clip_pixmap\.fill\(tiny_skia::Color::(\w+)\)", ap)
        mode = re.search(r"draw_children\(\s*clip\.root\(\),\s*tiny_skia::BlendMode::(\w+),", ap)
        order = [m.group(0) for m in re.finditer(r"draw_children\(|apply\(clip, transform, pixmap\)|mask\.invert\(\)|pixmap\.apply_mask\(&mask\)|MaskType::\w+", ap)]
        gmode = re.search(r"draw_children\(\s*children,\s*tiny_skia::BlendMode::(\w+),", cg)
        gblend = re.search(r"paint\.blend_mode\s*=\s*tiny_skia::BlendMode::(\w+)\s*;", cg)
        gorder = [m.group(0) for m in re.finditer(r"draw_children\(|apply\(clip, transform, &mut clip_pixmap\)|draw_pixmap\(", cg)]
        if not (fill and mode and gmode and gblend):
            raise Bad("clip.rs: anchors not found")
        want = ['draw_children(', 'apply(clip, transform, pixmap)', 'MaskType::Alpha', 'mask.invert()', 'pixmap.apply_mask(&mask)']
        if order != want:
            raise Bad("clip::apply: order of operations changed: %r" % order)
        if gorder != ['draw_children(', 'apply(clip, transform, &mut clip_pixmap)', 'draw_pixmap(']:
            raise Bad("clip::clip_group: order of operations changed: %r" % gorder)
        # the flow of `mode` through draw_children: paths and text are filled with the caller's mode, plain nested groups recurse with the
        # SAME mode (the per-pixel model flattens them), groups with a clip-path go through clip_group
        dc = body_of(clip, 'draw_children')
        flow = (re.search(r"crate::path::fill_path\(path,\s*mode,", dc) is not None,
                re.search(r"draw_children\(text\.flattened\(\),\s*mode,\s*transform,\s*pixmap\)", dc) is not None,
                re.search(r"\}\s*else\s*\{\s*draw_children\(group,\s*mode,\s*transform,\s*pixmap\);\s*\}", dc) is not None,
                re.search(r"if\s+let\s+Some\(clip\)\s*=\s*group\.clip_path\(\)\s*\{\s*clip_group\(group,\s*clip,\s*transform,\s*pixmap\);", dc) is not None,
                len(re.findall(r"BlendMode::", dc)) == 0)
        return ("Inductive blend := BClear | BSourceOver | BXor | BOther.\n"
                "(* clip.rs :: apply / clip_group *)\n"
                "Definition clip_buffer_initial_opaque : bool := %s.\n"
                "Definition clip_children_mode : blend := %s.\n"
                "Definition clip_group_children_mode : blend := %s.\n"
                "Definition clip_group_merge_mode : blend := %s.\n"
                "(* clip.rs :: draw_children: paths / text / plain nested groups all use the caller's mode; clipped groups use clip_group; no literal mode *)\n"
                "Definition clip_mode_flows_unchanged : bool := %s.\n"
                % ('true' if fill.group(1) == 'BLACK' else 'false',
                   {'Clear': 'BClear', 'SourceOver': 'BSourceOver', 'Xor': 'BXor'}.get(mode.group(1), 'BOther'),
                   {'Clear': 'BClear', 'SourceOver': 'BSourceOver', 'Xor': 'BXor'}.get(gmode.group(1), 'BOther'),
                   {'Clear': 'BClear', 'SourceOver': 'BSourceOver', 'Xor': 'BXor'}.get(gblend.group(1), 'BOther'),
                   'true' if all(flow) else 'false'))
    section('clip_modes', clip_modes, ('C15',), out_clip)

    def mask_shape():
        mk = strip_comments(api.rd('crates/resvg/src/mask.rs'))
        body = body_of(mk, 'apply')
        empty = re.search(r"if\s+mask\.root\(\)\.children\(\)\.is_empty\(\)\s*\{\s*pixmap\.fill\(tiny_skia::Color::TRANSPARENT\);\s*return;\s*\}", body) is not None
        order = [m.group(0) for m in re.finditer(
            r"alpha_mask\.fill_path\(|PathBuilder::from_rect\(mask\.rect\(\)\.to_rect\(\)\)|render_nodes\(mask\.root\(\)|mask_pixmap\.apply_mask\(&alpha_mask\)|"
            r"self::apply\(mask, ctx, transform, pixmap\)|Mask::from_pixmap\(mask_pixmap\.as_ref\(\), mask_type\)|pixmap\.apply_mask\(&mask\)", body)]
        want = ['alpha_mask.fill_path(', 'PathBuilder::from_rect(mask.rect().to_rect())', 'render_nodes(mask.root()', 'mask_pixmap.apply_mask(&alpha_mask)',
                'self::apply(mask, ctx, transform, pixmap)', 'Mask::from_pixmap(mask_pixmap.as_ref(), mask_type)', 'pixmap.apply_mask(&mask)']
        kinds = dict(re.findall(r"usvg::MaskType::(\w+)\s*=>\s*tiny_skia::MaskType::(\w+)", body))
        rg = strip_comments(body_of(api.rd('crates/resvg/src/render.rs'), 'render_group'))
        seq = [m.group(0) for m in re.finditer(r"crate::filter::apply\(|crate::clip::apply\(|crate::mask::apply\(|opacity:\s*group\.opacity\(\)\.get\(\)", rg)]
        return ("(* mask.rs :: apply, render.rs :: render_group (shape of the code) *)\n"
                "Definition mask_empty_is_transparent : bool := %s.\n"
                "Definition mask_steps_in_order : bool := %s.\n"
                "Definition mask_luminance_kept : bool := %s.\n"
                "Definition mask_alpha_kept : bool := %s.\n"
                "Definition group_order_filter_clip_mask_opacity : bool := %s.\n"
                "(* render_group: the layer is drawn with PixmapPaint { opacity: group.opacity().get(), .., quality: Nearest } at the integer layer origin,\n"
                "   identity transform, no mask - the path Model/ClipMask.v opacity_u8 models *)\n"
                "Definition group_paint_is_opacity_nearest : bool := %s.\n"
                % tuple('true' if b else 'false' for b in (
                    empty, order == want, kinds.get('Luminance') == 'Luminance', kinds.get('Alpha') == 'Alpha',
                    [x.split('(')[0].strip() for x in seq] == ['crate::filter::apply', 'crate::clip::apply', 'crate::mask::apply', 'opacity: group.opacity'],
                    re.search(r"let\s+paint\s*=\s*tiny_skia::PixmapPaint\s*\{\s*opacity:\s*group\.opacity\(\)\.get\(\),\s*blend_mode:\s*convert_blend_mode\(group\.blend_mode\(\)\),"
                              r"\s*quality:\s*tiny_skia::FilterQuality::Nearest,?\s*\}\s*;\s*pixmap\.draw_pixmap\(\s*ibbox\.x\(\),\s*ibbox\.y\(\),\s*sub_pixmap\.as_ref\(\),"
                              r"\s*&paint,\s*tiny_skia::Transform::identity\(\),\s*None,?\s*\)", rg) is not None)))
    section('mask_shape', mask_shape, ('C15',), out_clip)


    # ---------------------------------------------------------------- usvg parser/filter.rs convert(): the CSS filter-FUNCTION path (C16, own generated file)
    out_fn = [api.HEADER, "From Coq Require Import String List.\nImport ListNotations.\nLocal Open Scope string_scope.\n"]

    def css_functions():
        src = strip_comments(api.rd('crates/usvg/src/parser/filter.rs'))
        body = body_of(src, 'convert')
        accesses = re.findall(r"\bcache\s*\.\s*(\w+)", body)
        m = re.search(r"for\s+func\s+in\s+svgtypes::FilterValueListParser::from\(value\)\s*\{", body)
        if not m:
            raise Bad("convert: loop over the filter value list not found")
        i, depth = m.end(), 1
        while i < len(body) and depth:
            depth += {'{': 1, '}': -1}.get(body[i], 0)
            i += 1
        loop = body[m.end() - 1:i]
        ss = stmts(loop)
        mm = re.search(r"\bmatch\s+func\s*\{", ss[-1]) if ss else None
        if not mm or not ss[-1].lstrip().startswith('match func'):
            raise Bad("convert: the loop does not end with `match func { .. }` (%d statements)" % len(ss))
        arms_text = ss[-1][mm.end():]
        cuts = [a.start() for a in re.finditer(r"svgtypes::FilterValue::", arms_text)] + [len(arms_text)]
        arms = []
        for a, b in zip(cuts, cuts[1:]):
            t = arms_text[a:b]
            name = re.match(r"svgtypes::FilterValue::(\w+)", t).group(1)
            callee = [c for c in ('create_base_filter_func', 'convert_url') if c + '(' in t]
            extra = sorted(set(re.findall(r"\b(continue|break|return)\b", t)) | ({'cache.'} if re.search(r"\bcache\s*\.", t) else set()))
            arms.append((name, "+".join(callee + extra) or 'none'))
        exits = re.findall(r"\b(continue|break)\b", "".join(ss[:-1])) + re.findall(r"\breturn\s+[^;]*", "".join(ss[:-1]))
        mclo = re.search(r"let\s+create_base_filter_func\s*=\s*\|kind,\s*filters:\s*&mut\s+Vec<Arc<Filter>>,\s*cache:\s*&mut\s+converter::Cache\|\s*\{", body)
        if not mclo:
            raise Bad("convert: closure create_base_filter_func not found")
        j, depth = mclo.end(), 1
        while j < len(body) and depth:
            depth += {'{': 1, '}': -1}.get(body[j], 0)
            j += 1
        clo = body[mclo.end():j]
        own = (re.search(r"let\s+object_bbox\s*=\s*match\s+object_bbox\s*\{\s*Some\(v\)\s*=>\s*v,\s*None\s*=>\s*\{\s*log::warn!\(.*?\);\s*return;\s*\}\s*\}\s*;", clo, re.S) is not None
               and re.search(r"rect\s*=\s*match\s+crate::checked_bbox_transform\(rect,\s*object_bbox\)\s*\{\s*Some\(v\)\s*=>\s*v,", clo) is not None
               and re.search(r"filters\.push\(Arc::new\(Filter\s*\{\s*id:\s*cache\.gen_filter_id\(\),\s*rect,\s*primitives:\s*vec!\[Primitive\s*\{\s*rect,", clo) is not None
               and len(re.findall(r"\bobject_bbox\b", clo)) == 3 and len(re.findall(r"filters\.\w+", clo)) == 1)
        q = lambda t: '"%s"' % re.sub(r"\s+", " ", t).replace('"', "'")
        return ("(* usvg parser/filter.rs :: convert: every access `cache.<x>` in the body, in order *)\n"
                "Definition fn_cache_accesses : list string := [%s].\n"
                "(* per arm of `match func`: what handles it (+ any continue / break / return / direct cache access inside the arm) *)\n"
                "Definition fn_arm_callees : list (string * string) := [%s].\n"
                "(* statements of the loop body before / including `match func`, and the early exits among them *)\n"
                "Definition fn_loop_statements : nat := %d%%nat.\n"
                "Definition fn_loop_exits : list string := [%s].\n"
                "(* the closure: bbox = the caller's object_bbox or skip; rect = checked_bbox_transform(rect, object_bbox); pushed as a fresh Filter { id: cache.gen_filter_id(), rect, .. } *)\n"
                "Definition fn_region_from_own_bbox : bool := %s.\n"
                % ("; ".join(q("cache." + a) for a in accesses), "; ".join("(%s, %s)" % (q(n), q(c)) for n, c in arms), len(ss),
                   "; ".join(q(e) for e in exits), 'true' if own else 'false'))
    section('css_function_filters', css_functions, ('C16',), out_fn)

    api.write_gen('FilterFuncs.v', "\n".join(out_fn))
    api.write_gen('PixelTables.v', "\n".join(out))
    api.write_gen('ClipTables.v', "\n".join(out_clip))
