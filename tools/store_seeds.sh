#!/bin/bash
# usage: store_seeds.sh Cxx   (copies /tmp/seed-Cxx-out/{12,13,14} to seeded/, removes the scratch worktree)
p=$1
cd /verif
for i in ${SEED_IDX:-12 13 14}; do
  d=/tmp/seed-$p-out/$i
  if [ -f $d/patch.diff ]; then
    mkdir -p seeded/$p-$i
    cp $d/patch.diff $d/meta.json seeded/$p-$i/ 2>/dev/null
    cp $d/demo.* seeded/$p-$i/ 2>/dev/null
    rm -f seeded/$p-$i/demo.log
    echo stored $p-$i
  fi
done
git -C /repo worktree remove --force /tmp/seed-$p 2>/dev/null
rm -rf /tmp/seed-$p /tmp/seed-$p-out /tmp/seed-$p-demo /tmp/seed-$p-target
git -C /repo worktree prune
