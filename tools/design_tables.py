#!/usr/bin/env python3
"""Regenerate the machine-derived tables of DESIGN.md (between BEGIN/END markers):
   FINDINGS  <- known_findings.txt      SEEDS <- seeded/*/meta.json      STATUS <- evidence/*.json"""
import json, os, re, glob
V = os.path.dirname(os.path.dirname(os.path.abspath(__file__)))

def findings():
    fixed, known = [], []
    for l in open(os.path.join(V, 'known_findings.txt')):
        l = l.strip()
        m = re.match(r"fixed:\s+property=(\w+)\s+(\w+)\s+(.*)", l)
        if m:
            fixed.append(m.groups()); continue
        m = re.match(r"known:\s+property=(\w+)\s+class=(\S+)\s+(.*)", l)
        if m:
            known.append(m.groups())
    out = ["**Repaired in /repo (`fix:` commits; each passes the unedited 1749-test suite; witness kept as a must-pass regression input):**", "",
           "| property | commit | what failed |", "|---|---|---|"]
    for p, h, t in sorted(fixed):
        out.append("| %s | `%s` | %s |" % (p, h, t.replace('|', '\\|')[:260]))
    out += ["", "**Carried as known-finding classes (genuine defects demonstrated on the real code, not repaired because the honest repair is not small; each class is a decidable predicate on the failing input, so any other violation of the property is still reported):**", "",
            "| property | class | what fails |", "|---|---|---|"]
    for p, c, t in sorted(known):
        out.append("| %s | `%s` | %s |" % (p, c, t.replace('|', '\\|')[:300]))
    return "\n".join(out)

def seeds():
    out = ["| seed | property | site / trigger | suite with change | demo (with / without) | caught | by |", "|---|---|---|---|---|---|---|"]
    for d in sorted(glob.glob(os.path.join(V, 'seeded', '*'))):
        mp = os.path.join(d, 'meta.json')
        if not os.path.exists(mp):
            continue
        m = json.load(open(mp)); c = m.get('confirmed', {})
        chk = c.get('checks', {})
        caught = ", ".join("%s: %s" % (k, 'yes' if v.get('caught') else 'NO') for k, v in chk.items())
        by = "; ".join(sorted(set(re.sub(r"replay=\S+\s*", "", v)[:90] for k in chk.values() for v in k.get('violations', [])[:2])))
        trig = (m.get('needs_to_manifest') or '')[:160].replace('|', '\\|').replace('\n', ' ')
        files = ", ".join(os.path.basename(f) for f in m.get('files_touched', [])[:3])
        out.append("| %s | %s | %s: %s | %s | %s / %s | %s | %s |" % (
            os.path.basename(d), m.get('property'), files, trig, 'pass' if c.get('suite_passes') else str(c.get('suite_with_change'))[:30],
            c.get('demo_with_change'), c.get('demo_without_change'), caught, by.replace('|', '\\|')[:200]))
    return "\n".join(out)

def status():
    out = ["| id | obligations (Qed in closure) | property theorems | quick evaluations (distinct) | quick wall s | axioms |", "|---|---|---|---|---|---|"]
    for f in sorted(glob.glob(os.path.join(V, 'evidence', 'C*.json'))):
        e = json.load(open(f)); c = e['coverage']
        th = [t for t in c.get('theorems', []) if t.startswith('C')]
        ax = sorted(set(sum(c.get('axioms_used', {}).values(), [])))
        out.append("| %s | %s | %d | %s (%s) | %s | %s |" % (e['property_id'], c.get('obligations'), len(th), c.get('evaluations'),
                   c.get('distinct_nontrivial'), e['wall_s'], ", ".join(a.split('.')[-1] for a in ax) or "none"))
    return "\n".join(out)

def asbuilt():
    out = []
    for f in sorted(glob.glob(os.path.join(V, 'design-notes', 'asbuilt', 'C*.md'))):
        out.append(open(f).read().strip())
    return "\n\n".join(out)


def tiemap():
    f = os.path.join(V, 'design-notes', 'tie_map.md')
    if not os.path.exists(f):
        return "(run tools/tie_map.py)"
    t = open(f).read()
    return t[t.index('\n') + 1:].strip().replace('\n## ', '\n#### ')


def main():
    p = os.path.join(V, 'DESIGN.md')
    s = open(p).read()
    for name, fn in (('FINDINGS', findings), ('SEEDS', seeds), ('STATUS', status), ('ASBUILT', asbuilt), ('TIEMAP', tiemap)):
        b, e = "<!-- BEGIN %s -->" % name, "<!-- END %s -->" % name
        if b in s and e in s:
            s = s[:s.index(b) + len(b)] + "\n" + fn() + "\n" + s[s.index(e):]
    open(p, 'w').write(s)

if __name__ == '__main__':
    main()
