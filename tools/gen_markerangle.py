"""Gen/LeafMarkerAngle.v: the angle arithmetic of marker instances (parser/marker.rs calc_angle with its nested normalize /
vector_angle) translated by rs2coq over xq, for C04 (final pass of extension round 4; round-5 seed C04-15 removed the
is_nan guard of vector_angle).  atan2, `%` and hypot are parameters (`atan2_fn`, `frem`, `hypot_fn`)."""
import re
from gen_style import make_emitter, BASE_CFG

PROPS = ['C04']
PRELUDE = ("From Coq Require Import String.\nFrom RV Require Import Model.Base Model.StylePrims Model.MarkerPrims.\nLocal Open Scope Q_scope.\n")
FN = "(atan2_fn frem hypot_fn : xq -> xq -> xq)"


def generate(api):
    rs = api.rs2coq
    out = [api.HEADER, PRELUDE]
    cfg = dict(BASE_CFG)
    cfg['methods'] = dict(BASE_CFG['methods'], atan2='atan2_fn', hypot='hypot_fn', is_nan='xq_is_nan', abs='xq_abs', to_degrees='xq_to_degrees')
    cfg['vars'] = dict(PI='F32_PI', FRAC_PI_2='F32_FRAC_PI_2')
    cfg['calls'] = dict(BASE_CFG['calls'], normalize='normalize atan2_fn frem hypot_fn', vector_angle='vector_angle atan2_fn frem hypot_fn')

    def emitter():
        em = make_emitter(rs, dict(cfg))
        base = em.binop

        def binop(op, a, b):
            if op == '%':
                return "(frem %s %s)" % (a, b)
            return base(op, a, b)
        em.binop = binop
        return em

    def tr(name, binders, ret, block):
        return "Definition %s %s %s : %s :=\n  %s." % (name, FN, binders, ret, emitter().block(rs.parse_body(block)))

    try:
        src = re.sub(r"//[^\n]*", "", api.rd('crates/usvg/src/parser/marker.rs'))
        p, r, b = rs.find_fn(src, 'normalize')
        if re.sub(r"\s+", "", p) != "rad:f32":
            raise api.Unsupported("normalize: signature changed")
        out.append(tr('normalize', '(rad : xq)', 'xq', b))
        p, r, b = rs.find_fn(src, 'vector_angle')
        if re.sub(r"\s+", "", p) != "vx:f32,vy:f32":
            raise api.Unsupported("vector_angle: signature changed")
        out.append(tr('vector_angle', '(vx vy : xq)', 'xq', b))
        p, r, b = rs.find_fn(src, 'calc_angle')
        m = re.search(r"(let\s+in_a\s*=.*)\}\s*$", b, re.S)
        if not m:
            raise api.Unsupported("calc_angle: body after the nested functions not found")
        body = re.sub(r"\b(\w+)\s*-=\s*([^;]+);", r"\1 = \1 - \2;", m.group(1))
        out.append(tr('calc_angle', '(x1 y1 x2 y2 x3 y3 x4 y4 : xq)', 'xq', "{ %s }" % body))
        p, r, b = rs.find_fn(src, 'calc_line_angle')
        if not re.search(r"^\{\s*calc_angle\(x1,\s*y1,\s*x2,\s*y2,\s*x1,\s*y1,\s*x2,\s*y2\)\s*\}$", b.strip()):
            raise api.Unsupported("calc_line_angle changed")
        api.ok('leaves', 'marker.calc_angle', props=PROPS, rel='crates/usvg/src/parser/marker.rs')
    except (api.Unsupported, OSError, ValueError, IndexError, KeyError) as e:
        out.append("(* NOT TRANSLATED: %s *)\n" % str(e).replace('*)', '* )'))
        api.broken('leaf', 'marker.calc_angle', PROPS, e)
    api.write_gen('LeafMarkerAngle.v', "\n".join(out))
