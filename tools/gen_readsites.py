"""Gen/ReadSites.v (C09): every READ SITE of a presentation attribute in the converter, with the value type it is parsed with.

The cascade (svgtree) stores values as strings; what notation a property accepts ("0.5" vs "50%", "#f00" vs
"rgb(255,0,0)", "1in" vs "96px") is decided where the converter reads it: `node.attribute::<T>(AId::X)`,
`find_attribute`, `try_attribute`, or a helper taking the AId (`resolve_length`, `convert_paint`, ...).  This plug-in
enumerates all such sites in crates/usvg/src/parser/*.rs (syntactically: every `AId::X` of a presentation property that
is the argument of a call) and determines `T`:

  1. turbofish `::<T>`
  2. type annotation of the enclosing `let x: T = ...`
  3. the default the chain falls back to (`.unwrap_or(Opacity::ONE)`, `.unwrap_or_else(svgtypes::Color::black)`,
     `.unwrap_or("...")`, `.unwrap_or(state.opt.<field>)` -> the field's type in options.rs, `.unwrap_or_default()` -> `_`)
  4. comparison with / match on string literals (`== Some("none")`, `match .. { Some("currentColor") =>`) -> `&str`,
     also through the binding of a `let` / `if let Some(x)` (later `x == Some("..")`, `match x { ".."`, or `x` passed to a
     function whose parameter type is read from its signature)
  5. helpers taking the AId: the reader is read from the helper's body / signature (anchored below)
A `&str` that is handed to `svgtypes::<Ty>::from_str` right after is written `&str>svgtypes::<Ty>`.
Types with a keyword `impl FromValue` (`match value { "a" => .. }`) are written `enum:<T>`.

A site whose type cannot be determined, or a call of an unknown helper with a presentation AId, is a broken tie
(never a silent default).  Also generated: the filter primitive dispatch (element kind -> converter function) and the
one-level call graph needed to map a read site to the element kinds it serves.
"""
import os
import re

import gen_svgtree

PROPS = ['C09']
PARSER = 'crates/usvg/src/parser'
OPTIONS = PARSER + '/options.rs'
MODRS = PARSER + '/svgtree/mod.rs'

READ_METHODS = ('attribute', 'find_attribute', 'try_attribute')
PRESENCE = ('has_attribute',)
# helpers that take the AId: (reader, [fragments that must be found in the helper's body], file)
HELPERS = {
    'resolve_length': ('Length', ['if let Some(length) = n.attribute(aid) {', 'units::convert_user_length(length, n, aid, state)'], 'converter.rs'),
    'resolve_valid_length': ('Length', ['self.resolve_length(aid, state, def)'], 'converter.rs'),
    'convert_length': ('Length', ['units::convert_length( self.attribute(aid).unwrap_or(def),'], 'converter.rs'),
    'convert_user_length': ('Length', ['self.convert_length(aid, Units::UserSpaceOnUse, state, def)'], 'converter.rs'),
    'try_convert_length': ('Length', ['Some(units::convert_length( self.attribute(aid)?,'], 'converter.rs'),
    'resolve_transform': ('Transform', ['let mut transform: Transform = self.attribute(transform_aid).unwrap_or_default();'], 'converter.rs'),
    'has_valid_transform': ('&str>svgtypes::Transform', ['let attr = match self.attribute(aid) {', 'svgtypes::Transform::from_str(attr)'], 'converter.rs'),
    'convert_list': ('Vec<Length>', ['node.attribute::<&str>(aid)', 'svgtypes::LengthListParser::from(text)', 'convert_user_length(length, node, aid, state)'], 'units.rs'),
    'convert_paint': ('&str>svgtypes::Paint', ['let value: &str = node.attribute(aid)?;', 'svgtypes::Paint::from_str(value)'], 'style.rs'),
}
# helpers that look the attribute up on the nearest ancestor that has it (fragment anchored in the helper's body)
WALKING_HELPERS = {'resolve_length': 'if let Some(n) = self.ancestors().find(|n| n.has_attribute(aid)) {',
                   'resolve_valid_length': 'self.resolve_length(aid, state, def)'}
# units.rs: the helpers end in units::convert_length, whose unit arms are Gen/Units.v
UNITS_ANCHORS = [('convert_user_length', 'convert_length(length, node, aid, Units::UserSpaceOnUse, state)')]
# calls that carry an AId but do not read its value (diagnostics, link fixing, the AId is data)
NOT_A_READ = ('warn', 'fix_recursive_links', 'find_recursive_pattern', 'attribute_id', 'matches', 'debug_assert', 'insert_attribute',
              'resolve_inherit', 'format', 'Some', 'vec')


class Missing(Exception):
    pass


def strip_comments(src):
    src = re.sub(r"/\*.*?\*/", lambda m: ' ' * len(m.group(0)), src, flags=re.S)
    return re.sub(r"//[^\n]*", lambda m: ' ' * len(m.group(0)), src)


def ws(s):
    return re.sub(r"\s+", " ", s).strip()


def fn_spans(src):
    """[(start, body_end, name)] of every `fn name(..) {..}` in the file (body found by brace matching)."""
    out = []
    for m in re.finditer(r"\bfn\s+(\w+)\s*(?:<[^>{}()]*>)?\s*\(", src):
        i = src.find('{', m.end())
        semi = src.find(';', m.end())
        if i < 0 or (0 <= semi < i):
            continue                                    # declaration without a body (trait method)
        depth = 0
        j = i
        while j < len(src):
            if src[j] == '{':
                depth += 1
            elif src[j] == '}':
                depth -= 1
                if depth == 0:
                    break
            j += 1
        out.append((m.start(), j, m.group(1)))
    return out


def enclosing_span(spans, pos):
    """innermost function whose body contains pos -> (start, end, name) or None"""
    best = None
    for st, en, nm in spans:
        if st <= pos <= en and (best is None or st > best[0]):
            best = (st, en, nm)
    return best


def enclosing_fn(spans, pos):
    b = enclosing_span(spans, pos)
    return b[2] if b else None


def fn_param_type(src, fn, index):
    m = re.search(r"\bfn\s+%s\s*(?:<[^>{}()]*>)?\s*\(([^)]*)\)" % re.escape(fn), src)
    if not m:
        return None
    ps = [p.strip() for p in m.group(1).split(',') if p.strip()]
    ps = [p for p in ps if not re.match(r"&?(mut\s+)?self$", p)]
    if index >= len(ps) or ':' not in ps[index]:
        return None
    return ws(ps[index].split(':', 1)[1])


def norm_type(t, enums):
    t = ws(t)
    m = re.fullmatch(r"Option<(.*)>", t)
    if m:
        t = m.group(1).strip()
    t = re.sub(r"^&'?\w*\s*str$", "&str", t)
    t = t.replace("svgtypes::Length", "Length")
    if t in ('Vec<svgtypes::Length>',):
        t = 'Vec<Length>'
    base = t.split('::')[-1]
    if base in enums and not t.startswith('svgtypes::'):
        return 'enum:' + base
    return t


def from_value_types(rd):
    """-> (all types with an `impl FromValue`, those whose impl is a keyword match)"""
    alls, enums = set(), set()
    for rel in parser_files(rd) + [MODRS]:
        src = strip_comments(rd(rel))
        for m in re.finditer(r"impl<'a, 'input: 'a> FromValue<'a, 'input> for ([^{]+?)\s*\{", src):
            ty = ws(m.group(1))
            body = src[m.end():m.end() + 1500]
            nxt = body.find("\nimpl")
            if nxt >= 0:
                body = body[:nxt]
            base = re.sub(r"<.*>", "", ty).split('::')[-1]
            alls.add(base)
            if re.search(r"match\s+value\s*\{\s*\"", body):
                enums.add(base)
    return alls, enums


_FILES = None


def parser_files(rd):
    repo = os.environ.get('VERIF_REPO', '/repo')
    d = os.path.join(repo, PARSER)
    return sorted(PARSER + '/' + f for f in os.listdir(d) if f.endswith('.rs'))


def options_field_type(rd, field):
    src = strip_comments(rd(OPTIONS))
    m = re.search(r"pub\s+%s\s*:\s*([^,\n]+)," % re.escape(field), src)
    if not m:
        raise Missing("options.rs: field %s not found" % field)
    return ws(m.group(1))


def after_str(reader, fwd):
    """`&str` handed to a svgtypes parser within the same statement group"""
    if reader != '&str':
        return reader
    m = re.search(r"svgtypes::(\w+)::from_str\(", fwd[:420])
    if m:
        return '&str>svgtypes::' + m.group(1)
    return reader


def infer(src, call_start, recv_start, call_end, turbo, rd, enums):
    """type of the value read by the call src[call_start:call_end] (the method name starts at call_start)"""
    fwd = src[call_end:call_end + 600]
    if turbo:
        return after_str(norm_type(turbo, enums), fwd)
    # statement prefix: back to the previous `;`, `{` or `}`
    k = recv_start
    while k > 0 and src[k - 1] not in ';{}':
        k -= 1
    back = src[k:recv_start]
    f = fwd.lstrip()
    m = re.search(r"\blet\s+(?:mut\s+)?\w+\s*:\s*([^=]+?)\s*=\s*(?:match\s+)?$", back)
    if m:
        return after_str(norm_type(m.group(1), enums), fwd)
    if re.match(r"\.unwrap_or_else\(svgtypes::Color::black\)|\.unwrap_or\(svgtypes::Color::black\(\)\)", f):
        return 'svgtypes::Color'
    m = re.match(r"\.unwrap_or\((\w+)::ONE\)", f)
    if m:
        return norm_type(m.group(1), enums)
    if re.match(r"\.unwrap_or\(\s*\"", f) or re.match(r"[!=]=\s*Some\(\s*\"", f):
        return after_str('&str', fwd)
    m = re.match(r"\.unwrap_or\(state\.opt\.(\w+)\)", f)
    if m:
        return norm_type(options_field_type(rd, m.group(1)), enums)
    if re.match(r"\.unwrap_or\(\s*-?\d+\.\d+\s*\)", f):
        return 'f32'
    if re.match(r"\.unwrap_or_default\(\)", f):
        return '_'
    # match <call> { Some("..") => / matches!(<call>, Some("..")
    if re.search(r"\bmatch\s+$", back) and re.match(r"\{\s*Some\(\s*\"", f):
        return after_str('&str', fwd)
    if re.search(r"matches!\(\s*$", back) and re.match(r",\s*Some\(\s*\"", f):
        return '&str'
    # binding: let x = <call>;  ... x == Some("..")
    m = re.search(r"\blet\s+(?:mut\s+)?(\w+)\s*=\s*$", back)
    if m and f.startswith(';'):
        v = m.group(1)
        if re.search(r"\b%s\s*[!=]=\s*Some\(\s*\"" % v, fwd[:300]):
            return '&str'
    # if let Some(x) = <call> { match x { ".." | f(x, ..) }
    m = re.search(r"\bif\s+let\s+Some\((\w+)\)\s*=\s*$", back)
    if m and f.startswith('{'):
        v = m.group(1)
        body = fwd[:300]
        if re.search(r"\bmatch\s+%s\s*\{\s*\"" % v, body):
            return '&str'
        mm = re.search(r"\b(\w+)\(\s*((?:[^(),]+,\s*)*)%s\b" % v, body)
        if mm:
            idx = mm.group(2).count(',')
            ty = fn_param_type(src, mm.group(1), idx)
            if ty:
                return norm_type(ty, enums)
    return None


def extract(rd, strict=True):
    """-> dict(sites=[(file, fn, AId, how, reader)], dispatch=[(EId, fn)], calls={fn: [callers]}, errors=[...])"""
    t = gen_svgtree.parse_tables(rd, strict=False)
    pres = set(t.get('is_presentation', []))
    if not pres:
        raise Missing("is_presentation table not readable")
    alls, enums = from_value_types(rd)
    errors = []
    sites = []
    files = parser_files(rd)
    srcs = {rel: strip_comments(rd(rel)) for rel in files}
    # helper anchors
    for h, (reader, frags, fname) in HELPERS.items():
        rel = PARSER + '/' + fname
        try:
            body = ws(gen_svgtree.fn_body(srcs[rel], h))
        except (gen_svgtree.Missing, KeyError, ValueError) as e:
            errors.append("helper %s: %s" % (h, e))
            continue
        for fr in frags:
            if fr not in body:
                errors.append("helper %s (%s): fragment %r not found (its reader may have changed)" % (h, fname, fr))
    for h, fr in WALKING_HELPERS.items():
        try:
            if fr not in ws(gen_svgtree.fn_body(srcs[PARSER + '/converter.rs'], h)):
                errors.append("helper %s: no longer walks the ancestors (%r not found)" % (h, fr))
        except (gen_svgtree.Missing, KeyError, ValueError) as e:
            errors.append("helper %s: %s" % (h, e))
    for h, fr in UNITS_ANCHORS:
        try:
            if fr not in ws(gen_svgtree.fn_body(srcs[PARSER + '/units.rs'], h)):
                errors.append("units.rs %s: no longer ends in convert_length (%r not found)" % (h, fr))
        except (gen_svgtree.Missing, KeyError, ValueError) as e:
            errors.append("units.rs %s: %s" % (h, e))
    for rel in files:
        src = srcs[rel]
        short = rel[len(PARSER) + 1:]
        spans = fn_spans(src)
        for m in re.finditer(r"\bAId::(\w+)\b", src):
            a = m.group(1)
            if a not in pres:
                continue
            pos = m.start()
            # is this AId an argument of a call?  find the innermost unclosed '(' before it
            depth = 0
            k = pos - 1
            while k >= 0:
                c = src[k]
                if c == ')':
                    depth += 1
                elif c == '(':
                    if depth == 0:
                        break
                    depth -= 1
                elif c in ';{}' and depth == 0:
                    k = -1
                    break
                k -= 1
            if k < 0:
                continue                                   # pattern / expression position (match arm, comparison)
            head = src[max(0, k - 120):k]
            mh = re.search(r"(?:(\.)\s*)?(\w+)\s*(!)?\s*(?:::<\s*([^>()]*(?:<[^>]*>)?)\s*>)?\s*$", head)
            if not mh:
                continue
            method, bang, turbo, dotted = mh.group(2), mh.group(3), mh.group(4), mh.group(1)
            sp = enclosing_span(spans, pos)
            fn = sp[2] if sp else '?'
            # how the element whose attribute is read was chosen: inheriting lookup or the element itself
            if method == 'find_attribute':
                walk = 'find_attribute'
            elif method in WALKING_HELPERS:
                walk = 'helper-ancestors'
            elif sp and re.search(r"\.ancestors\(\)", src[sp[0]:pos]):
                walk = 'ancestors-in-fn'
            else:
                walk = 'none'
            if bang or method in NOT_A_READ or not re.match(r"[a-z_]", method):
                continue
            # only direct arguments `f(.., AId::X, ..)`, not `f(g(AId::X))` (handled at g) nor tuples
            between = src[k + 1:pos]
            if '(' in between.replace('()', ''):
                continue
            call_end = pos + len(m.group(0))
            # end of the call's argument list
            d2 = 0
            j = call_end
            while j < len(src):
                if src[j] == '(':
                    d2 += 1
                elif src[j] == ')':
                    if d2 == 0:
                        break
                    d2 -= 1
                j += 1
            call_end = j + 1
            if method in PRESENCE:
                sites.append((short, fn, a, method, 'presence', walk))
                continue
            if method in READ_METHODS:
                name_start = k - len(mh.group(0))
                # receiver chain start: walk back over `ident`, `.`, `()` groups and whitespace
                r = max(0, k - 120) + mh.start()
                r0 = r
                while True:
                    s2 = src[:r0].rstrip()
                    mm = re.search(r"(?:\w+|\)|\?)$", s2)
                    if not mm:
                        break
                    if s2.endswith(')'):
                        dd = 0
                        q = len(s2) - 1
                        while q >= 0:
                            if s2[q] == ')':
                                dd += 1
                            elif s2[q] == '(':
                                dd -= 1
                                if dd == 0:
                                    break
                            q -= 1
                        mm2 = re.search(r"\.?\s*\w*\s*$", s2[:q])
                        r0 = q - (len(mm2.group(0)) if mm2 else 0)
                    else:
                        r0 = mm.start()
                        s3 = src[:r0].rstrip()
                        if s3.endswith('.'):
                            r0 = len(s3) - 1
                        else:
                            break
                reader = infer(src, k, r0, call_end, turbo, rd, enums)
                if reader is None:
                    errors.append("%s::%s: value type of the read of AId::%s not determinable (`%s`)" % (
                        short, fn, a, ws(src[r0:call_end + 40])[:110]))
                    reader = '?'
                sites.append((short, fn, a, method, reader, walk))
                continue
            if method in HELPERS:
                sites.append((short, fn, a, method, HELPERS[method][0], walk))
                continue
            errors.append("%s::%s: AId::%s is passed to `%s`, which is not a known reader" % (short, fn, a, method))
            sites.append((short, fn, a, method, '?', walk))
    # filter primitive dispatch + callers
    fsrc = srcs.get(PARSER + '/filter.rs', '')
    dispatch = re.findall(r"EId::(Fe\w+)\s*=>\s*(convert_\w+)\(", fsrc)
    if len(dispatch) < 10:
        errors.append("filter.rs: primitive dispatch table not found")
    calls = {}
    for rel, src in srcs.items():
        spans = fn_spans(src)
        names = set(nm for _, _, nm in spans)
        for m in re.finditer(r"(?<![\w.])(\w+)\s*\(", src):
            if m.group(1) in names:
                caller = enclosing_fn(spans, m.start())
                if caller and caller != m.group(1) and not re.search(r"\bfn\s+$", src[max(0, m.start() - 8):m.start()]):
                    calls.setdefault(m.group(1), set()).add(caller)
    if strict and errors:
        raise Missing('; '.join(errors))
    return dict(sites=sites, dispatch=dispatch, calls={k: sorted(v) for k, v in calls.items()}, errors=errors,
                eids=t.get('eids', []), enums=sorted(enums))


def site_elements(x):
    """fn -> element kinds (filter.rs dispatch, through at most two levels of callers)"""
    direct = {}
    for e, f in x['dispatch']:
        direct.setdefault(f, []).append(e)
    out = {}
    for fn in sorted(set(s[1] for s in x['sites'])):
        ks = list(direct.get(fn, []))
        if not ks:
            for c in x['calls'].get(fn, []):
                ks += direct.get(c, [])
                if c not in direct:
                    for c2 in x['calls'].get(c, []):
                        ks += direct.get(c2, [])
        if ks:
            out[fn] = sorted(set(ks))
    return out


def render(x, header):
    o = [header, "From Coq Require Import String.\nFrom RV Require Import Model.Base Gen.SvgTables.\nLocal Open Scope string_scope.\n",
         "(* every read of a presentation attribute in crates/usvg/src/parser/*.rs: file, function, attribute, method, value type *)",
         "(* rs_walk: how the element that is read was chosen - `find_attribute` (inheriting lookup), `helper-ancestors` (resolve_length),\n   `ancestors-in-fn` (the function walks `.ancestors()` before the read), `none` (the element itself) *)",
         "Record read_site := mk_site { rs_file : string; rs_fn : string; rs_attr : AId; rs_how : string; rs_reader : string; rs_walk : string }.\n",
         "Definition read_sites : list read_site :=\n  [ %s ].\n" % "\n  ; ".join(
             'mk_site "%s" "%s" A_%s "%s" "%s" "%s"' % s for s in x['sites']),
         "(* filter.rs: element kinds served by a reading function (primitive dispatch + callers) *)",
         "Definition site_elements : list (string * list EId) :=\n  [ %s ].\n" % "\n  ; ".join(
             '("%s", [%s])' % (fn, "; ".join("E_" + e for e in ks)) for fn, ks in sorted(site_elements(x).items()))]
    return "\n".join(o)


def generate(api):
    try:
        x = extract(api.rd, strict=False)
    except (Missing, gen_svgtree.Missing, OSError, ValueError, IndexError, KeyError) as e:
        api.broken('table', 'ReadSites', PROPS, e)
        return
    if x['errors']:
        api.broken('table', 'ReadSites', PROPS, '; '.join(x['errors']))
    api.write_gen('ReadSites.v', render(x, api.HEADER))
    if not x['errors']:
        api.ok('tables', 'ReadSites', props=PROPS, sites=len(x['sites']), functions=len(set((s[0], s[1]) for s in x['sites'])))
