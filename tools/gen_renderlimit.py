"""Gen/RenderLimit.v (C17, round 5 after missed seed C17-17): the size the layer limit `max_bbox` of resvg::render / render_node is
derived from.  C17's scale law ("root scale s == width/height x s") needs the limit to be a function of the PIXMAP only: the two
arguments of `IntSize::from_wh(..)` in `let target_size = ..` are translated by rs2coq over two size records (the pixmap, the document);
anything outside plain width()/height() arithmetic, a different number of sites, or a `max_bbox` that is not built from `target_size`
is a broken tie.  (The numeric factors of max_bbox are the SHARED constants Gen/Consts.v MAXBB_*.)"""
import re

PROPS = ['C17']
REL = 'crates/resvg/src/lib.rs'


def generate(api):
    rs = api.rs2coq
    try:
        src = api.rd(REL)
        out = [api.HEADER, "From Coq Require Import ZArith.\nLocal Open Scope Z_scope.\n",
               "Record isz := { cw : Z; ch : Z }.\n"]
        for fn in ('render', 'render_node'):
            params, ret, body = rs.find_fn(src, fn)
            nb = re.sub(r"\s+", " ", re.sub(r"//[^\n]*", "", body))
            ms = re.findall(r"let target_size = (.*?); let max_bbox = tiny_skia::IntRect::from_xywh\(", nb)
            if len(ms) != 1 or len(re.findall(r"\blet target_size\b", nb)) != 1 or len(re.findall(r"\blet max_bbox\b", nb)) != 1:
                raise api.Unsupported("%s: expected exactly one `let target_size = ..; let max_bbox = tiny_skia::IntRect::from_xywh(`" % fn)
            m = re.match(r"tiny_skia::IntSize::from_wh\((.*)\) ?\.unwrap\(\)$", ms[0].strip())
            if not m:
                raise api.Unsupported("%s: target_size is not `tiny_skia::IntSize::from_wh(a, b).unwrap()`: %r" % (fn, ms[0][:120]))
            if not re.search(r"let ctx = render::Context \{ max_bbox \};", nb):
                raise api.Unsupported("%s: `render::Context { max_bbox }` not found" % fn)
            ast = rs.Parser(rs.tokenize("(" + m.group(1).rstrip(', ') + ",)")).expr()
            if ast[0] != 'tuple' or len(ast[1]) != 2:
                raise api.Unsupported("%s: from_wh takes two arguments" % fn)
            em = rs.Emitter(dict(dom='Z', methods={'width': 'cw', 'height': 'ch'}, casts={'u32': None, 'i32': None}))
            out.append("(* %s :: %s, `let target_size = IntSize::from_wh(..)`: what max_bbox is scaled from *)" % (REL, fn))
            out.append("Definition %s_target_size (pixmap doc_size : isz) : Z * Z :=\n  (%s, %s).\n"
                       % (fn, em.expr(ast[1][0]), em.expr(ast[1][1])))
        api.write_gen('RenderLimit.v', "\n".join(out))
        api.ok('leaves', 'render_limit', fns=2)
    except (api.Unsupported, OSError, ValueError, IndexError, KeyError) as e:
        api.broken('leaf', 'lib.render_limit', PROPS, e)
