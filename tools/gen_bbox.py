"""Plug-in: source-derived table for the C12 / C19 box model (coq/Gen/BBoxTables.v).

Cuts the following out of crates/usvg/src/tree/{geom.rs, mod.rs}, crates/usvg/src/parser/{image.rs, converter.rs,
use_node.rs} and crates/resvg/src/lib.rs and records them as a list of facts `bbox_facts`; Proofs/BBox.v has the
lock lemma `bbox_facts_lock` (the facts the hand-written Model/BBox.v and Model/Export.v were written against).
A missing anchor is a broken tie: the list then lacks that fact and the lock lemma fails.

  BF_ExpandMinMax        BBox::expand_impl: left/top by min, right/bottom by max
  BF_DefaultSentinels    BBox::default: f32::MAX / f32::MIN sentinels, is_default compares with them
  BF_ObjBoxes            calculate_bounding_boxes: bbox / stroke_bbox expand by the child box, transformed by group.transform
  BF_SkipEmptyGroups     both loops (calculate_object_bbox, calculate_bounding_boxes) `continue` on a child group without children and filters
  BF_AbsBoxes            abs_bbox / abs_stroke_bbox expand by the child's abs boxes
  BF_LayerNonGroup       non-group children contribute stroke_bounding_box to the layer box
  BF_LayerGroup          group children contribute layer_bounding_box.transform(group.transform) when Some
  BF_FilterPriority      `if let Some(filter_bbox) = self.filters_bounding_box()` overrides the layer box
  BF_AbsLayer            abs_layer_bounding_box = layer_bounding_box.transform(abs_transform)
  BF_PathNoSkew          Path::new: without skew, abs boxes = boxes.transform(abs_transform)
  BF_PathSkewBranch      Path::new: with skew, abs_bounding_box = tight bounds of the transformed path
  BF_ImageAbs            image abs box = actual_size rect (0,0) .transform(parent.abs * image_ts)
  BF_GroupAbs            convert_group: abs_transform = parent.abs_transform.pre_concat(transform)
  BF_GroupTsOnce         convert_group: `transform` is bound once, by node.resolve_transform(AId::Transform, state) (attribute AND
                         transform-origin), the Group literal takes `transform, abs_transform` from those two bindings, and the body
                         never assigns `.transform` / `.abs_transform` afterwards (the pair cannot drift apart: seed C12-14)
  BF_TsAssignSites       the assignments to a group's `.transform` / `.abs_transform` outside of a constructor, in all of
                         crates/usvg/src/parser, are exactly the sites the model's group kinds (GK_Plain, GK_ViaUse, GK_ClipWrap,
                         sub-tree roots SR_*) were written against: (file, function, field, count) table
  BF_SynthClipBoxes      fd607e1: the three synthesised viewport clip paths (marker.rs, use_node.rs clip_element, image.rs) push their
                         Path::new_simple rectangle into the root and call root.calculate_bounding_boxes() right after
  BF_UseChildrenAbs      use_node::convert_children: parent.abs_transform temporarily pre_concat(transform), g.transform = transform
  BF_UseClipWrapAbs      use_node::convert, `use` -> clipped symbol: the wrapper of clip_element(.., orig_ts, ..) gets abs_transform = parent abs
                         (GK_ClipWrap: the known-wrong value of class use_transform_twice), the inner use group's transform is reset
  BF_CliPageOffset       main.rs render_svg, --export-id with --export-area-page: the node pixmap is drawn at
                         ((bbox.x * ts.sx) as i32, (bbox.y * ts.sy) as i32): the layer box origin is scaled BEFORE it is truncated (seed C12-16)
  BF_BackgroundAbs       convert_doc / background_path: the background rectangle is built by Path::new with root_ts as abs_transform
  BF_NewSimpleClipOnly   Path::new_simple (identity abs_transform) is called only for the clip rectangles of image.rs, marker.rs, use_node.rs
  BF_NodeLayerBox        Node::abs_layer_bounding_box: group -> Some(abs_layer); path, text -> abs_stroke_bounding_box().to_non_zero_rect()
                         (ece95dc); image -> abs_bounding_box().to_non_zero_rect()
  BF_RenderNodeNone      render_node: `let bbox = node.abs_layer_bounding_box()?;`
  BF_RenderNodeSingleExit  render_node has exactly one early exit: the `?` on abs_layer_bounding_box (no other `?`, no `return`)
  BF_RenderNodeTs        render_node: pre_translate(-bbox.x(), -bbox.y()) then pre_concat(parent abs transform)
  BF_RenderNodeParentTs  parent transform: group -> abs * ts^-1, other nodes -> abs_transform
  BF_RenderDrawList      render.rs: render_nodes iterates the children in order, a leaf is drawn under `transform`, render_group
                         pre_concats group.transform() first
  BF_NodeById            Tree::node_by_id / node_by_id: empty id -> None, pre-order search over groups
"""
import re

PROPS = ['C12', 'C19']
GEOM = 'crates/usvg/src/tree/geom.rs'
TREE = 'crates/usvg/src/tree/mod.rs'
IMAGE = 'crates/usvg/src/parser/image.rs'
CONV = 'crates/usvg/src/parser/converter.rs'
USE = 'crates/usvg/src/parser/use_node.rs'
LIB = 'crates/resvg/src/lib.rs'
RENDER = 'crates/resvg/src/render.rs'
MAIN = 'crates/resvg/src/main.rs'


def norm(s):
    s = re.sub(r"//[^\n]*", "", s)
    return re.sub(r"\s+", " ", s).strip()


FACTS = [
    ('BF_ExpandMinMax', GEOM, r"fn expand_impl\(&self, r: Self\) -> Self \{ Self \{ left: self\.left\.min\(r\.left\), top: self\.top\.min\(r\.top\), "
                              r"right: self\.right\.max\(r\.right\), bottom: self\.bottom\.max\(r\.bottom\), \} \}"),
    ('BF_DefaultSentinels', GEOM, r"fn default\(\) -> Self \{ Self \{ left: f32::MAX, top: f32::MAX, right: f32::MIN, bottom: f32::MIN, \} \}.*"
                                  r"pub fn is_default\(&self\) -> bool \{ self\.left == f32::MAX && self\.top == f32::MAX && self\.right == f32::MIN "
                                  r"&& self\.bottom == f32::MIN \}"),
    ('BF_ObjBoxes', TREE, r"let mut c_bbox = child\.bounding_box\(\); if let Node::Group\(ref group\) = child \{ "
                          r"if let Some\(r\) = c_bbox\.transform\(group\.transform\) \{ c_bbox = r; \} \} bbox = bbox\.expand\(c_bbox\); \} "
                          r"abs_bbox = abs_bbox\.expand\(child\.abs_bounding_box\(\)\); \{ let mut c_bbox = child\.stroke_bounding_box\(\); "
                          r"if let Node::Group\(ref group\) = child \{ if let Some\(r\) = c_bbox\.transform\(group\.transform\) \{ c_bbox = r; \} \} "
                          r"stroke_bbox = stroke_bbox\.expand\(c_bbox\); \}"),
    ('BF_SkipEmptyGroups', TREE, r"pub\(crate\) fn calculate_object_bbox\(&mut self\) -> Option<NonZeroRect> \{ let mut bbox = BBox::default\(\); "
                                 r"for child in &self\.children \{ if let Node::Group\(ref group\) = child \{ if !group\.has_children\(\) && group\.filters\.is_empty\(\) "
                                 r"\{ continue; \} \} let mut c_bbox.*let mut layer_bbox = BBox::default\(\); for child in &self\.children \{ "
                                 r"if let Node::Group\(ref group\) = child \{ if !group\.has_children\(\) && group\.filters\.is_empty\(\) \{ continue; \} \} \{ let mut c_bbox"),
    ('BF_AbsBoxes', TREE, r"abs_bbox = abs_bbox\.expand\(child\.abs_bounding_box\(\)\);.*"
                          r"abs_stroke_bbox = abs_stroke_bbox\.expand\(child\.abs_stroke_bounding_box\(\)\);"),
    ('BF_LayerGroup', TREE, r"if let Node::Group\(ref group\) = child \{ let r = group\.layer_bounding_box; "
                            r"if let Some\(r\) = r\.transform\(group\.transform\) \{ layer_bbox = layer_bbox\.expand\(r\); \} \}"),
    ('BF_LayerNonGroup', TREE, r"\} else \{ layer_bbox = layer_bbox\.expand\(child\.stroke_bounding_box\(\)\); \}"),
    ('BF_FilterPriority', TREE, r"if let Some\(bbox\) = bbox\.to_rect\(\) \{ self\.bounding_box = bbox; self\.abs_bounding_box = abs_bbox\.to_rect\(\)\?; "
                                r"self\.stroke_bounding_box = stroke_bbox\.to_rect\(\)\?; self\.abs_stroke_bounding_box = abs_stroke_bbox\.to_rect\(\)\?; \} "
                                r"if let Some\(filter_bbox\) = self\.filters_bounding_box\(\) \{ self\.layer_bounding_box = filter_bbox; \} "
                                r"else \{ self\.layer_bounding_box = layer_bbox\.to_non_zero_rect\(\)\?; \}"),
    ('BF_AbsLayer', TREE, r"self\.abs_layer_bounding_box = self\.layer_bounding_box\.transform\(self\.abs_transform\)\?; Some\(\(\)\) \}"),
    ('BF_PathNoSkew', TREE, r"if abs_transform\.has_skew\(\) \{.*\} else \{ abs_bounding_box = bounding_box\.transform\(abs_transform\)\?; "
                            r"abs_stroke_bounding_box = stroke_bounding_box\.transform\(abs_transform\)\?; \}"),
    ('BF_PathSkewBranch', TREE, r"let bounding_box = data\.compute_tight_bounds\(\)\?;.*if abs_transform\.has_skew\(\) \{ let path2 = data\.as_ref\(\)\.clone\(\); "
                                r"let path2 = path2\.transform\(abs_transform\)\?; abs_bounding_box = path2\.compute_tight_bounds\(\)\?;"),
    ('BF_ImageAbs', IMAGE, r"let abs_transform = parent\.abs_transform\.pre_concat\(image_ts\); "
                           r"let abs_bounding_box = actual_size \.to_non_zero_rect\(0\.0, 0\.0\) \.transform\(abs_transform\)\?;"),
    ('BF_GroupAbs', CONV, r"let abs_transform = parent\.abs_transform\.pre_concat\(transform\);"),
    ('BF_UseChildrenAbs', USE, r"let old_abs_transform = parent\.abs_transform; parent\.abs_transform = parent\.abs_transform\.pre_concat\(transform\);.*"
                               r"g\.transform = transform; parent\.children\.push\(Node::Group\(Box::new\(g\)\)\); \} parent\.abs_transform = old_abs_transform;"),
    ('BF_UseClipWrapAbs', USE, r"if let Some\(clip_rect\) = get_clip_rect\(node, child, state\) \{ let mut g = clip_element\(node, clip_rect, orig_ts, &use_state, cache\); "
                               r"g\.abs_transform = parent\.abs_transform;.*g2\.id = String::new\(\); g2\.transform = Transform::default\(\); "
                               r"g\.children\.push\(Node::Group\(Box::new\(g2\)\)\);"),
    ('BF_CliPageOffset', MAIN, r"resvg::render_node\(node, ts, &mut pixmap\.as_mut\(\)\); if args\.export_area_page \{.*"
                               r"let \(x, y\) = \(\(bbox\.x\(\) \* ts\.sx\) as i32, \(bbox\.y\(\) \* ts\.sy\) as i32\); "
                               r"if tiny_skia::IntRect::from_xywh\(x, y, pixmap\.width\(\), pixmap\.height\(\)\)\.is_some\(\) \{ page_pixmap\.draw_pixmap\( x, y,"),
    ('BF_BackgroundAbs', CONV, r"background_path\(background_color, view_box\.rect\.to_rect\(\), root_ts\).*g\.transform = root_ts; g\.abs_transform = root_ts;.*"
                               r"fn background_path\( background_color: svgtypes::Color, area: Rect, abs_transform: Transform, \) -> Option<Path> \{.*"
                               r"Path::new\( String::new\(\), true, Some\(fill\), None, PaintOrder::default\(\), ShapeRendering::default\(\), "
                               r"Arc::new\(path\), abs_transform, \) \}"),
    ('BF_NodeLayerBox', TREE, r"pub fn abs_layer_bounding_box\(&self\) -> Option<NonZeroRect> \{ match self \{ "
                              r"Node::Group\(ref group\) => Some\(group\.abs_layer_bounding_box\(\)\), "
                              r"Node::Path\(ref path\) => path\.abs_stroke_bounding_box\(\)\.to_non_zero_rect\(\), "
                              r"Node::Image\(ref image\) => image\.abs_bounding_box\(\)\.to_non_zero_rect\(\), "
                              r"Node::Text\(ref text\) => text\.abs_stroke_bounding_box\(\)\.to_non_zero_rect\(\), \} \}"),
    ('BF_RenderNodeNone', LIB, r"pub fn render_node\( node: &usvg::Node, mut transform: tiny_skia::Transform, pixmap: &mut tiny_skia::PixmapMut, \) "
                               r"-> Option<\(\)> \{ let bbox = node\.abs_layer_bounding_box\(\)\?;"),
    ('BF_RenderNodeTs', LIB, r"transform = transform\.pre_translate\(-bbox\.x\(\), -bbox\.y\(\)\);.*transform = transform\.pre_concat\(parent_ts\); "
                             r"let ctx = render::Context \{ max_bbox \}; render::render_node\(node, &ctx, transform, pixmap\); Some\(\(\)\) \}"),
    ('BF_RenderNodeParentTs', LIB, r"let parent_ts = match node \{ usvg::Node::Group\(ref g\) => g \.abs_transform\(\) "
                                   r"\.pre_concat\(g\.transform\(\)\.invert\(\)\.unwrap_or_default\(\)\), _ => node\.abs_transform\(\), \};"),
    ('BF_RenderDrawList', RENDER, r"pub fn render_nodes\( parent: &usvg::Group, ctx: &Context, transform: tiny_skia::Transform, pixmap: &mut tiny_skia::PixmapMut, \) \{ "
                                  r"for node in parent\.children\(\) \{ render_node\(node, ctx, transform, pixmap\); \} \}.*"
                                  r"usvg::Node::Group\(ref group\) => \{ render_group\(group, ctx, transform, pixmap\); \} "
                                  r"usvg::Node::Path\(ref path\) => \{ crate::path::render\( path, tiny_skia::BlendMode::SourceOver, ctx, transform, pixmap, \); \} "
                                  r"usvg::Node::Image\(ref image\) => \{ crate::image::render\(image, transform, pixmap\); \} "
                                  r"usvg::Node::Text\(ref text\) => \{ render_group\(text\.flattened\(\), ctx, transform, pixmap\); \}.*"
                                  r"fn render_group\( group: &usvg::Group, ctx: &Context, transform: tiny_skia::Transform, pixmap: &mut tiny_skia::PixmapMut, \) "
                                  r"-> Option<\(\)> \{ let transform = transform\.pre_concat\(group\.transform\(\)\); "
                                  r"if !group\.should_isolate\(\) \{ render_nodes\(group, ctx, transform, pixmap\); return Some\(\(\)\); \}"),
    ('BF_NodeById', TREE, r"pub fn node_by_id\(&self, id: &str\) -> Option<&Node> \{ if id\.is_empty\(\) \{ return None; \} node_by_id\(&self\.root, id\) \}.*"
                          r"fn node_by_id<'a>\(parent: &'a Group, id: &str\) -> Option<&'a Node> \{ for child in &parent\.children \{ "
                          r"if child\.id\(\) == id \{ return Some\(child\); \} if let Node::Group\(ref g\) = child \{ "
                          r"if let Some\(n\) = node_by_id\(g, id\) \{ return Some\(n\); \} \} \} None \}"),
]


# (file, function, lhs, count): every assignment to a `.transform` / `.abs_transform` field in crates/usvg/src/parser
TS_ASSIGN_SITES = sorted([
    ('converter.rs', 'convert_doc', 'g.transform', 1), ('converter.rs', 'convert_doc', 'g.abs_transform', 1),          # root viewBox group
    ('image.rs', 'convert_inner', 'g.transform', 1), ('image.rs', 'convert_inner', 'g.abs_transform', 1),              # image view box group
    ('image.rs', 'convert_inner', 'g2.abs_transform', 1),                                                              # its clip wrapper
    ('mask.rs', 'convert', 'g.transform', 1), ('mask.rs', 'convert', 'g.abs_transform', 1),                            # SR_MaskBBox
    ('paint_server.rs', 'convert_pattern', 'g.transform', 1), ('paint_server.rs', 'convert_pattern', 'g.abs_transform', 1),  # SR_PatternViewBox
    ('paint_server.rs', 'push_pattern_transform', 'g.transform', 1), ('paint_server.rs', 'push_pattern_transform', 'g.abs_transform', 1),
    ('paint_server.rs', 'to_user_coordinates', 'base.transform', 2),                                                  # gradients (no group)
    ('use_node.rs', 'convert', 'g.abs_transform', 1), ('use_node.rs', 'convert', 'g2.transform', 1),    # (the reset of g.transform in the symbol branch without clip went with 214a8de)
    ('use_node.rs', 'convert_svg', 'g.abs_transform', 1),
    ('use_node.rs', 'convert_children', 'parent.abs_transform', 2), ('use_node.rs', 'convert_children', 'g.transform', 1),
])


def REPO_FALLBACK(api):
    import os
    return os.environ.get('VERIF_REPO', '/repo')


def generate(api):
    cache = {}
    found = []
    for name, rel, pat in FACTS:
        try:
            if rel not in cache:
                cache[rel] = norm(api.rd(rel))
            if re.search(pat, cache[rel]):
                found.append(name)
            else:
                api.broken('table', 'BBoxTables.' + name, PROPS, "anchor not found in %s" % rel)
        except OSError as e:
            api.broken('table', 'BBoxTables.' + name, PROPS, e)
    # Path::new_simple call sites
    try:
        import os
        sites = []
        for rel in ('crates/usvg/src/parser/converter.rs', 'crates/usvg/src/parser/image.rs', 'crates/usvg/src/parser/marker.rs',
                    'crates/usvg/src/parser/use_node.rs', 'crates/usvg/src/parser/shapes.rs', 'crates/usvg/src/parser/text.rs',
                    'crates/usvg/src/parser/paint_server.rs', 'crates/usvg/src/parser/clippath.rs', 'crates/usvg/src/parser/mask.rs',
                    'crates/usvg/src/text/mod.rs', 'crates/usvg/src/text/flatten.rs'):
            try:
                n = len(re.findall(r"Path::new_simple\(", api.rd(rel)))
            except OSError:
                n = 0
            if n:
                sites.append((rel.split('/')[-1], n))
        if sorted(sites) == [('image.rs', 1), ('marker.rs', 1), ('use_node.rs', 1)]:
            found.append('BF_NewSimpleClipOnly')
        else:
            api.broken('table', 'BBoxTables.BF_NewSimpleClipOnly', PROPS, "Path::new_simple call sites: %r" % (sites,))
    except Exception as e:
        api.broken('table', 'BBoxTables.BF_NewSimpleClipOnly', PROPS, e)
    # render_node: exactly one way to report 'nothing to render'
    try:
        lib = api.rd(LIB)
        _, _, body = api.rs2coq.find_fn(lib, 'render_node')
        nb = norm(body)
        nq = len(re.findall(r"\?\s*;|\?\s*\.|\?\s*\)", nb))
        nr = len(re.findall(r"\breturn\b", nb))
        nnone = len(re.findall(r"\bNone\b", nb))
        if nq == 1 and nr == 0 and nnone == 0 and 'let bbox = node.abs_layer_bounding_box()?;' in nb:
            found.append('BF_RenderNodeSingleExit')
        else:
            api.broken('table', 'BBoxTables.BF_RenderNodeSingleExit', PROPS,
                       "render_node: %d `?`, %d `return`, %d `None` (expected exactly the `?` on abs_layer_bounding_box)" % (nq, nr, nnone))
    except Exception as e:
        api.broken('table', 'BBoxTables.BF_RenderNodeSingleExit', PROPS, e)
    # convert_group: one binding of `transform`, used for both fields, never reassigned
    try:
        conv = api.rd(CONV)
        _, _, body = api.rs2coq.find_fn(conv, 'convert_group')
        nb = norm(body)
        n_bind = len(re.findall(r"\blet (?:mut )?transform\b", nb))
        n_assign = len(re.findall(r"\.\s*(?:abs_)?transform\s*=[^=]", nb)) + len(re.findall(r"\b(?:abs_)?transform\s*=[^=]", re.sub(r"\blet (?:mut )?(?:abs_)?transform\b[^;]*;", "", nb)))
        ok = (n_bind == 1 and n_assign == 0
              and 'let transform = node.resolve_transform(AId::Transform, state);' in nb
              and re.search(r"let abs_transform = parent\.abs_transform\.pre_concat\(transform\); let dummy = [^;]*; let mut g = Group \{ id, transform, abs_transform,", nb))
        if ok:
            found.append('BF_GroupTsOnce')
        else:
            api.broken('table', 'BBoxTables.BF_GroupTsOnce', PROPS,
                       "convert_group: %d bindings of `transform`, %d later assignments to transform / abs_transform (expected 1 binding by "
                       "resolve_transform feeding both Group fields, 0 assignments)" % (n_bind, n_assign))
    except Exception as e:
        api.broken('table', 'BBoxTables.BF_GroupTsOnce', PROPS, e)
    # every assignment to `.transform` / `.abs_transform` of a group in the parser
    try:
        import os
        sites = []
        pdir = 'crates/usvg/src/parser'
        for fn in sorted(os.listdir(os.path.join(REPO_FALLBACK(api), pdir))):
            if not fn.endswith('.rs'):
                continue
            src = api.rd(pdir + '/' + fn)
            src = re.sub(r"//[^\n]*", "", src)
            # split into top-level / impl-level functions
            for m in re.finditer(r"\bfn\s+(\w+)", src):
                pass
            fns = [(m.start(), m.group(1)) for m in re.finditer(r"\bfn\s+(\w+)", src)]
            for m in re.finditer(r"\b(\w+)\.(abs_transform|transform)\s*=[^=]", src):
                owner = [name for pos, name in fns if pos < m.start()]
                sites.append((fn, owner[-1] if owner else '-', m.group(1) + '.' + m.group(2)))
        table = sorted(set((a, b, c, sites.count((a, b, c))) for a, b, c in sites))
        if table == TS_ASSIGN_SITES:
            found.append('BF_TsAssignSites')
        else:
            api.broken('table', 'BBoxTables.BF_TsAssignSites', PROPS,
                       "assignments to .transform / .abs_transform in crates/usvg/src/parser changed: new %r, gone %r"
                       % (sorted(set(table) - set(TS_ASSIGN_SITES)), sorted(set(TS_ASSIGN_SITES) - set(table))))
    except Exception as e:
        api.broken('table', 'BBoxTables.BF_TsAssignSites', PROPS, e)
    # fd607e1: every root that receives a Path::new_simple rectangle gets its boxes calculated
    try:
        okc = True
        why = []
        for rel, var in (('crates/usvg/src/parser/marker.rs', 'clip_path'), ('crates/usvg/src/parser/use_node.rs', 'clip_path'), (IMAGE, 'clip')):
            t = norm(api.rd(rel))
            n_push = len(re.findall(r"%s\.root\.children\.push\(Node::Path\(Box::new\(path\)\)\);" % var, t))
            n_both = len(re.findall(r"%s\.root\.children\.push\(Node::Path\(Box::new\(path\)\)\); %s\.root\.calculate_bounding_boxes\(\);" % (var, var), t))
            if n_push != 1 or n_both != 1:
                okc = False
                why.append("%s: %d pushes, %d followed by calculate_bounding_boxes" % (rel.split('/')[-1], n_push, n_both))
        if okc:
            found.append('BF_SynthClipBoxes')
        else:
            api.broken('table', 'BBoxTables.BF_SynthClipBoxes', PROPS, '; '.join(why))
    except Exception as e:
        api.broken('table', 'BBoxTables.BF_SynthClipBoxes', PROPS, e)
    names = [n for n, _, _ in FACTS] + ['BF_NewSimpleClipOnly', 'BF_RenderNodeSingleExit', 'BF_GroupTsOnce', 'BF_TsAssignSites', 'BF_SynthClipBoxes']
    out = [api.HEADER, "From Coq Require Import List.\nImport ListNotations.\n",
           "Inductive bbox_fact :=\n  | " + "\n  | ".join(names) + ".\n",
           "Definition bbox_facts : list bbox_fact := [%s].\n" % "; ".join(found),
           "Definition bbox_facts_expected : list bbox_fact := [%s].\n" % "; ".join(names)]
    api.write_gen('BBoxTables.v', "\n".join(out))
    if len(found) == len(names):
        api.ok('tables', 'BBoxTables', props=PROPS)
