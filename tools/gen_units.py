"""Gen/UnitsTables.v: the enum-valued attributes that have no table in Gen/EnumTables.v because the writer does not store them
as a tree enum with one default: `*Units` (per attribute: what writer.rs passes as `def` to write_units - or the constant it
writes - against what the parser assumes for the absent attribute) and `visibility` (bool in the tree, three keywords in the
parser).  Both directions source-derived (C08)."""
import re

PROPS = ['C08']
W = 'crates/usvg/src/writer.rs'
SV = 'crates/usvg/src/parser/svgtree/mod.rs'
PARSERS = ['clippath.rs', 'filter.rs', 'mask.rs', 'paint_server.rs']


def table(api, src, ty):
    m = re.search(r"impl<[^>]*>\s*FromValue<[^>]*>\s*for\s+%s\s*\{.*?match value \{(.*?)\n        \}" % ty, src, re.S)
    if not m:
        raise api.Unsupported("impl FromValue for %s not found" % ty)
    rows = re.findall(r'"([^"]+)"\s*=>\s*Some\(%s::([A-Za-z]+)\)' % ty, m.group(1))
    if not rows or not re.search(r"_\s*=>\s*None", m.group(1)):
        raise api.Unsupported("impl FromValue for %s: unexpected arms" % ty)
    return rows


def generate(api):
    try:
        w = api.rd(W)
        sv = api.rd(SV)
        psrc = "\n".join(api.rd('crates/usvg/src/parser/' + p) for p in PARSERS)
        tree = api.rd('crates/usvg/src/tree/mod.rs')
        uparse = table(api, sv, 'Units')
        _, _, wb = api.rs2coq.find_fn(w, 'write_units', after=r"impl XmlWriterExt for XmlWriter")
        if not re.search(r"if\s+units\s*!=\s*def\s*\{", wb):
            raise api.Unsupported("write_units: `if units != def` not found")
        uwrite = re.findall(r'Units::([A-Za-z]+)\s*=>\s*"([^"]+)"', wb)
        ctors = re.search(r"pub(?:\(crate\))? enum Units\s*\{(.*?)\}", tree, re.S)
        ctors = re.findall(r"^\s*([A-Z][A-Za-z]+)\s*,", ctors.group(1), re.M) if ctors else []
        if sorted(c for c, _ in uwrite) != sorted(ctors) or not ctors:
            raise api.Unsupported("write_units: arms %s do not cover enum Units %s" % (uwrite, ctors))
        sites = []
        for m in re.finditer(r"\.write_units\(\s*AId::([A-Za-z]+)\s*,\s*([^,]+?)\s*,\s*Units::([A-Za-z]+)\s*,?\s*\)", w):
            aid, val, d = m.group(1), m.group(2).strip(), m.group(3)
            mc = re.fullmatch(r"Units::([A-Za-z]+)", val)
            pd = set(re.findall(r"convert_units\(\s*node\s*,\s*AId::%s\s*,\s*Units::([A-Za-z]+)\s*\)" % aid, psrc))
            pd |= set(re.findall(r"\.attribute\(AId::%s\)\s*\.unwrap_or\(Units::([A-Za-z]+)\)" % aid, psrc))
            if len(pd) != 1:
                raise api.Unsupported("parser default of %s: found %s" % (aid, sorted(pd)))
            sites.append((aid, mc.group(1) if mc else None, d, pd.pop()))
        if len(sites) < 5:
            raise api.Unsupported("only %d write_units sites found" % len(sites))
        # visibility
        vparse = table(api, sv, 'Visibility')
        md = re.search(r"impl Default for Visibility\s*\{\s*fn default\(\)\s*->\s*Self\s*\{\s*Self::([A-Za-z]+)", tree)
        _, _, vb = api.rs2coq.find_fn(w, 'write_visibility', after=r"impl XmlWriterExt for XmlWriter")
        mv = re.search(r'if\s*!\s*value\s*\{\s*self\.write_attribute\(AId::Visibility\.to_str\(\),\s*"([^"]+)"\);\s*\}', vb)
        if not md or not mv:
            raise api.Unsupported("Visibility default / write_visibility not found")
        pv = api.rd('crates/usvg/src/parser/converter.rs') + api.rd('crates/usvg/src/parser/image.rs') + api.rd('crates/usvg/src/parser/text.rs')
        vis_is = set(re.findall(r"visibility\s*==\s*Visibility::([A-Za-z]+)", pv))
        if vis_is != {'Visible'} or len(re.findall(r"find_attribute\(AId::Visibility\)\.unwrap_or_default\(\)", pv)) < 3:
            raise api.Unsupported("parser: `visible = (visibility == Visibility::Visible)` over find_attribute(..).unwrap_or_default() not found")
        out = [api.HEADER, "From Coq Require Import String List.\nImport ListNotations.\nLocal Open Scope string_scope.\n",
               "Inductive units := %s." % " | ".join("U_" + c for c in ctors),
               "Definition units_all : list units := [%s]." % "; ".join("U_" + c for c in ctors),
               "(* %s :: impl FromValue for Units *)" % SV,
               "Definition parse_units (s : string) : option units :=\n  " +
               "".join('if String.eqb s "%s" then Some U_%s else ' % (s, c) for s, c in uparse) + "None.",
               "(* %s :: write_units, the match *)" % W,
               "Definition units_name (u : units) : string := match u with %s end." % " | ".join('U_%s => "%s"' % (c, s) for c, s in uwrite),
               "(* (attribute, Some c = the writer always passes the constant c / None = a field of the tree, `def` of the writer, default of the parser) *)",
               "Definition units_sites : list (string * option units * units * units) := ["]
        out.append(";\n".join('  ("%s", %s, U_%s, U_%s)' % (a, ('Some U_' + c) if c else 'None', d, p) for a, c, d, p in sites))
        out.append("].\n")
        out += ["Inductive visibility := %s." % " | ".join("V_" + c for _, c in vparse),
                "(* %s :: impl FromValue for Visibility; tree/mod.rs :: impl Default *)" % SV,
                "Definition parse_visibility (s : string) : option visibility :=\n  " +
                "".join('if String.eqb s "%s" then Some V_%s else ' % (s, c) for s, c in vparse) + "None.",
                "Definition default_visibility : visibility := V_%s." % md.group(1),
                "(* parser: visible = (visibility == Visibility::%s) *)" % 'Visible',
                "Definition visible_of (v : visibility) : bool := match v with V_Visible => true | _ => false end.",
                "(* %s :: write_visibility: `if !value { \"%s\" }` *)" % (W, mv.group(1)),
                'Definition write_visibility (b : bool) : option string := if b then None else Some "%s".\n' % mv.group(1)]
        api.write_gen('UnitsTables.v', "\n".join(out))
        api.ok('tables', 'writer.units', sites=len(sites))
    except (api.Unsupported, OSError, ValueError, IndexError, AttributeError) as e:
        api.broken('table', 'writer.units', PROPS, e)
