//! C06 (reproducibility) operations.
//!
//! `c06-digest` (batch)  payload `opts\tdoc` -> {"s": digest of Tree::to_string, "p": digest of the pixmap, "w","h","n"}
//! `c06-e2e <seed> <threads,..> <reps>`  stdin `idx\topts\tdoc` lines; one process:
//!     baseline pass (digests printed as `idx\t{..}`), `reps-1` repeated passes, a reversed and a permuted pass,
//!     then for every thread count n: ceil(n/2) threads render the SAME shared trees (each in its own order)
//!     while the other threads parse the documents again (each in its own order) - all with ONE shared
//!     `Arc<fontdb::Database>`.  Every disagreement with the baseline is printed as `MISMATCH\t{..}`.
//! `c06-history <k>`  stdin as above; fresh-thread render vs k renders in a row on one long-lived thread (see `history`)
use crate::dump::esc;
use crate::util;
use std::io::BufRead;
use std::sync::Arc;
use usvg::fontdb;

// compile-time facts the threaded oracle relies on (and the property states)
#[allow(dead_code)]
fn assert_send_sync<T: Send + Sync>() {}
#[allow(dead_code)]
fn static_facts() {
    assert_send_sync::<usvg::Tree>();
    assert_send_sync::<usvg::Options>();
    assert_send_sync::<Arc<fontdb::Database>>();
}

/// Two independent 64-bit digests (FNV-1a and a multiply-rotate mix) + length: 128 bits, no external crate.
pub fn digest(data: &[u8]) -> String {
    let mut a: u64 = 0xcbf29ce484222325;
    let mut b: u64 = 0x9E3779B97F4A7C15;
    for &x in data {
        a ^= x as u64;
        a = a.wrapping_mul(0x100000001b3);
        b = (b ^ (x as u64)).wrapping_mul(0xff51afd7ed558ccd).rotate_left(23) ^ 0x2545F4914F6CDD1D;
    }
    b ^= data.len() as u64;
    b = (b ^ (b >> 33)).wrapping_mul(0xc4ceb9fe1a85ec53);
    b ^= b >> 29;
    format!("{:016x}{:016x}", a, b)
}

const MAX_PIXELS: u64 = 6_000_000;

fn options_shared(spec: &str, db: &Arc<fontdb::Database>) -> usvg::Options<'static> {
    let spec2 = format!("{};nofonts", spec);
    let mut opt = util::make_options(&spec2);
    opt.fontdb = db.clone();
    opt
}

fn parse_shared(spec: &str, doc: &str, db: &Arc<fontdb::Database>) -> Result<usvg::Tree, String> {
    let mut opt = options_shared(spec, db);
    let data = util::load_doc(doc, &mut opt)?;
    usvg::Tree::from_data(&data, &opt).map_err(|e| format!("{}", e))
}

fn string_digest(tree: &usvg::Tree) -> (String, usize) {
    let s = tree.to_string(&usvg::WriteOptions::default());
    (digest(s.as_bytes()), s.len())
}

fn pixel_digest(tree: &usvg::Tree) -> (String, u32, u32) {
    let size = tree.size().to_int_size();
    let (w, h) = (size.width(), size.height());
    if (w as u64) * (h as u64) > MAX_PIXELS {
        return ("toolarge".to_string(), w, h);
    }
    match util::render_tree(tree, w, h, tiny_skia::Transform::identity()) {
        Some(pm) => (digest(pm.data()), w, h),
        None => ("nocanvas".to_string(), w, h),
    }
}

fn guarded<T, F: FnOnce() -> T>(f: F) -> Result<T, String> {
    std::panic::catch_unwind(std::panic::AssertUnwindSafe(f)).map_err(|e| format!("panic: {}", util::panic_msg(e)))
}

/// (string digest, pixel digest) with errors and panics folded into the digests (they must reproduce too)
fn full_digest(spec: &str, doc: &str, db: &Arc<fontdb::Database>) -> (String, String, Option<usvg::Tree>) {
    let spec_ = spec.to_string();
    let doc_ = doc.to_string();
    let db_ = db.clone();
    let t = guarded(move || parse_shared(&spec_, &doc_, &db_));
    let tree = match t {
        Ok(Ok(t)) => t,
        Ok(Err(e)) => return (format!("error:{}", e), "-".to_string(), None),
        Err(p) => return (p, "-".to_string(), None),
    };
    let tr = std::panic::AssertUnwindSafe(&tree);
    let s = match guarded(move || string_digest(&tr)) {
        Ok((d, n)) => format!("{}:{}", d, n),
        Err(p) => p,
    };
    let tr = std::panic::AssertUnwindSafe(&tree);
    let p = match guarded(move || pixel_digest(&tr)) {
        Ok((d, w, h)) => format!("{}:{}x{}", d, w, h),
        Err(p) => p,
    };
    (s, p, Some(tree))
}

fn op_digest(payload: &str) -> String {
    let (opts, doc) = payload.split_once('\t').unwrap_or(("", payload));
    let db = util::shared_fontdb();
    let (s, p, _) = full_digest(opts, doc, &db);
    format!("{{\"s\":{},\"p\":{}}}", esc(&s), esc(&p))
}

fn permutation(n: usize, rng: &mut util::SplitMix64) -> Vec<usize> {
    let mut v: Vec<usize> = (0..n).collect();
    for i in (1..n).rev() {
        let j = rng.below((i + 1) as u64) as usize;
        v.swap(i, j);
    }
    v
}

struct Item {
    idx: String,
    opts: String,
    doc: String,
}

fn e2e(args: &[String]) {
    util::install_panic_hook();
    let seed: u64 = args.first().and_then(|s| s.parse().ok()).unwrap_or(1);
    let threads: Vec<usize> = args
        .get(1)
        .map(|s| s.split(',').filter_map(|x| x.parse().ok()).collect())
        .unwrap_or_else(|| vec![2, 16]);
    let reps: usize = args.get(2).and_then(|s| s.parse().ok()).unwrap_or(3);
    let mut items = Vec::new();
    for line in std::io::stdin().lock().lines().map_while(Result::ok) {
        let f: Vec<&str> = line.splitn(3, '\t').collect();
        if f.len() == 3 {
            items.push(Item { idx: f[0].to_string(), opts: f[1].to_string(), doc: f[2].to_string() });
        }
    }
    let n = items.len();
    let db = util::make_fontdb();
    let mut rng = util::SplitMix64(seed);
    let mut mismatches = 0usize;
    let mut comparisons = 0usize;
    let mut report = |phase: &str, it: &Item, what: &str, base: &str, got: &str| {
        println!(
            "MISMATCH\t{{\"phase\":{},\"idx\":{},\"what\":{},\"base\":{},\"got\":{}}}",
            esc(phase), esc(&it.idx), esc(what), esc(base), esc(got)
        );
    };

    // baseline
    let mut base_s = Vec::with_capacity(n);
    let mut base_p = Vec::with_capacity(n);
    let mut trees: Vec<Option<usvg::Tree>> = Vec::with_capacity(n);
    for it in &items {
        let (s, p, t) = full_digest(&it.opts, &it.doc, &db);
        println!("{}\t{{\"s\":{},\"p\":{}}}", it.idx, esc(&s), esc(&p));
        base_s.push(s);
        base_p.push(p);
        trees.push(t);
    }
    // (a) repeated calls, (c) other processing orders in the same process (history)
    let mut orders: Vec<(String, Vec<usize>)> = Vec::new();
    for r in 1..reps {
        orders.push((format!("repeat{}", r), (0..n).collect()));
    }
    orders.push(("reversed".to_string(), (0..n).rev().collect()));
    orders.push(("permuted".to_string(), permutation(n, &mut rng)));
    for (phase, ord) in &orders {
        for &i in ord {
            let it = &items[i];
            let (s, p, t) = full_digest(&it.opts, &it.doc, &db);
            comparisons += 2;
            if s != base_s[i] {
                mismatches += 1;
                report(phase, it, "to_string", &base_s[i], &s);
            }
            if p != base_p[i] {
                mismatches += 1;
                report(phase, it, "pixels", &base_p[i], &p);
            }
            // re-render the tree of the FIRST parse too (rendering must not have changed it)
            if let (Some(t0), Some(_)) = (&trees[i], &t) {
                let tr = std::panic::AssertUnwindSafe(t0);
                let p0 = match guarded(move || pixel_digest(&tr)) {
                    Ok((d, w, h)) => format!("{}:{}x{}", d, w, h),
                    Err(p) => p,
                };
                comparisons += 1;
                if p0 != base_p[i] {
                    mismatches += 1;
                    report(phase, it, "pixels-of-first-tree", &base_p[i], &p0);
                }
            }
        }
    }
    // (b) threads
    let trees = Arc::new(trees);
    for &nt in &threads {
        let nrender = (nt + 1) / 2;
        let mut perms = Vec::new();
        for _ in 0..nt {
            perms.push(permutation(n, &mut rng));
        }
        let found: std::sync::Mutex<Vec<(String, usize, String, String)>> = std::sync::Mutex::new(Vec::new());
        let count = std::sync::atomic::AtomicUsize::new(0);
        std::thread::scope(|sc| {
            for (t, perm) in perms.iter().enumerate() {
                let trees = trees.clone();
                let db = db.clone();
                let (items, base_s, base_p, found, count) = (&items, &base_s, &base_p, &found, &count);
                std::thread::Builder::new()
                    .stack_size(16 << 20)
                    .spawn_scoped(sc, move || {
                        util::install_panic_hook();
                        for &i in perm {
                            if t < nrender {
                                // render the shared tree
                                if let Some(tree) = &trees[i] {
                                    let tr = std::panic::AssertUnwindSafe(tree);
                                    let p = match guarded(move || pixel_digest(&tr)) {
                                        Ok((d, w, h)) => format!("{}:{}x{}", d, w, h),
                                        Err(p) => p,
                                    };
                                    count.fetch_add(1, std::sync::atomic::Ordering::Relaxed);
                                    if p != base_p[i] {
                                        found.lock().unwrap().push(("shared-render".to_string(), i, "pixels".to_string(), p));
                                    }
                                    // serialising a shared tree concurrently
                                    let tr = std::panic::AssertUnwindSafe(tree);
                                    let s = match guarded(move || string_digest(&tr)) {
                                        Ok((d, n)) => format!("{}:{}", d, n),
                                        Err(p) => p,
                                    };
                                    count.fetch_add(1, std::sync::atomic::Ordering::Relaxed);
                                    if s != base_s[i] {
                                        found.lock().unwrap().push(("shared-to_string".to_string(), i, "to_string".to_string(), s));
                                    }
                                }
                            } else {
                                let it = &items[i];
                                let (s, p, _) = full_digest(&it.opts, &it.doc, &db);
                                count.fetch_add(2, std::sync::atomic::Ordering::Relaxed);
                                if s != base_s[i] {
                                    found.lock().unwrap().push(("concurrent-parse".to_string(), i, "to_string".to_string(), s));
                                }
                                if p != base_p[i] {
                                    found.lock().unwrap().push(("concurrent-parse".to_string(), i, "pixels".to_string(), p));
                                }
                            }
                        }
                    })
                    .unwrap();
            }
        });
        comparisons += count.load(std::sync::atomic::Ordering::Relaxed);
        for (ph, i, what, got) in found.into_inner().unwrap() {
            mismatches += 1;
            let base = if what == "to_string" { &base_s[i] } else { &base_p[i] };
            report(&format!("threads{}/{}", nt, ph), &items[i], &what, base, &got);
        }
    }
    let parsed = trees.iter().filter(|t| t.is_some()).count();
    println!(
        "DONE\t{{\"items\":{},\"parsed\":{},\"comparisons\":{},\"mismatches\":{},\"fontdb_strong\":{}}}",
        n, parsed, comparisons, mismatches, Arc::strong_count(&db)
    );
}

/// `c06-history <k>`: stdin `idx\topts\tdoc` lines.  The search engine for "state that outlives a call":
/// every document is parsed once; its tree is rendered (a) on a FRESH thread (= baseline, printed as `idx\t{..}`),
/// (b) `k` times in a row on ONE long-lived thread that renders all documents one after the other (sequence of renders
/// on one thread; used thread vs fresh thread), (c) once more on a fresh thread at the end (used process vs fresh thread).
fn history(args: &[String]) {
    util::install_panic_hook();
    let k: usize = args.first().and_then(|s| s.parse().ok()).unwrap_or(10);
    let mut items = Vec::new();
    for line in std::io::stdin().lock().lines().map_while(Result::ok) {
        let f: Vec<&str> = line.splitn(3, '\t').collect();
        if f.len() == 3 {
            items.push(Item { idx: f[0].to_string(), opts: f[1].to_string(), doc: f[2].to_string() });
        }
    }
    let db = util::make_fontdb();
    let mut trees: Vec<Option<usvg::Tree>> = Vec::new();
    for it in &items {
        let (spec, doc, db_) = (it.opts.clone(), it.doc.clone(), db.clone());
        trees.push(match guarded(move || parse_shared(&spec, &doc, &db_)) {
            Ok(Ok(t)) => Some(t),
            _ => None,
        });
    }
    let render = |t: &usvg::Tree| -> String {
        let tr = std::panic::AssertUnwindSafe(t);
        match guarded(move || pixel_digest(&tr)) {
            Ok((d, w, h)) => format!("{}:{}x{}", d, w, h),
            Err(p) => p,
        }
    };
    let on_fresh_thread = |t: &usvg::Tree| -> String {
        std::thread::scope(|sc| {
            std::thread::Builder::new()
                .stack_size(16 << 20)
                .spawn_scoped(sc, || {
                    util::install_panic_hook();
                    render(t)
                })
                .unwrap()
                .join()
                .unwrap_or_else(|_| "join-failed".to_string())
        })
    };
    let mut base: Vec<String> = Vec::new();
    for (it, t) in items.iter().zip(&trees) {
        let d = match t {
            Some(t) => on_fresh_thread(t),
            None => "-".to_string(),
        };
        println!("{}\t{{\"p\":{}}}", it.idx, esc(&d));
        base.push(d);
    }
    let mut comparisons = 0usize;
    let mut mismatches = 0usize;
    let found: Vec<(usize, String, String)> = std::thread::scope(|sc| {
        std::thread::Builder::new()
            .stack_size(16 << 20)
            .spawn_scoped(sc, || {
                util::install_panic_hook();
                let mut found = Vec::new();
                for (i, t) in trees.iter().enumerate() {
                    if let Some(t) = t {
                        for j in 0..k {
                            let d = render(t);
                            if d != base[i] {
                                found.push((i, format!("history/used-thread/render#{}", j), d));
                                break;
                            }
                        }
                    }
                }
                found
            })
            .unwrap()
            .join()
            .unwrap_or_default()
    });
    comparisons += trees.iter().filter(|t| t.is_some()).count() * k;
    let mut all = found;
    for (i, t) in trees.iter().enumerate() {
        if let Some(t) = t {
            comparisons += 1;
            let d = on_fresh_thread(t);
            if d != base[i] {
                all.push((i, "history/fresh-thread-in-used-process".to_string(), d));
            }
        }
    }
    for (i, phase, got) in all {
        mismatches += 1;
        println!(
            "MISMATCH\t{{\"phase\":{},\"idx\":{},\"what\":\"pixels\",\"base\":{},\"got\":{}}}",
            esc(&phase), esc(&items[i].idx), esc(&base[i]), esc(&got)
        );
    }
    let parsed = trees.iter().filter(|t| t.is_some()).count();
    println!(
        "DONE\t{{\"items\":{},\"parsed\":{},\"comparisons\":{},\"mismatches\":{}}}",
        items.len(), parsed, comparisons, mismatches
    );
}

pub fn dispatch(op: &str, args: &[String]) -> bool {
    match op {
        "c06-digest" => {
            util::run_batch(op_digest);
            true
        }
        "c06-e2e" => {
            e2e(args);
            true
        }
        "c06-history" => {
            history(args);
            true
        }
        _ => false,
    }
}
