//! C05 operations (references closed, unique, well-founded).
//!   c05-docids  payload `doc`        -> [[tag,id],..] of every element of the SOURCE document with an id
//!                                       (independent XML parse with roxmltree, entities expanded), or {"error":..}
//!   c05-nbi     payload `opts\tdoc`  -> {"q":[[id, kind|null, found_id, ndesc], ..]}: Tree::node_by_id for every
//!                                       distinct id of the render tree, for "" and for an id that does not occur
use crate::dump::esc;
use crate::util::*;

pub fn dispatch(op: &str, _args: &[String]) -> bool {
    match op {
        "c05-docids" => run_batch(op_docids),
        "c05-nbi" => run_batch(op_nbi),
        _ => return false,
    }
    true
}

pub fn doc_text(doc: &str) -> Result<String, String> {
    let mut opt = usvg::Options::default();
    let data = load_doc(doc, &mut opt)?;
    let data = if data.starts_with(&[0x1f, 0x8b]) {
        usvg::decompress_svgz(&data).map_err(|e| format!("{}", e))?
    } else {
        data
    };
    String::from_utf8(data).map_err(|_| "not utf-8".to_string())
}

fn op_docids(payload: &str) -> String {
    let text = match doc_text(payload) {
        Ok(t) => t,
        Err(e) => return format!("{{\"error\":{}}}", esc(&e)),
    };
    let xopt = roxmltree::ParsingOptions { allow_dtd: true, ..Default::default() };
    let doc = match roxmltree::Document::parse_with_options(&text, xopt) {
        Ok(d) => d,
        Err(e) => return format!("{{\"error\":{}}}", esc(&format!("{}", e))),
    };
    let mut o = String::from("[");
    let mut first = true;
    for n in doc.descendants().filter(|n| n.is_element()) {
        if let Some(id) = n.attribute("id") {
            if !first {
                o.push(',');
            }
            first = false;
            o.push_str(&format!("[{},{}]", esc(n.tag_name().name()), esc(id)));
        }
    }
    o.push(']');
    o
}

fn kind_of(n: &usvg::Node) -> &'static str {
    match n {
        usvg::Node::Group(_) => "g",
        usvg::Node::Path(_) => "path",
        usvg::Node::Image(_) => "image",
        usvg::Node::Text(_) => "text",
    }
}

fn ndesc(n: &usvg::Node) -> usize {
    let mut k = 1;
    if let usvg::Node::Group(g) = n {
        for c in g.children() {
            k += ndesc(c);
        }
    }
    k
}

fn ids_of(g: &usvg::Group, out: &mut Vec<String>) {
    for c in g.children() {
        if !c.id().is_empty() && !out.iter().any(|x| x == c.id()) {
            out.push(c.id().to_string());
        }
        if let usvg::Node::Group(g2) = c {
            ids_of(g2, out);
        }
    }
}

fn op_nbi(payload: &str) -> String {
    let (opts, doc) = payload.split_once('\t').unwrap_or(("", payload));
    let tree = match parse_doc(opts, doc) {
        Ok(t) => t,
        Err(e) => return format!("{{\"error\":{}}}", esc(&e)),
    };
    let mut ids = Vec::new();
    ids_of(tree.root(), &mut ids);
    ids.push(String::new());
    let mut absent = String::from("vf_absent");
    while ids.iter().any(|x| *x == absent) {
        absent.push('_');
    }
    ids.push(absent);
    let mut o = String::from("{\"q\":[");
    for (i, id) in ids.iter().enumerate() {
        if i != 0 {
            o.push(',');
        }
        match tree.node_by_id(id) {
            Some(n) => o.push_str(&format!("[{},{},{},{}]", esc(id), esc(kind_of(n)), esc(n.id()), ndesc(n))),
            None => o.push_str(&format!("[{},null,\"\",0]", esc(id))),
        }
    }
    o.push_str("]}");
    o
}
