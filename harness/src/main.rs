mod dump;
mod ops;
mod util;

fn dump_file(path: &str) -> String {
    match util::parse_doc("", &format!("@{}", path)) {
        Ok(tree) => dump::dump_tree(&tree),
        Err(e) => format!("{{\"error\":{}}}", dump::esc(&e)),
    }
}

fn main() {
    let args: Vec<String> = std::env::args().collect();
    let op = args.get(1).map(|s| s.as_str()).unwrap_or("");
    match op {
        // rvh dump-file <path.svg> [<path.svg> ...]: one line of JSON per file.
        "dump-file" => {
            for path in &args[2..] {
                println!("{}", dump_file(path));
            }
        }
        "dump" => util::run_batch(ops::op_dump),
        "render-pair" => util::run_batch(ops::op_render_pair),
        _ => {
            eprintln!("rvh: unknown op {:?}", op);
            std::process::exit(2);
        }
    }
}
