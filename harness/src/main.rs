mod dump;
mod ops;
mod util;
// per-property operation modules (each exposes `pub fn dispatch(op: &str, args: &[String]) -> bool`)
// MODULES-BEGIN
// MODULES-END

fn dump_file(path: &str) -> String {
    match util::parse_doc("", &format!("@{}", path)) {
        Ok(tree) => dump::dump_tree(&tree),
        Err(e) => format!("{{\"error\":{}}}", dump::esc(&e)),
    }
}

fn main() {
    let args: Vec<String> = std::env::args().collect();
    let op = args.get(1).map(|s| s.as_str()).unwrap_or("");
    let rest: Vec<String> = args.iter().skip(2).cloned().collect();
    match op {
        // rvh dump-file <path.svg> [<path.svg> ...]: one line of JSON per file.
        "dump-file" => {
            for path in &rest {
                println!("{}", dump_file(path));
            }
            return;
        }
        "dump" => return util::run_batch(ops::op_dump),
        "render-pair" => return util::run_batch(ops::op_render_pair),
        _ => {}
    }
    let handled = false
        // DISPATCH-BEGIN
        // DISPATCH-END
        ;
    if !handled {
        eprintln!("rvh: unknown op {:?}", op);
        std::process::exit(2);
    }
}
