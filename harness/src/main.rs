mod dump;
mod ops;
mod util;
// per-property operation modules (each exposes `pub fn dispatch(op: &str, args: &[String]) -> bool`)
// MODULES-BEGIN
mod c04;
mod c18;
mod c09;
mod c06;
mod c05;
mod c07;
mod c08;
mod c14;
mod c13;
mod c02;
mod c11;
mod c12;
mod c19;
mod c16;
mod c03;
mod c01;
mod c20;
mod c15;
mod c17;
// MODULES-END

fn dump_file(path: &str) -> String {
    match util::parse_doc("", &format!("@{}", path)) {
        Ok(tree) => dump::dump_tree(&tree),
        Err(e) => format!("{{\"error\":{}}}", dump::esc(&e)),
    }
}

fn main() {
    let args: Vec<String> = std::env::args().collect();
    let op = args.get(1).map(|s| s.as_str()).unwrap_or("");
    let rest: Vec<String> = args.iter().skip(2).cloned().collect();
    match op {
        // rvh dump-file <path.svg> [<path.svg> ...]: one line of JSON per file.
        "dump-file" => {
            for path in &rest {
                println!("{}", dump_file(path));
            }
            return;
        }
        "dump" => return util::run_batch(ops::op_dump),
        "render-pair" => return util::run_batch(ops::op_render_pair),
        _ => {}
    }
    let handled = false
        // DISPATCH-BEGIN
        || c04::dispatch(op, &rest)
        || c18::dispatch(op, &rest)
        || c09::dispatch(op, &rest)
        || c06::dispatch(op, &rest)
        || c05::dispatch(op, &rest)
        || c07::dispatch(op, &rest)
        || c08::dispatch(op, &rest)
        || c14::dispatch(op, &rest)
        || c13::dispatch(op, &rest)
        || c02::dispatch(op, &rest)
        || c11::dispatch(op, &rest)
        || c12::dispatch(op, &rest)
        || c19::dispatch(op, &rest)
        || c16::dispatch(op, &rest)
        || c03::dispatch(op, &rest)
        || c01::dispatch(op, &rest)
        || c20::dispatch(op, &rest)
        || c15::dispatch(op, &rest)
        || c17::dispatch(op, &rest)
        // DISPATCH-END
        ;
    if !handled {
        eprintln!("rvh: unknown op {:?}", op);
        std::process::exit(2);
    }
}
