//! c02 ops (see tools/props/c02.py)
pub fn dispatch(_op: &str, _args: &[String]) -> bool {
    false
}
