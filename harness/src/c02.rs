//! C02: rendering is total and its memory is bounded by the canvas.
//!   c02-render  payload `opts\tdoc\tW\tH\tts[\tnode=<id>]` -> {"ok":true,"ms":..,"largest":..,"peak":..,"nonblank":..,"layers":..}
//!               (a panic is reported by run_batch as {"panic":..,"at":..}; an abort / hang by the python driver)
//!
//! The counting global allocator lives here.  It only counts while a c02 render is running (one relaxed load
//! otherwise) and refuses single allocations above 3 GiB (the process then aborts with the usual
//! "memory allocation of N bytes failed", which the driver classifies) so that an unbounded surface cannot
//! take the machine down.
use crate::dump::esc;
use crate::util::*;
use std::alloc::{GlobalAlloc, Layout, System};
use std::sync::atomic::{AtomicBool, AtomicI64, AtomicUsize, Ordering};

pub struct Counting;

static TRACK: AtomicBool = AtomicBool::new(false);
static LARGEST: AtomicUsize = AtomicUsize::new(0);
static LIVE: AtomicI64 = AtomicI64::new(0);
static PEAK: AtomicI64 = AtomicI64::new(0);
static TOTAL: AtomicUsize = AtomicUsize::new(0);
const HARD_CAP: usize = 3 << 30;

#[inline]
fn note_alloc(size: usize) {
    if TRACK.load(Ordering::Relaxed) {
        LARGEST.fetch_max(size, Ordering::Relaxed);
        TOTAL.fetch_add(size, Ordering::Relaxed);
        let live = LIVE.fetch_add(size as i64, Ordering::Relaxed) + size as i64;
        PEAK.fetch_max(live, Ordering::Relaxed);
    }
}

unsafe impl GlobalAlloc for Counting {
    unsafe fn alloc(&self, l: Layout) -> *mut u8 {
        if l.size() > HARD_CAP {
            return std::ptr::null_mut();
        }
        note_alloc(l.size());
        System.alloc(l)
    }
    unsafe fn alloc_zeroed(&self, l: Layout) -> *mut u8 {
        if l.size() > HARD_CAP {
            return std::ptr::null_mut();
        }
        note_alloc(l.size());
        System.alloc_zeroed(l)
    }
    unsafe fn dealloc(&self, p: *mut u8, l: Layout) {
        if TRACK.load(Ordering::Relaxed) {
            LIVE.fetch_sub(l.size() as i64, Ordering::Relaxed);
        }
        System.dealloc(p, l)
    }
    unsafe fn realloc(&self, p: *mut u8, l: Layout, new_size: usize) -> *mut u8 {
        if new_size > HARD_CAP {
            return std::ptr::null_mut();
        }
        if TRACK.load(Ordering::Relaxed) {
            LARGEST.fetch_max(new_size, Ordering::Relaxed);
            if new_size > l.size() {
                TOTAL.fetch_add(new_size - l.size(), Ordering::Relaxed);
            }
            let live = LIVE.fetch_add(new_size as i64 - l.size() as i64, Ordering::Relaxed) + new_size as i64 - l.size() as i64;
            PEAK.fetch_max(live, Ordering::Relaxed);
        }
        System.realloc(p, l, new_size)
    }
}

#[global_allocator]
static GLOBAL: Counting = Counting;

pub fn dispatch(op: &str, _args: &[String]) -> bool {
    match op {
        "c02-render" => run_batch(op_render),
        "c02-fit" => run_batch(op_fit),
        "c02-classify" => run_batch(op_classify),
        _ => return false,
    }
    true
}

fn find_node<'a>(g: &'a usvg::Group, id: &str) -> Option<&'a usvg::Node> {
    for n in g.children() {
        if n.id() == id {
            return Some(n);
        }
        if let usvg::Node::Group(ref c) = n {
            if let Some(x) = find_node(c, id) {
                return Some(x);
            }
        }
    }
    None
}

fn first_ids(g: &usvg::Group, out: &mut Vec<String>, limit: usize) {
    for n in g.children() {
        if out.len() >= limit {
            return;
        }
        if !n.id().is_empty() {
            out.push(n.id().to_string());
        }
        if let usvg::Node::Group(ref c) = n {
            first_ids(c, out, limit);
        }
    }
}

fn op_render(payload: &str) -> String {
    let f: Vec<&str> = payload.split('\t').collect();
    if f.len() < 5 {
        return "{\"error\":\"bad payload\"}".into();
    }
    // a panic while *parsing* is C01's subject (parsing is total), not C02's: reported as a skip
    let parsed = std::panic::catch_unwind(|| parse_doc(f[0], f[1]));
    let tree = match parsed {
        Ok(Ok(t)) => t,
        Ok(Err(e)) => return format!("{{\"skip\":\"parse\",\"error\":{}}}", esc(&e)),
        Err(e) => {
            let loc = LAST_PANIC_LOC.with(|c| c.borrow().clone());
            return format!("{{\"skip\":\"parse-panic\",\"panic\":{},\"at\":{}}}", esc(&panic_msg(e)), esc(&loc));
        }
    };
    let w: u32 = f[2].parse().unwrap_or(0);
    let h: u32 = f[3].parse().unwrap_or(0);
    let ts = parse_ts(f[4]);
    let node_mode = f.iter().skip(5).any(|x| x.starts_with("node"));
    // watchdog: a render that exceeds the limit aborts the worker with a recognisable message (the batch
    // driver's own timeout is per chunk, far too coarse for a hang search)
    let limit_ms: u64 = f.iter().skip(5).find_map(|x| x.strip_prefix("limit=")).and_then(|x| x.parse().ok()).unwrap_or(0);
    let done = std::sync::Arc::new(AtomicBool::new(false));
    if limit_ms > 0 {
        let d = done.clone();
        std::thread::spawn(move || {
            let t0 = std::time::Instant::now();
            while !d.load(Ordering::SeqCst) {
                if t0.elapsed().as_millis() as u64 > limit_ms {
                    eprintln!("c02-watchdog: render exceeded {} ms", limit_ms);
                    std::process::abort();
                }
                std::thread::sleep(std::time::Duration::from_millis(25));
            }
        });
    }
    struct Done(std::sync::Arc<AtomicBool>);
    impl Drop for Done {
        fn drop(&mut self) {
            self.0.store(true, Ordering::SeqCst);
        }
    }
    let _done = Done(done);
    let mut pm = match tiny_skia::Pixmap::new(w, h) {
        Some(p) => p,
        None => return "{\"skip\":\"canvas\"}".into(),
    };
    let mut ids = Vec::new();
    if node_mode {
        first_ids(tree.root(), &mut ids, 8);
    }
    // make sure the counters are off again if the render panics (run_batch catches the unwind)
    struct Guard;
    impl Drop for Guard {
        fn drop(&mut self) {
            TRACK.store(false, Ordering::SeqCst);
        }
    }
    LARGEST.store(0, Ordering::SeqCst);
    LIVE.store(0, Ordering::SeqCst);
    PEAK.store(0, Ordering::SeqCst);
    TOTAL.store(0, Ordering::SeqCst);
    let t0 = std::time::Instant::now();
    let mut layers = 0usize;
    {
        let _g = Guard;
        resvg::verif_hooks::start_trace();
        TRACK.store(true, Ordering::SeqCst);
        if node_mode {
            for id in &ids {
                if let Some(n) = find_node(tree.root(), id) {
                    let _ = resvg::render_node(n, ts, &mut pm.as_mut());
                }
            }
        } else {
            resvg::render(&tree, ts, &mut pm.as_mut());
        }
        TRACK.store(false, Ordering::SeqCst);
        for e in resvg::verif_hooks::take_trace() {
            if e.starts_with("{\"ev\":\"layer\"") {
                layers += 1;
            }
        }
    }
    let ms = t0.elapsed().as_millis();
    // pixel validity: premultiplied colour <= alpha
    let mut invalid = 0usize;
    let mut nonblank = 0usize;
    for p in pm.data().chunks_exact(4) {
        if p[3] != 0 {
            nonblank += 1;
        }
        if p[0] > p[3] || p[1] > p[3] || p[2] > p[3] {
            invalid += 1;
        }
    }
    format!(
        "{{\"ok\":true,\"ms\":{},\"largest\":{},\"peak\":{},\"total\":{},\"nonblank\":{},\"invalid\":{},\"layers\":{},\"nodes\":{}}}",
        ms,
        LARGEST.load(Ordering::SeqCst),
        PEAK.load(Ordering::SeqCst).max(0),
        TOTAL.load(Ordering::SeqCst),
        nonblank,
        invalid,
        layers,
        ids.len()
    )
}

/// payload: `x y w h X Y W H` (two IntRects) -> `x,y,w,h` | `none` | `invalid`
fn op_fit(payload: &str) -> String {
    let v: Vec<i64> = payload.split_whitespace().filter_map(|x| x.parse().ok()).collect();
    if v.len() != 8 {
        return "invalid".into();
    }
    let mk = |x: i64, y: i64, w: i64, h: i64| -> Option<tiny_skia::IntRect> {
        tiny_skia::IntRect::from_xywh(i32::try_from(x).ok()?, i32::try_from(y).ok()?, u32::try_from(w).ok()?, u32::try_from(h).ok()?)
    };
    let (a, b) = match (mk(v[0], v[1], v[2], v[3]), mk(v[4], v[5], v[6], v[7])) {
        (Some(a), Some(b)) => (a, b),
        _ => return "invalid".into(),
    };
    match resvg::verif_hooks::fit_to_rect(a, b) {
        Some(r) => format!("{},{},{},{}", r.x(), r.y(), r.width(), r.height()),
        None => "none".into(),
    }
}

/// Static class predicates of an input (no rendering): payload `opts\tdoc\tW\tH\tts`
/// -> {"filters":n,"filter_px":max device-space filter region area,"filter_outside":n regions not inside max_bbox,
///     "patterns":n,"tile_px":max pattern tile area,"morph_cost":max region area * window area,"octaves":max numOctaves}
fn op_classify(payload: &str) -> String {
    let f: Vec<&str> = payload.split('\t').collect();
    if f.len() < 5 {
        return "{\"error\":\"bad payload\"}".into();
    }
    let tree = match parse_doc(f[0], f[1]) {
        Ok(t) => t,
        Err(e) => return format!("{{\"skip\":\"parse\",\"error\":{}}}", esc(&e)),
    };
    let w: f64 = f[2].parse().unwrap_or(1.0);
    let h: f64 = f[3].parse().unwrap_or(1.0);
    let ts = parse_ts(f[4]);
    #[derive(Default)]
    struct Acc {
        filters: usize,
        filter_px: f64,
        filter_outside: usize,
        patterns: usize,
        tile_px: f64,
        morph_cost: f64,
        octaves: u32,
        turb_freq: f64,
    }
    fn paint_tile(p: &usvg::Paint, ts: tiny_skia::Transform, acc: &mut Acc) {
        if let usvg::Paint::Pattern(ref pat) = p {
            acc.patterns += 1;
            let (sx, sy) = ts.pre_concat(pat.transform()).get_scale();
            let a = (pat.rect().width() * sx) as f64 * (pat.rect().height() * sy) as f64;
            if a > acc.tile_px {
                acc.tile_px = a;
            }
            walk(pat.root(), tiny_skia::Transform::from_scale(sx, sy), 1.0, 1.0, acc);
        }
    }
    fn walk(g: &usvg::Group, ts: tiny_skia::Transform, w: f64, h: f64, acc: &mut Acc) {
        let ts = ts.pre_concat(g.transform());
        for flt in g.filters() {
            acc.filters += 1;
            let (rw, rh, inside) = match flt.rect().transform(ts) {
                Some(r) => {
                    let inside = (r.left() as f64) >= -2.0 * w && (r.top() as f64) >= -2.0 * h && (r.right() as f64) <= 3.0 * w && (r.bottom() as f64) <= 3.0 * h;
                    (r.width() as f64, r.height() as f64, inside)
                }
                None => (f64::INFINITY, f64::INFINITY, false),
            };
            if !inside {
                acc.filter_outside += 1;
            }
            if rw * rh > acc.filter_px {
                acc.filter_px = rw * rh;
            }
            let (sx, sy) = ts.get_scale();
            for p in flt.primitives() {
                match p.kind() {
                    usvg::filter::Kind::Morphology(ref m) => {
                        let win = ((m.radius_x().get() * sx * 2.0).max(1.0) as f64).min(rw) * ((m.radius_y().get() * sy * 2.0).max(1.0) as f64).min(rh);
                        let c = rw.min(5.0 * w) * rh.min(5.0 * h) * win;
                        if c > acc.morph_cost {
                            acc.morph_cost = c;
                        }
                    }
                    usvg::filter::Kind::Turbulence(ref t) => {
                        acc.octaves = acc.octaves.max(t.num_octaves());
                        let fq = (t.base_frequency_x().get() as f64).max(t.base_frequency_y().get() as f64);
                        if fq > acc.turb_freq {
                            acc.turb_freq = fq;
                        }
                    }
                    _ => {}
                }
            }
        }
        for n in g.children() {
            match n {
                usvg::Node::Group(ref c) => walk(c, ts, w, h, acc),
                usvg::Node::Path(ref p) => {
                    if let Some(f) = p.fill() {
                        paint_tile(f.paint(), ts, acc);
                    }
                    if let Some(s) = p.stroke() {
                        paint_tile(s.paint(), ts, acc);
                    }
                }
                usvg::Node::Text(ref t) => walk(t.flattened(), ts, w, h, acc),
                usvg::Node::Image(ref i) => {
                    if let usvg::ImageKind::SVG(ref sub) = i.kind() {
                        walk(sub.root(), ts, w, h, acc);
                    }
                }
            }
        }
        if let Some(m) = g.mask() {
            walk(m.root(), ts, w, h, acc);
        }
        if let Some(c) = g.clip_path() {
            walk(c.root(), ts, w, h, acc);
        }
    }
    let mut acc = Acc::default();
    walk(tree.root(), ts, w, h, &mut acc);
    let fin = |x: f64| if x.is_finite() { x } else { 1e300 };
    format!(
        "{{\"filters\":{},\"filter_px\":{:e},\"filter_outside\":{},\"patterns\":{},\"tile_px\":{:e},\"morph_cost\":{:e},\"octaves\":{},\"turb_freq\":{:e}}}",
        acc.filters, fin(acc.filter_px), acc.filter_outside, acc.patterns, fin(acc.tile_px), fin(acc.morph_cost), acc.octaves, fin(acc.turb_freq)
    )
}
