//! C02: rendering is total and its memory is bounded by the canvas.
//!   c02-render  payload `opts\tdoc\tW\tH\tts[\tnode=<id>]` -> {"ok":true,"ms":..,"largest":..,"peak":..,"nonblank":..,"layers":..}
//!               (a panic is reported by run_batch as {"panic":..,"at":..}; an abort / hang by the python driver)
//!
//! The counting global allocator lives here.  It only counts while a c02 render is running (one relaxed load
//! otherwise) and refuses single allocations above 3 GiB (the process then aborts with the usual
//! "memory allocation of N bytes failed", which the driver classifies) so that an unbounded surface cannot
//! take the machine down.
use crate::dump::esc;
use crate::util::*;
use std::alloc::{GlobalAlloc, Layout, System};
use std::sync::atomic::{AtomicBool, AtomicI64, AtomicUsize, Ordering};

pub struct Counting;

static TRACK: AtomicBool = AtomicBool::new(false);
static LARGEST: AtomicUsize = AtomicUsize::new(0);
static LIVE: AtomicI64 = AtomicI64::new(0);
static PEAK: AtomicI64 = AtomicI64::new(0);
static TOTAL: AtomicUsize = AtomicUsize::new(0);
const HARD_CAP: usize = 3 << 30;

#[inline]
fn note_alloc(size: usize) {
    if TRACK.load(Ordering::Relaxed) {
        LARGEST.fetch_max(size, Ordering::Relaxed);
        TOTAL.fetch_add(size, Ordering::Relaxed);
        let live = LIVE.fetch_add(size as i64, Ordering::Relaxed) + size as i64;
        PEAK.fetch_max(live, Ordering::Relaxed);
    }
}

unsafe impl GlobalAlloc for Counting {
    unsafe fn alloc(&self, l: Layout) -> *mut u8 {
        if l.size() > HARD_CAP {
            return std::ptr::null_mut();
        }
        note_alloc(l.size());
        System.alloc(l)
    }
    unsafe fn alloc_zeroed(&self, l: Layout) -> *mut u8 {
        if l.size() > HARD_CAP {
            return std::ptr::null_mut();
        }
        note_alloc(l.size());
        System.alloc_zeroed(l)
    }
    unsafe fn dealloc(&self, p: *mut u8, l: Layout) {
        if TRACK.load(Ordering::Relaxed) {
            LIVE.fetch_sub(l.size() as i64, Ordering::Relaxed);
        }
        System.dealloc(p, l)
    }
    unsafe fn realloc(&self, p: *mut u8, l: Layout, new_size: usize) -> *mut u8 {
        if new_size > HARD_CAP {
            return std::ptr::null_mut();
        }
        if TRACK.load(Ordering::Relaxed) {
            LARGEST.fetch_max(new_size, Ordering::Relaxed);
            if new_size > l.size() {
                TOTAL.fetch_add(new_size - l.size(), Ordering::Relaxed);
            }
            let live = LIVE.fetch_add(new_size as i64 - l.size() as i64, Ordering::Relaxed) + new_size as i64 - l.size() as i64;
            PEAK.fetch_max(live, Ordering::Relaxed);
        }
        System.realloc(p, l, new_size)
    }
}

#[global_allocator]
static GLOBAL: Counting = Counting;

pub fn dispatch(op: &str, _args: &[String]) -> bool {
    match op {
        "c02-render" => run_batch(op_render),
        "c02-fit" => run_batch(op_fit),
        "c02-morph" => run_batch(op_morph),
        "c02-kernel" => run_batch(op_kernel),
        "c02-classify" => run_batch(op_classify),
        _ => return false,
    }
    true
}

fn find_node<'a>(g: &'a usvg::Group, id: &str) -> Option<&'a usvg::Node> {
    for n in g.children() {
        if n.id() == id {
            return Some(n);
        }
        if let usvg::Node::Group(ref c) = n {
            if let Some(x) = find_node(c, id) {
                return Some(x);
            }
        }
    }
    None
}

fn first_ids(g: &usvg::Group, out: &mut Vec<String>, limit: usize) {
    for n in g.children() {
        if out.len() >= limit {
            return;
        }
        if !n.id().is_empty() {
            out.push(n.id().to_string());
        }
        if let usvg::Node::Group(ref c) = n {
            first_ids(c, out, limit);
        }
    }
}

fn op_render(payload: &str) -> String {
    let f: Vec<&str> = payload.split('\t').collect();
    if f.len() < 5 {
        return "{\"error\":\"bad payload\"}".into();
    }
    // a panic while *parsing* is C01's subject (parsing is total), not C02's: reported as a skip
    let parsed = std::panic::catch_unwind(|| parse_doc(f[0], f[1]));
    let tree = match parsed {
        Ok(Ok(t)) => t,
        Ok(Err(e)) => return format!("{{\"skip\":\"parse\",\"error\":{}}}", esc(&e)),
        Err(e) => {
            let loc = LAST_PANIC_LOC.with(|c| c.borrow().clone());
            return format!("{{\"skip\":\"parse-panic\",\"panic\":{},\"at\":{}}}", esc(&panic_msg(e)), esc(&loc));
        }
    };
    let w: u32 = f[2].parse().unwrap_or(0);
    let h: u32 = f[3].parse().unwrap_or(0);
    let ts = parse_ts(f[4]);
    let node_mode = f.iter().skip(5).any(|x| x.starts_with("node"));
    // watchdog: a render that exceeds the limit aborts the worker with a recognisable message (the batch
    // driver's own timeout is per chunk, far too coarse for a hang search)
    let limit_ms: u64 = f.iter().skip(5).find_map(|x| x.strip_prefix("limit=")).and_then(|x| x.parse().ok()).unwrap_or(0);
    let done = std::sync::Arc::new(AtomicBool::new(false));
    if limit_ms > 0 {
        let d = done.clone();
        std::thread::spawn(move || {
            let t0 = std::time::Instant::now();
            while !d.load(Ordering::SeqCst) {
                if t0.elapsed().as_millis() as u64 > limit_ms {
                    eprintln!("c02-watchdog: render exceeded {} ms", limit_ms);
                    std::process::abort();
                }
                std::thread::sleep(std::time::Duration::from_millis(25));
            }
        });
    }
    struct Done(std::sync::Arc<AtomicBool>);
    impl Drop for Done {
        fn drop(&mut self) {
            self.0.store(true, Ordering::SeqCst);
        }
    }
    let _done = Done(done);
    let mut pm = match tiny_skia::Pixmap::new(w, h) {
        Some(p) => p,
        None => return "{\"skip\":\"canvas\"}".into(),
    };
    let mut ids = Vec::new();
    if node_mode {
        first_ids(tree.root(), &mut ids, 8);
    }
    // make sure the counters are off again if the render panics (run_batch catches the unwind)
    struct Guard;
    impl Drop for Guard {
        fn drop(&mut self) {
            TRACK.store(false, Ordering::SeqCst);
        }
    }
    LARGEST.store(0, Ordering::SeqCst);
    LIVE.store(0, Ordering::SeqCst);
    PEAK.store(0, Ordering::SeqCst);
    TOTAL.store(0, Ordering::SeqCst);
    let t0 = std::time::Instant::now();
    let mut layers = 0usize;
    {
        let _g = Guard;
        resvg::verif_hooks::start_trace();
        TRACK.store(true, Ordering::SeqCst);
        if node_mode {
            for id in &ids {
                if let Some(n) = find_node(tree.root(), id) {
                    let _ = resvg::render_node(n, ts, &mut pm.as_mut());
                }
            }
        } else {
            resvg::render(&tree, ts, &mut pm.as_mut());
        }
        TRACK.store(false, Ordering::SeqCst);
        for e in resvg::verif_hooks::take_trace() {
            if e.starts_with("{\"ev\":\"layer\"") {
                layers += 1;
            }
        }
    }
    let ms = t0.elapsed().as_millis();
    // pixel validity: premultiplied colour <= alpha
    let mut invalid = 0usize;
    let mut nonblank = 0usize;
    for p in pm.data().chunks_exact(4) {
        if p[3] != 0 {
            nonblank += 1;
        }
        if p[0] > p[3] || p[1] > p[3] || p[2] > p[3] {
            invalid += 1;
        }
    }
    let mut hash: u64 = 0xcbf29ce484222325;
    for b in pm.data() {
        hash = (hash ^ *b as u64).wrapping_mul(0x100000001b3);
    }
    format!(
        "{{\"ok\":true,\"hash\":\"{:016x}\",\"ms\":{},\"largest\":{},\"peak\":{},\"total\":{},\"nonblank\":{},\"invalid\":{},\"layers\":{},\"nodes\":{}}}",
        hash,
        ms,
        LARGEST.load(Ordering::SeqCst),
        PEAK.load(Ordering::SeqCst).max(0),
        TOTAL.load(Ordering::SeqCst),
        nonblank,
        invalid,
        layers,
        ids.len()
    )
}

/// payload: `x y w h X Y W H` (two IntRects) -> `x,y,w,h` | `none` | `invalid`
fn op_fit(payload: &str) -> String {
    let v: Vec<i64> = payload.split_whitespace().filter_map(|x| x.parse().ok()).collect();
    if v.len() != 8 {
        return "invalid".into();
    }
    let mk = |x: i64, y: i64, w: i64, h: i64| -> Option<tiny_skia::IntRect> {
        tiny_skia::IntRect::from_xywh(i32::try_from(x).ok()?, i32::try_from(y).ok()?, u32::try_from(w).ok()?, u32::try_from(h).ok()?)
    };
    let (a, b) = match (mk(v[0], v[1], v[2], v[3]), mk(v[4], v[5], v[6], v[7])) {
        (Some(a), Some(b)) => (a, b),
        _ => return "invalid".into(),
    };
    match resvg::verif_hooks::fit_to_rect(a, b) {
        Some(r) => format!("{},{},{},{}", r.x(), r.y(), r.width(), r.height()),
        None => "none".into(),
    }
}

/// Static class predicates of an input (no rendering): payload `opts\tdoc\tW\tH\tts`
/// -> {"filters":n,"filter_px":max device-space filter region area,"filter_outside":n regions not inside max_bbox,
///     "patterns":n,"tile_px":max pattern tile area,"morph_cost":max region area * window area,"octaves":max numOctaves}
fn op_classify(payload: &str) -> String {
    let f: Vec<&str> = payload.split('\t').collect();
    if f.len() < 5 {
        return "{\"error\":\"bad payload\"}".into();
    }
    let tree = match parse_doc(f[0], f[1]) {
        Ok(t) => t,
        Err(e) => return format!("{{\"skip\":\"parse\",\"error\":{}}}", esc(&e)),
    };
    let w: f64 = f[2].parse().unwrap_or(1.0);
    let h: f64 = f[3].parse().unwrap_or(1.0);
    let ts = parse_ts(f[4]);
    #[derive(Default)]
    struct Acc {
        filters: usize,
        filter_px: f64,
        filter_outside: usize,
        patterns: usize,
        tile_px: f64,
        morph_cost: f64,
        octaves: u32,
        turb_freq: f64,
        huge_param: f64,
        filter_alloc_px: f64,
        image_px: f64,
    }
    fn paint_tile(p: &usvg::Paint, ts: tiny_skia::Transform, acc: &mut Acc) {
        if let usvg::Paint::Pattern(ref pat) = p {
            acc.patterns += 1;
            let (sx, sy) = ts.pre_concat(pat.transform()).get_scale();
            let a = (pat.rect().width() * sx) as f64 * (pat.rect().height() * sy) as f64;
            if a > acc.tile_px {
                acc.tile_px = a;
            }
            walk(pat.root(), tiny_skia::Transform::from_scale(sx, sy), 1.0, 1.0, acc);
        }
    }
    fn walk(g: &usvg::Group, ts: tiny_skia::Transform, w: f64, h: f64, acc: &mut Acc) {
        let ts = ts.pre_concat(g.transform());
        for flt in g.filters() {
            acc.filters += 1;
            let (rw, rh, inside) = match flt.rect().transform(ts) {
                Some(r) => {
                    let inside = (r.left() as f64) >= -2.0 * w && (r.top() as f64) >= -2.0 * h && (r.right() as f64) <= 3.0 * w && (r.bottom() as f64) <= 3.0 * h;
                    (r.width() as f64, r.height() as f64, inside)
                }
                None => (f64::INFINITY, f64::INFINITY, false),
            };
            if !inside {
                acc.filter_outside += 1;
            }
            if rw * rh > acc.filter_px {
                acc.filter_px = rw * rh;
            }
            let (sx, sy) = ts.get_scale();
            // the layer = the device region clamped to max_bbox (at most 5W x 5H)
            let (lw, lh) = (rw.min(5.0 * w).max(1.0), rh.min(5.0 * h).max(1.0));
            for p in flt.primitives() {
                match p.kind() {
                    // primitives whose result is allocated with the (unclamped) region size at HEAD
                    usvg::filter::Kind::Blend(..) | usvg::filter::Kind::Composite(..) | usvg::filter::Kind::Flood(..)
                    | usvg::filter::Kind::Image(..) | usvg::filter::Kind::Tile(..) | usvg::filter::Kind::Turbulence(..)
                    | usvg::filter::Kind::DiffuseLighting(..) | usvg::filter::Kind::SpecularLighting(..)
                    | usvg::filter::Kind::DisplacementMap(..) | usvg::filter::Kind::Merge(..) => {
                        if rw * rh > acc.filter_alloc_px {
                            acc.filter_alloc_px = rw * rh;
                        }
                    }
                    _ => {}
                }
                match p.kind() {
                    usvg::filter::Kind::Morphology(ref m) => {
                        // HEAD: morphology::apply works on the layer-sized source and caps the window by that image:
                        // cost = layer area x min(2*ceil(rx), layer width) x min(2*ceil(ry), layer height)
                        let cols = ((m.radius_x().get() * sx).ceil() as f64 * 2.0).max(1.0).min(lw);
                        let rows = ((m.radius_y().get() * sy).ceil() as f64 * 2.0).max(1.0).min(lh);
                        let c = lw * lh * cols * rows;
                        if c > acc.morph_cost {
                            acc.morph_cost = c;
                        }
                    }
                    usvg::filter::Kind::ConvolveMatrix(ref c) => {
                        let mut m = (c.bias().abs() as f64).max(1.0 / (c.divisor().get().abs() as f64).max(1e-300));
                        for v in c.matrix().data() {
                            m = m.max(v.abs() as f64);
                        }
                        acc.huge_param = acc.huge_param.max(m);
                    }
                    usvg::filter::Kind::ColorMatrix(ref c) => {
                        if let usvg::filter::ColorMatrixKind::Matrix(ref v) = c.kind() {
                            for x in v {
                                acc.huge_param = acc.huge_param.max(x.abs() as f64);
                            }
                        }
                    }
                    usvg::filter::Kind::ComponentTransfer(ref c) => {
                        for f in [c.func_r(), c.func_g(), c.func_b(), c.func_a()] {
                            match f {
                                usvg::filter::TransferFunction::Table(ref v) | usvg::filter::TransferFunction::Discrete(ref v) => {
                                    for x in v {
                                        acc.huge_param = acc.huge_param.max(x.abs() as f64);
                                    }
                                }
                                _ => {}
                            }
                        }
                    }
                    usvg::filter::Kind::DiffuseLighting(ref l) => {
                        acc.huge_param = acc.huge_param.max(l.surface_scale().abs() as f64).max(l.diffuse_constant().abs() as f64);
                    }
                    usvg::filter::Kind::SpecularLighting(ref l) => {
                        acc.huge_param = acc.huge_param.max(l.surface_scale().abs() as f64).max(l.specular_constant().abs() as f64);
                    }
                    usvg::filter::Kind::Turbulence(ref t) => {
                        acc.octaves = acc.octaves.max(t.num_octaves());
                        let fq = (t.base_frequency_x().get() as f64).max(t.base_frequency_y().get() as f64);
                        if fq > acc.turb_freq {
                            acc.turb_freq = fq;
                        }
                    }
                    _ => {}
                }
            }
        }
        for n in g.children() {
            match n {
                usvg::Node::Group(ref c) => walk(c, ts, w, h, acc),
                usvg::Node::Path(ref p) => {
                    if let Some(f) = p.fill() {
                        paint_tile(f.paint(), ts, acc);
                    }
                    if let Some(s) = p.stroke() {
                        paint_tile(s.paint(), ts, acc);
                    }
                }
                usvg::Node::Text(ref t) => walk(t.flattened(), ts, w, h, acc),
                usvg::Node::Image(ref i) => {
                    if let usvg::ImageKind::SVG(ref sub) = i.kind() {
                        walk(sub.root(), ts, w, h, acc);
                    } else {
                        // the pixel size the raster image declares in its header (what the decoder allocates)
                        let a = i.size().width() as f64 * i.size().height() as f64;
                        if a > acc.image_px {
                            acc.image_px = a;
                        }
                    }
                }
            }
        }
        if let Some(m) = g.mask() {
            walk(m.root(), ts, w, h, acc);
        }
        if let Some(c) = g.clip_path() {
            walk(c.root(), ts, w, h, acc);
        }
    }
    let mut acc = Acc::default();
    walk(tree.root(), ts, w, h, &mut acc);
    let fin = |x: f64| if x.is_finite() { x } else { 1e300 };
    format!(
        "{{\"filters\":{},\"filter_px\":{:e},\"filter_outside\":{},\"patterns\":{},\"tile_px\":{:e},\"morph_cost\":{:e},\"octaves\":{},\"turb_freq\":{:e},\"huge_param\":{:e},\"filter_alloc_px\":{:e},\"image_px\":{:e}}}",
        acc.filters, fin(acc.filter_px), acc.filter_outside, acc.patterns, fin(acc.tile_px), fin(acc.morph_cost), acc.octaves, fin(acc.turb_freq), fin(acc.huge_param), fin(acc.filter_alloc_px), fin(acc.image_px)
    )
}

/// payload: `erode|dilate rx ry w h v...` (4*w*h channel values, RGBA per pixel) -> `ms;v v v ...`
/// Calls the real (private) kernel resvg::filter::morphology::apply through the hook.  A call that does not return
/// within 3 s aborts the worker ("c02-watchdog").
fn op_morph(payload: &str) -> String {
    use resvg::verif_hooks::kernels as k;
    let f: Vec<&str> = payload.split_whitespace().collect();
    if f.len() < 5 {
        return "bad".into();
    }
    let op = if f[0] == "erode" { usvg::filter::MorphologyOperator::Erode } else { usvg::filter::MorphologyOperator::Dilate };
    let rx: f32 = f[1].parse().unwrap_or(0.0);
    let ry: f32 = f[2].parse().unwrap_or(0.0);
    let w: u32 = f[3].parse().unwrap_or(0);
    let h: u32 = f[4].parse().unwrap_or(0);
    let vals: Vec<u8> = f[5..].iter().filter_map(|x| x.parse().ok()).collect();
    if vals.len() != (4 * w * h) as usize || w == 0 || h == 0 {
        return "bad".into();
    }
    let mut data: Vec<k::RGBA8> = vals.chunks_exact(4).map(|c| k::RGBA8 { r: c[0], g: c[1], b: c[2], a: c[3] }).collect();
    let done = std::sync::Arc::new(AtomicBool::new(false));
    let d = done.clone();
    std::thread::spawn(move || {
        let t0 = std::time::Instant::now();
        while !d.load(Ordering::SeqCst) {
            if t0.elapsed().as_millis() > 3000 {
                eprintln!("c02-watchdog: morphology kernel exceeded 3000 ms");
                std::process::abort();
            }
            std::thread::sleep(std::time::Duration::from_millis(20));
        }
    });
    let t0 = std::time::Instant::now();
    k::morphology(op, rx, ry, k::ImageRefMut::new(w, h, &mut data));
    let ms = t0.elapsed().as_millis();
    done.store(true, Ordering::SeqCst);
    let out: Vec<String> = data.iter().flat_map(|p| [p.r, p.g, p.b, p.a]).map(|v| v.to_string()).collect();
    format!("{};{}", ms, out.join(" "))
}

/// payload: `w\th\tseed\tscale\t<primitive xml>`: one filter kernel (through resvg::verif_hooks::kernels) on a w x h image.
/// The primitive is parsed by usvg (so every parameter is one usvg accepts); images are pseudo-random premultiplied
/// RGBA.  -> {"ok":true,"kind":..,"ms":..,"bad_alpha":n} | {"skip":..}; a panic is reported by run_batch, a call that
/// exceeds 3 s aborts the worker ("c02-watchdog").
fn op_kernel(payload: &str) -> String {
    use resvg::verif_hooks::kernels as k;
    use usvg::filter::Kind;
    let f: Vec<&str> = payload.splitn(5, '\t').collect();
    if f.len() < 5 {
        return "{\"error\":\"bad payload\"}".into();
    }
    let w: u32 = f[0].parse().unwrap_or(0);
    let h: u32 = f[1].parse().unwrap_or(0);
    let seed: u64 = f[2].parse().unwrap_or(1);
    let scale: f32 = f[3].parse().unwrap_or(1.0);
    if w == 0 || h == 0 {
        return "{\"skip\":\"size\"}".into();
    }
    let doc = format!(
        "<svg xmlns=\"http://www.w3.org/2000/svg\" width=\"100\" height=\"100\"><filter id=\"f\" filterUnits=\"userSpaceOnUse\" x=\"0\" y=\"0\" width=\"100\" height=\"100\" primitiveUnits=\"userSpaceOnUse\">{}</filter><rect width=\"10\" height=\"10\" filter=\"url(#f)\"/></svg>",
        f[4]
    );
    let tree = match std::panic::catch_unwind(|| parse_doc("nofonts", &doc)) {
        Ok(Ok(t)) => t,
        Ok(Err(e)) => return format!("{{\"skip\":\"parse\",\"error\":{}}}", esc(&e)),
        Err(_) => return "{\"skip\":\"parse-panic\"}".into(),
    };
    let filter = match tree.filters().first() {
        Some(x) => x.clone(),
        None => return "{\"skip\":\"no-filter\"}".into(),
    };
    let prim = match filter.primitives().first() {
        Some(p) => p,
        None => return "{\"skip\":\"no-primitive\"}".into(),
    };
    let mut rng = SplitMix64(seed);
    let mut mk = |rng: &mut SplitMix64| -> Vec<k::RGBA8> {
        (0..(w * h))
            .map(|_| {
                let a = match rng.below(4) {
                    0 => 0u8,
                    1 => 255u8,
                    _ => rng.below(256) as u8,
                };
                let c = |rng: &mut SplitMix64| if a == 0 { 0 } else { rng.below(a as u64 + 1) as u8 };
                k::RGBA8 { r: c(rng), g: c(rng), b: c(rng), a }
            })
            .collect()
    };
    let mut a = mk(&mut rng);
    let b = mk(&mut rng);
    let mut dest = vec![k::RGBA8::default(); (w * h) as usize];
    let done = std::sync::Arc::new(AtomicBool::new(false));
    let d = done.clone();
    std::thread::spawn(move || {
        let t0 = std::time::Instant::now();
        while !d.load(Ordering::SeqCst) {
            if t0.elapsed().as_millis() > 3000 {
                eprintln!("c02-watchdog: filter kernel exceeded 3000 ms");
                std::process::abort();
            }
            std::thread::sleep(std::time::Duration::from_millis(20));
        }
    });
    struct Done(std::sync::Arc<AtomicBool>);
    impl Drop for Done {
        fn drop(&mut self) {
            self.0.store(true, Ordering::SeqCst);
        }
    }
    let _done = Done(done);
    let ts = tiny_skia::Transform::from_scale(scale, scale);
    let t0 = std::time::Instant::now();
    let mut check_alpha = false;
    let kind = match prim.kind() {
        Kind::GaussianBlur(ref fe) => match k::resolve_std_dev(fe.std_dev_x().get(), fe.std_dev_y().get(), ts) {
            Some((dx, dy, true)) => {
                k::box_blur(dx, dy, k::ImageRefMut::new(w, h, &mut a));
                "box_blur"
            }
            Some((dx, dy, false)) => {
                k::iir_blur(dx, dy, k::ImageRefMut::new(w, h, &mut a));
                "iir_blur"
            }
            None => "blur-none",
        },
        Kind::DropShadow(ref fe) => match k::resolve_std_dev(fe.std_dev_x().get(), fe.std_dev_y().get(), ts) {
            Some((dx, dy, true)) => {
                k::box_blur(dx, dy, k::ImageRefMut::new(w, h, &mut a));
                "box_blur"
            }
            Some((dx, dy, false)) => {
                k::iir_blur(dx, dy, k::ImageRefMut::new(w, h, &mut a));
                "iir_blur"
            }
            None => "blur-none",
        },
        Kind::ColorMatrix(ref fe) => {
            k::demultiply_alpha(&mut a);
            k::color_matrix(fe.kind(), k::ImageRefMut::new(w, h, &mut a));
            k::multiply_alpha(&mut a);
            check_alpha = true;
            "color_matrix"
        }
        Kind::ComponentTransfer(ref fe) => {
            k::demultiply_alpha(&mut a);
            k::component_transfer(fe, k::ImageRefMut::new(w, h, &mut a));
            k::multiply_alpha(&mut a);
            check_alpha = true;
            "component_transfer"
        }
        Kind::Composite(ref fe) => {
            if let usvg::filter::CompositeOperator::Arithmetic { k1, k2, k3, k4 } = fe.operator() {
                k::arithmetic(k1, k2, k3, k4, k::ImageRef::new(w, h, &a), k::ImageRef::new(w, h, &b), k::ImageRefMut::new(w, h, &mut dest));
                a.copy_from_slice(&dest);
                check_alpha = true;
                "arithmetic"
            } else {
                "composite-other"
            }
        }
        Kind::ConvolveMatrix(ref fe) => {
            if fe.preserve_alpha() {
                k::demultiply_alpha(&mut a);
            }
            k::convolve_matrix(fe, k::ImageRefMut::new(w, h, &mut a));
            "convolve_matrix"
        }
        Kind::DisplacementMap(ref fe) => {
            let s = fe.scale() * scale;
            k::displacement_map(fe, s, s, k::ImageRef::new(w, h, &a), k::ImageRef::new(w, h, &b), k::ImageRefMut::new(w, h, &mut dest));
            a.copy_from_slice(&dest);
            "displacement_map"
        }
        Kind::DiffuseLighting(ref fe) => {
            k::diffuse_lighting(fe, fe.light_source(), k::ImageRef::new(w, h, &a), k::ImageRefMut::new(w, h, &mut dest));
            a.copy_from_slice(&dest);
            "diffuse_lighting"
        }
        Kind::SpecularLighting(ref fe) => {
            k::specular_lighting(fe, fe.light_source(), k::ImageRef::new(w, h, &a), k::ImageRefMut::new(w, h, &mut dest));
            a.copy_from_slice(&dest);
            "specular_lighting"
        }
        Kind::Morphology(ref fe) => {
            let (rx, ry) = (fe.radius_x().get() * scale, fe.radius_y().get() * scale);
            if rx > 0.0 && ry > 0.0 {
                k::morphology(fe.operator(), rx, ry, k::ImageRefMut::new(w, h, &mut a));
                check_alpha = true;
            }
            "morphology"
        }
        Kind::Turbulence(ref fe) => {
            k::turbulence(
                rng.below(200) as f64 - 100.0,
                rng.below(200) as f64 - 100.0,
                scale as f64,
                scale as f64,
                fe.base_frequency_x().get() as f64,
                fe.base_frequency_y().get() as f64,
                fe.num_octaves(),
                fe.seed(),
                fe.stitch_tiles(),
                fe.kind() == usvg::filter::TurbulenceKind::FractalNoise,
                k::ImageRefMut::new(w, h, &mut a),
            );
            k::multiply_alpha(&mut a);
            check_alpha = true;
            "turbulence"
        }
        _ => "not-a-kernel",
    };
    let ms = t0.elapsed().as_millis();
    let bad_alpha = if check_alpha { a.iter().filter(|p| p.r > p.a || p.g > p.a || p.b > p.a).count() } else { 0 };
    format!("{{\"ok\":true,\"kind\":\"{}\",\"ms\":{},\"len\":{},\"bad_alpha\":{}}}", kind, ms, a.len(), bad_alpha)
}
