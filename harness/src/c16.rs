//! C16 (and the pixel part of C15): exhaustive kernel tables through `resvg::verif_hooks::kernels`,
//! whole-filter application on chosen source pixmaps, morphology on chosen images, tiny-skia
//! blending tables, and the system-level oracle measurements (containment, validity, identity).
use crate::dump::esc;
use crate::util::*;
use resvg::verif_hooks::kernels as k;
use resvg::verif_hooks::kernels::RGBA8;

pub fn dispatch(op: &str, _args: &[String]) -> bool {
    match op {
        "c16-kernel" => run_batch(op_kernel),
        "c16-apply" => run_batch(op_apply),
        "c16-morph" => run_batch(op_morph),
        "c16-blend" => run_batch(op_blend),
        "c16-sys" => run_batch(op_sys),
        _ => return false,
    }
    true
}

fn join<T: std::fmt::Display>(v: impl Iterator<Item = T>) -> String {
    let mut s = String::new();
    for (i, x) in v.enumerate() {
        if i > 0 {
            s.push(',');
        }
        s.push_str(&x.to_string());
    }
    s
}

/// payload: kernel name.  index = a * 256 + c, pixel (c, c, c, a).
/// mul / demul: the private multiply_alpha / demultiply_alpha; lin / srgb: the two table passes (256 entries).
fn op_kernel(payload: &str) -> String {
    let name = payload.trim();
    match name {
        "mul" | "demul" => {
            let mut data: Vec<RGBA8> = Vec::with_capacity(65536);
            for a in 0..256u32 {
                for c in 0..256u32 {
                    data.push(RGBA8 { r: c as u8, g: c as u8, b: c as u8, a: a as u8 });
                }
            }
            if name == "mul" {
                k::multiply_alpha(&mut data)
            } else {
                k::demultiply_alpha(&mut data)
            }
            let uniform = data.iter().enumerate().all(|(i, p)| p.r == p.g && p.g == p.b && p.a as usize == i / 256);
            format!("{{\"t\":[{}],\"uniform\":{}}}", join(data.iter().map(|p| p.r)), uniform)
        }
        "lin" | "srgb" => {
            let mut data: Vec<RGBA8> = (0..256u32).map(|c| RGBA8 { r: c as u8, g: c as u8, b: c as u8, a: 77 }).collect();
            if name == "lin" {
                k::into_linear_rgb(&mut data)
            } else {
                k::from_linear_rgb(&mut data)
            }
            let uniform = data.iter().all(|p| p.r == p.g && p.g == p.b && p.a == 77);
            format!("{{\"t\":[{}],\"uniform\":{}}}", join(data.iter().map(|p| p.r)), uniform)
        }
        _ => "{\"error\":\"unknown kernel\"}".to_string(),
    }
}

fn find_filters(g: &usvg::Group, out: &mut Vec<std::sync::Arc<usvg::filter::Filter>>) {
    for f in g.filters() {
        out.push(f.clone());
    }
    for n in g.children() {
        if let usvg::Node::Group(ref c) = n {
            find_filters(c, out);
        }
    }
}

/// Source pixmaps (premultiplied RGBA bytes written directly):
///   pairs:<a-list>     256 x n image, row j = alpha a_j, column c: pixel (m, m, m, a) with m = min(c, a)
///   pairsany:<a-list>  same with m = c (invalid pixels included)
///   rand:<seed>:<w>:<h>  random VALID premultiplied pixels (extremes included)
///   opaque:<w>:<h>     every pixel (200, 100, 50, 255)
fn make_source(spec: &str) -> Option<tiny_skia::Pixmap> {
    let f: Vec<&str> = spec.split(':').collect();
    match f[0] {
        "pairs" | "pairsany" => {
            let alphas: Vec<u32> = f.get(1)?.split(',').filter_map(|x| x.parse().ok()).collect();
            let mut pm = tiny_skia::Pixmap::new(256, alphas.len() as u32)?;
            let d = pm.data_mut();
            for (j, a) in alphas.iter().enumerate() {
                for c in 0..256u32 {
                    let m = if f[0] == "pairs" { c.min(*a) } else { c };
                    let o = (j * 256 + c as usize) * 4;
                    d[o] = m as u8;
                    d[o + 1] = m as u8;
                    d[o + 2] = m as u8;
                    d[o + 3] = *a as u8;
                }
            }
            Some(pm)
        }
        "rand" => {
            let seed: u64 = f.get(1)?.parse().ok()?;
            let w: u32 = f.get(2)?.parse().ok()?;
            let h: u32 = f.get(3)?.parse().ok()?;
            let mut rng = SplitMix64(seed);
            let mut pm = tiny_skia::Pixmap::new(w, h)?;
            let d = pm.data_mut();
            for i in 0..(w * h) as usize {
                let a = match rng.below(8) {
                    0 => 255,
                    1 => 0,
                    2 => 1,
                    _ => rng.below(256),
                };
                for kk in 0..3 {
                    let c = match rng.below(6) {
                        0 => a,
                        1 => 0,
                        _ => rng.below(a + 1),
                    };
                    d[i * 4 + kk] = c as u8;
                }
                d[i * 4 + 3] = a as u8;
            }
            Some(pm)
        }
        "opaque" => {
            let w: u32 = f.get(1)?.parse().ok()?;
            let h: u32 = f.get(2)?.parse().ok()?;
            let mut pm = tiny_skia::Pixmap::new(w, h)?;
            for p in pm.data_mut().chunks_exact_mut(4) {
                p.copy_from_slice(&[200, 100, 50, 255]);
            }
            Some(pm)
        }
        _ => None,
    }
}

/// payload: `opts\tdoc\tts\tsrc\tout[\tindex]`: applies the index-th (default 0) filter found in the document
/// (the real `filter::apply`) to the chosen source pixmap.  out: rgba | ra (r and a per pixel) | a01.
/// -> {"w","h","src":[...],"out":[...],"trace":[...]}
fn op_apply(payload: &str) -> String {
    let f: Vec<&str> = payload.split('\t').collect();
    if f.len() < 5 {
        return "{\"error\":\"bad payload\"}".to_string();
    }
    let tree = match parse_doc(f[0], f[1]) {
        Ok(t) => t,
        Err(e) => return format!("{{\"error\":{}}}", esc(&e)),
    };
    let mut filters = Vec::new();
    find_filters(tree.root(), &mut filters);
    let idx: usize = f.get(5).and_then(|x| x.parse().ok()).unwrap_or(0);
    let filter = match filters.get(idx) {
        Some(x) => x.clone(),
        None => return "{\"error\":\"no filter in document\"}".to_string(),
    };
    let mut pm = match make_source(f[3]) {
        Some(p) => p,
        None => return "{\"error\":\"bad source spec\"}".to_string(),
    };
    let src: Vec<u8> = pm.data().to_vec();
    resvg::verif_hooks::start_trace();
    k::apply(&filter, parse_ts(f[2]), &mut pm);
    let trace = resvg::verif_hooks::take_trace();
    let sel = |d: &[u8]| -> String {
        match f[4] {
            "ra" => join(d.chunks_exact(4).flat_map(|p| [p[0], p[3]])),
            "a01" => join(d.chunks_exact(4).map(|p| if p[3] != 0 { 1 } else { 0 })),
            _ => join(d.iter()),
        }
    };
    let uniform = pm.data().chunks_exact(4).all(|p| p[0] == p[1] && p[1] == p[2]);
    format!(
        "{{\"w\":{},\"h\":{},\"src\":[{}],\"out\":[{}],\"grey\":{},\"trace\":[{}]}}",
        pm.width(),
        pm.height(),
        if f[4] == "a01" { String::new() } else { sel(&src) },
        sel(pm.data()),
        uniform,
        trace.join(",")
    )
}

/// payload: `erode|dilate\trx\try\tw\th\tseed\tvalid(0|1)`: random image through the private morphology kernel.
/// -> {"src":[rgba...],"out":[rgba...]}
fn op_morph(payload: &str) -> String {
    let f: Vec<&str> = payload.split('\t').collect();
    if f.len() < 7 {
        return "{\"error\":\"bad payload\"}".to_string();
    }
    let op = if f[0] == "erode" { usvg::filter::MorphologyOperator::Erode } else { usvg::filter::MorphologyOperator::Dilate };
    let rx: f32 = f[1].parse().unwrap_or(1.0);
    let ry: f32 = f[2].parse().unwrap_or(1.0);
    let w: u32 = f[3].parse().unwrap_or(1);
    let h: u32 = f[4].parse().unwrap_or(1);
    let mut rng = SplitMix64(f[5].parse().unwrap_or(1));
    let valid = f[6] == "1";
    let mut data: Vec<RGBA8> = Vec::new();
    for _ in 0..(w * h) {
        let a = match rng.below(5) {
            0 => 255,
            1 => 0,
            _ => rng.below(256),
        };
        let mut ch = || if valid { rng.below(a + 1) as u8 } else { rng.below(256) as u8 };
        data.push(RGBA8 { r: ch(), g: ch(), b: ch(), a: a as u8 });
    }
    let src = data.clone();
    k::morphology(op, rx, ry, k::ImageRefMut::new(w, h, &mut data));
    format!(
        "{{\"src\":[{}],\"out\":[{}]}}",
        join(src.iter().flat_map(|p| [p.r, p.g, p.b, p.a])),
        join(data.iter().flat_map(|p| [p.r, p.g, p.b, p.a]))
    )
}

/// tiny-skia u8 blending through the PUBLIC API.
/// payload `mask`: 256 x 256 pixmap, pixel (x=c, y=m) = (c, c, c, c) masked by coverage m
///   (Pixmap::apply_mask) -> table index m * 256 + c.
/// payload `over:<d>`: 256 x 256 source, pixel (x=s, y=sa) = (min(s,sa) x3, sa), drawn by draw_pixmap
///   (SourceOver) onto a destination filled with (d, d, d, d) -> r channel table, index sa * 256 + s,
///   followed by the alpha channel table.
/// payload `xor:<d>`: same with BlendMode::Xor (clip_group) -> alpha table.
fn op_blend(payload: &str) -> String {
    let f: Vec<&str> = payload.trim().split(':').collect();
    match f[0] {
        "mask" => {
            let mut pm = tiny_skia::Pixmap::new(256, 256).unwrap();
            let mut mask = tiny_skia::Mask::new(256, 256).unwrap();
            for m in 0..256usize {
                for c in 0..256usize {
                    let o = (m * 256 + c) * 4;
                    pm.data_mut()[o..o + 4].copy_from_slice(&[c as u8, c as u8, c as u8, c as u8]);
                    mask.data_mut()[m * 256 + c] = m as u8;
                }
            }
            pm.apply_mask(&mask);
            let uniform = pm.data().chunks_exact(4).all(|p| p[0] == p[1] && p[1] == p[2] && p[2] == p[3]);
            format!("{{\"t\":[{}],\"uniform\":{}}}", join(pm.data().chunks_exact(4).map(|p| p[0])), uniform)
        }
        "over" | "xor" => {
            let d: u8 = f.get(1).and_then(|x| x.parse().ok()).unwrap_or(0);
            let mut src = tiny_skia::Pixmap::new(256, 256).unwrap();
            for sa in 0..256usize {
                for s in 0..256usize {
                    let o = (sa * 256 + s) * 4;
                    let m = s.min(sa) as u8;
                    src.data_mut()[o..o + 4].copy_from_slice(&[m, m, m, sa as u8]);
                }
            }
            let mut dst = tiny_skia::Pixmap::new(256, 256).unwrap();
            for p in dst.data_mut().chunks_exact_mut(4) {
                p.copy_from_slice(&[d, d, d, d]);
            }
            let mut paint = tiny_skia::PixmapPaint::default();
            if f[0] == "xor" {
                paint.blend_mode = tiny_skia::BlendMode::Xor;
            }
            dst.draw_pixmap(0, 0, src.as_ref(), &paint, tiny_skia::Transform::identity(), None);
            format!(
                "{{\"t\":[{}],\"ta\":[{}]}}",
                join(dst.data().chunks_exact(4).map(|p| p[0])),
                join(dst.data().chunks_exact(4).map(|p| p[3]))
            )
        }
        // draw:<x>:<y>:<w>:<h>:<W>:<H>  an opaque w x h pixmap drawn by draw_pixmap at (x, y) onto a transparent W x H canvas
        "draw" => {
            let v: Vec<i64> = f[1..].iter().filter_map(|x| x.parse().ok()).collect();
            if v.len() != 6 {
                return "{\"error\":\"bad draw spec\"}".to_string();
            }
            let mut src = tiny_skia::Pixmap::new(v[2] as u32, v[3] as u32).unwrap();
            for p in src.data_mut().chunks_exact_mut(4) {
                p.copy_from_slice(&[10, 20, 30, 255]);
            }
            let mut dst = tiny_skia::Pixmap::new(v[4] as u32, v[5] as u32).unwrap();
            dst.draw_pixmap(v[0] as i32, v[1] as i32, src.as_ref(), &tiny_skia::PixmapPaint::default(), tiny_skia::Transform::identity(), None);
            format!("{{\"t\":[{}]}}", join(dst.data().chunks_exact(4).map(|p| if p[3] != 0 { 1 } else { 0 })))
        }
        _ => "{\"error\":\"unknown table\"}".to_string(),
    }
}

fn parse_box(s: &str) -> Option<[i64; 4]> {
    let v: Vec<i64> = s.split(',').filter_map(|x| x.trim().parse().ok()).collect();
    if v.len() == 4 {
        Some([v[0], v[1], v[2], v[3]])
    } else {
        None
    }
}

/// ibbox of the first traced layer that has filters, as x0,y0,x1,y1 (top-level layers are in canvas coordinates)
fn first_filter_layer(trace: &[String]) -> Option<[i64; 4]> {
    for ev in trace {
        if !ev.contains("\"ev\":\"layer\"") || ev.contains("\"filters\":0,") {
            continue;
        }
        let i = ev.find("\"ibbox\":[")? + 9;
        let j = i + ev[i..].find(']')?;
        let v: Vec<i64> = ev[i..j].split(',').filter_map(|x| x.trim().parse().ok()).collect();
        if v.len() == 4 {
            return Some([v[0], v[1], v[0] + v[2], v[1] + v[3]]);
        }
    }
    None
}

/// System oracle measurements on the real pipeline (public API + trace hook).
/// payload: `opts\tdoc\tplain\tts\tW\tH\tbox\tcmpbox`
///   doc     the document with the filter;  plain: the same without it, or `-`
///   box     `x0,y0,x1,y1` = pixel hull of the expected device-space filter region (or `-`)
///   cmpbox  `x0,y0,x1,y1` = where filtered and plain are compared (or `-` = the traced layer box)
/// -> {"outside":n,"outside_at":[x,y,a],"invalid":n,"invalid_at":[x,y,r,g,b,a],"nonblank":n,
///     "cmp":{"n":pixels,"ndiff1":n,"nbig":n,"max":m,"at":[x,y]},"trace":[...]}
fn op_sys(payload: &str) -> String {
    let f: Vec<&str> = payload.split('\t').collect();
    if f.len() < 8 {
        return "{\"error\":\"bad payload\"}".to_string();
    }
    let tree = match parse_doc(f[0], f[1]) {
        Ok(t) => t,
        Err(e) => return format!("{{\"error\":{}}}", esc(&e)),
    };
    let w: u32 = f[4].parse().unwrap_or(0);
    let h: u32 = f[5].parse().unwrap_or(0);
    let (w, h) = if w == 0 || h == 0 {
        let s = tree.size().to_int_size();
        (s.width(), s.height())
    } else {
        (w, h)
    };
    let ts = parse_ts(f[3]);
    resvg::verif_hooks::start_trace();
    let pm = match render_tree(&tree, w, h, ts) {
        Some(p) => p,
        None => return "{\"error\":\"canvas\"}".to_string(),
    };
    let trace = resvg::verif_hooks::take_trace();
    let d = pm.data();
    // one box, or several separated by ';' (inside = inside any of them)
    let boxes: Vec<[i64; 4]> = f[6].split(';').filter_map(parse_box).collect();
    let bx = if boxes.is_empty() { None } else { Some(boxes[0]) };
    let (mut outside, mut invalid, mut nonblank) = (0usize, 0usize, 0usize);
    let mut outside_at = String::from("null");
    let mut invalid_at = String::from("null");
    let mut ob = [i64::MAX, i64::MAX, i64::MIN, i64::MIN];
    for y in 0..h as i64 {
        for x in 0..w as i64 {
            let o = ((y * w as i64 + x) * 4) as usize;
            let (r, g, b, a) = (d[o], d[o + 1], d[o + 2], d[o + 3]);
            if a != 0 {
                nonblank += 1;
            }
            if r > a || g > a || b > a {
                if invalid == 0 {
                    invalid_at = format!("[{},{},{},{},{},{}]", x, y, r, g, b, a);
                }
                invalid += 1;
            }
            if bx.is_some() {
                let inside = boxes.iter().any(|bb| x >= bb[0] && x < bb[2] && y >= bb[1] && y < bb[3]);
                if !inside && (a != 0 || r != 0 || g != 0 || b != 0) {
                    if outside == 0 {
                        outside_at = format!("[{},{},{}]", x, y, a);
                    }
                    outside += 1;
                    ob = [ob[0].min(x), ob[1].min(y), ob[2].max(x), ob[3].max(y)];
                }
            }
        }
    }
    let mut cmp = String::from("null");
    if f[2] != "-" {
        let plain = match parse_doc(f[0], f[2]) {
            Ok(t) => t,
            Err(e) => return format!("{{\"error\":{}}}", esc(&format!("plain: {}", e))),
        };
        let pp = render_tree(&plain, w, h, ts).unwrap();
        let e = pp.data();
        let cb = parse_box(f[7]).or_else(|| first_filter_layer(&trace));
        if let Some(cb) = cb {
            // A pixel is an EDGE pixel when some channel of the unfiltered rendering varies by more than 8 levels in its 3x3
            // neighbourhood (anti-aliased outline): tiny-skia's coverage there is not invariant under the integer shift
            // between canvas and layer.  Pixels whose neighbourhood varies by at most 2 levels are SMOOTH and must agree within +-1;
            // in between (3..8 levels) the difference must not exceed the local variation.
            let (mut n, mut nd1, mut mx, mut nedge, mut nedge_diff, mut mx_edge) = (0usize, 0usize, 0u8, 0usize, 0usize, 0u8);
            let mut nsoft = 0usize;
            let mut nfaint = 0usize;
            let mut at = String::from("null");
            let chan = |x: i64, y: i64, kk: usize| -> u8 {
                if x < 0 || y < 0 || x >= w as i64 || y >= h as i64 {
                    0
                } else {
                    e[((y * w as i64 + x) * 4) as usize + kk]
                }
            };
            for y in cb[1].max(0)..cb[3].min(h as i64) {
                for x in cb[0].max(0)..cb[2].min(w as i64) {
                    let o = ((y * w as i64 + x) * 4) as usize;
                    let mut dd = 0u8;
                    for kk in 0..4 {
                        dd = dd.max(d[o + kk].abs_diff(e[o + kk]));
                    }
                    let mut range = 0u8;
                    for kk in 0..4 {
                        let (mut lo, mut hi) = (255u8, 0u8);
                        for yy in y - 1..=y + 1 {
                            for xx in x - 1..=x + 1 {
                                let a = chan(xx, yy, kk);
                                lo = lo.min(a);
                                hi = hi.max(a);
                            }
                        }
                        range = range.max(hi - lo);
                    }
                    n += 1;
                    // low-contrast outlines (range 3..8): the same rasteriser noise, bounded by the local contrast
                    if range > 2 && range <= 8 && dd <= range {
                        nsoft += 1;
                    } else if range > 8 {
                        nedge += 1;
                        if dd > 1 {
                            nedge_diff += 1;
                        }
                        mx_edge = mx_edge.max(dd);
                    } else if dd > 1 && d[o + 3] <= 16 && e[o + 3] <= 16 {
                        // a sub-pixel sliver of the content sampled at the layer's integer shift but not on the canvas (or vice versa)
                        nfaint += 1;
                    } else {
                        if dd > 1 {
                            if nd1 == 0 {
                                at = format!("[{},{},{},[{},{},{},{}],[{},{},{},{}]]", x, y, dd, d[o], d[o + 1], d[o + 2], d[o + 3], e[o], e[o + 1], e[o + 2], e[o + 3]);
                            }
                            nd1 += 1;
                        }
                        mx = mx.max(dd);
                    }
                }
            }
            cmp = format!(
                "{{\"n\":{},\"ndiff1\":{},\"max\":{},\"nsoft\":{},\"nfaint\":{},\"nedge\":{},\"nedge_diff\":{},\"max_edge\":{},\"at\":{}}}",
                n, nd1, mx, nsoft, nfaint, nedge, nedge_diff, mx_edge, at
            );
        }
    }
    format!(
        "{{\"w\":{},\"h\":{},\"outside\":{},\"outside_bbox\":[{},{},{},{}],\"outside_at\":{},\"invalid\":{},\"invalid_at\":{},\"nonblank\":{},\"cmp\":{},\"trace\":[{}]}}",
        w, h, outside, ob[0], ob[1], ob[2], ob[3], outside_at, invalid, invalid_at, nonblank, cmp, trace.join(",")
    )
}
