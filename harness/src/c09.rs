//! C09 / C10 operations (front-end family).
//!
//!   svgtree   payload `opts\tdoc` -> {"n": <node count>, "dump": "<Debug of the private svgtree::Document>"}
//!             (through usvg::verif_hooks::svgtree_dump; `opts` only contributes the injected stylesheet)
//!   tostring  payload `opts\tdoc` -> {"s": "<Tree::to_string>"}; the extra option key `wpt` sets
//!             WriteOptions::preserve_text
use crate::dump::esc;
use crate::util::*;

pub fn dispatch(op: &str, _args: &[String]) -> bool {
    match op {
        "svgtree" => run_batch(op_svgtree),
        "tostring" => run_batch(op_tostring),
        _ => return false,
    }
    true
}

fn op_svgtree(payload: &str) -> String {
    let (opts, doc) = payload.split_once('\t').unwrap_or(("", payload));
    let mut opt = make_options(&format!("{};nofonts", opts));
    let data = match load_doc(doc, &mut opt) {
        Ok(d) => d,
        Err(e) => return format!("{{\"error\":{}}}", esc(&e)),
    };
    let text = match std::str::from_utf8(&data) {
        Ok(t) => t,
        Err(_) => return "{\"error\":\"utf8\"}".to_string(),
    };
    match usvg::verif_hooks::svgtree_dump(text, &opt) {
        Ok((s, n)) => format!("{{\"n\":{},\"dump\":{}}}", n, esc(&s)),
        Err(e) => format!("{{\"error\":{}}}", esc(&format!("{}", e))),
    }
}

fn op_tostring(payload: &str) -> String {
    let (opts, doc) = payload.split_once('\t').unwrap_or(("", payload));
    let mut wopt = usvg::WriteOptions::default();
    if opts.split(';').any(|kv| kv.trim() == "wpt" || kv.trim() == "wpt=1") {
        wopt.preserve_text = true;
    }
    match parse_doc(opts, doc) {
        Ok(tree) => format!("{{\"s\":{}}}", esc(&tree.to_string(&wopt))),
        Err(e) => format!("{{\"error\":{}}}", esc(&e)),
    }
}
