//! C14 (and shared render-geometry helpers for C13 / C02):
//!   layer-trace   payload `opts\tdoc\tts\tW\tH`              -> {"events":[...]} every trace event of one render
//!   c14-iso       payload `opts\tdoc\tmode\tseed\tcfg[\temit]` -> isolation / opacity injection oracle
//!
//! `mode`: root | inner | all | nest<k> | opmul:<a>:<b> | op0 | op1
//! `cfg` : fit:<scale>:<fx>:<fy>  canvas sized from the root's absolute layer box (+10 px margins) so that
//!                                nothing crosses a canvas edge; fx,fy = fractional translation
//!         native:<scale>:<fx>:<fy>  canvas = document size * scale (content may cross the edges)
//!         crop:<scale>:<fx>:<fy>    canvas = the middle half of the document (content crosses the edges)
use crate::dump::esc;
use crate::util::*;

pub fn dispatch(op: &str, _args: &[String]) -> bool {
    match op {
        "layer-trace" => run_batch(op_layer_trace),
        "c14-iso" => run_batch(op_iso),
        "c14-drawpix" => run_batch(op_drawpix),
        _ => return false,
    }
    true
}

// ------------------------------------------------------------------------------------------------
pub fn traced_render(tree: &usvg::Tree, w: u32, h: u32, ts: tiny_skia::Transform) -> Option<(tiny_skia::Pixmap, Vec<String>)> {
    let mut pm = tiny_skia::Pixmap::new(w, h)?;
    resvg::verif_hooks::start_trace();
    resvg::render(tree, ts, &mut pm.as_mut());
    let ev = resvg::verif_hooks::take_trace();
    Some((pm, ev))
}

fn op_layer_trace(payload: &str) -> String {
    let f: Vec<&str> = payload.split('\t').collect();
    if f.len() < 5 {
        return "{\"error\":\"bad payload\"}".into();
    }
    let tree = match parse_doc(f[0], f[1]) {
        Ok(t) => t,
        Err(e) => return format!("{{\"error\":{}}}", esc(&e)),
    };
    let w: u32 = f[3].parse().unwrap_or(0);
    let h: u32 = f[4].parse().unwrap_or(0);
    match traced_render(&tree, w, h, parse_ts(f[2])) {
        Some((_, ev)) => format!("{{\"events\":[{}]}}", ev.join(",")),
        None => "{\"error\":\"canvas\"}".into(),
    }
}

// ------------------------------------------------------------------------------------------------
pub struct Micro {
    pub text: String,
    pub body_start: usize,
    pub body_end: usize,
}

/// end (exclusive) of the tag starting at `p` (`<...>`), quote-aware
fn tag_end(s: &str, p: usize) -> Option<usize> {
    let b = s.as_bytes();
    let mut i = p;
    let mut q = 0u8;
    while i < b.len() {
        let c = b[i];
        if q != 0 {
            if c == q {
                q = 0;
            }
        } else if c == b'"' || c == b'\'' {
            q = c;
        } else if c == b'>' {
            return Some(i + 1);
        }
        i += 1;
    }
    None
}

pub fn micro_of(tree: &usvg::Tree) -> Option<Micro> {
    let text = tree.to_string(&usvg::WriteOptions::default());
    let p = text.find("<svg")?;
    let mut body_start = tag_end(&text, p)?;
    if text[p..body_start].ends_with("/>") {
        return None; // empty document
    }
    // skip whitespace and a leading <defs> block
    let rest = &text[body_start..];
    let trimmed = rest.trim_start();
    let ws = rest.len() - trimmed.len();
    if trimmed.starts_with("<defs>") {
        let e = text[body_start..].find("</defs>")?;
        body_start += e + "</defs>".len();
    } else if trimmed.starts_with("<defs/>") {
        body_start += ws + "<defs/>".len();
    }
    let body_end = text.rfind("</svg>")?;
    if body_end < body_start {
        return None;
    }
    Some(Micro { text, body_start, body_end })
}

pub fn has_blend(body: &str) -> bool {
    let mut rest = body;
    while let Some(p) = rest.find("mix-blend-mode:") {
        let v = &rest[p + "mix-blend-mode:".len()..];
        if !v.starts_with("normal") {
            return true;
        }
        rest = v;
    }
    false
}

/// byte offsets (relative to the text) of the `<g` start tags in the body that carry no `style` attribute
fn plain_groups(m: &Micro) -> Vec<usize> {
    let s = &m.text;
    let b = s.as_bytes();
    let mut out = Vec::new();
    let mut i = m.body_start;
    while i + 2 < m.body_end {
        if b[i] == b'<' {
            let e = match tag_end(s, i) {
                Some(e) => e,
                None => break,
            };
            if b[i + 1] == b'g' && (b[i + 2] == b' ' || b[i + 2] == b'>' || b[i + 2] == b'\n') {
                let tag = &s[i..e];
                if !tag.contains(" style=\"") && !tag.ends_with("/>") {
                    out.push(i);
                }
            }
            i = e;
        } else {
            i += 1;
        }
    }
    out
}

const ISO_OPEN: &str = "<g style=\"isolation:isolate\">";

pub fn wrap_body(m: &Micro, open: &str, close: &str) -> String {
    let mut s = String::with_capacity(m.text.len() + open.len() + close.len());
    s.push_str(&m.text[..m.body_start]);
    s.push_str(open);
    s.push_str(&m.text[m.body_start..m.body_end]);
    s.push_str(close);
    s.push_str(&m.text[m.body_end..]);
    s
}

/// -> (document A, document B, number of injected groups)
fn inject(m: &Micro, mode: &str, rng: &mut SplitMix64) -> Result<(String, String, usize), String> {
    let a = m.text.clone();
    if mode == "root" {
        return Ok((a, wrap_body(m, ISO_OPEN, "</g>"), 1));
    }
    if let Some(k) = mode.strip_prefix("nest") {
        let k: usize = k.parse().unwrap_or(2);
        return Ok((a, wrap_body(m, &ISO_OPEN.repeat(k), &"</g>".repeat(k)), k));
    }
    if mode == "inner" || mode == "all" {
        let gs = plain_groups(m);
        if gs.is_empty() && mode == "inner" {
            return Err("no-inner-groups".into());
        }
        let mut chosen: Vec<usize> = Vec::new();
        for &g in &gs {
            if mode == "all" || rng.below(2) == 0 {
                chosen.push(g);
            }
        }
        if chosen.is_empty() && !gs.is_empty() {
            chosen.push(gs[rng.below(gs.len() as u64) as usize]);
        }
        let mut s = String::with_capacity(m.text.len() + 40 * (chosen.len() + 1));
        let mut last = 0usize;
        for &g in &chosen {
            s.push_str(&m.text[last..g + 2]);
            s.push_str(" style=\"isolation:isolate\"");
            last = g + 2;
        }
        let mut n = chosen.len();
        if mode == "all" {
            s.push_str(&m.text[last..m.body_end]);
            s.push_str("</g>");
            s.push_str(&m.text[m.body_end..]);
            // the opening wrapper goes at body_start, which precedes every chosen group
            let mut t = String::with_capacity(s.len() + 40);
            t.push_str(&s[..m.body_start]);
            t.push_str(ISO_OPEN);
            t.push_str(&s[m.body_start..]);
            s = t;
            n += 1;
        } else {
            s.push_str(&m.text[last..]);
        }
        return Ok((a, s, n));
    }
    if let Some(r) = mode.strip_prefix("opmul:") {
        let (x, y) = r.split_once(':').ok_or("bad opmul")?;
        let xa: f64 = x.parse().map_err(|_| "bad opmul")?;
        let ya: f64 = y.parse().map_err(|_| "bad opmul")?;
        let a2 = wrap_body(m, &format!("<g opacity=\"{}\"><g opacity=\"{}\">", xa, ya), "</g></g>");
        let b2 = wrap_body(m, &format!("<g opacity=\"{}\">", xa * ya), "</g>");
        return Ok((a2, b2, 2));
    }
    if mode == "op0" {
        // B: the same document with an empty body
        let mut b2 = String::new();
        b2.push_str(&m.text[..m.body_start]);
        b2.push_str(&m.text[m.body_end..]);
        return Ok((wrap_body(m, "<g opacity=\"0\">", "</g>"), b2, 1));
    }
    if mode == "op1" {
        return Ok((a, wrap_body(m, "<g opacity=\"1\" style=\"isolation:isolate\">", "</g>"), 1));
    }
    Err(format!("unknown mode {}", mode))
}

pub struct View {
    pub w: u32,
    pub h: u32,
    pub ts: tiny_skia::Transform,
    pub crossing: bool,
}

/// canvas + root transform for a tree under `cfg`
pub fn view_of(tree: &usvg::Tree, cfg: &str) -> Result<View, String> {
    let p: Vec<&str> = cfg.split(':').collect();
    if p.len() < 4 {
        return Err("bad cfg".into());
    }
    let mut s: f32 = p[1].parse().map_err(|_| "bad scale")?;
    let fx: f32 = p[2].parse().map_err(|_| "bad fx")?;
    let fy: f32 = p[3].parse().map_err(|_| "bad fy")?;
    let size = tree.size();
    let bb = if tree.root().has_children() { Some(tree.root().abs_layer_bounding_box()) } else { None };
    match p[0] {
        "fit" => {
            let bb = bb.ok_or("empty")?;
            if !(bb.width().is_finite() && bb.height().is_finite()) || bb.width() > 1e6 || bb.height() > 1e6 {
                return Err("huge-bbox".into());
            }
            let m = 1200.0f32;
            if bb.width() * s > m {
                s = m / bb.width();
            }
            if bb.height() * s > m {
                s = m / bb.height();
            }
            let margin = 10.0f32;
            let w = (bb.width() * s).ceil() as u32 + 2 * margin as u32 + 1;
            let h = (bb.height() * s).ceil() as u32 + 2 * margin as u32 + 1;
            let ts = tiny_skia::Transform::from_row(s, 0.0, 0.0, s, margin + fx - bb.x() * s, margin + fy - bb.y() * s);
            Ok(View { w, h, ts, crossing: false })
        }
        // "plain" = "native" without the no-crossing reference (direct vs isolated compared as they are)
        "native" | "crop" | "plain" => {
            let (mut w, mut h) = ((size.width() * s).ceil().max(1.0), (size.height() * s).ceil().max(1.0));
            if w > 1500.0 || h > 1500.0 {
                return Err("huge-size".into());
            }
            let mut ts = tiny_skia::Transform::from_row(s, 0.0, 0.0, s, fx, fy);
            if p[0] == "crop" {
                ts = tiny_skia::Transform::from_row(s, 0.0, 0.0, s, fx - (w / 4.0).floor(), fy - (h / 4.0).floor());
                w = (w / 2.0).ceil().max(1.0);
                h = (h / 2.0).ceil().max(1.0);
            }
            let crossing = match bb {
                Some(bb) => match bb.transform(ts) {
                    Some(r) => r.left() < 1.0 || r.top() < 1.0 || r.right() > w - 1.0 || r.bottom() > h - 1.0,
                    None => true,
                },
                None => false,
            };
            Ok(View { w: w as u32, h: h as u32, ts, crossing })
        }
        _ => Err("bad cfg kind".into()),
    }
}

pub struct Cmp {
    pub n0: usize,   // pixels that differ at all
    pub n1: usize,   // pixels with a channel delta > 1
    pub n8: usize,   // pixels with a channel delta > 8
    pub n32: usize,  // pixels with a channel delta > 32
    pub n64: usize,  // pixels with a channel delta > 64
    pub max: u8,
    pub nonblank: usize,
    pub first: Option<(u32, u32)>,
    pub dbox: (u32, u32, u32, u32), // bounding box of the pixels with delta > 1
}

/// Reference rendering for views whose content crosses a canvas edge: the direct rendering on a canvas large
/// enough that nothing crosses an edge, cropped to the window.  None if that canvas would be too large.
pub fn reference_crop(tree: &usvg::Tree, v: &View) -> Option<tiny_skia::Pixmap> {
    if !tree.root().has_children() {
        return None;
    }
    let bb = tree.root().abs_layer_bounding_box().transform(v.ts)?;
    let x0 = (bb.left().floor() as i64 - 6).min(0);
    let y0 = (bb.top().floor() as i64 - 6).min(0);
    let x1 = (bb.right().ceil() as i64 + 6).max(v.w as i64);
    let y1 = (bb.bottom().ceil() as i64 + 6).max(v.h as i64);
    let (bw, bh) = (x1 - x0, y1 - y0);
    if bw > 3000 || bh > 3000 || bw * bh > 6_000_000 {
        return None;
    }
    let ts = v.ts.post_translate(-(x0 as f32), -(y0 as f32));
    let big = render_tree(tree, bw as u32, bh as u32, ts)?;
    let rect = tiny_skia::IntRect::from_xywh((-x0) as i32, (-y0) as i32, v.w, v.h)?;
    big.clone_rect(rect)
}

pub fn cmp_pixmaps(a: &tiny_skia::Pixmap, b: &tiny_skia::Pixmap) -> Cmp {
    cmp_pixmaps_ref(a, b, None)
}

/// With a reference: a pixel counts only if B differs from A *and* from the reference by more than the level.
pub fn cmp_pixmaps_ref(a: &tiny_skia::Pixmap, b: &tiny_skia::Pixmap, r: Option<&tiny_skia::Pixmap>) -> Cmp {
    let mut c = Cmp { n0: 0, n1: 0, n8: 0, n32: 0, n64: 0, max: 0, nonblank: 0, first: None, dbox: (u32::MAX, u32::MAX, 0, 0) };
    let w = a.width();
    for (i, (pa, pb)) in a.data().chunks_exact(4).zip(b.data().chunks_exact(4)).enumerate() {
        if pa[3] != 0 || pb[3] != 0 {
            c.nonblank += 1;
        }
        let mut d = 0u8;
        for k in 0..4 {
            d = d.max(pa[k].abs_diff(pb[k]));
        }
        if let Some(r) = r {
            let pr = &r.data()[i * 4..i * 4 + 4];
            let mut dr = 0u8;
            for k in 0..4 {
                dr = dr.max(pr[k].abs_diff(pb[k]));
            }
            d = d.min(dr);
        }
        if d > 0 {
            c.n0 += 1;
        }
        if d > 1 {
            c.n1 += 1;
            let (x, y) = (i as u32 % w, i as u32 / w);
            if c.first.is_none() {
                c.first = Some((x, y));
            }
            c.dbox = (c.dbox.0.min(x), c.dbox.1.min(y), c.dbox.2.max(x), c.dbox.3.max(y));
        }
        if d > 8 {
            c.n8 += 1;
        }
        if d > 32 {
            c.n32 += 1;
        }
        if d > 64 {
            c.n64 += 1;
        }
        c.max = c.max.max(d);
    }
    c
}

/// Class predicate `nested-layer-clamp`: number of isolated groups that render_group lays out in a frame
/// (accumulated origin of the enclosing layers) from which the canvas no longer lies inside the
/// untranslated max_bbox, i.e. origin < -2W / -2H (or > 2W / 2H).  Walks the tree the way render_group does.
pub fn frame_bad(tree: &usvg::Tree, w: u32, h: u32, root_ts: tiny_skia::Transform) -> usize {
    let max = match tiny_skia::IntRect::from_xywh(-(w as i32) * 2, -(h as i32) * 2, w * 5, h * 5) {
        Some(m) => m,
        None => return 0,
    };
    fn walk(g: &usvg::Group, ts: tiny_skia::Transform, ox: i64, oy: i64, w: i64, h: i64, max: tiny_skia::IntRect, bad: &mut usize) {
        let ts = ts.pre_concat(g.transform());
        let mut child_ts = ts;
        let (mut cox, mut coy) = (ox, oy);
        if g.should_isolate() {
            if ox < -2 * w || oy < -2 * h || ox > 2 * w || oy > 2 * h {
                *bad += 1;
            }
            let bbox = match g.layer_bounding_box().transform(ts) {
                Some(b) => b,
                None => return,
            };
            let raw = if g.filters().is_empty() {
                tiny_skia::IntRect::from_xywh(
                    (bbox.x().floor() as i32).saturating_sub(2),
                    (bbox.y().floor() as i32).saturating_sub(2),
                    (bbox.width().ceil() as u32).saturating_add(4),
                    (bbox.height().ceil() as u32).saturating_add(4),
                )
            } else {
                tiny_skia::IntRect::from_xywh(
                    bbox.x().floor() as i32,
                    bbox.y().floor() as i32,
                    (bbox.width().ceil() as u32).max(1),
                    (bbox.height().ceil() as u32).max(1),
                )
            };
            let ib = match raw.and_then(|r| resvg::verif_hooks::fit_to_rect(r, max)) {
                Some(r) => r,
                None => return,
            };
            child_ts = tiny_skia::Transform::from_translate(-(ib.x() as f32), -(ib.y() as f32)).pre_concat(ts);
            cox += ib.x() as i64;
            coy += ib.y() as i64;
        }
        for n in g.children() {
            match n {
                usvg::Node::Group(ref c) => walk(c, child_ts, cox, coy, w, h, max, bad),
                usvg::Node::Text(ref t) => walk(t.flattened(), child_ts, cox, coy, w, h, max, bad),
                _ => {}
            }
        }
    }
    let mut bad = 0usize;
    walk(tree.root(), root_ts, 0, 0, w as i64, h as i64, max, &mut bad);
    bad
}

fn ev_nums(ev: &str, key: &str) -> Option<Vec<f64>> {
    let k = format!("\"{}\":[", key);
    let b = ev.find(&k)? + k.len();
    let e = ev[b..].find(']')? + b;
    let v: Vec<f64> = ev[b..e].split(',').filter_map(|x| x.trim().parse().ok()).collect();
    Some(v)
}

/// Class predicate `filter-region-ulp`: the i-th filtered layer of A and of B has (up to 1e-3) the same
/// device-space size and sub-pixel position, but f32 rounding put a floor/ceil on different sides of an
/// integer, so the two integer boxes differ by one row or column.
pub fn ulp_flip(ea: &[String], eb: &[String]) -> bool {
    let fl = |ev: &[String]| -> Vec<Vec<f64>> {
        ev.iter()
            .filter(|e| e.starts_with("{\"ev\":\"layer\"") && !e.contains("\"filters\":0,"))
            .filter_map(|e| ev_nums(e, "bbox"))
            .filter(|b| b.len() == 4)
            .collect()
    };
    let (a, b) = (fl(ea), fl(eb));
    if a.len() != b.len() {
        return false;
    }
    let frac = |x: f64| x - x.floor();
    for (p, q) in a.iter().zip(b.iter()) {
        if (p[2] - q[2]).abs() < 1e-3 && (p[3] - q[3]).abs() < 1e-3 {
            if p[2].ceil() != q[2].ceil() || p[3].ceil() != q[3].ceil() {
                return true;
            }
            let (fx, fy) = ((frac(p[0]) - frac(q[0])).abs(), (frac(p[1]) - frac(q[1])).abs());
            if fx > 0.999 || fy > 0.999 {
                return true;
            }
        }
    }
    false
}

/// Class predicate `hairline-clip`: number of stroked paths whose device stroke width is <= 1 px (tiny-skia then uses its
/// hairline rasteriser) and whose device stroke box is not inside the canvas (the line crosses a canvas / layer edge).
pub fn hairline_crossing(tree: &usvg::Tree, w: u32, h: u32, root_ts: tiny_skia::Transform) -> usize {
    fn walk(g: &usvg::Group, root_ts: tiny_skia::Transform, w: f32, h: f32, n: &mut usize) {
        for node in g.children() {
            match node {
                usvg::Node::Group(ref c) => walk(c, root_ts, w, h, n),
                usvg::Node::Text(ref t) => walk(t.flattened(), root_ts, w, h, n),
                usvg::Node::Path(ref p) => {
                    if let Some(st) = p.stroke() {
                        let ts = root_ts.pre_concat(p.abs_transform());
                        let (sx, sy) = ts.get_scale();
                        if st.width().get() * sx.max(sy) <= 1.0001 {
                            let inside = match p.abs_stroke_bounding_box().transform(root_ts) {
                                Some(b) => b.left() >= 0.0 && b.top() >= 0.0 && b.right() <= w && b.bottom() <= h,
                                None => false,
                            };
                            if !inside {
                                *n += 1;
                            }
                        }
                    }
                }
                _ => {}
            }
        }
    }
    let mut n = 0usize;
    walk(tree.root(), root_ts, w as f32, h as f32, &mut n);
    n
}

pub fn count_layers(ev: &[String]) -> usize {
    ev.iter().filter(|e| e.starts_with("{\"ev\":\"layer\"")).count()
}

fn op_iso(payload: &str) -> String {
    let f: Vec<&str> = payload.split('\t').collect();
    if f.len() < 5 {
        return "{\"error\":\"bad payload\"}".into();
    }
    let emit = f.len() > 5 && f[5] == "emit";
    let tree = match parse_doc(f[0], f[1]) {
        Ok(t) => t,
        Err(e) => return format!("{{\"skip\":\"parse\",\"error\":{}}}", esc(&e)),
    };
    let m = match micro_of(&tree) {
        Some(m) => m,
        None => return "{\"skip\":\"empty\"}".into(),
    };
    if has_blend(&m.text) {
        return "{\"skip\":\"blend\"}".into();
    }
    let mut rng = SplitMix64(f[3].parse().unwrap_or(1));
    let (da, db, ngroups) = match inject(&m, f[2], &mut rng) {
        Ok(x) => x,
        Err(e) => return format!("{{\"skip\":{}}}", esc(&e)),
    };
    // resources (images) are resolved relative to the original file
    let mut opts = f[0].to_string();
    if let Some(p) = f[1].strip_prefix('@') {
        if let Some(dir) = std::path::Path::new(p).parent() {
            if opts == "-" {
                opts.clear();
            }
            opts.push_str(&format!(";res={}", dir.display()));
        }
    }
    let ta = match parse_doc(&opts, &da) {
        Ok(t) => t,
        Err(e) => return format!("{{\"error\":{},\"which\":\"A\"}}", esc(&e)),
    };
    let tb = match parse_doc(&opts, &db) {
        Ok(t) => t,
        Err(e) => return format!("{{\"error\":{},\"which\":\"B\"}}", esc(&e)),
    };
    let v = match view_of(&ta, f[4]) {
        Ok(v) => v,
        Err(e) => return format!("{{\"skip\":{}}}", esc(&e)),
    };
    let (pa, ea) = match traced_render(&ta, v.w, v.h, v.ts) {
        Some(x) => x,
        None => return "{\"skip\":\"canvas\"}".into(),
    };
    let (pb, eb) = traced_render(&tb, v.w, v.h, v.ts).unwrap();
    let reference = if v.crossing && !f[4].starts_with("plain") { reference_crop(&ta, &v) } else { None };
    let c = cmp_pixmaps_ref(&pa, &pb, reference.as_ref());
    let mut out = format!(
        "{{\"nbA\":{},\"nbB\":{},\"n0\":{},\"n1\":{},\"n8\":{},\"n32\":{},\"n64\":{},\"max\":{},\"nonblank\":{},\"layersA\":{},\"layersB\":{},\"groups\":{},\"W\":{},\"H\":{},\"crossing\":{},\"ref\":{},\"frame_bad\":{},\"ulp_flip\":{},\"hairline\":{},\"ts\":[{},{},{},{},{},{}]",
        pa.data().chunks_exact(4).filter(|p| p[3] != 0).count(), pb.data().chunks_exact(4).filter(|p| p[3] != 0).count(),
        c.n0, c.n1, c.n8, c.n32, c.n64, c.max, c.nonblank, count_layers(&ea), count_layers(&eb), ngroups, v.w, v.h, v.crossing, reference.is_some(), frame_bad(&tb, v.w, v.h, v.ts), ulp_flip(&ea, &eb), hairline_crossing(&tb, v.w, v.h, v.ts),
        v.ts.sx, v.ts.ky, v.ts.kx, v.ts.sy, v.ts.tx, v.ts.ty
    );
    if let Some((x, y)) = c.first {
        let i = ((y * v.w + x) * 4) as usize;
        out.push_str(&format!(
            ",\"dbox\":[{},{},{},{}],\"first\":[{},{}],\"pxA\":[{},{},{},{}],\"pxB\":[{},{},{},{}]",
            c.dbox.0, c.dbox.1, c.dbox.2, c.dbox.3, x, y, pa.data()[i], pa.data()[i + 1], pa.data()[i + 2], pa.data()[i + 3],
            pb.data()[i], pb.data()[i + 1], pb.data()[i + 2], pb.data()[i + 3]
        ));
    }
    if emit {
        out.push_str(&format!(",\"docA\":{},\"docB\":{}", esc(&da), esc(&db)));
        if let Some((x, y)) = c.first {
            // alpha values around the first differing pixel (rows y-2..y+2, columns x-5..x+5)
            let win = |p: &tiny_skia::Pixmap| -> String {
                let mut rows = Vec::new();
                for yy in y.saturating_sub(2)..(y + 3).min(v.h) {
                    let mut r = Vec::new();
                    for xx in x.saturating_sub(5)..(x + 6).min(v.w) {
                        r.push(p.data()[((yy * v.w + xx) * 4 + 3) as usize].to_string());
                    }
                    rows.push(format!("[{}]", r.join(",")));
                }
                format!("[{}]", rows.join(","))
            };
            out.push_str(&format!(",\"alphaA\":{},\"alphaB\":{}", win(&pa), win(&pb)));
        }
    }
    out.push('}');
    out
}

// ------------------------------------------------------------------------------------------------
/// c14-drawpix  payload `<d>`: the layer composite of render_group on bytes.  A 256 x 256 "layer", pixel (x = s, y = sa) =
/// (min(s,sa) x3, sa), is drawn with the paint render_group builds for an opacity-1 normal-blend group
/// (`PixmapPaint { opacity: 1.0, blend_mode: convert_blend_mode(Normal), quality: Nearest }`, identity transform) at the
/// integer position (1, 2) onto a 258 x 260 destination filled with (d, d, d, d).  Returns the red and the alpha channel of
/// the covered area (index sa * 256 + s), whether r = g = b everywhere, and whether the uncovered frame stayed untouched.
fn op_drawpix(payload: &str) -> String {
    if let Some(rest) = payload.trim().strip_prefix("seq:") {
        return drawpix_seq(rest);
    }
    let d: u8 = match payload.trim().parse() {
        Ok(v) => v,
        Err(_) => return "{\"error\":\"bad payload\"}".into(),
    };
    let mut src = tiny_skia::Pixmap::new(256, 256).unwrap();
    for sa in 0..256usize {
        for s in 0..256usize {
            let o = (sa * 256 + s) * 4;
            let m = s.min(sa) as u8;
            src.data_mut()[o..o + 4].copy_from_slice(&[m, m, m, sa as u8]);
        }
    }
    let (w, h) = (258usize, 260usize);
    let mut dst = tiny_skia::Pixmap::new(w as u32, h as u32).unwrap();
    for p in dst.data_mut().chunks_exact_mut(4) {
        p.copy_from_slice(&[d, d, d, d]);
    }
    let paint = tiny_skia::PixmapPaint {
        opacity: 1.0,
        blend_mode: resvg::verif_hooks::convert_blend_mode(usvg::BlendMode::Normal),
        quality: tiny_skia::FilterQuality::Nearest,
    };
    dst.draw_pixmap(1, 2, src.as_ref(), &paint, tiny_skia::Transform::identity(), None);
    let data = dst.data();
    let mut t = Vec::with_capacity(65536);
    let mut ta = Vec::with_capacity(65536);
    let mut uniform = true;
    let mut frame_ok = true;
    for y in 0..h {
        for x in 0..w {
            let p = &data[(y * w + x) * 4..(y * w + x) * 4 + 4];
            if x >= 1 && x < 257 && y >= 2 && y < 258 {
                t.push(p[0].to_string());
                ta.push(p[3].to_string());
                uniform &= p[0] == p[1] && p[1] == p[2];
            } else {
                frame_ok &= p == [d, d, d, d];
            }
        }
    }
    format!("{{\"t\":[{}],\"ta\":[{}],\"uniform\":{},\"frame_ok\":{}}}", t.join(","), ta.join(","), uniform, frame_ok)
}

/// c14-drawpix payload `seq:r,g,b,a;r,g,b,a;...` (first pixel = background, the others = children in paint order, all
/// premultiplied bytes): the children composited one by one onto the background (`direct`) and onto a clear layer that is
/// then composited onto the background (`layered`), every step by the real draw_pixmap with render_group's layer paint.
fn drawpix_seq(spec: &str) -> String {
    let px: Vec<Vec<u8>> = spec.split(';').map(|p| p.split(',').filter_map(|x| x.trim().parse().ok()).collect()).collect();
    if px.len() < 2 || px.iter().any(|p| p.len() != 4) {
        return "{\"error\":\"bad seq\"}".into();
    }
    let paint = tiny_skia::PixmapPaint {
        opacity: 1.0,
        blend_mode: resvg::verif_hooks::convert_blend_mode(usvg::BlendMode::Normal),
        quality: tiny_skia::FilterQuality::Nearest,
    };
    let one = |p: &[u8]| {
        let mut pm = tiny_skia::Pixmap::new(1, 1).unwrap();
        pm.data_mut().copy_from_slice(p);
        pm
    };
    let mut direct = one(&px[0]);
    let mut layer = tiny_skia::Pixmap::new(1, 1).unwrap();
    for p in &px[1..] {
        let c = one(p);
        direct.draw_pixmap(0, 0, c.as_ref(), &paint, tiny_skia::Transform::identity(), None);
        layer.draw_pixmap(0, 0, c.as_ref(), &paint, tiny_skia::Transform::identity(), None);
    }
    let mut layered = one(&px[0]);
    layered.draw_pixmap(0, 0, layer.as_ref(), &paint, tiny_skia::Transform::identity(), None);
    let f = |pm: &tiny_skia::Pixmap| pm.data().iter().map(|x| x.to_string()).collect::<Vec<_>>().join(",");
    format!("{{\"direct\":[{}],\"layered\":[{}]}}", f(&direct), f(&layered))
}
