//! C03 operations.
//!   c03-svgtree  payload `opts\tdoc` -> elements of the private svgtree after `parse_tree` (document
//!                order) with their reference-valued attributes:
//!                {"n":<node count>,"elems":[["rect","id",{"fill":"url(#a)"}],...]} | {"error":..}
//!   c03-e2e      payload `opts\tdoc` -> parse with Tree::from_data, render at 100x100 and report the
//!                named nodes of the tree: {"ok":true,"nodes":[{"t","id","bbox","abs_ts","fill","fo","visible"}..],
//!                "px":[r,g,b,a] (pixel 80,80), "nonblank":n} | {"error":..}
use crate::dump::{esc, num};
use crate::util::*;

const LINK_ATTRS: [&str; 9] = [
    "href", "fill", "stroke", "clip-path", "mask", "filter", "marker-start", "marker-mid", "marker-end",
];

fn svgtree(payload: &str) -> String {
    let (opts, doc) = payload.split_once('\t').unwrap_or(("", payload));
    let mut opt = make_options(opts);
    let data = match load_doc(doc, &mut opt) {
        Ok(d) => d,
        Err(e) => return format!("{{\"error\":{}}}", esc(&e)),
    };
    let text = match std::str::from_utf8(&data) {
        Ok(t) => t,
        Err(_) => return "{\"error\":\"utf8\"}".to_string(),
    };
    let (dump, n) = match usvg::verif_hooks::svgtree_dump(text, &opt) {
        Ok(v) => v,
        Err(e) => return format!("{{\"error\":{}}}", esc(&format!("{}", e))),
    };
    // parse the Debug text: "Element {", "tag_name: Some(X)", "Attribute { name: N, value: V, important: b }"
    let mut out = format!("{{\"n\":{},\"elems\":[", n);
    let mut first_elem = true;
    let mut cur: Option<(String, String, Vec<(String, String)>)> = None;
    let flush = |cur: &mut Option<(String, String, Vec<(String, String)>)>, out: &mut String, first: &mut bool| {
        if let Some((tag, id, attrs)) = cur.take() {
            if !*first {
                out.push(',');
            }
            *first = false;
            out.push_str(&format!("[{},{},{{", esc(&tag), esc(&id)));
            for (i, (k, v)) in attrs.iter().enumerate() {
                if i > 0 {
                    out.push(',');
                }
                out.push_str(&format!("{}:{}", esc(k), esc(v)));
            }
            out.push_str("}]");
        }
    };
    for line in dump.lines() {
        let l = line.trim();
        if l == "Element {" {
            flush(&mut cur, &mut out, &mut first_elem);
            cur = Some((String::new(), String::new(), Vec::new()));
        } else if let Some(rest) = l.strip_prefix("tag_name: Some(") {
            if let Some(c) = cur.as_mut() {
                if c.0.is_empty() {
                    c.0 = rest.trim_end_matches(')').to_string();
                }
            }
        } else if let Some(rest) = l.strip_prefix("Attribute { name: ") {
            if let Some((name, tail)) = rest.split_once(", value: ") {
                if let Some(pos) = tail.rfind(", important: ") {
                    let value = &tail[..pos];
                    if let Some(c) = cur.as_mut() {
                        if name == "id" {
                            c.1 = value.to_string();
                        } else if LINK_ATTRS.contains(&name) && !c.2.iter().any(|(k, _)| k == name) {
                            c.2.push((name.to_string(), value.to_string()));
                        }
                    }
                }
            }
        }
    }
    flush(&mut cur, &mut out, &mut first_elem);
    out.push_str("]}");
    out
}

fn walk(g: &usvg::Group, out: &mut Vec<String>) {
    for n in g.children() {
        match n {
            usvg::Node::Group(ref gg) => {
                if !gg.id().is_empty() {
                    out.push(format!("{{\"t\":\"g\",\"id\":{}}}", esc(gg.id())));
                }
                walk(gg, out);
            }
            usvg::Node::Path(ref p) => {
                if !p.id().is_empty() {
                    let b = p.bounding_box();
                    let t = p.abs_transform();
                    let (fill, fo) = match p.fill() {
                        Some(f) => match f.paint() {
                            usvg::Paint::Color(c) => (format!("[{},{},{}]", c.red, c.green, c.blue), f.opacity().get()),
                            _ => ("\"server\"".to_string(), f.opacity().get()),
                        },
                        None => ("null".to_string(), 0.0),
                    };
                    let rect = |r: usvg::Rect| format!("[{},{},{},{}]", num(r.x()), num(r.y()), num(r.width()), num(r.height()));
                    let boxes = format!(
                        "[{},{},{},{},{}]",
                        rect(p.abs_bounding_box()), rect(p.stroke_bounding_box()), rect(p.abs_stroke_bounding_box()),
                        rect(n.abs_layer_bounding_box().map(|r| r.to_rect()).unwrap_or(p.abs_bounding_box())),
                        rect(n.bounding_box())
                    );
                    out.push(format!(
                        "{{\"t\":\"path\",\"id\":{},\"boxes\":{},\"bbox\":[{},{},{},{}],\"abs_ts\":[{},{},{},{},{},{}],\"fill\":{},\"fo\":{},\"stroke\":{},\"visible\":{}}}",
                        esc(p.id()), boxes, num(b.x()), num(b.y()), num(b.width()), num(b.height()),
                        num(t.sx), num(t.ky), num(t.kx), num(t.sy), num(t.tx), num(t.ty),
                        fill, num(fo), p.stroke().is_some(), p.is_visible()
                    ));
                }
            }
            usvg::Node::Image(ref i) => {
                if !i.id().is_empty() {
                    out.push(format!("{{\"t\":\"image\",\"id\":{}}}", esc(i.id())));
                }
            }
            usvg::Node::Text(ref t) => {
                if !t.id().is_empty() {
                    out.push(format!("{{\"t\":\"text\",\"id\":{}}}", esc(t.id())));
                }
            }
        }
    }
}

fn e2e(payload: &str) -> String {
    let (opts, doc) = payload.split_once('\t').unwrap_or(("", payload));
    let tree = match parse_doc(opts, doc) {
        Ok(t) => t,
        Err(e) => return format!("{{\"error\":{}}}", esc(&e)),
    };
    let mut nodes = Vec::new();
    walk(tree.root(), &mut nodes);
    let pm = match render_tree(&tree, 100, 100, tiny_skia::Transform::identity()) {
        Some(p) => p,
        None => return "{\"error\":\"canvas\"}".to_string(),
    };
    let nonblank = pm.data().chunks_exact(4).filter(|p| p[3] != 0).count();
    let i = (80 * 100 + 80) * 4;
    let d = pm.data();
    format!(
        "{{\"ok\":true,\"nodes\":[{}],\"px\":[{},{},{},{}],\"nonblank\":{},\"size\":[{},{}]}}",
        nodes.join(","), d[i], d[i + 1], d[i + 2], d[i + 3], nonblank,
        num(tree.size().width()), num(tree.size().height())
    )
}

/// the usvg::Tree values nested below a group: one "[..]" per Image node that holds ImageKind::SVG, with what is
/// nested inside that tree between the brackets (document order; feImage / clip / mask / pattern roots included)
fn nest_group(g: &usvg::Group, out: &mut String) {
    for f in g.filters() {
        for p in f.primitives() {
            if let usvg::filter::Kind::Image(ref img) = p.kind() {
                nest_group(img.root(), out);
            }
        }
    }
    for n in g.children() {
        match n {
            usvg::Node::Group(ref gg) => nest_group(gg, out),
            usvg::Node::Image(ref i) => {
                if let usvg::ImageKind::SVG(ref t) = i.kind() {
                    out.push('[');
                    nest_group(t.root(), out);
                    out.push(']');
                }
            }
            usvg::Node::Path(_) => n.subroots(|r| nest_group(r, out)),
            usvg::Node::Text(ref t) => nest_group(t.flattened(), out),
        }
    }
}

/// c03-nest  payload `opts\tdoc` -> {"ok":true,"nest":"[[]][]","witness":bool} | {"error":..}
fn nest(payload: &str) -> String {
    let (opts, doc) = payload.split_once('\t').unwrap_or(("", payload));
    let tree = match parse_doc(opts, doc) {
        Ok(t) => t,
        Err(e) => return format!("{{\"error\":{}}}", esc(&e)),
    };
    let mut s = String::new();
    nest_group(tree.root(), &mut s);
    let mut nodes = Vec::new();
    walk(tree.root(), &mut nodes);
    let rendered = render_tree(&tree, 100, 100, tiny_skia::Transform::identity()).is_some();
    format!("{{\"ok\":true,\"nest\":{},\"nodes\":[{}],\"rendered\":{}}}", esc(&s), nodes.join(","), rendered)
}

pub fn dispatch(op: &str, _args: &[String]) -> bool {
    match op {
        "c03-nest" => run_batch(nest),
        "c03-svgtree" => run_batch(svgtree),
        "c03-e2e" => run_batch(e2e),
        _ => return false,
    }
    true
}
