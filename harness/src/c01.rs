//! C01 operations.
//!   c01-parse   payload `opts\tdoc` -> Tree::from_data only:
//!               {"r":"ok","cpu_us":n,"nodes":k} | {"r":"err","e":"<Display of usvg::Error>","cpu_us":n}
//!               (a panic is reported by run_batch, an abort / hang by the driver)
//!   c01-ctor    payload `<ctor>\t<hex f32 bits>[,<hex>..]` -> "some" | "none" for the validated constructors
//!               positive | nonzero_positive | normalized | nonzero (usvg's own NonZeroF32) | size (2 args) | nz_rect / nz_ltrb / rect (4 args)
use crate::dump::esc;
use crate::util::*;

fn cpu_us() -> u64 {
    let mut ts = libc::timespec { tv_sec: 0, tv_nsec: 0 };
    unsafe {
        libc::clock_gettime(libc::CLOCK_THREAD_CPUTIME_ID, &mut ts);
    }
    (ts.tv_sec as u64) * 1_000_000 + (ts.tv_nsec as u64) / 1000
}

fn count_nodes(g: &usvg::Group) -> usize {
    let mut n = 0;
    for c in g.children() {
        n += 1;
        if let usvg::Node::Group(ref gg) = c {
            n += count_nodes(gg);
        }
    }
    n
}

/// Address-space limit of the worker (3 GiB): an unbounded expansion aborts the worker instead of the machine.
fn limit_memory() {
    static ONCE: std::sync::Once = std::sync::Once::new();
    ONCE.call_once(|| unsafe {
        let lim = libc::rlimit { rlim_cur: 3 << 30, rlim_max: 3 << 30 };
        libc::setrlimit(libc::RLIMIT_AS, &lim);
    });
}

fn parse(payload: &str) -> String {
    limit_memory();
    let (opts, doc) = payload.split_once('\t').unwrap_or(("", payload));
    let mut opt = make_options(opts);
    let data = match load_doc(doc, &mut opt) {
        Ok(d) => d,
        Err(e) => return format!("{{\"r\":\"io\",\"e\":{}}}", esc(&e)),
    };
    let t0 = cpu_us();
    let r = usvg::Tree::from_data(&data, &opt);
    let dt = cpu_us() - t0;
    match r {
        Ok(t) => format!("{{\"r\":\"ok\",\"cpu_us\":{},\"nodes\":{}}}", dt, count_nodes(t.root())),
        Err(e) => format!("{{\"r\":\"err\",\"e\":{},\"cpu_us\":{}}}", esc(&format!("{}", e)), dt),
    }
}

fn ctor(payload: &str) -> String {
    let (name, args) = payload.split_once('\t').unwrap_or((payload, ""));
    let v: Vec<f32> = args
        .split(',')
        .filter(|s| !s.is_empty())
        .map(|h| f32::from_bits(u32::from_str_radix(h.trim(), 16).unwrap_or(0)))
        .collect();
    let g = |i: usize| v.get(i).copied().unwrap_or(0.0);
    let some = match name {
        "positive" => usvg::PositiveF32::new(g(0)).is_some(),
        "nonzero_positive" => usvg::NonZeroPositiveF32::new(g(0)).is_some(),
        "normalized" => usvg::NormalizedF32::new(g(0)).is_some(),
        "nonzero" => usvg::NonZeroF32::new(g(0)).is_some(),
        "size" => usvg::Size::from_wh(g(0), g(1)).is_some(),
        "nz_rect" => usvg::NonZeroRect::from_xywh(g(0), g(1), g(2), g(3)).is_some(),
        "rect" => usvg::Rect::from_xywh(g(0), g(1), g(2), g(3)).is_some(),
        "nz_ltrb" => usvg::NonZeroRect::from_ltrb(g(0), g(1), g(2), g(3)).is_some(),
        _ => return "\"unknown\"".to_string(),
    };
    if some { "\"some\"".to_string() } else { "\"none\"".to_string() }
}

pub fn dispatch(op: &str, _args: &[String]) -> bool {
    match op {
        "c01-parse" => run_batch(parse),
        "c01-ctor" => run_batch(ctor),
        _ => return false,
    }
    true
}
