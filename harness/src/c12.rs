//! c12 ops (filled in below).
pub fn dispatch(_op: &str, _args: &[String]) -> bool {
    false
}
