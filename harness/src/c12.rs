//! C12 ops.
//!   node-paint   payload `opts\tdoc\tmax_nodes\tseed\tmargin`
//!                For (a sample of) the nodes of the tree: paint the node alone, placed by the PRODUCT of its
//!                ancestors' `transform()`s (not by the reported abs_transform), and compare the set of
//!                non-transparent pixels with the reported absolute box (groups: abs layer box; paths, text,
//!                images: abs stroke box) grown by `margin` pixels.
//!                -> {"nodes":n,"checked":k,"skipped":s,"painted":p,"bad":[{...}],"max_excess":e}
//!   png-extent   payload `path` -> size and painted extent of a PNG (CLI zoom stage)
use crate::dump::{esc, num};
use crate::util::*;
use tiny_skia::Transform;

struct Item<'a> {
    node: &'a usvg::Node,
    parent_true: Transform, // product of the ancestors' transforms (from Group::transform())
    path: String,
}

fn collect<'a>(g: &'a usvg::Group, parent_true: Transform, path: &str, out: &mut Vec<Item<'a>>) {
    for (i, n) in g.children().iter().enumerate() {
        let p = format!("{}/{}", path, i);
        out.push(Item { node: n, parent_true, path: p.clone() });
        if let usvg::Node::Group(ref cg) = n {
            collect(cg, parent_true.pre_concat(cg.transform()), &p, out);
        }
    }
}

/// the node is, or contains, a path with a dash pattern and non-butt caps
fn has_dash_caps(n: &usvg::Node) -> bool {
    match n {
        usvg::Node::Path(ref p) => match p.stroke() {
            Some(s) => s.dasharray().is_some() && s.linecap() != usvg::LineCap::Butt,
            None => false,
        },
        usvg::Node::Group(ref g) => g.children().iter().any(has_dash_caps),
        _ => false,
    }
}

fn max_stroke_width(n: &usvg::Node) -> f32 {
    match n {
        usvg::Node::Path(ref p) => p.stroke().map(|s| s.width().get()).unwrap_or(0.0),
        usvg::Node::Group(ref g) => g.children().iter().map(max_stroke_width).fold(0.0, f32::max),
        _ => 0.0,
    }
}

fn kind(n: &usvg::Node) -> &'static str {
    match n {
        usvg::Node::Group(_) => "g",
        usvg::Node::Path(_) => "path",
        usvg::Node::Image(_) => "image",
        usvg::Node::Text(_) => "text",
    }
}

fn op_node_paint(payload: &str) -> String {
    let f: Vec<&str> = payload.split('\t').collect();
    if f.len() < 5 {
        return "{\"error\":\"bad payload\"}".to_string();
    }
    let tree = match parse_doc(f[0], f[1]) {
        Ok(t) => t,
        Err(e) => return format!("{{\"error\":{}}}", esc(&e)),
    };
    let max_nodes: usize = f[2].parse().unwrap_or(10);
    let mut rng = SplitMix64(f[3].parse().unwrap_or(1));
    let margin: f32 = f[4].parse().unwrap_or(2.0);
    let mut items = Vec::new();
    collect(tree.root(), Transform::identity(), "", &mut items);
    let total = items.len();
    // sample without replacement
    while items.len() > max_nodes {
        let k = rng.below(items.len() as u64) as usize;
        items.swap_remove(k);
    }
    // canvas: the document canvas plus a border, limited in size
    const M: f32 = 40.0;
    let cw = ((tree.size().width().ceil() + 2.0 * M) as u32).clamp(1, 1400);
    let ch = ((tree.size().height().ceil() + 2.0 * M) as u32).clamp(1, 1400);
    let mut checked = 0usize;
    let mut skipped = 0usize;
    let mut painted_nodes = 0usize;
    let mut max_excess = 0.0f32;
    let mut bad: Vec<String> = Vec::new();
    for it in &items {
        let node = it.node;
        let lb = match node.abs_layer_bounding_box() {
            Some(b) => b,
            None => {
                skipped += 1;
                continue;
            }
        };
        // the transform resvg::render_node will add on its own: translate(-bbox) * parent_ts
        let parent_ts = match node {
            usvg::Node::Group(ref g) => g.abs_transform().pre_concat(g.transform().invert().unwrap_or_default()),
            _ => node.abs_transform(),
        };
        let inv = match parent_ts.invert() {
            Some(t) => t,
            None => {
                skipped += 1;
                continue;
            }
        };
        // wanted: translate(M, M) * parent_true;  given: T * translate(-lb) * parent_ts
        let wanted = Transform::from_translate(M, M).pre_concat(it.parent_true);
        let t = wanted.pre_concat(inv).pre_translate(lb.x(), lb.y());
        let mut pm = match tiny_skia::Pixmap::new(cw, ch) {
            Some(p) => p,
            None => return "{\"error\":\"canvas\"}".to_string(),
        };
        if resvg::render_node(node, t, &mut pm.as_mut()).is_none() {
            skipped += 1;
            continue;
        }
        checked += 1;
        // reported box in canvas coordinates
        let (bx, by, bw, bh) = match node {
            usvg::Node::Group(_) => (lb.x(), lb.y(), lb.width(), lb.height()),
            _ => {
                let r = node.abs_stroke_bounding_box();
                (r.x(), r.y(), r.width(), r.height())
            }
        };
        let (x0, y0, x1, y1) = (bx + M - margin, by + M - margin, bx + bw + M + margin, by + bh + M + margin);
        // an independent, looser bound for leaves: the object-space stroke box mapped by the product transform
        let loose = match node {
            usvg::Node::Group(_) => None,
            _ => node.stroke_bounding_box().transform(it.parent_true),
        };
        let mut n_out_loose = 0usize;
        let data = pm.data();
        let mut n_out = 0usize;
        let mut n_painted = 0usize;
        let (mut px0, mut py0, mut px1, mut py1) = (u32::MAX, u32::MAX, 0u32, 0u32);
        let mut excess = 0.0f32;
        for y in 0..ch {
            let row = (y * cw) as usize * 4;
            for x in 0..cw {
                let a = data[row + x as usize * 4 + 3];
                if a == 0 {
                    continue;
                }
                n_painted += 1;
                px0 = px0.min(x);
                py0 = py0.min(y);
                px1 = px1.max(x);
                py1 = py1.max(y);
                // pixel (x, y) covers [x, x+1) x [y, y+1)
                let ex = (x0 - x as f32).max(x as f32 + 1.0 - x1).max(0.0);
                let ey = (y0 - y as f32).max(y as f32 + 1.0 - y1).max(0.0);
                let e = ex.max(ey);
                if let Some(l) = loose {
                    if (x as f32 + 1.0) < l.left() + M - margin || (x as f32) > l.right() + M + margin
                        || (y as f32 + 1.0) < l.top() + M - margin || (y as f32) > l.bottom() + M + margin {
                        n_out_loose += 1;
                    }
                }
                if e > 0.0 {
                    n_out += 1;
                    if e > excess {
                        excess = e;
                    }
                }
            }
        }
        if n_painted > 0 {
            painted_nodes += 1;
        }
        if excess > max_excess {
            max_excess = excess;
        }
        if n_out > 0 && bad.len() < 6 {
            let true_ts = it.parent_true;
            bad.push(format!(
                "{{\"path\":{},\"kind\":\"{}\",\"id\":{},\"box\":[{},{},{},{}],\"painted\":[{},{},{},{}],\"outside\":{},\"outside_loose\":{},\"stroked\":{},\"dash_caps\":{},\"stroke_width\":{},\"excess\":{},\"abs_ts\":[{},{},{},{},{},{}],\"parent_product\":[{},{},{},{},{},{}]}}",
                esc(&it.path), kind(node), esc(node.id()), num(bx), num(by), num(bw), num(bh),
                px0 as f32 - M, py0 as f32 - M, px1 as f32 + 1.0 - M, py1 as f32 + 1.0 - M, n_out, if loose.is_some() { n_out_loose as i64 } else { -1 },
                match node { usvg::Node::Path(ref p) => p.stroke().is_some(), _ => false }, has_dash_caps(node), num(max_stroke_width(node)), num(excess),
                num(node.abs_transform().sx), num(node.abs_transform().ky), num(node.abs_transform().kx),
                num(node.abs_transform().sy), num(node.abs_transform().tx), num(node.abs_transform().ty),
                num(true_ts.sx), num(true_ts.ky), num(true_ts.kx), num(true_ts.sy), num(true_ts.tx), num(true_ts.ty)
            ));
        }
    }
    format!(
        "{{\"nodes\":{},\"checked\":{},\"skipped\":{},\"painted\":{},\"max_excess\":{},\"bad\":[{}]}}",
        total, checked, skipped, painted_nodes, num(max_excess), bad.join(",")
    )
}

/// (x0, y0, x1, y1) of the non-transparent pixels, or None
fn painted_extent(pm: &tiny_skia::Pixmap) -> Option<(u32, u32, u32, u32)> {
    let (w, h) = (pm.width(), pm.height());
    let d = pm.data();
    let (mut x0, mut y0, mut x1, mut y1) = (u32::MAX, u32::MAX, 0u32, 0u32);
    let mut any = false;
    for y in 0..h {
        for x in 0..w {
            if d[((y * w + x) * 4 + 3) as usize] != 0 {
                any = true;
                x0 = x0.min(x);
                y0 = y0.min(y);
                x1 = x1.max(x + 1);
                y1 = y1.max(y + 1);
            }
        }
    }
    if any { Some((x0, y0, x1, y1)) } else { None }
}

/// Extent for comparing two renderings of the same node: pixels of alpha <= 2 do not count.  Measured: the residue of a mask
/// that carries its own mask is 2 pixels of alpha 1, 6 rows below the content (corpus/witness/C19-mask-on-mask-export.svg, rows
/// 105-106 of the full rendering), present or not depending on the sub-pixel phase of the CLI's truncated placement.  Faint
/// hairlines (alpha 20-45) DO count; pattern-painted documents are compared by the exact placement rule of c12.py instead.
fn robust_extent(pm: &tiny_skia::Pixmap) -> Option<(u32, u32, u32, u32)> {
    let (w, h) = (pm.width(), pm.height());
    let d = pm.data();
    let (mut x0, mut y0, mut x1, mut y1) = (u32::MAX, u32::MAX, 0u32, 0u32);
    let mut any = false;
    for y in 0..h {
        for x in 0..w {
            if d[((y * w + x) * 4 + 3) as usize] > 2 {
                any = true;
                x0 = x0.min(x);
                y0 = y0.min(y);
                x1 = x1.max(x + 1);
                y1 = y1.max(y + 1);
            }
        }
    }
    if any { Some((x0, y0, x1, y1)) } else { None }
}

fn ext_json(e: Option<(u32, u32, u32, u32)>) -> String {
    match e {
        Some((a, b, c, d)) => format!("[{},{},{},{}]", a, b, c, d),
        None => "null".to_string(),
    }
}

/// cli-export  payload `opts\tdoc\tid\texport_png\tpage_png`
/// The PNG written by `resvg --export-id ID` must have the size of the node's absolute layer box (to_int_size) and the
/// pixels of resvg::render_node; the PNG of `--export-id ID --export-area-page` must have the page size and show the
/// node where the full rendering paints it (placed here by the product of the ancestors' transforms), up to the
/// integer placement of the CLI (painted extent within 2 px on every side).
fn op_cli_export(payload: &str) -> String {
    let f: Vec<&str> = payload.split('\t').collect();
    if f.len() < 5 {
        return "{\"error\":\"bad payload\"}".to_string();
    }
    let tree = match parse_doc(f[0], f[1]) {
        Ok(t) => t,
        Err(e) => return format!("{{\"error\":{}}}", esc(&e)),
    };
    let mut items = Vec::new();
    collect(tree.root(), Transform::identity(), "", &mut items);
    let it = match items.iter().find(|i| i.node.id() == f[2]) {
        Some(i) => i,
        None => return "{\"error\":\"id not found by the harness walk\"}".to_string(),
    };
    let node = it.node;
    let lb = match node.abs_layer_bounding_box() {
        Some(b) => b,
        None => return "{\"no_layer_box\":true}".to_string(),
    };
    let isz = lb.size().to_int_size();
    let load = |p: &str| -> Result<tiny_skia::Pixmap, String> {
        let bytes = std::fs::read(p).map_err(|e| format!("read: {}", e))?;
        tiny_skia::Pixmap::decode_png(&bytes).map_err(|e| format!("png: {}", e))
    };
    let mut out = format!(
        "{{\"kind\":\"{}\",\"lbbox\":[{},{},{},{}],\"expected_size\":[{},{}]",
        kind(node), num(lb.x()), num(lb.y()), num(lb.width()), num(lb.height()), isz.width(), isz.height()
    );
    match load(f[3]) {
        Err(e) => out.push_str(&format!(",\"export\":{{\"error\":{}}}", esc(&e))),
        Ok(pm) => {
            let mut ndiff = -1i64;
            if pm.width() == isz.width() && pm.height() == isz.height() {
                let mut r = tiny_skia::Pixmap::new(isz.width(), isz.height()).unwrap();
                resvg::render_node(node, Transform::identity(), &mut r.as_mut());
                // the CLI image went through PNG (demultiply on save, premultiply on load), which is lossy for
                // semi-transparent coloured pixels (paint-servers/pattern/with-patternTransform.svg: 38 pixels by one level):
                // send the reference through the same encoding so that the comparison stays bit-exact
                let r = match r.encode_png().ok().and_then(|b| tiny_skia::Pixmap::decode_png(&b).ok()) {
                    Some(x) => x,
                    None => r,
                };
                ndiff = diff_pixmaps(&pm, &r, 0).0 as i64;
            }
            out.push_str(&format!(",\"export\":{{\"size\":[{},{}],\"ndiff_vs_render_node\":{},\"extent_plain\":{}}}", pm.width(), pm.height(), ndiff, ext_json(painted_extent(&pm))));
        }
    }
    let psz = tree.size().to_int_size();
    match load(f[4]) {
        Err(e) => out.push_str(&format!(",\"page\":{{\"error\":{}}}", esc(&e))),
        Ok(pm) => {
            // reference: the node alone, placed by the product of its ancestors' transforms
            let parent_ts = match node {
                usvg::Node::Group(ref g) => g.abs_transform().pre_concat(g.transform().invert().unwrap_or_default()),
                _ => node.abs_transform(),
            };
            let mut refext = None;
            let mut ok_ref = false;
            if let Some(inv) = parent_ts.invert() {
                let t = it.parent_true.pre_concat(inv).pre_translate(lb.x(), lb.y());
                let mut r = tiny_skia::Pixmap::new(psz.width(), psz.height()).unwrap();
                if resvg::render_node(node, t, &mut r.as_mut()).is_some() {
                    refext = robust_extent(&r);
                    ok_ref = true;
                }
            }
            out.push_str(&format!(
                ",\"page\":{{\"size\":[{},{}],\"expected_size\":[{},{}],\"extent\":{},\"ref_ok\":{},\"ref_extent\":{},\"extent_plain\":{}}}",
                pm.width(), pm.height(), psz.width(), psz.height(), ext_json(robust_extent(&pm)), ok_ref, ext_json(refext), ext_json(painted_extent(&pm))
            ));
        }
    }
    out.push('}');
    out
}

/// png-extent  payload `path` -> {"size":[w,h],"extent":[x0,y0,x1,y1]|null} of the non-transparent pixels of a PNG file
fn op_png_extent(payload: &str) -> String {
    let bytes = match std::fs::read(payload.trim()) {
        Ok(b) => b,
        Err(e) => return format!("{{\"error\":{}}}", esc(&format!("read: {}", e))),
    };
    match tiny_skia::Pixmap::decode_png(&bytes) {
        Ok(pm) => format!("{{\"size\":[{},{}],\"extent\":{}}}", pm.width(), pm.height(), ext_json(painted_extent(&pm))),
        Err(e) => format!("{{\"error\":{}}}", esc(&format!("png: {}", e))),
    }
}

pub fn dispatch(op: &str, _args: &[String]) -> bool {
    match op {
        "png-extent" => run_batch(op_png_extent),
        "node-paint" => run_batch(op_node_paint),
        "cli-export" => run_batch(op_cli_export),
        _ => return false,
    }
    true
}
