//! C08 operations (write then parse preserves the rendering).
//!   c08-idem    payload `opts\twopts\tdoc` -> {"w1":write(T),"w2":write(parse(w1)),"w3":write(parse(w2))} (texts)
//!   c08-rt      payload `opts\twopts\tdoc` -> {"a":<dump of T>,"b":<dump of parse(write(T))> | {"error":..}}
//!   c08-render  payload `opts\twopts\tdoc` -> {"size":[w,h],"r":[{"scale":s,"w":..,"h":..,"n12":..,"big12":..,"max12":..,
//!                    "n23":..,"max23":..,"nonblank":..},..],"fixed2":bool,"fixed3":bool,
//!                    "drift":[comparable, coordinates of T2 that differ from T1, largest relative difference]}
//!               ({"render_panic":..} when T itself cannot be rendered: not a round-trip matter)
//!               T2 = parse(write(T)), T3 = parse(write(T2)); n12 = pixels of render(T) vs render(T2) differing by more than 2
//!               in some channel, big12 = by more than 72, n23 = pixels of render(T2) vs render(T3) differing at all;
//!               fixed2 / fixed3: write(T2) == write(T) / write(T3) == write(T2)
use crate::c07::parse_wopts;
use crate::dump::{dump_tree, esc};
use crate::util::*;

pub fn dispatch(op: &str, _args: &[String]) -> bool {
    match op {
        "c08-rt" => run_batch(op_rt),
        "c08-render" => run_batch(op_render),
        "c08-idem" => run_batch(op_idem),
        _ => return false,
    }
    true
}

fn reparse(text: &str, opts: &str, doc: &str) -> Result<usvg::Tree, String> {
    let mut opt = make_options(opts);
    if let Some(p) = doc.strip_prefix('@') {
        opt.resources_dir = std::path::Path::new(p).parent().map(|x| x.to_owned());
    }
    usvg::Tree::from_str(text, &opt).map_err(|e| format!("{}", e))
}

fn op_rt(payload: &str) -> String {
    let f: Vec<&str> = payload.splitn(3, '\t').collect();
    if f.len() < 3 {
        return "{\"error\":\"bad payload\"}".to_string();
    }
    let tree = match parse_doc(f[0], f[2]) {
        Ok(t) => t,
        Err(e) => return format!("{{\"error\":{}}}", esc(&e)),
    };
    let wo = parse_wopts(f[1]);
    let text = tree.to_string(&wo);
    let b = match reparse(&text, f[0], f[2]) {
        Ok(t2) => dump_tree(&t2),
        Err(e) => format!("{{\"error\":{}}}", esc(&e)),
    };
    format!("{{\"a\":{},\"b\":{},\"text\":{}}}", dump_tree(&tree), b, esc(&text))
}

fn diff_stats(a: &tiny_skia::Pixmap, b: &tiny_skia::Pixmap) -> (usize, usize, usize, u8) {
    // (pixels differing at all, by more than 2, by more than 72, max channel delta)
    let (mut n0, mut n2, mut n72, mut mx) = (0usize, 0usize, 0usize, 0u8);
    for (pa, pb) in a.data().chunks_exact(4).zip(b.data().chunks_exact(4)) {
        let mut d = 0u8;
        for k in 0..4 {
            let x = pa[k].abs_diff(pb[k]);
            if x > d {
                d = x;
            }
        }
        if d > 0 {
            n0 += 1;
        }
        if d > 2 {
            n2 += 1;
        }
        if d > 72 {
            n72 += 1;
        }
        if d > mx {
            mx = d;
        }
    }
    (n0, n2, n72, mx)
}

fn all_coords(g: &usvg::Group, out: &mut Vec<f32>, paths: &mut usize) {
    for n in g.children() {
        match n {
            usvg::Node::Group(g2) => all_coords(g2, out, paths),
            usvg::Node::Path(p) => {
                *paths += 1;
                for pt in p.data().points() {
                    out.push(pt.x);
                    out.push(pt.y);
                }
            }
            usvg::Node::Image(_) => {}
            usvg::Node::Text(t) => all_coords(t.flattened(), out, paths),
        }
        n.subroots(|r| all_coords(r, out, paths));
    }
}

/// path coordinates of two trees compared position by position: (comparable, number that differ, largest difference relative to max(|x|, 1))
fn coord_drift(a: &usvg::Tree, b: &usvg::Tree) -> (bool, usize, f32) {
    let (mut ca, mut cb, mut pa, mut pb) = (Vec::new(), Vec::new(), 0usize, 0usize);
    all_coords(a.root(), &mut ca, &mut pa);
    all_coords(b.root(), &mut cb, &mut pb);
    if ca.len() != cb.len() || pa != pb {
        return (false, 0, 0.0);
    }
    let mut n = 0;
    let mut mx = 0.0f32;
    for (x, y) in ca.iter().zip(cb.iter()) {
        if x != y {
            n += 1;
            let d = (x - y).abs() / x.abs().max(y.abs()).max(1.0);
            if d > mx {
                mx = d;
            }
        }
    }
    (true, n, mx)
}

fn op_render(payload: &str) -> String {
    let f: Vec<&str> = payload.splitn(3, '\t').collect();
    if f.len() < 3 {
        return "{\"error\":\"bad payload\"}".to_string();
    }
    let started = std::time::Instant::now();
    let t1 = match parse_doc(f[0], f[2]) {
        Ok(t) => t,
        Err(e) => return format!("{{\"error\":{}}}", esc(&e)),
    };
    let wo = parse_wopts(f[1]);
    let x1 = t1.to_string(&wo);
    let t2 = match reparse(&x1, f[0], f[2]) {
        Ok(t) => t,
        Err(e) => return format!("{{\"reparse\":{}}}", esc(&e)),
    };
    let x2 = t2.to_string(&wo);
    let t3 = match reparse(&x2, f[0], f[2]) {
        Ok(t) => t,
        Err(e) => return format!("{{\"reparse2\":{}}}", esc(&e)),
    };
    let x3 = t3.to_string(&wo);
    let mut o = format!(
        "{{\"size\":[{},{}],\"size2\":[{},{}],\"r\":[",
        crate::dump::num(t1.size().width()),
        crate::dump::num(t1.size().height()),
        crate::dump::num(t2.size().width()),
        crate::dump::num(t2.size().height())
    );
    let mut first = true;
    let mut skipped2 = false;
    for scale in [1.0f32, 2.0f32] {
        // rendering cost can grow with the 4th power of the scale (feMorphology, see C02): the 2x pass is skipped
        // when the three 1x renders already took more than 1.5 s
        if scale > 1.0 && started.elapsed().as_millis() > 1500 {
            skipped2 = true;
            continue;
        }
        let w = ((t1.size().width() * scale).ceil() as u32).clamp(1, 1200);
        let h = ((t1.size().height() * scale).ceil() as u32).clamp(1, 1200);
        let ts = tiny_skia::Transform::from_scale(scale, scale);
        // a tree that cannot be rendered at all is a matter of C01 / C02, not of the round trip
        let r1 = std::panic::catch_unwind(std::panic::AssertUnwindSafe(|| render_tree(&t1, w, h, ts)));
        let r1 = match r1 {
            Ok(p) => p,
            Err(e) => return format!("{{\"render_panic\":{}}}", esc(&panic_msg(e))),
        };
        let (p1, p2, p3) = match (r1, render_tree(&t2, w, h, ts), render_tree(&t3, w, h, ts)) {
            (Some(a), Some(b), Some(c)) => (a, b, c),
            _ => continue,
        };
        let (_, n12, b12, m12) = diff_stats(&p1, &p2);
        let (n23, _, _, m23) = diff_stats(&p2, &p3);
        let nonblank = p1.data().chunks_exact(4).filter(|p| p[3] != 0).count();
        if !first {
            o.push(',');
        }
        first = false;
        o.push_str(&format!(
            "{{\"scale\":{},\"w\":{},\"h\":{},\"n12\":{},\"big12\":{},\"max12\":{},\"n23\":{},\"max23\":{},\"nonblank\":{}}}",
            scale, w, h, n12, b12, m12, n23, m23, nonblank
        ));
    }
    let (cmp, ndrift, maxdrift) = coord_drift(&t1, &t2);
    o.push_str(&format!(
        "],\"fixed2\":{},\"fixed3\":{},\"skipped2\":{},\"drift\":[{},{},{}],\"ms\":{}}}",
        x2 == x1,
        x3 == x2,
        skipped2,
        cmp,
        ndrift,
        crate::dump::num(maxdrift),
        started.elapsed().as_millis()
    ));
    o
}

fn op_idem(payload: &str) -> String {
    let f: Vec<&str> = payload.splitn(3, '\t').collect();
    if f.len() < 3 {
        return "{\"error\":\"bad payload\"}".to_string();
    }
    let t1 = match parse_doc(f[0], f[2]) {
        Ok(t) => t,
        Err(e) => return format!("{{\"error\":{}}}", esc(&e)),
    };
    let wo = parse_wopts(f[1]);
    let w1 = t1.to_string(&wo);
    let t2 = match reparse(&w1, f[0], f[2]) {
        Ok(t) => t,
        Err(e) => return format!("{{\"w1\":{},\"reparse\":{}}}", esc(&w1), esc(&e)),
    };
    let w2 = t2.to_string(&wo);
    let t3 = match reparse(&w2, f[0], f[2]) {
        Ok(t) => t,
        Err(e) => return format!("{{\"w1\":{},\"w2\":{},\"reparse\":{}}}", esc(&w1), esc(&w2), esc(&e)),
    };
    let w3 = t3.to_string(&wo);
    format!("{{\"w1\":{},\"w2\":{},\"w3\":{}}}", esc(&w1), esc(&w2), esc(&w3))
}
