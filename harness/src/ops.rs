//! Generic batch operations used by several properties.
use crate::dump;
use crate::util::*;

/// payload: `opts\tdoc` -> full JSON dump of the parsed tree, or {"error": "..."}.
pub fn op_dump(payload: &str) -> String {
    let (opts, doc) = payload.split_once('\t').unwrap_or(("", payload));
    match parse_doc(opts, doc) {
        Ok(tree) => dump::dump_tree(&tree),
        Err(e) => format!("{{\"error\":{}}}", dump::esc(&e)),
    }
}

/// payload: `opts\tdocA\ttsA\tdocB\ttsB\tW\tH\ttol`
/// Renders A under tsA and B under tsB on W x H canvases and reports the difference.
/// -> {"ndiff":n,"max":m,"nonblank":k}  (k = non-transparent pixels in A)
pub fn op_render_pair(payload: &str) -> String {
    let f: Vec<&str> = payload.split('\t').collect();
    if f.len() < 8 {
        return "{\"error\":\"bad payload\"}".to_string();
    }
    let ta = match parse_doc(f[0], f[1]) {
        Ok(t) => t,
        Err(e) => return format!("{{\"error\":{}}}", dump::esc(&format!("A: {}", e))),
    };
    let tb = match parse_doc(f[0], f[3]) {
        Ok(t) => t,
        Err(e) => return format!("{{\"error\":{}}}", dump::esc(&format!("B: {}", e))),
    };
    let w: u32 = f[5].parse().unwrap_or(0);
    let h: u32 = f[6].parse().unwrap_or(0);
    let tol: u8 = f[7].parse().unwrap_or(0);
    let pa = match render_tree(&ta, w, h, parse_ts(f[2])) {
        Some(p) => p,
        None => return "{\"error\":\"canvas\"}".to_string(),
    };
    let pb = render_tree(&tb, w, h, parse_ts(f[4])).unwrap();
    let (n, mx) = diff_pixmaps(&pa, &pb, tol);
    let (nbig, _) = diff_pixmaps(&pa, &pb, 72);
    let nonblank = pa.data().chunks_exact(4).filter(|p| p[3] != 0).count();
    format!("{{\"ndiff\":{},\"nbig\":{},\"max\":{},\"nonblank\":{},\"sizeA\":[{},{}],\"sizeB\":[{},{}]}}", n, nbig, mx, nonblank,
        dump::num(ta.size().width()), dump::num(ta.size().height()),
        dump::num(tb.size().width()), dump::num(tb.size().height()))
}
