//! C07 operations (written SVG is well-formed, self-contained and re-parsable).
//!   c07-write  payload `opts\twopts\tdoc`
//!       wopts: `-` or `key=value;..` with prefix=<hex of utf-8>, pt=0|1 (preserve_text), sq=0|1 (single quotes),
//!              indent=none|tabs|<n>, aindent=none|tabs|<n>, cp=<n>, tp=<n> (coordinate / transform precision),
//!              full=1 (always return the written text)
//!       -> {"len":..,"xml":null|"<error>","root":[tag,ns],"skeleton":[tag,{attr:value..},[kids..]],
//!           "bad_numbers":[[tag,attr,value,first bad token]..],"reparse":null|"<error>","dims_a":[w,h],"dims_b":[w,h] (Tree::size before / after),
//!           "size_a":[..],"size_b":[..],
//!           "dump":<dump of the original tree>}            or {"error":..} when the document itself does not parse
use crate::dump::{dump_tree, esc};
use crate::util::*;

pub fn dispatch(op: &str, _args: &[String]) -> bool {
    match op {
        "c07-write" => run_batch(op_write),
        _ => return false,
    }
    true
}

pub fn parse_wopts(spec: &str) -> usvg::WriteOptions {
    let mut o = usvg::WriteOptions::default();
    for kv in spec.split(';') {
        let kv = kv.trim();
        if kv.is_empty() || kv == "-" {
            continue;
        }
        let (k, v) = kv.split_once('=').unwrap_or((kv, ""));
        let ind = |v: &str| match v {
            "none" => usvg::Indent::None,
            "tabs" => usvg::Indent::Tabs,
            n => usvg::Indent::Spaces(n.parse().unwrap_or(4)),
        };
        match k {
            "prefix" => o.id_prefix = Some(String::from_utf8_lossy(&unhex(v)).to_string()),
            "pt" => o.preserve_text = v == "1",
            "sq" => o.use_single_quote = v == "1",
            "indent" => o.indent = ind(v),
            "aindent" => o.attributes_indent = ind(v),
            "cp" => o.coordinates_precision = v.parse().unwrap_or(8),
            "tp" => o.transforms_precision = v.parse().unwrap_or(8),
            _ => {}
        }
    }
    o
}

const KEEP: &[&str] = &[
    "id", "clip-path", "mask", "fill", "stroke", "filter", "in", "in2", "result", "font-size", "text-decoration",
    "gradientUnits", "patternUnits", "style", "x", "y", "width", "height",
];

/// attributes whose value is a number or a list of numbers
const NUMERIC: &[&str] = &[
    "width", "height", "x", "y", "x1", "y1", "x2", "y2", "cx", "cy", "r", "fx", "fy", "offset", "stop-opacity",
    "opacity", "fill-opacity", "stroke-opacity", "stroke-width", "stroke-miterlimit", "stroke-dashoffset",
    "stroke-dasharray", "stdDeviation", "dx", "dy", "flood-opacity", "k1", "k2", "k3", "k4", "tableValues", "slope",
    "intercept", "amplitude", "exponent", "order", "kernelMatrix", "divisor", "bias", "targetX", "targetY", "radius",
    "scale", "baseFrequency", "numOctaves", "seed", "surfaceScale", "diffuseConstant", "specularConstant",
    "specularExponent", "azimuth", "elevation", "z", "pointsAtX", "pointsAtY", "pointsAtZ", "limitingConeAngle",
    "font-size", "font-weight", "letter-spacing", "word-spacing", "textLength", "startOffset", "rotate",
];

fn plain_decimal(tok: &str) -> bool {
    let t = tok.strip_prefix('-').unwrap_or(tok);
    let (a, b) = match t.split_once('.') {
        Some((a, b)) => (a, Some(b)),
        None => (t, None),
    };
    if a.is_empty() || !a.bytes().all(|c| c.is_ascii_digit()) {
        return false;
    }
    match b {
        Some(b) => !b.is_empty() && b.bytes().all(|c| c.is_ascii_digit()),
        None => true,
    }
}

/// first token of a numeric attribute that is not a plain decimal
fn bad_number(tag: &str, name: &str, value: &str) -> Option<String> {
    let first_bad = |it: &mut dyn Iterator<Item = &str>| -> Option<String> {
        it.filter(|t| !t.is_empty()).find(|t| !plain_decimal(t)).map(|t| t.to_string())
    };
    if name == "d" {
        return value
            .split(' ')
            .filter(|t| !t.is_empty())
            .find(|t| !(matches!(*t, "M" | "L" | "Q" | "C" | "Z") || plain_decimal(t)))
            .map(|t| t.to_string());
    }
    if name == "transform" || name == "gradientTransform" || name == "patternTransform" {
        return match value.strip_prefix("matrix(").and_then(|v| v.strip_suffix(')')) {
            Some(inner) => {
                let v: Vec<&str> = inner.split(' ').collect();
                if v.len() != 6 {
                    return Some(format!("{} values", v.len()));
                }
                first_bad(&mut v.into_iter())
            }
            None => Some("not matrix(..)".to_string()),
        };
    }
    if name == "values" {
        // feColorMatrix: numbers for matrix / saturate / hueRotate
        return first_bad(&mut value.split(' '));
    }
    if name == "baseline-shift" {
        return if matches!(value, "sub" | "super") || plain_decimal(value) { None } else { Some(value.to_string()) };
    }
    if name == "offset" && tag == "stop" {
        return if plain_decimal(value) { None } else { Some(value.to_string()) };
    }
    if NUMERIC.contains(&name) {
        return first_bad(&mut value.split(' '));
    }
    None
}

fn skel(n: roxmltree::Node, o: &mut String, bad: &mut Vec<(String, String, String, String)>) {
    let tag = n.tag_name().name();
    o.push('[');
    o.push_str(&esc(tag));
    o.push_str(",{");
    let mut first = true;
    for a in n.attributes() {
        let name = a.name();
        let is_xlink = a.namespace() == Some("http://www.w3.org/1999/xlink");
        let full = if is_xlink { format!("xlink:{}", name) } else { name.to_string() };
        if bad.len() < 20 {
            if let Some(tok) = bad_number(tag, &full, a.value()) {
                let mut v = a.value().to_string();
                if v.len() > 80 {
                    v = v.chars().take(80).collect();
                }
                bad.push((tag.to_string(), full.clone(), v, tok));
            }
        }
        let keep = KEEP.contains(&full.as_str()) || full == "xlink:href";
        if !keep {
            continue;
        }
        if !first {
            o.push(',');
        }
        first = false;
        o.push_str(&esc(&full));
        o.push(':');
        if full == "xlink:href" && !a.value().starts_with('#') {
            let head: String = a.value().chars().take(5).collect();
            o.push_str(&esc(&head));
        } else {
            o.push_str(&esc(a.value()));
        }
    }
    o.push_str("},[");
    let mut firstk = true;
    for c in n.children().filter(|c| c.is_element()) {
        if !firstk {
            o.push(',');
        }
        firstk = false;
        skel(c, o, bad);
    }
    o.push_str("]]");
}

/// (groups, paths, images, texts) of the render tree; with `flatten` a text counts as its flattened group
pub fn tree_size(g: &usvg::Group, flatten: bool, acc: &mut [usize; 4]) {
    for n in g.children() {
        match n {
            usvg::Node::Group(g2) => {
                acc[0] += 1;
                tree_size(g2, flatten, acc);
            }
            usvg::Node::Path(_) => acc[1] += 1,
            usvg::Node::Image(_) => acc[2] += 1,
            usvg::Node::Text(t) => {
                if flatten {
                    acc[0] += 1;
                    tree_size(t.flattened(), flatten, acc);
                } else {
                    acc[3] += 1;
                }
            }
        }
    }
}

fn sizes(t: &usvg::Tree, flatten: bool) -> String {
    let mut a = [0usize; 4];
    tree_size(t.root(), flatten, &mut a);
    format!(
        "[{},{},{},{},{},{},{},{},{},{}]",
        a[0], a[1], a[2], a[3],
        t.linear_gradients().len(), t.radial_gradients().len(), t.patterns().len(),
        t.clip_paths().len(), t.masks().len(), t.filters().len()
    )
}

fn op_write(payload: &str) -> String {
    let f: Vec<&str> = payload.splitn(3, '\t').collect();
    if f.len() < 3 {
        return "{\"error\":\"bad payload\"}".to_string();
    }
    // a panic while PARSING is a matter of C01, not of the writer
    let parsed = std::panic::catch_unwind(|| parse_doc(f[0], f[2]));
    let tree = match parsed {
        Ok(Ok(t)) => t,
        Ok(Err(e)) => return format!("{{\"error\":{}}}", esc(&e)),
        Err(e) => return format!("{{\"error\":{}}}", esc(&format!("parse panic: {}", panic_msg(e)))),
    };
    let wo = parse_wopts(f[1]);
    let text = tree.to_string(&wo);
    let mut o = String::with_capacity(text.len() / 4 + 1024);
    o.push_str(&format!("{{\"len\":{}", text.len()));
    let mut bad = Vec::new();
    match roxmltree::Document::parse(&text) {
        Ok(doc) => {
            let r = doc.root_element();
            o.push_str(",\"xml\":null,\"root\":[");
            o.push_str(&esc(r.tag_name().name()));
            o.push(',');
            o.push_str(&esc(r.tag_name().namespace().unwrap_or("")));
            o.push_str("],\"xlink_declared\":");
            let decl = r.namespaces().any(|ns| ns.name() == Some("xlink") && ns.uri() == "http://www.w3.org/1999/xlink");
            o.push_str(if decl { "true" } else { "false" });
            o.push_str(",\"skeleton\":");
            skel(r, &mut o, &mut bad);
        }
        Err(e) => {
            o.push_str(",\"xml\":");
            o.push_str(&esc(&format!("{}", e)));
        }
    }
    o.push_str(",\"bad_numbers\":[");
    for (i, (t, a, v, tok)) in bad.iter().enumerate() {
        if i != 0 {
            o.push(',');
        }
        o.push_str(&format!("[{},{},{},{}]", esc(t), esc(a), esc(v), esc(tok)));
    }
    o.push(']');
    // re-parse with the same options (resources dir of the source so that nothing external is needed: images are inlined)
    let mut opt = make_options(f[0]);
    if let Some(p) = f[2].strip_prefix('@') {
        opt.resources_dir = std::path::Path::new(p).parent().map(|x| x.to_owned());
    }
    match usvg::Tree::from_str(&text, &opt) {
        Ok(t2) => {
            o.push_str(&format!(
                ",\"dims_a\":[{},{}],\"dims_b\":[{},{}]",
                crate::dump::num(tree.size().width()),
                crate::dump::num(tree.size().height()),
                crate::dump::num(t2.size().width()),
                crate::dump::num(t2.size().height())
            ));
            o.push_str(",\"reparse\":null,\"size_a\":");
            o.push_str(&sizes(&tree, !wo.preserve_text));
            o.push_str(",\"size_b\":");
            o.push_str(&sizes(&t2, !wo.preserve_text));
        }
        Err(e) => {
            o.push_str(",\"reparse\":");
            o.push_str(&esc(&format!("{}", e)));
        }
    }
    o.push_str(",\"dump\":");
    o.push_str(&dump_tree(&tree));
    if text.len() < 3000 || f[1].contains("full=1") {
        o.push_str(",\"text\":");
        o.push_str(&esc(&text));
    }
    o.push('}');
    o
}
