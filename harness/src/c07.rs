//! C07 operations (filled in below).
pub fn dispatch(_op: &str, _args: &[String]) -> bool {
    false
}
