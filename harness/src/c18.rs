//! C18 operations (objectBoundingBox resolution).
use crate::util::*;

pub fn dispatch(op: &str, _args: &[String]) -> bool {
    match op {
        _ => return false,
    }
    #[allow(unreachable_code)]
    true
}
