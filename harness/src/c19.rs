//! C19 ops.
//!   c19-write    payload `opts\tdoc` -> {"svg": Tree::to_string, "nodes":[{"path","id","kind","lbbox"|null,"abs_bbox"}]}
//!   export-pair  payload `opts\tdoc\tid\tsingle_doc\tscale`
//!                A = resvg::render_node(node_by_id(id), scale) into a canvas of ceil(abs layer box * scale);
//!                B = resvg::render(single_doc) under scale * translate(-box origin) into the same canvas
//!                -> {"none":bool,"w","h","ndiff","nbig","max","nonblank_a","nonblank_b","bbox":[x,y,w,h]}
//!   export-ts    payload `opts\tdoc`  for every isolated group: the transform recorded by the first `layer` trace
//!                event of render_node (identity and scale 2) next to the node's ts / abs_ts / abs layer box
//!   node-by-id   payload `opts\tdoc\tid,id,...[\tid,id,...]`  Tree::node_by_id vs the harness's own pre-order walk; ids that
//!                occur on more than one renderable node are listed in "dups"; the optional second list holds ids that
//!                must NOT be found (their source element lives inside marker / pattern / clipPath / mask / symbol / defs)
use crate::dump::{esc, num};
use crate::util::*;
use tiny_skia::Transform;

fn kind(n: &usvg::Node) -> &'static str {
    match n {
        usvg::Node::Group(_) => "g",
        usvg::Node::Path(_) => "path",
        usvg::Node::Image(_) => "image",
        usvg::Node::Text(_) => "text",
    }
}

fn walk<'a>(g: &'a usvg::Group, path: &str, out: &mut Vec<(String, &'a usvg::Node)>) {
    for (i, n) in g.children().iter().enumerate() {
        let p = format!("{}/{}", path, i);
        out.push((p.clone(), n));
        if let usvg::Node::Group(ref cg) = n {
            walk(cg, &p, out);
        }
    }
}

fn rect4(x: f32, y: f32, w: f32, h: f32) -> String {
    format!("[{},{},{},{}]", num(x), num(y), num(w), num(h))
}

fn ts6(t: Transform) -> String {
    format!("[{},{},{},{},{},{}]", num(t.sx), num(t.ky), num(t.kx), num(t.sy), num(t.tx), num(t.ty))
}

fn op_write(payload: &str) -> String {
    let (opts, doc) = payload.split_once('\t').unwrap_or(("", payload));
    let tree = match parse_doc(opts, doc) {
        Ok(t) => t,
        Err(e) => return format!("{{\"error\":{}}}", esc(&e)),
    };
    let svg = tree.to_string(&usvg::WriteOptions::default());
    let mut nodes = Vec::new();
    walk(tree.root(), "", &mut nodes);
    let mut items = Vec::new();
    for (p, n) in &nodes {
        let lb = match n.abs_layer_bounding_box() {
            Some(b) => rect4(b.x(), b.y(), b.width(), b.height()),
            None => "null".to_string(),
        };
        let ab = n.abs_bounding_box();
        items.push(format!(
            "{{\"path\":{},\"id\":{},\"kind\":\"{}\",\"lbbox\":{},\"abs_bbox\":{}}}",
            esc(p), esc(n.id()), kind(n), lb, rect4(ab.x(), ab.y(), ab.width(), ab.height())
        ));
    }
    format!(
        "{{\"svg\":{},\"size\":[{},{}],\"nodes\":[{}]}}",
        esc(&svg), num(tree.size().width()), num(tree.size().height()), items.join(",")
    )
}

fn op_export_pair(payload: &str) -> String {
    let f: Vec<&str> = payload.split('\t').collect();
    if f.len() < 5 {
        return "{\"error\":\"bad payload\"}".to_string();
    }
    let tree = match parse_doc(f[0], f[1]) {
        Ok(t) => t,
        Err(e) => return format!("{{\"error\":{}}}", esc(&e)),
    };
    let node = match tree.node_by_id(f[2]) {
        Some(n) => n,
        None => return "{\"error\":\"node_by_id returned None\"}".to_string(),
    };
    let s: f32 = f[4].parse().unwrap_or(1.0);
    // the box a leaf's layer comes from: the absolute stroke box (for images that is the absolute box)
    let ab = node.abs_stroke_bounding_box();
    let lb = match node.abs_layer_bounding_box() {
        Some(b) => b,
        None => {
            // must be a zero-sized node: report what render_node says on a 1x1 canvas
            let mut pm = tiny_skia::Pixmap::new(1, 1).unwrap();
            let r = resvg::render_node(node, Transform::identity(), &mut pm.as_mut());
            return format!(
                "{{\"none\":{},\"no_layer_box\":true,\"kind\":\"{}\",\"abs_sbbox\":{}}}",
                r.is_none(), kind(node), rect4(ab.x(), ab.y(), ab.width(), ab.height())
            );
        }
    };
    let w = (lb.width() * s).ceil();
    let h = (lb.height() * s).ceil();
    if !(w >= 1.0 && h >= 1.0 && w <= 2500.0 && h <= 2500.0) {
        return format!("{{\"skipped\":\"canvas {}x{}\"}}", w, h);
    }
    let (w, h) = (w as u32, h as u32);
    let mut pa = tiny_skia::Pixmap::new(w, h).unwrap();
    resvg::verif_hooks::start_trace();
    let r = resvg::render_node(node, Transform::from_scale(s, s), &mut pa.as_mut());
    let ev_a = resvg::verif_hooks::take_trace();
    let single = match parse_doc(f[0], f[3]) {
        Ok(t) => t,
        Err(e) => return format!("{{\"error\":{}}}", esc(&format!("single-node document: {}", e))),
    };
    let tb = Transform::from_scale(s, s).pre_translate(-lb.x(), -lb.y());
    resvg::verif_hooks::start_trace();
    let pb = render_tree(&single, w, h, tb).unwrap();
    let ev_b = resvg::verif_hooks::take_trace();
    let near = filter_edge_near_int(&ev_a) || filter_edge_near_int(&ev_b);
    let (n1, mx) = diff_pixmaps(&pa, &pb, 1);
    let (nbig, _) = diff_pixmaps(&pa, &pb, 72);
    let na = pa.data().chunks_exact(4).filter(|p| p[3] != 0).count();
    let nb = pb.data().chunks_exact(4).filter(|p| p[3] != 0).count();
    format!(
        "{{\"none\":{},\"kind\":\"{}\",\"w\":{},\"h\":{},\"ndiff\":{},\"nbig\":{},\"max\":{},\"nonblank_a\":{},\"nonblank_b\":{},\"filter_edge_near_int\":{},\"bbox\":{}}}",
        r.is_none(), kind(node), w, h, n1, nbig, mx, na, nb, near, rect4(lb.x(), lb.y(), lb.width(), lb.height())
    )
}

/// some filter layer of the trace has a device-space region edge within 1e-3 of an integer (floor / ceil of
/// to_int_rect can then flip with the last bit of an f32 transform)
fn filter_edge_near_int(events: &[String]) -> bool {
    for e in events {
        if !e.contains("\"ev\":\"layer\"") || e.contains("\"filters\":0,") {
            continue;
        }
        if let Some(i) = e.find("\"bbox\":[") {
            let rest = &e[i + 8..];
            if let Some(j) = rest.find(']') {
                let v: Vec<f64> = rest[..j].split(',').filter_map(|x| x.trim().parse().ok()).collect();
                if v.len() == 4 {
                    for q in [v[0], v[1], v[0] + v[2], v[1] + v[3]] {
                        if (q - q.round()).abs() < 1e-3 {
                            return true;
                        }
                    }
                }
            }
        }
    }
    false
}

fn first_layer_ts(events: &[String]) -> Option<String> {
    for e in events {
        if e.contains("\"ev\":\"layer\"") {
            if let Some(i) = e.rfind("\"ts\":") {
                let rest = &e[i + 5..];
                if let Some(j) = rest.find(']') {
                    return Some(rest[..=j].to_string());
                }
            }
        }
    }
    None
}

fn op_export_ts(payload: &str) -> String {
    let (opts, doc) = payload.split_once('\t').unwrap_or(("", payload));
    let tree = match parse_doc(opts, doc) {
        Ok(t) => t,
        Err(e) => return format!("{{\"error\":{}}}", esc(&e)),
    };
    let mut nodes = Vec::new();
    walk(tree.root(), "", &mut nodes);
    let mut items = Vec::new();
    for (p, n) in &nodes {
        let g = match n {
            usvg::Node::Group(ref g) if g.should_isolate() => g,
            _ => continue,
        };
        let lb = g.abs_layer_bounding_box();
        for s in [1.0f32, 2.0] {
            // filter cost grows steeply with the scale (feMorphology radius): the bookkeeping under test does not
            // depend on the filters, scale 1 covers filtered groups
            if s > 1.0 && !g.filters().is_empty() {
                continue;
            }
            let w = (lb.width() * s).ceil();
            let h = (lb.height() * s).ceil();
            if !(w >= 1.0 && h >= 1.0 && w <= 1500.0 && h <= 1500.0) {
                continue;
            }
            let mut pm = tiny_skia::Pixmap::new(w as u32, h as u32).unwrap();
            resvg::verif_hooks::start_trace();
            let r = resvg::render_node(n, Transform::from_scale(s, s), &mut pm.as_mut());
            let ev = resvg::verif_hooks::take_trace();
            let ts = first_layer_ts(&ev).unwrap_or_else(|| "null".to_string());
            items.push(format!(
                "{{\"path\":{},\"id\":{},\"scale\":{},\"none\":{},\"event_ts\":{},\"ts\":{},\"abs_ts\":{},\"lbbox\":{}}}",
                esc(p), esc(n.id()), num(s), r.is_none(), ts, ts6(g.transform()), ts6(g.abs_transform()),
                rect4(lb.x(), lb.y(), lb.width(), lb.height())
            ));
        }
        if items.len() > 60 {
            break;
        }
    }
    format!("{{\"items\":[{}]}}", items.join(","))
}

fn op_node_by_id(payload: &str) -> String {
    let f: Vec<&str> = payload.split('\t').collect();
    if f.len() < 3 {
        return "{\"error\":\"bad payload\"}".to_string();
    }
    let tree = match parse_doc(f[0], f[1]) {
        Ok(t) => t,
        Err(e) => return format!("{{\"error\":{}}}", esc(&e)),
    };
    let mut nodes = Vec::new();
    walk(tree.root(), "", &mut nodes);
    let mut bad = Vec::new();
    let mut seen: Vec<&str> = Vec::new();
    let mut dups: Vec<String> = Vec::new();
    let mut nids = 0usize;
    for (p, n) in &nodes {
        let id = n.id();
        if id.is_empty() {
            continue;
        }
        if seen.contains(&id) {
            let e = esc(id);
            if !dups.contains(&e) {
                dups.push(e);
            }
            continue;
        }
        seen.push(id);
        nids += 1;
        // `n` is the first node in pre-order with this id
        match tree.node_by_id(id) {
            Some(found) if std::ptr::eq(found, *n) => {}
            Some(found) => bad.push(format!("{{\"id\":{},\"expected_path\":{},\"found_id\":{}}}", esc(id), esc(p), esc(found.id()))),
            None => bad.push(format!("{{\"id\":{},\"expected_path\":{},\"found\":null}}", esc(id), esc(p))),
        }
    }
    if tree.node_by_id("").is_some() {
        bad.push("{\"id\":\"\",\"found\":\"some\"}".to_string());
    }
    let mut absent = 0usize;
    for id in f[2].split(',') {
        if id.is_empty() || seen.contains(&id) {
            continue;
        }
        absent += 1;
        if let Some(found) = tree.node_by_id(id) {
            bad.push(format!("{{\"id\":{},\"expected\":null,\"found_id\":{},\"found_kind\":\"{}\"}}", esc(id), esc(found.id()), kind(found)));
        }
    }
    let mut forbidden = 0usize;
    if f.len() > 3 {
        for id in f[3].split(',') {
            if id.is_empty() {
                continue;
            }
            forbidden += 1;
            if let Some(found) = tree.node_by_id(id) {
                bad.push(format!(
                    "{{\"id\":{},\"expected\":null,\"why\":\"the element with this id is not rendered directly\",\"found_kind\":\"{}\"}}",
                    esc(id), kind(found)
                ));
            }
        }
    }
    format!(
        "{{\"ids\":{},\"absent\":{},\"forbidden\":{},\"dups\":[{}],\"bad\":[{}]}}",
        nids, absent, forbidden, dups.join(","), bad.join(",")
    )
}

pub fn dispatch(op: &str, _args: &[String]) -> bool {
    match op {
        "c19-write" => run_batch(op_write),
        "export-pair" => run_batch(op_export_pair),
        "export-ts" => run_batch(op_export_ts),
        "node-by-id" => run_batch(op_node_by_id),
        _ => return false,
    }
    true
}
