//! C15: clipping, masking and opacity only remove paint.
//!   c15-table   exhaustive tiny-skia tables through the public API (Mask::from_pixmap luminance / alpha)
//!   c15-pix     alpha of every pixel of a small rendering (clip-algebra correspondence)
//!   c15-sys     clipped / masked / faded document vs the plain one vs independently rasterised coverage
//!   c15-corpus  the same on the Micro-SVG form of a corpus file wrapped into a generated clip / mask / opacity
use crate::dump::esc;
use crate::util::*;

pub fn dispatch(op: &str, _args: &[String]) -> bool {
    match op {
        "c15-table" => run_batch(op_table),
        "c15-pix" => run_batch(op_pix),
        "c15-sys" => run_batch(op_sys),
        "c15-corpus" => run_batch(op_corpus),
        _ => return false,
    }
    true
}

fn join<T: std::fmt::Display>(v: impl Iterator<Item = T>) -> String {
    let mut s = String::new();
    for (i, x) in v.enumerate() {
        if i > 0 {
            s.push(',');
        }
        s.push_str(&x.to_string());
    }
    s
}

/// `lum` / `alpha`: 256 x 256 pixmap, pixel (x=c, y=a) = (m, m, m, a) with m = min(c, a); Mask::from_pixmap -> index a * 256 + c.
/// `lumrgb:<seed>`: 4096 random valid premultiplied pixels -> {"src":[r,g,b,a...],"t":[...]}
fn op_table(payload: &str) -> String {
    let f: Vec<&str> = payload.trim().split(':').collect();
    match f[0] {
        "lum" | "alpha" => {
            let mut pm = tiny_skia::Pixmap::new(256, 256).unwrap();
            for a in 0..256usize {
                for c in 0..256usize {
                    let m = c.min(a) as u8;
                    let o = (a * 256 + c) * 4;
                    pm.data_mut()[o..o + 4].copy_from_slice(&[m, m, m, a as u8]);
                }
            }
            let ty = if f[0] == "lum" { tiny_skia::MaskType::Luminance } else { tiny_skia::MaskType::Alpha };
            let mask = tiny_skia::Mask::from_pixmap(pm.as_ref(), ty);
            format!("{{\"t\":[{}]}}", join(mask.data().iter()))
        }
        "lumrgb" => {
            let mut rng = SplitMix64(f.get(1).and_then(|x| x.parse().ok()).unwrap_or(1));
            let mut pm = tiny_skia::Pixmap::new(64, 64).unwrap();
            for p in pm.data_mut().chunks_exact_mut(4) {
                let a = match rng.below(6) {
                    0 => 255,
                    1 => 0,
                    _ => rng.below(256),
                };
                for kk in 0..3 {
                    p[kk] = rng.below(a + 1) as u8;
                }
                p[3] = a as u8;
            }
            let mask = tiny_skia::Mask::from_pixmap(pm.as_ref(), tiny_skia::MaskType::Luminance);
            format!("{{\"src\":[{}],\"t\":[{}]}}", join(pm.data().iter()), join(mask.data().iter()))
        }
        // extension round 4: group opacity as render_group applies it - draw_pixmap with PixmapPaint { opacity, SourceOver, Nearest }
        // onto a transparent pixmap.  `opacity:<lo>:<hi>`: opacity = o / 255 for o in lo..hi, source pixel x = c is (c, c, c, c);
        // index (o - lo) * 256 + c; -1 when the four channels of the result differ.  `opacityf:<f32 bits>`: one row for that opacity.
        "opacity" | "opacityf" => {
            let ops: Vec<f32> = if f[0] == "opacity" {
                let lo: u32 = f.get(1).and_then(|x| x.parse().ok()).unwrap_or(0);
                let hi: u32 = f.get(2).and_then(|x| x.parse().ok()).unwrap_or(256);
                (lo..hi).map(|o| o as f32 / 255.0).collect()
            } else {
                vec![f32::from_bits(f.get(1).and_then(|x| x.parse().ok()).unwrap_or(0))]
            };
            let mut src = tiny_skia::Pixmap::new(256, 1).unwrap();
            for c in 0..256usize {
                src.data_mut()[c * 4..c * 4 + 4].copy_from_slice(&[c as u8; 4]);
            }
            let mut out: Vec<i32> = Vec::new();
            for o in ops {
                let mut dst = tiny_skia::Pixmap::new(256, 1).unwrap();
                let paint = tiny_skia::PixmapPaint { opacity: o, blend_mode: tiny_skia::BlendMode::SourceOver, quality: tiny_skia::FilterQuality::Nearest };
                dst.draw_pixmap(0, 0, src.as_ref(), &paint, tiny_skia::Transform::identity(), None);
                for p in dst.data().chunks_exact(4) {
                    out.push(if p[0] == p[1] && p[1] == p[2] && p[2] == p[3] { p[0] as i32 } else { -1 });
                }
            }
            format!("{{\"t\":[{}]}}", join(out.iter()))
        }
        _ => "{\"error\":\"unknown table\"}".to_string(),
    }
}

/// payload: `opts\tdoc\tW\tH` -> {"a":[alpha per pixel, row-major],"rgb_ok":bool}
fn op_pix(payload: &str) -> String {
    let f: Vec<&str> = payload.split('\t').collect();
    if f.len() < 4 {
        return "{\"error\":\"bad payload\"}".to_string();
    }
    let tree = match parse_doc(f[0], f[1]) {
        Ok(t) => t,
        Err(e) => return format!("{{\"error\":{}}}", esc(&e)),
    };
    let w: u32 = f[2].parse().unwrap_or(1);
    let h: u32 = f[3].parse().unwrap_or(1);
    let pm = render_tree(&tree, w, h, tiny_skia::Transform::identity()).unwrap();
    format!("{{\"a\":[{}]}}", join(pm.data().chunks_exact(4).map(|p| p[3])))
}

struct Cov {
    any: Vec<bool>,    // some coverage within the 3x3 neighbourhood (geometry grown by one pixel)
    inside: Vec<bool>, // fully covered in the whole 3x3 neighbourhood (at least one pixel inside)
}

fn coverage_of(opts: &str, doc: &str, w: u32, h: u32, ts: tiny_skia::Transform) -> Result<Cov, String> {
    let tree = parse_doc(opts, doc)?;
    let pm = render_tree(&tree, w, h, ts).ok_or("canvas")?;
    let d = pm.data();
    let at = |x: i64, y: i64| -> u8 {
        if x < 0 || y < 0 || x >= w as i64 || y >= h as i64 {
            0
        } else {
            d[((y * w as i64 + x) * 4 + 3) as usize]
        }
    };
    let n = (w * h) as usize;
    let mut any = vec![false; n];
    let mut inside = vec![false; n];
    for y in 0..h as i64 {
        for x in 0..w as i64 {
            let (mut a, mut i) = (false, true);
            for yy in y - 1..=y + 1 {
                for xx in x - 1..=x + 1 {
                    let v = at(xx, yy);
                    a |= v != 0;
                    // pixels beyond the canvas do not matter for "inside"
                    if xx >= 0 && yy >= 0 && xx < w as i64 && yy < h as i64 {
                        i &= v == 255;
                    }
                }
            }
            any[(y * w as i64 + x) as usize] = a;
            inside[(y * w as i64 + x) as usize] = i;
        }
    }
    Ok(Cov { any, inside })
}

/// formula: OR-terms separated by \x1e, AND-factors separated by \x1f; each factor is a document that paints the
/// shape opaque.  -> (outside: no term can contribute, inside: some term covers the pixel by >= 1px)
fn eval_formula(opts: &str, formula: &str, w: u32, h: u32, ts: tiny_skia::Transform) -> Result<(Vec<bool>, Vec<bool>), String> {
    let n = (w * h) as usize;
    let mut outside = vec![true; n];
    let mut inside = vec![false; n];
    for term in formula.split('\u{1e}') {
        let mut t_any = vec![true; n];
        let mut t_in = vec![true; n];
        for fac in term.split('\u{1f}') {
            let c = coverage_of(opts, fac, w, h, ts)?;
            for i in 0..n {
                t_any[i] &= c.any[i];
                t_in[i] &= c.inside[i];
            }
        }
        for i in 0..n {
            if t_any[i] {
                outside[i] = false;
            }
            if t_in[i] {
                inside[i] = true;
            }
        }
    }
    Ok((outside, inside))
}

/// The three oracles on a (plain, treated) pair.
fn measure(plain: &tiny_skia::Pixmap, treated: &tiny_skia::Pixmap, outside: Option<&Vec<bool>>, inside: Option<&Vec<bool>>) -> String {
    let (w, h) = (plain.width() as i64, plain.height() as i64);
    let (e, d) = (plain.data(), treated.data());
    let chan = |x: i64, y: i64, kk: usize| -> u8 {
        if x < 0 || y < 0 || x >= w || y >= h {
            0
        } else {
            e[((y * w + x) * 4) as usize + kk]
        }
    };
    // increase of alpha: smooth pixels (neighbourhood of the plain rendering varies by <= 2 levels) +1 at most;
    // low-contrast outlines (3..8) at most the local variation; anti-aliased outlines (> 8) are rasteriser noise (see c16.rs)
    let (mut inc_smooth, mut inc_max_smooth, mut inc_edge_max) = (0usize, 0i32, 0i32);
    let mut inc_at = String::from("null");
    let (mut out_bad, mut out_n, mut out_faint) = (0usize, 0usize, 0usize);
    let mut out_at = String::from("null");
    let mut faint_at = String::from("null");
    let (mut in_n, mut in_bad, mut in_max, mut in_soft, mut in_edge, mut in_edge_diff, mut in_edge_max) = (0usize, 0usize, 0u8, 0usize, 0usize, 0usize, 0u8);
    let mut in_at = String::from("null");
    let mut nonblank = 0usize;
    let mut changed = 0usize;
    for y in 0..h {
        for x in 0..w {
            let i = (y * w + x) as usize;
            let o = i * 4;
            let mut range = 0u8;
            for kk in 0..4 {
                let (mut lo, mut hi) = (255u8, 0u8);
                for yy in y - 1..=y + 1 {
                    for xx in x - 1..=x + 1 {
                        let v = chan(xx, yy, kk);
                        lo = lo.min(v);
                        hi = hi.max(v);
                    }
                }
                range = range.max(hi - lo);
            }
            if e[o + 3] != 0 {
                nonblank += 1;
            }
            if d[o..o + 4] != e[o..o + 4] {
                changed += 1;
            }
            let inc = d[o + 3] as i32 - e[o + 3] as i32;
            if range <= 2 {
                if inc > 1 {
                    if inc_smooth == 0 {
                        inc_at = format!("[{},{},{},{}]", x, y, d[o + 3], e[o + 3]);
                    }
                    inc_smooth += 1;
                }
                inc_max_smooth = inc_max_smooth.max(inc);
            } else if range <= 8 {
                if inc > range as i32 {
                    if inc_smooth == 0 {
                        inc_at = format!("[{},{},{},{}]", x, y, d[o + 3], e[o + 3]);
                    }
                    inc_smooth += 1;
                }
            } else {
                inc_edge_max = inc_edge_max.max(inc);
            }
            if let Some(out) = outside {
                if out[i] {
                    out_n += 1;
                    if d[o + 3] > 16 {
                        if out_bad == 0 {
                            out_at = format!("[{},{},{}]", x, y, d[o + 3]);
                        }
                        out_bad += 1;
                    } else if d[o] != 0 || d[o + 1] != 0 || d[o + 2] != 0 || d[o + 3] != 0 {
                        // sub-pixel slivers of clip geometry are sampled differently at the layer's integer shift: faint isolated pixels
                        if out_faint == 0 {
                            faint_at = format!("[{},{},{}]", x, y, d[o + 3]);
                        }
                        out_faint += 1;
                    }
                }
            }
            if let Some(ins) = inside {
                if ins[i] {
                    in_n += 1;
                    let mut dd = 0u8;
                    for kk in 0..4 {
                        dd = dd.max(d[o + kk].abs_diff(e[o + kk]));
                    }
                    if range > 2 && range <= 8 && dd <= range {
                        in_soft += 1;
                    } else if range > 8 {
                        in_edge += 1;
                        if dd > 1 {
                            in_edge_diff += 1;
                        }
                        in_edge_max = in_edge_max.max(dd);
                    } else {
                        if dd > 1 {
                            if in_bad == 0 {
                                in_at = format!("[{},{},{},[{},{},{},{}],[{},{},{},{}]]", x, y, dd, d[o], d[o + 1], d[o + 2], d[o + 3], e[o], e[o + 1], e[o + 2], e[o + 3]);
                            }
                            in_bad += 1;
                        }
                        in_max = in_max.max(dd);
                    }
                }
            }
        }
    }
    format!(
        "{{\"w\":{},\"h\":{},\"nonblank\":{},\"changed\":{},\"inc\":{{\"n\":{},\"max\":{},\"edge_max\":{},\"at\":{}}},\
         \"out\":{{\"n\":{},\"bad\":{},\"at\":{},\"faint\":{},\"faint_at\":{}}},\"in\":{{\"n\":{},\"bad\":{},\"max\":{},\"nsoft\":{},\"nedge\":{},\"nedge_diff\":{},\"max_edge\":{},\"at\":{}}}}}",
        w, h, nonblank, changed, inc_smooth, inc_max_smooth, inc_edge_max, inc_at, out_n, out_bad, out_at, out_faint, faint_at, in_n, in_bad, in_max, in_soft, in_edge, in_edge_diff, in_edge_max, in_at
    )
}

/// payload: `opts\ttreated\tplain\tts\tW\tH\toutside_formula\tinside_formula` (formulas may be `-`)
fn op_sys(payload: &str) -> String {
    let f: Vec<&str> = payload.split('\t').collect();
    if f.len() < 8 {
        return "{\"error\":\"bad payload\"}".to_string();
    }
    let w: u32 = f[4].parse().unwrap_or(0);
    let h: u32 = f[5].parse().unwrap_or(0);
    let ts = parse_ts(f[3]);
    let treated = match parse_doc(f[0], f[1]) {
        Ok(t) => t,
        Err(e) => return format!("{{\"error\":{}}}", esc(&format!("treated: {}", e))),
    };
    let plain = match parse_doc(f[0], f[2]) {
        Ok(t) => t,
        Err(e) => return format!("{{\"error\":{}}}", esc(&format!("plain: {}", e))),
    };
    let pt = render_tree(&treated, w, h, ts).unwrap();
    let pp = render_tree(&plain, w, h, ts).unwrap();
    let out = if f[6] != "-" {
        match eval_formula(f[0], f[6], w, h, ts) {
            Ok(v) => Some(v.0),
            Err(e) => return format!("{{\"error\":{}}}", esc(&format!("outside formula: {}", e))),
        }
    } else {
        None
    };
    let ins = if f[7] != "-" {
        match eval_formula(f[0], f[7], w, h, ts) {
            Ok(v) => Some(v.1),
            Err(e) => return format!("{{\"error\":{}}}", esc(&format!("inside formula: {}", e))),
        }
    } else {
        None
    };
    measure(&pp, &pt, out.as_ref(), ins.as_ref())
}

/// payload: `opts\t@path\tdefs\tattr\toutside_formula\tinside_formula`
/// The corpus file is parsed and written back (Micro-SVG form); that text is the plain document.  The treated document
/// is the same text with `defs` inserted after the root start tag and the whole content wrapped in `<g attr>`.
/// `{S}` in defs / formulas stands for `scale(W H)` of the document size (shapes are given in the unit square),
/// formula factors are shape fragments that are wrapped into `<svg W H><g transform={S}>..</g></svg>`.
fn op_corpus(payload: &str) -> String {
    let f: Vec<&str> = payload.split('\t').collect();
    if f.len() < 6 {
        return "{\"error\":\"bad payload\"}".to_string();
    }
    let tree = match parse_doc(f[0], f[1]) {
        Ok(t) => t,
        Err(e) => return format!("{{\"error\":{}}}", esc(&e)),
    };
    let micro = tree.to_string(&usvg::WriteOptions::default());
    let (wf, hf) = (tree.size().width(), tree.size().height());
    let size = tree.size().to_int_size();
    let (w, h) = (size.width().min(1000), size.height().min(1000));
    let scale = format!("scale({} {})", wf, hf);
    let start = match micro.find("<svg") {
        Some(i) => i,
        None => return "{\"error\":\"no root\"}".to_string(),
    };
    let gt = match micro[start..].find('>') {
        Some(i) => start + i + 1,
        None => return "{\"error\":\"no root end\"}".to_string(),
    };
    let end = match micro.rfind("</svg>") {
        Some(i) => i,
        None => return "{\"skip\":\"empty document\"}".to_string(),
    };
    let root_tag = &micro[start..gt];
    let treated_text = format!("{}{}<g {}>{}</g></svg>", &micro[..gt], f[2].replace("{S}", &scale), f[3], &micro[gt..end]);
    let mut opt_res = String::from(f[0]);
    if let Some(p) = f[1].strip_prefix('@') {
        if let Some(dir) = std::path::Path::new(p).parent() {
            opt_res = format!("{};res={}", f[0], dir.display());
        }
    }
    let plain = match parse_doc(&opt_res, &micro) {
        Ok(t) => t,
        Err(e) => return format!("{{\"error\":{}}}", esc(&format!("micro: {}", e))),
    };
    let treated = match parse_doc(&opt_res, &treated_text) {
        Ok(t) => t,
        Err(e) => return format!("{{\"error\":{}}}", esc(&format!("treated: {}", e))),
    };
    let ts = tiny_skia::Transform::identity();
    let pp = match render_tree(&plain, w, h, ts) {
        Some(p) => p,
        None => return "{\"error\":\"canvas\"}".to_string(),
    };
    let pt = render_tree(&treated, w, h, ts).unwrap();
    let wrap = |formula: &str| -> String {
        let mut out = String::new();
        for (i, term) in formula.split('\u{1e}').enumerate() {
            if i > 0 {
                out.push('\u{1e}');
            }
            for (j, fac) in term.split('\u{1f}').enumerate() {
                if j > 0 {
                    out.push('\u{1f}');
                }
                out.push_str(&format!("{}<g transform=\"{}\">{}</g></svg>", root_tag, scale, fac));
            }
        }
        out
    };
    let out = if f[4] != "-" {
        match eval_formula(&opt_res, &wrap(f[4]), w, h, ts) {
            Ok(v) => Some(v.0),
            Err(e) => return format!("{{\"error\":{}}}", esc(&format!("outside formula: {}", e))),
        }
    } else {
        None
    };
    let ins = if f[5] != "-" {
        match eval_formula(&opt_res, &wrap(f[5]), w, h, ts) {
            Ok(v) => Some(v.1),
            Err(e) => return format!("{{\"error\":{}}}", esc(&format!("inside formula: {}", e))),
        }
    } else {
        None
    };
    measure(&pp, &pt, out.as_ref(), ins.as_ref())
}
