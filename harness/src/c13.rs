//! C13: rendering commutes with whole-pixel translation of the root transform.
//!   c13-shift  payload `opts\tdoc\tscale:fx:fy\tdx\tdy[\temit]`
//!     Canvas: the root's absolute layer box mapped by scale(s), placed with a margin of 48 px + (fx,fy) on
//!     every side (so nothing crosses a canvas edge for |dx|,|dy| <= 40).  Renders with M and with
//!     translate(dx,dy)*M and compares pixel (x,y) of the first with (x+dx,y+dy) of the second.
//!     Also reports whether the two layer traces are translates of each other.
use crate::c14::{count_layers, frame_bad, traced_render, ulp_flip};
use crate::dump::esc;
use crate::util::*;

pub fn dispatch(op: &str, _args: &[String]) -> bool {
    match op {
        "c13-shift" => run_batch(op_shift),
        "c13-light" => run_batch(op_light),
        _ => return false,
    }
    true
}

const MARGIN: f32 = 48.0;

fn layer_fields(ev: &str) -> Option<(Vec<f64>, Vec<i64>)> {
    // {"ev":"layer","filters":n,"bbox":[..],"ibbox":[..],...
    let b = ev.find("\"bbox\":[")? + 8;
    let e = ev[b..].find(']')? + b;
    let bbox: Vec<f64> = ev[b..e].split(',').filter_map(|x| x.parse().ok()).collect();
    let b = ev.find("\"ibbox\":[")? + 9;
    let e = ev[b..].find(']')? + b;
    let ib: Vec<i64> = ev[b..e].split(',').filter_map(|x| x.parse().ok()).collect();
    if bbox.len() == 4 && ib.len() == 4 {
        Some((bbox, ib))
    } else {
        None
    }
}

fn max_of(ev: &str) -> Option<Vec<i64>> {
    let b = ev.find("\"max\":[")? + 7;
    let e = ev[b..].find(']')? + b;
    let v: Vec<i64> = ev[b..e].split(',').filter_map(|x| x.parse().ok()).collect();
    if v.len() == 4 {
        Some(v)
    } else {
        None
    }
}

fn op_shift(payload: &str) -> String {
    let f: Vec<&str> = payload.split('\t').collect();
    if f.len() < 5 {
        return "{\"error\":\"bad payload\"}".into();
    }
    let emit = f.len() > 5 && f[5] == "emit";
    let tree = match parse_doc(f[0], f[1]) {
        Ok(t) => t,
        Err(e) => return format!("{{\"skip\":\"parse\",\"error\":{}}}", esc(&e)),
    };
    let native = f[2].starts_with("native:");
    let p: Vec<f32> = f[2].trim_start_matches("native:").split(':').filter_map(|x| x.parse().ok()).collect();
    if p.len() != 3 {
        return "{\"error\":\"bad view\"}".into();
    }
    let (mut s, fx, fy) = (p[0], p[1], p[2]);
    let dx: i32 = f[3].parse().unwrap_or(0);
    let dy: i32 = f[4].parse().unwrap_or(0);
    if !tree.root().has_children() {
        return "{\"skip\":\"empty\"}".into();
    }
    let bb = tree.root().abs_layer_bounding_box();
    if !(bb.width().is_finite() && bb.height().is_finite()) || bb.width() > 1e6 || bb.height() > 1e6 {
        return "{\"skip\":\"huge-bbox\"}".into();
    }
    let (w, h, tx, ty);
    if native {
        // canvas = document size * s; content may cross the canvas edges
        w = (tree.size().width() * s).ceil().max(1.0) as u32;
        h = (tree.size().height() * s).ceil().max(1.0) as u32;
        if w > 1500 || h > 1500 {
            return "{\"skip\":\"huge-size\"}".into();
        }
        tx = fx;
        ty = fy;
    } else {
        let m = 900.0f32;
        if bb.width() * s > m {
            s = m / bb.width();
        }
        if bb.height() * s > m {
            s = m / bb.height();
        }
        w = (bb.width() * s).ceil() as u32 + 2 * MARGIN as u32 + 1;
        h = (bb.height() * s).ceil() as u32 + 2 * MARGIN as u32 + 1;
        tx = MARGIN + fx - bb.x() * s;
        ty = MARGIN + fy - bb.y() * s;
    }
    let ts_a = tiny_skia::Transform::from_row(s, 0.0, 0.0, s, tx, ty);
    // translate(dx,dy) * M, computed the way a caller would: post_translate
    let ts_b = ts_a.post_translate(dx as f32, dy as f32);
    let (pa, ea) = match traced_render(&tree, w, h, ts_a) {
        Some(x) => x,
        None => return "{\"skip\":\"canvas\"}".into(),
    };
    let (pb, eb) = traced_render(&tree, w, h, ts_b).unwrap();

    // compare A(x,y) with B(x+dx,y+dy) over the window where both are on the canvas
    let (mut n0, mut n1, mut n8, mut n32, mut n64, mut mx, mut nonblank) = (0usize, 0usize, 0usize, 0usize, 0usize, 0u8, 0usize);
    let mut dbox = (u32::MAX, u32::MAX, 0u32, 0u32);
    let mut first: Option<(u32, u32)> = None;
    let mut outside = 0usize; // painted pixels of A or B outside the common window (content left the canvas)
    let (da, db) = (pa.data(), pb.data());
    for y in 0..h as i32 {
        for x in 0..w as i32 {
            let (xb, yb) = (x + dx, y + dy);
            let ia = ((y as u32 * w + x as u32) * 4) as usize;
            if xb < 0 || yb < 0 || xb >= w as i32 || yb >= h as i32 {
                if da[ia + 3] != 0 {
                    outside += 1;
                }
                continue;
            }
            // content crossing a canvas edge: tiny-skia piles the coverage of the off-canvas part of an edge into the
            // border pixel.  The property excludes content entering / leaving the canvas: on native canvases the
            // outermost pixel frame of either rendering is not compared.
            if native
                && (x == 0 || y == 0 || x == w as i32 - 1 || y == h as i32 - 1 || xb == 0 || yb == 0 || xb == w as i32 - 1 || yb == h as i32 - 1)
            {
                continue;
            }
            let ib = ((yb as u32 * w + xb as u32) * 4) as usize;
            if da[ia + 3] != 0 || db[ib + 3] != 0 {
                nonblank += 1;
            }
            let mut d = 0u8;
            for k in 0..4 {
                d = d.max(da[ia + k].abs_diff(db[ib + k]));
            }
            if d > 0 {
                n0 += 1;
            }
            if d > 1 {
                n1 += 1;
                if first.is_none() {
                    first = Some((x as u32, y as u32));
                }
                dbox = (dbox.0.min(x as u32), dbox.1.min(y as u32), dbox.2.max(x as u32), dbox.3.max(y as u32));
            }
            if d > 32 {
                n32 += 1;
            }
            if d > 64 {
                n64 += 1;
            }
            if d > 8 {
                n8 += 1;
            }
            mx = mx.max(d);
        }
    }
    // layer traces: same number of layers, and every ibbox moved by (dx,dy) unless clamped
    let la: Vec<_> = ea.iter().filter(|e| e.starts_with("{\"ev\":\"layer\"")).filter_map(|e| layer_fields(e)).collect();
    let lb: Vec<_> = eb.iter().filter(|e| e.starts_with("{\"ev\":\"layer\"")).filter_map(|e| layer_fields(e)).collect();
    let mut moved = 0usize;
    let mut not_moved = 0usize;
    if la.len() == lb.len() {
        for (a, b) in la.iter().zip(lb.iter()) {
            if b.1[0] - a.1[0] == dx as i64 && b.1[1] - a.1[1] == dy as i64 && a.1[2] == b.1[2] && a.1[3] == b.1[3] {
                moved += 1;
            } else {
                not_moved += 1;
            }
        }
    }
    // class predicate `layer-origin-negative`: a layer with filters or clamped to max_bbox (content reaches the
    // layer's edge) is placed at a negative x or y in either rendering - and the case is not one of class
    // clamped-filter-region-origin (region_off below), which is reported separately
    let neg_origin = ea.iter().chain(eb.iter()).any(|e| {
        if !e.starts_with("{\"ev\":\"layer\"") {
            return false;
        }
        match layer_fields(e) {
            Some((_, ib)) => {
                let filtered = !e.contains("\"filters\":0,");
                let mx = max_of(e);
                let clamped = match mx {
                    Some(m) => ib[0] <= m[0] || ib[1] <= m[1] || ib[0] + ib[2] >= m[0] + m[2] || ib[1] + ib[3] >= m[1] + m[3],
                    None => false,
                };
                (ib[0] < 0 || ib[1] < 0) && (filtered || clamped)
            }
            None => false,
        }
    });
    // class predicate `clamped-filter-region-origin`: in either rendering a filtered layer is clamped to max_bbox (its box
    // touches the clamp box) AND a filter event on a source of that layer's size has a region whose origin is not the layer
    // origin (0,0) - the region-sized result is then drawn displaced by the region origin
    let region_off = [&ea, &eb].iter().any(|evs| {
        let clamped_sizes: Vec<(i64, i64)> = evs
            .iter()
            .filter(|e| e.starts_with("{\"ev\":\"layer\"") && !e.contains("\"filters\":0,"))
            .filter_map(|e| {
                let (_, ib) = layer_fields(e)?;
                let m = max_of(e)?;
                if ib[0] <= m[0] || ib[1] <= m[1] || ib[0] + ib[2] >= m[0] + m[2] || ib[1] + ib[3] >= m[1] + m[3] {
                    Some((ib[2], ib[3]))
                } else {
                    None
                }
            })
            .collect();
        evs.iter().filter(|e| e.starts_with("{\"ev\":\"filter\"")).any(|e| {
            let nums = |key: &str| -> Vec<i64> {
                match e.find(key) {
                    Some(b) => {
                        let b = b + key.len();
                        let en = e[b..].find(']').map(|x| x + b).unwrap_or(b);
                        e[b..en].split(',').filter_map(|x| x.trim().parse().ok()).collect()
                    }
                    None => Vec::new(),
                }
            };
            let rg = nums("\"region\":[");
            let sz = nums("\"source\":[");
            rg.len() == 4 && sz.len() == 2 && (rg[0] != 0 || rg[1] != 0) && clamped_sizes.contains(&(sz[0], sz[1]))
        })
    });
    let fbad = frame_bad(&tree, w, h, ts_a) + frame_bad(&tree, w, h, ts_b);
    let flip = ulp_flip(&ea, &eb);
    let mut out = format!(
        "{{\"neg_origin\":{},\"region_off\":{},\"frame_bad\":{},\"ulp_flip\":{},\"filter_layers\":{},\"n0\":{},\"n1\":{},\"n8\":{},\"n32\":{},\"n64\":{},\"max\":{},\"nonblank\":{},\"outside\":{},\"layersA\":{},\"layersB\":{},\"moved\":{},\"not_moved\":{},\"W\":{},\"H\":{},\"scale\":{},\"ts\":[{},{},{},{},{},{}]",
        neg_origin && !region_off, region_off, fbad, flip, ea.iter().filter(|e| e.starts_with("{\"ev\":\"filter\"")).count(), n0, n1, n8, n32, n64, mx, nonblank, outside, count_layers(&ea), count_layers(&eb), moved, not_moved, w, h, s,
        ts_a.sx, ts_a.ky, ts_a.kx, ts_a.sy, ts_a.tx, ts_a.ty
    );
    if let Some((x, y)) = first {
        let ia = ((y * w + x) * 4) as usize;
        let ib = (((y as i32 + dy) as u32 * w + (x as i32 + dx) as u32) * 4) as usize;
        out.push_str(&format!(
            ",\"dbox\":[{},{},{},{}],\"first\":[{},{}],\"pxA\":[{},{},{},{}],\"pxB\":[{},{},{},{}]",
            dbox.0, dbox.1, dbox.2, dbox.3, x, y, da[ia], da[ia + 1], da[ia + 2], da[ia + 3], db[ib], db[ib + 1], db[ib + 2], db[ib + 3]
        ));
    }
    if emit {
        out.push_str(&format!(",\"eventsA\":[{}],\"eventsB\":[{}]", ea.join(","), eb.join(",")));
    }
    out.push('}');
    out
}

// ------------------------------------------------------------------------------------------------
/// c13-light  payload `kind;x,y,z,pax,pay,paz;rx,ry,rw,rh;sx,ky,kx,sy,tx,ty` (kind = point | spot; all numbers are
/// multiples of 1/4 of moderate size, so every f32 operation of the mapping is exact): runs the real
/// filter::transform_light_source and returns 16 x (x, y, points_at_x, points_at_y) as integers (`exact` = they are).
fn op_light(payload: &str) -> String {
    let f: Vec<&str> = payload.trim().split(';').collect();
    if f.len() != 4 {
        return "{\"error\":\"bad payload\"}".into();
    }
    let l: Vec<f32> = f[1].split(',').filter_map(|x| x.parse().ok()).collect();
    let r: Vec<i32> = f[2].split(',').filter_map(|x| x.parse().ok()).collect();
    let t: Vec<f32> = f[3].split(',').filter_map(|x| x.parse().ok()).collect();
    if l.len() != 6 || r.len() != 4 || t.len() != 6 {
        return "{\"error\":\"bad numbers\"}".into();
    }
    let region = match tiny_skia::IntRect::from_xywh(r[0], r[1], r[2] as u32, r[3] as u32) {
        Some(v) => v,
        None => return "{\"error\":\"bad region\"}".into(),
    };
    let ts = tiny_skia::Transform::from_row(t[0], t[1], t[2], t[3], t[4], t[5]);
    let src = if f[0] == "point" {
        usvg::filter::LightSource::PointLight(usvg::filter::PointLight { x: l[0], y: l[1], z: l[2] })
    } else {
        usvg::filter::LightSource::SpotLight(usvg::filter::SpotLight {
            x: l[0],
            y: l[1],
            z: l[2],
            points_at_x: l[3],
            points_at_y: l[4],
            points_at_z: l[5],
            specular_exponent: usvg::PositiveF32::new(1.0).unwrap(),
            limiting_cone_angle: None,
        })
    };
    let out = resvg::verif_hooks::kernels::transform_light_source(src, region, ts);
    let v: [f32; 4] = match out {
        usvg::filter::LightSource::PointLight(p) => [p.x, p.y, 0.0, 0.0],
        usvg::filter::LightSource::SpotLight(p) => [p.x, p.y, p.points_at_x, p.points_at_y],
        _ => return "{\"error\":\"kind changed\"}".into(),
    };
    let q: Vec<f64> = v.iter().map(|x| *x as f64 * 16.0).collect();
    let exact = q.iter().all(|x| x.is_finite() && x.fract() == 0.0 && x.abs() < 1e15);
    format!("{{\"v\":[{}],\"exact\":{}}}", q.iter().map(|x| format!("{}", *x as i64)).collect::<Vec<_>>().join(","), exact)
}
