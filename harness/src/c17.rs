//! C17: node export under a root scale vs the resized document.
use crate::dump;
use crate::util::*;

/// payload: `opts\tdocA\tdocB\tid\tscale`
/// A rendered through render_node with scale s vs B (= A with width/height x s) through render_node with identity.
fn op_export_scale(payload: &str) -> String {
    let f: Vec<&str> = payload.split('\t').collect();
    if f.len() < 5 {
        return "{\"error\":\"bad payload\"}".to_string();
    }
    let s: f32 = f[4].parse().unwrap_or(1.0);
    let ta = match parse_doc(f[0], f[1]) {
        Ok(t) => t,
        Err(e) => return format!("{{\"error\":{}}}", dump::esc(&e)),
    };
    let tb = match parse_doc(f[0], f[2]) {
        Ok(t) => t,
        Err(e) => return format!("{{\"error\":{}}}", dump::esc(&e)),
    };
    let (na, nb) = match (ta.node_by_id(f[3]), tb.node_by_id(f[3])) {
        (Some(a), Some(b)) => (a, b),
        _ => return "{\"error\":\"node not found\"}".to_string(),
    };
    let (ba, bb) = match (na.abs_layer_bounding_box(), nb.abs_layer_bounding_box()) {
        (Some(a), Some(b)) => (a, b),
        _ => return "{\"error\":\"no layer box\"}".to_string(),
    };
    let w = (ba.width() * s).ceil().max(1.0) as u32;
    let h = (ba.height() * s).ceil().max(1.0) as u32;
    let mut pa = tiny_skia::Pixmap::new(w, h).unwrap();
    let mut pb = tiny_skia::Pixmap::new(w, h).unwrap();
    let ra = resvg::render_node(na, tiny_skia::Transform::from_scale(s, s), &mut pa.as_mut());
    let rb = resvg::render_node(nb, tiny_skia::Transform::identity(), &mut pb.as_mut());
    let (n, mx) = diff_pixmaps(&pa, &pb, 8);
    let (nbig, _) = diff_pixmaps(&pa, &pb, 72);
    let nonblank = pb.data().chunks_exact(4).filter(|p| p[3] != 0).count();
    format!(
        "{{\"ndiff\":{},\"nbig\":{},\"max\":{},\"nonblank\":{},\"some\":[{},{}],\"boxA\":[{},{}],\"boxB\":[{},{}]}}",
        n, nbig, mx, nonblank, ra.is_some(), rb.is_some(),
        dump::num(ba.width()), dump::num(ba.height()), dump::num(bb.width()), dump::num(bb.height())
    )
}

pub fn dispatch(op: &str, _args: &[String]) -> bool {
    match op {
        "c17-export-scale" => {
            run_batch(op_export_scale);
            true
        }
        _ => false,
    }
}
