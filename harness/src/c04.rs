//! C04 operations.
//!
//! `c04-tree`  payload `opts\tdoc` ->
//!     {"dump": <dump.rs JSON of the tree>,
//!      "svg": <Tree::to_string, default options>,
//!      "svg_pt": <Tree::to_string with preserve_text>,
//!      "write_panic": <message if Tree::to_string panicked, else null>,
//!      "dbg_obb": <number of `ObjectBoundingBox` occurrences in the Debug rendering of the whole tree>}
//!   or {"error": msg}.
//!
//! `units` of gradients/patterns are private fields; the derived `Debug` of `Tree` prints them (and walks
//! every sub-tree reachable through `Arc`s: pattern roots, masks, clip paths, feImage roots, flattened
//! text, nested SVG images), so a count of the literal `ObjectBoundingBox` in it is an observation of
//! "no objectBoundingBox unit remains" that does not depend on what the writer chooses to print.
use crate::dump;
use crate::util::*;

fn op_tree(payload: &str) -> String {
    let (opts, doc) = payload.split_once('\t').unwrap_or(("", payload));
    let tree = match parse_doc(opts, doc) {
        Ok(t) => t,
        Err(e) => return format!("{{\"error\":{}}}", dump::esc(&e)),
    };
    // a circle with r = 1e38 is flattened into millions of arc segments (a C02 matter): such trees are
    // reported as too big instead of being dumped
    let nseg = count_segments(tree.root());
    if nseg > 200_000 {
        return format!("{{\"too_big\":{}}}", nseg);
    }
    let d = dump::dump_tree(&tree);
    if d.len() > 6_000_000 {
        return format!("{{\"too_big\":{}}}", d.len());
    }
    // the writer indexes chunk text by span offsets: on an invalid tree it panics; the dump must still be judged
    let write = |preserve_text: bool| -> Result<String, String> {
        let t = std::panic::AssertUnwindSafe(&tree);
        std::panic::catch_unwind(move || {
            let mut wo = usvg::WriteOptions::default();
            wo.preserve_text = preserve_text;
            t.to_string(&wo)
        })
        .map_err(panic_msg)
    };
    let (svg, svg_pt) = (write(false), write(true));
    let mut wp = String::new();
    for r in [&svg, &svg_pt] {
        if let Err(e) = r {
            wp = e.clone();
        }
    }
    let dbg = format!("{:?}", tree.root());
    let n = dbg.matches("ObjectBoundingBox").count();
    format!(
        "{{\"dump\":{},\"svg\":{},\"svg_pt\":{},\"dbg_obb\":{},\"write_panic\":{}}}",
        d,
        dump::esc(&svg.unwrap_or_else(|_| "<svg xmlns=\"http://www.w3.org/2000/svg\"/>".to_string())),
        dump::esc(&svg_pt.unwrap_or_else(|_| "<svg xmlns=\"http://www.w3.org/2000/svg\"/>".to_string())),
        n,
        if wp.is_empty() { "null".to_string() } else { dump::esc(&wp) }
    )
}

fn count_segments(g: &usvg::Group) -> usize {
    let mut n = 0usize;
    for c in g.children() {
        match c {
            usvg::Node::Group(ref g) => n += count_segments(g),
            usvg::Node::Path(ref p) => n += p.data().len(),
            usvg::Node::Text(ref t) => n += count_segments(t.flattened()),
            usvg::Node::Image(_) => {}
        }
        if n > 1_000_000 {
            break;
        }
    }
    n
}

pub fn dispatch(op: &str, _args: &[String]) -> bool {
    match op {
        "c04-tree" => run_batch(op_tree),
        _ => return false,
    }
    true
}
