//! C04 operations.
//!
//! `c04-tree`  payload `opts\tdoc` ->
//!     {"dump": <dump.rs JSON of the tree>,
//!      "svg": <Tree::to_string, default options>,
//!      "svg_pt": <Tree::to_string with preserve_text>,
//!      "dbg_obb": <number of `ObjectBoundingBox` occurrences in the Debug rendering of the whole tree>}
//!   or {"error": msg}.
//!
//! `units` of gradients/patterns are private fields; the derived `Debug` of `Tree` prints them (and walks
//! every sub-tree reachable through `Arc`s: pattern roots, masks, clip paths, feImage roots, flattened
//! text, nested SVG images), so a count of the literal `ObjectBoundingBox` in it is an observation of
//! "no objectBoundingBox unit remains" that does not depend on what the writer chooses to print.
use crate::dump;
use crate::util::*;

fn op_tree(payload: &str) -> String {
    let (opts, doc) = payload.split_once('\t').unwrap_or(("", payload));
    let tree = match parse_doc(opts, doc) {
        Ok(t) => t,
        Err(e) => return format!("{{\"error\":{}}}", dump::esc(&e)),
    };
    // a circle with r = 1e38 is flattened into millions of arc segments (a C02 matter): such trees are
    // reported as too big instead of being dumped
    let nseg = count_segments(tree.root());
    if nseg > 200_000 {
        return format!("{{\"too_big\":{}}}", nseg);
    }
    let d = dump::dump_tree(&tree);
    if d.len() > 6_000_000 {
        return format!("{{\"too_big\":{}}}", d.len());
    }
    let svg = tree.to_string(&usvg::WriteOptions::default());
    let mut wo = usvg::WriteOptions::default();
    wo.preserve_text = true;
    let svg_pt = tree.to_string(&wo);
    let dbg = format!("{:?}", tree.root());
    let n = dbg.matches("ObjectBoundingBox").count();
    format!(
        "{{\"dump\":{},\"svg\":{},\"svg_pt\":{},\"dbg_obb\":{}}}",
        d,
        dump::esc(&svg),
        dump::esc(&svg_pt),
        n
    )
}

fn count_segments(g: &usvg::Group) -> usize {
    let mut n = 0usize;
    for c in g.children() {
        match c {
            usvg::Node::Group(ref g) => n += count_segments(g),
            usvg::Node::Path(ref p) => n += p.data().len(),
            usvg::Node::Text(ref t) => n += count_segments(t.flattened()),
            usvg::Node::Image(_) => {}
        }
        if n > 1_000_000 {
            break;
        }
    }
    n
}

pub fn dispatch(op: &str, _args: &[String]) -> bool {
    match op {
        "c04-tree" => run_batch(op_tree),
        _ => return false,
    }
    true
}
