//! C04 operations.
//!
//! `c04-tree`  payload `opts\tdoc` ->
//!     {"dump": <dump.rs JSON of the tree>,
//!      "svg": <Tree::to_string, default options>,
//!      "svg_pt": <Tree::to_string with preserve_text>,
//!      "dbg_obb": <number of `ObjectBoundingBox` occurrences in the Debug rendering of the whole tree>}
//!   or {"error": msg}.
//!
//! `units` of gradients/patterns are private fields; the derived `Debug` of `Tree` prints them (and walks
//! every sub-tree reachable through `Arc`s: pattern roots, masks, clip paths, feImage roots, flattened
//! text, nested SVG images), so a count of the literal `ObjectBoundingBox` in it is an observation of
//! "no objectBoundingBox unit remains" that does not depend on what the writer chooses to print.
use crate::dump;
use crate::util::*;

fn op_tree(payload: &str) -> String {
    let (opts, doc) = payload.split_once('\t').unwrap_or(("", payload));
    let tree = match parse_doc(opts, doc) {
        Ok(t) => t,
        Err(e) => return format!("{{\"error\":{}}}", dump::esc(&e)),
    };
    let d = dump::dump_tree(&tree);
    let svg = tree.to_string(&usvg::WriteOptions::default());
    let mut wo = usvg::WriteOptions::default();
    wo.preserve_text = true;
    let svg_pt = tree.to_string(&wo);
    let dbg = format!("{:?}", tree.root());
    let n = dbg.matches("ObjectBoundingBox").count();
    format!(
        "{{\"dump\":{},\"svg\":{},\"svg_pt\":{},\"dbg_obb\":{}}}",
        d,
        dump::esc(&svg),
        dump::esc(&svg_pt),
        n
    )
}

pub fn dispatch(op: &str, _args: &[String]) -> bool {
    match op {
        "c04-tree" => run_batch(op_tree),
        _ => return false,
    }
    true
}
