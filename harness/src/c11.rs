//! C11 ops.
//!   svgtree-filter  payload `opts\tdocA\tdocB`  -> {"equal":bool,"na":n,"nb":n,"diff_line":k,"a":"..","b":".."}
//!                   compares usvg::verif_hooks::svgtree_dump (the svgtree right after parsing) of both documents
//!   c11-pair        payload `opts\tdocA\tdocB`  -> {"text_equal":bool,"ndiff":n,"max":m,"w":w,"h":h,...}
//!                   parses both, compares Tree::to_string and the rendered pixels (bit-exact)
use crate::dump::esc;
use crate::util::*;

fn doc_text(doc: &str, opt: &mut usvg::Options) -> Result<String, String> {
    let data = load_doc(doc, opt)?;
    // same decoding as Tree::from_data: gzip is not used by the check's documents
    String::from_utf8(data).map_err(|e| format!("utf8: {}", e))
}

fn op_svgtree_filter(payload: &str) -> String {
    let f: Vec<&str> = payload.split('\t').collect();
    if f.len() < 3 {
        return "{\"error\":\"bad payload\"}".to_string();
    }
    let mut opt = make_options(f[0]);
    let ta = match doc_text(f[1], &mut opt) {
        Ok(t) => t,
        Err(e) => return format!("{{\"error\":{}}}", esc(&e)),
    };
    let tb = match doc_text(f[2], &mut opt) {
        Ok(t) => t,
        Err(e) => return format!("{{\"error\":{}}}", esc(&e)),
    };
    let a = usvg::verif_hooks::svgtree_dump(&ta, &opt);
    let b = usvg::verif_hooks::svgtree_dump(&tb, &opt);
    match (a, b) {
        (Ok((da, na)), Ok((db, nb))) => {
            if da == db {
                format!("{{\"equal\":true,\"na\":{},\"nb\":{}}}", na, nb)
            } else {
                let mut k = 0usize;
                let (mut la, mut lb) = (String::new(), String::new());
                for (i, (x, y)) in da.lines().zip(db.lines()).enumerate() {
                    if x != y {
                        k = i + 1;
                        la = x.trim().chars().take(160).collect();
                        lb = y.trim().chars().take(160).collect();
                        break;
                    }
                }
                format!(
                    "{{\"equal\":false,\"na\":{},\"nb\":{},\"diff_line\":{},\"a\":{},\"b\":{}}}",
                    na, nb, k, esc(&la), esc(&lb)
                )
            }
        }
        (Err(ea), Err(eb)) => format!(
            "{{\"equal\":true,\"both_error\":true,\"ea\":{},\"eb\":{}}}",
            esc(&format!("{}", ea)),
            esc(&format!("{}", eb))
        ),
        (Err(e), Ok(_)) => format!("{{\"equal\":false,\"error_a\":{}}}", esc(&format!("{}", e))),
        (Ok(_), Err(e)) => format!("{{\"equal\":false,\"error_b\":{}}}", esc(&format!("{}", e))),
    }
}

fn first_text_diff(a: &str, b: &str) -> (usize, String, String) {
    let ab = a.as_bytes();
    let bb = b.as_bytes();
    let mut i = 0usize;
    while i < ab.len() && i < bb.len() && ab[i] == bb[i] {
        i += 1;
    }
    let cut = |s: &str| -> String {
        let mut st = i.saturating_sub(60);
        while st > 0 && !s.is_char_boundary(st) {
            st -= 1;
        }
        s[st..].chars().take(200).collect()
    };
    (i, cut(a), cut(b))
}

fn op_pair(payload: &str) -> String {
    let f: Vec<&str> = payload.split('\t').collect();
    if f.len() < 3 {
        return "{\"error\":\"bad payload\"}".to_string();
    }
    let ta = parse_doc(f[0], f[1]);
    let tb = parse_doc(f[0], f[2]);
    let (ta, tb) = match (ta, tb) {
        (Ok(a), Ok(b)) => (a, b),
        (Err(ea), Err(eb)) => {
            return format!("{{\"both_error\":true,\"same_error\":{},\"ea\":{},\"eb\":{}}}", ea == eb, esc(&ea), esc(&eb))
        }
        (Err(e), Ok(_)) => return format!("{{\"error_a\":{}}}", esc(&e)),
        (Ok(_), Err(e)) => return format!("{{\"error_b\":{}}}", esc(&e)),
    };
    let wo = usvg::WriteOptions::default();
    let sa = ta.to_string(&wo);
    let sb = tb.to_string(&wo);
    let text_equal = sa == sb;
    let mut extra = String::new();
    if !text_equal {
        let (i, xa, xb) = first_text_diff(&sa, &sb);
        extra = format!(",\"text_diff_at\":{},\"ta\":{},\"tb\":{}", i, esc(&xa), esc(&xb));
    }
    let size_equal = ta.size() == tb.size();
    let w = (ta.size().width().ceil() as u32).clamp(1, 1500);
    let h = (ta.size().height().ceil() as u32).clamp(1, 1500);
    let id = tiny_skia::Transform::identity();
    let pa = render_tree(&ta, w, h, id).unwrap();
    let pb = render_tree(&tb, w, h, id).unwrap();
    let (n, mx) = diff_pixmaps(&pa, &pb, 0);
    let nonblank = pa.data().chunks_exact(4).filter(|p| p[3] != 0).count();
    format!(
        "{{\"text_equal\":{},\"size_equal\":{},\"ndiff\":{},\"max\":{},\"w\":{},\"h\":{},\"nonblank\":{},\"len\":{}{}}}",
        text_equal, size_equal, n, mx, w, h, nonblank, sa.len(), extra
    )
}

pub fn dispatch(op: &str, _args: &[String]) -> bool {
    match op {
        "svgtree-filter" => run_batch(op_svgtree_filter),
        "c11-pair" => run_batch(op_pair),
        _ => return false,
    }
    true
}
