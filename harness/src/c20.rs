//! C20 (command-line tools) operations: the LIBRARY side of the comparisons.  The real binaries are run by
//! tools/props/c20.py; these ops compute what the library gives for the same file and options.
//!
//! `c20-fit`   payload `kind w h a [b]`  -> real tiny_skia IntSize arithmetic: {"r":[w,h]} | {"r":null}
//!             kinds: w (scale_to_width a), h (scale_to_height a), wh (from_wh(a,b).map(scale_to)), z (scale_by a),
//!             ints (Size::from_wh(w,h).to_int_size(); w,h floats)
//! `c20-lib`   payload `opts\tdoc\tbg\texport_id\tarea_page\tarea_drawing\tfit\tpng`
//!             -> facts about the parsed tree (size, ids, node box, content box) and, when `png` is a file, the
//!             comparison of that PNG with the library rendering for the same options
//! `c20-usvg`  payload `opts\tdoc\twopts\tfile` -> is the file byte-equal to Tree::to_string(wopts)
use crate::dump::{esc, num};
use crate::util;

fn op_fit(payload: &str) -> String {
    let f: Vec<&str> = payload.split_whitespace().collect();
    if f.len() < 3 || (f[0] != "ints" && f.len() < 4) {
        return "{\"error\":\"bad payload\"}".to_string();
    }
    let show = |s: Option<tiny_skia::IntSize>| match s {
        Some(s) => format!("{{\"r\":[{},{}]}}", s.width(), s.height()),
        None => "{\"r\":null}".to_string(),
    };
    if f[0] == "ints" {
        let w: f32 = f[1].parse().unwrap_or(0.0);
        let h: f32 = f[2].parse().unwrap_or(0.0);
        return show(tiny_skia::Size::from_wh(w, h).map(|s| s.to_int_size()));
    }
    let w: u32 = f[1].parse().unwrap_or(0);
    let h: u32 = f[2].parse().unwrap_or(0);
    let size = match tiny_skia::IntSize::from_wh(w, h) {
        Some(s) => s,
        None => return "{\"error\":\"size\"}".to_string(),
    };
    match f[0] {
        "w" => show(size.scale_to_width(f[3].parse().unwrap_or(0))),
        "h" => show(size.scale_to_height(f[3].parse().unwrap_or(0))),
        "wh" => show(
            tiny_skia::IntSize::from_wh(f[3].parse().unwrap_or(0), f.get(4).and_then(|x| x.parse().ok()).unwrap_or(0))
                .map(|s| size.scale_to(s)),
        ),
        "z" => show(size.scale_by(f[3].parse().unwrap_or(0.0))),
        _ => "{\"error\":\"kind\"}".to_string(),
    }
}

#[derive(Clone, Copy)]
enum Fit {
    Original,
    Width(u32),
    Height(u32),
    Size(u32, u32),
    Zoom(f32),
}

fn parse_fit(s: &str) -> Fit {
    let p: Vec<&str> = s.split(':').collect();
    match p[0] {
        "w" => Fit::Width(p[1].parse().unwrap_or(1)),
        "h" => Fit::Height(p[1].parse().unwrap_or(1)),
        "wh" => Fit::Size(p[1].parse().unwrap_or(1), p[2].parse().unwrap_or(1)),
        "z" => Fit::Zoom(p[1].parse().unwrap_or(1.0)),
        _ => Fit::Original,
    }
}

/// The documented meaning of -w/-h/-z in terms of the public IntSize API.
fn fit_size(fit: Fit, size: tiny_skia::IntSize) -> Option<tiny_skia::IntSize> {
    match fit {
        Fit::Original => Some(size),
        Fit::Width(w) => size.scale_to_width(w),
        Fit::Height(h) => size.scale_to_height(h),
        Fit::Size(w, h) => tiny_skia::IntSize::from_wh(w, h).map(|s| size.scale_to(s)),
        Fit::Zoom(z) => size.scale_by(z),
    }
}

fn count_ids(g: &usvg::Group) -> usize {
    let mut n = 0;
    for node in g.children() {
        if !node.id().is_empty() {
            n += 1;
        }
        if let usvg::Node::Group(ref gg) = node {
            n += count_ids(gg);
        }
    }
    n
}

fn parse_color(s: &str) -> Option<tiny_skia::Color> {
    // "r,g,b,a" bytes
    let v: Vec<u8> = s.split(',').filter_map(|x| x.parse().ok()).collect();
    if v.len() == 4 {
        Some(tiny_skia::Color::from_rgba8(v[0], v[1], v[2], v[3]))
    } else {
        None
    }
}

struct Expected {
    pixmap: tiny_skia::Pixmap,
    notes: Vec<String>,
}

/// Library rendering "with the same options".  The target canvas size is taken from the PNG the tool wrote
/// (its dimensions are checked against the Coq model separately).
fn expected_render(
    tree: &usvg::Tree,
    fit: Fit,
    bg: Option<tiny_skia::Color>,
    export_id: &str,
    area_page: bool,
    area_drawing: bool,
    png_w: u32,
    png_h: u32,
) -> Result<Expected, String> {
    let doc = tree.size().to_int_size();
    let mut notes = Vec::new();
    let doc_target = fit_size(fit, doc);
    // the transform that maps the integer document box onto the fitted document size
    let ts = match doc_target {
        Some(t) => tiny_skia::Transform::from_scale(
            t.width() as f32 / doc.width() as f32,
            t.height() as f32 / doc.height() as f32,
        ),
        None => tiny_skia::Transform::identity(),
    };
    if export_id.is_empty() {
        let t = doc_target.ok_or("target size is zero")?;
        let mut pm = tiny_skia::Pixmap::new(t.width(), t.height()).ok_or("target size is too large")?;
        if let Some(c) = bg {
            pm.fill(c);
        }
        resvg::render(tree, ts, &mut pm.as_mut());
        if area_drawing {
            // the tight drawing box in device space, cut to the canvas
            let content = tree.root().layer_bounding_box();
            let canvas = tiny_skia::IntRect::from_xywh(0, 0, pm.width(), pm.height()).ok_or("canvas rect")?;
            if let Some(dev) = content.transform(ts) {
                // the integer device box; a box that does not fit i32 cannot be trimmed to (the image is kept as it is)
                let r = tiny_skia::IntRect::from_xywh(
                    dev.x().floor() as i32,
                    dev.y().floor() as i32,
                    std::cmp::max(1, dev.width().ceil() as u32),
                    std::cmp::max(1, dev.height().ceil() as u32),
                );
                if r.is_none() {
                    notes.push("content-box-outside-i32".to_string());
                }
                if let Some(cut) = r.and_then(|r| canvas.intersect(&r)) {
                    if let Some(c) = pm.clone_rect(cut) {
                        notes.push(format!("trim {},{} {}x{}", cut.x(), cut.y(), cut.width(), cut.height()));
                        return Ok(Expected { pixmap: c, notes });
                    }
                } else {
                    notes.push("trim-empty".to_string());
                }
            }
        }
        let _ = (png_w, png_h);
        return Ok(Expected { pixmap: pm, notes });
    }
    let node = tree.node_by_id(export_id).ok_or("no such id")?;
    let bbox = node.abs_layer_bounding_box().ok_or("node has zero size")?;
    let nsize = fit_size(fit, bbox.size().to_int_size()).ok_or("target size is zero")?;
    // Export rules: without --export-area-page the node is scaled by the factor that maps its integer box onto its
    // canvas; with --export-area-page it is scaled like the page.
    let nbox = bbox.size().to_int_size();
    let ts = if area_page {
        ts
    } else {
        tiny_skia::Transform::from_scale(
            nsize.width() as f32 / nbox.width() as f32,
            nsize.height() as f32 / nbox.height() as f32,
        )
    };
    if !area_page {
        // the node, drawn with `ts`, must fill its canvas (half a source pixel, scaled, + rounding)
        let filled_w = bbox.width() * ts.sx;
        let filled_h = bbox.height() * ts.sy;
        if (filled_w - nsize.width() as f32).abs() > 0.5 * ts.sx + 1.0 || (filled_h - nsize.height() as f32).abs() > 0.5 * ts.sy + 1.0 {
            notes.push(format!("node-does-not-fill-canvas node {}x{} canvas {}x{}", num(filled_w), num(filled_h), nsize.width(), nsize.height()));
        }
    }
    let mut pm = tiny_skia::Pixmap::new(nsize.width(), nsize.height()).ok_or("canvas")?;
    if !area_page {
        if let Some(c) = bg {
            pm.fill(c);
        }
    }
    resvg::render_node(node, ts, &mut pm.as_mut());
    if area_page {
        let t = doc_target.ok_or("target size is zero")?;
        let mut page = tiny_skia::Pixmap::new(t.width(), t.height()).ok_or("canvas")?;
        if let Some(c) = bg {
            page.fill(c);
        }
        // the node at its place on the page: the offset is in device space, i.e. scaled like the node
        let ox = (bbox.x() * ts.sx) as i32;
        let oy = (bbox.y() * ts.sy) as i32;
        // a node whose offset box does not fit i32 lies outside the page: nothing to draw
        if tiny_skia::IntRect::from_xywh(ox, oy, pm.width(), pm.height()).is_some() {
            page.draw_pixmap(ox, oy, pm.as_ref(), &tiny_skia::PixmapPaint::default(), tiny_skia::Transform::default(), None);
        } else {
            notes.push("node-offset-outside-i32".to_string());
        }
        return Ok(Expected { pixmap: page, notes });
    }
    Ok(Expected { pixmap: pm, notes })
}

fn op_lib(payload: &str) -> String {
    let f: Vec<&str> = payload.split('\t').collect();
    if f.len() < 8 {
        return "{\"error\":\"bad payload\"}".to_string();
    }
    let (opts, doc, bg, export_id, area_page, area_drawing, fit, png) =
        (f[0], f[1], f[2], f[3], f[4] == "1", f[5] == "1", parse_fit(f[6]), f[7]);
    let export_id = if export_id == "-" { "" } else { export_id };
    let tree = match util::parse_doc(opts, doc) {
        Ok(t) => t,
        Err(e) => return format!("{{\"error\":{}}}", esc(&e)),
    };
    let mut out = format!(
        "{{\"size\":[{},{}],\"ids\":{}",
        num(tree.size().width()),
        num(tree.size().height()),
        count_ids(tree.root())
    );
    let c = tree.root().layer_bounding_box();
    out.push_str(&format!(",\"content\":[{},{},{},{}]", num(c.x()), num(c.y()), num(c.width()), num(c.height())));
    if !export_id.is_empty() {
        match tree.node_by_id(export_id) {
            None => out.push_str(",\"node\":\"missing\""),
            Some(n) => match n.abs_layer_bounding_box() {
                None => out.push_str(",\"node\":\"zero\""),
                Some(b) => out.push_str(&format!(",\"node\":[{},{},{},{}]", num(b.x()), num(b.y()), num(b.width()), num(b.height()))),
            },
        }
    }
    if png != "-" {
        match std::fs::read(png) {
            Err(e) => out.push_str(&format!(",\"png\":{{\"error\":{}}}", esc(&format!("read: {}", e)))),
            Ok(bytes) => match tiny_skia::Pixmap::decode_png(&bytes) {
                Err(e) => out.push_str(&format!(",\"png\":{{\"error\":{}}}", esc(&format!("decode: {}", e)))),
                Ok(got) => {
                    let bgc = parse_color(bg);
                    match expected_render(&tree, fit, bgc, export_id, area_page, area_drawing, got.width(), got.height()) {
                        Err(e) => out.push_str(&format!(",\"png\":{{\"w\":{},\"h\":{},\"expected_error\":{}}}", got.width(), got.height(), esc(&e))),
                        Ok(exp) => {
                            let enc = exp.pixmap.encode_png().unwrap_or_default();
                            let bytes_equal = enc == bytes;
                            let same_dims = exp.pixmap.width() == got.width() && exp.pixmap.height() == got.height();
                            let (mut ndiff, mut mx) = (0usize, 0u8);
                            if !bytes_equal && same_dims {
                                // compare after the same PNG round trip (encode demultiplies, decode premultiplies)
                                if let Ok(exp2) = tiny_skia::Pixmap::decode_png(&enc) {
                                    let d = util::diff_pixmaps(&exp2, &got, 0);
                                    ndiff = d.0;
                                    mx = d.1;
                                }
                            }
                            let nonblank = got.data().chunks_exact(4).filter(|p| p[3] != 0).count();
                            out.push_str(&format!(
                                ",\"png\":{{\"w\":{},\"h\":{},\"ew\":{},\"eh\":{},\"bytes_equal\":{},\"ndiff\":{},\"max\":{},\"nonblank\":{},\"notes\":[{}]}}",
                                got.width(), got.height(), exp.pixmap.width(), exp.pixmap.height(), bytes_equal, ndiff, mx, nonblank,
                                exp.notes.iter().map(|s| esc(s)).collect::<Vec<_>>().join(",")
                            ));
                        }
                    }
                }
            },
        }
    }
    out.push('}');
    out
}

fn parse_indent(s: &str) -> usvg::Indent {
    match s {
        "none" => usvg::Indent::None,
        "tabs" => usvg::Indent::Tabs,
        x => usvg::Indent::Spaces(x.parse().unwrap_or(4)),
    }
}

fn op_usvg(payload: &str) -> String {
    let f: Vec<&str> = payload.split('\t').collect();
    if f.len() < 4 {
        return "{\"error\":\"bad payload\"}".to_string();
    }
    let tree = match util::parse_doc(f[0], f[1]) {
        Ok(t) => t,
        Err(e) => return format!("{{\"error\":{}}}", esc(&e)),
    };
    let mut w = usvg::WriteOptions::default();
    for kv in f[2].split(';') {
        let (k, v) = kv.split_once('=').unwrap_or((kv, ""));
        match k {
            "prefix" => w.id_prefix = Some(v.to_string()),
            "preserve_text" => w.preserve_text = true,
            "cp" => w.coordinates_precision = v.parse().unwrap_or(8),
            "tp" => w.transforms_precision = v.parse().unwrap_or(8),
            "indent" => w.indent = parse_indent(v),
            "attrs_indent" => w.attributes_indent = parse_indent(v),
            _ => {}
        }
    }
    let s = tree.to_string(&w);
    let file = match std::fs::read(f[3]) {
        Ok(b) => b,
        Err(e) => return format!("{{\"lib_len\":{},\"file_error\":{}}}", s.len(), esc(&format!("{}", e))),
    };
    let eq = file == s.as_bytes();
    let first = file.iter().zip(s.as_bytes().iter()).position(|(a, b)| a != b).unwrap_or(file.len().min(s.len()));
    format!("{{\"equal\":{},\"lib_len\":{},\"file_len\":{},\"first_diff\":{}}}", eq, s.len(), file.len(), first)
}

pub fn dispatch(op: &str, _args: &[String]) -> bool {
    match op {
        "c20-fit" => {
            util::run_batch(op_fit);
            true
        }
        "c20-lib" => {
            util::run_batch(op_lib);
            true
        }
        "c20-usvg" => {
            util::run_batch(op_usvg);
            true
        }
        _ => false,
    }
}
