//! Shared helpers: options/fontdb, batch protocol with panic capture, PRNG, pixel helpers.
use std::io::{BufRead, Write};
use std::sync::Arc;
use usvg::fontdb;

pub fn repo_root() -> String {
    std::env::var("VERIF_REPO").unwrap_or_else(|_| "/repo".to_string())
}

pub fn fonts_dir() -> String {
    format!("{}/crates/resvg/tests/fonts", repo_root())
}

pub fn make_fontdb() -> Arc<fontdb::Database> {
    let mut db = fontdb::Database::new();
    db.load_fonts_dir(fonts_dir());
    db.set_serif_family("Noto Serif");
    db.set_sans_serif_family("Noto Sans");
    db.set_cursive_family("Yellowtail");
    db.set_fantasy_family("Sedgwick Ave Display");
    db.set_monospace_family("Noto Mono");
    Arc::new(db)
}

thread_local! {
    static FONTDB: Arc<fontdb::Database> = make_fontdb();
}

pub fn shared_fontdb() -> Arc<fontdb::Database> {
    FONTDB.with(|f| f.clone())
}

/// Options from a `key=value;key=value` spec.  Keys: dpi, dw, dh (default size), lang (comma list),
/// css (hex-encoded stylesheet), nofonts, res (resources dir), fs (font size), sr/tr/ir (rendering modes).
pub fn make_options(spec: &str) -> usvg::Options<'static> {
    let mut opt = usvg::Options::default();
    let mut nofonts = false;
    let (mut dw, mut dh) = (100.0f32, 100.0f32);
    for kv in spec.split(';') {
        let kv = kv.trim();
        if kv.is_empty() || kv == "-" {
            continue;
        }
        let (k, v) = match kv.split_once('=') {
            Some(x) => x,
            None => (kv, ""),
        };
        match k {
            "dpi" => opt.dpi = v.parse().unwrap_or(96.0),
            "dw" => dw = v.parse().unwrap_or(100.0),
            "dh" => dh = v.parse().unwrap_or(100.0),
            "fs" => opt.font_size = v.parse().unwrap_or(12.0),
            "lang" => opt.languages = v.split(',').map(|s| s.to_string()).collect(),
            "css" => opt.style_sheet = Some(String::from_utf8_lossy(&unhex(v)).to_string()),
            "nofonts" => nofonts = true,
            "res" => opt.resources_dir = Some(std::path::PathBuf::from(v)),
            "sr" => {
                if let Ok(m) = v.parse() {
                    opt.shape_rendering = m
                }
            }
            "tr" => {
                if let Ok(m) = v.parse() {
                    opt.text_rendering = m
                }
            }
            "ir" => {
                if let Ok(m) = v.parse() {
                    opt.image_rendering = m
                }
            }
            _ => {}
        }
    }
    if let Some(s) = usvg::Size::from_wh(dw, dh) {
        opt.default_size = s;
    }
    if !nofonts {
        opt.fontdb = shared_fontdb();
    }
    opt
}

pub fn unhex(s: &str) -> Vec<u8> {
    let b = s.as_bytes();
    let mut out = Vec::with_capacity(b.len() / 2);
    let hv = |c: u8| -> u8 {
        match c {
            b'0'..=b'9' => c - b'0',
            b'a'..=b'f' => c - b'a' + 10,
            b'A'..=b'F' => c - b'A' + 10,
            _ => 0,
        }
    };
    let mut i = 0;
    while i + 1 < b.len() {
        out.push(hv(b[i]) * 16 + hv(b[i + 1]));
        i += 2;
    }
    out
}

/// Load document bytes: `@path` reads a file (and sets resources_dir), `hex:..` is hex-encoded bytes,
/// anything else is the text itself.
pub fn load_doc(doc: &str, opt: &mut usvg::Options) -> Result<Vec<u8>, String> {
    if let Some(p) = doc.strip_prefix('@') {
        let path = std::path::Path::new(p);
        if opt.resources_dir.is_none() {
            opt.resources_dir = path.parent().map(|x| x.to_owned());
        }
        std::fs::read(path).map_err(|e| format!("io: {}", e))
    } else if let Some(h) = doc.strip_prefix("hex:") {
        Ok(unhex(h))
    } else {
        Ok(doc.as_bytes().to_vec())
    }
}

pub fn parse_doc(opts: &str, doc: &str) -> Result<usvg::Tree, String> {
    let mut opt = make_options(opts);
    let data = load_doc(doc, &mut opt)?;
    usvg::Tree::from_data(&data, &opt).map_err(|e| format!("{}", e))
}

pub fn panic_msg(e: Box<dyn std::any::Any + Send>) -> String {
    if let Some(s) = e.downcast_ref::<&str>() {
        s.to_string()
    } else if let Some(s) = e.downcast_ref::<String>() {
        s.clone()
    } else {
        "panic".to_string()
    }
}

thread_local! {
    pub static LAST_PANIC_LOC: std::cell::RefCell<String> = std::cell::RefCell::new(String::new());
}

pub fn install_panic_hook() {
    std::panic::set_hook(Box::new(|info| {
        let loc = info
            .location()
            .map(|l| format!("{}:{}", l.file(), l.line()))
            .unwrap_or_default();
        LAST_PANIC_LOC.with(|c| *c.borrow_mut() = loc);
    }));
}

/// Batch protocol: stdin lines `idx\tpayload`; stdout lines `idx\tresult` flushed one by one.
/// A panic inside `f` is caught and reported as {"panic": "...", "at": "file:line"}.
pub fn run_batch<F: Fn(&str) -> String + std::panic::RefUnwindSafe>(f: F) {
    install_panic_hook();
    let stdin = std::io::stdin();
    let stdout = std::io::stdout();
    for line in stdin.lock().lines() {
        let line = match line {
            Ok(l) => l,
            Err(_) => break,
        };
        let (idx, payload) = match line.split_once('\t') {
            Some(x) => x,
            None => continue,
        };
        let r = std::panic::catch_unwind(|| f(payload));
        let res = match r {
            Ok(s) => s,
            Err(e) => {
                let loc = LAST_PANIC_LOC.with(|c| c.borrow().clone());
                format!(
                    "{{\"panic\":{},\"at\":{}}}",
                    crate::dump::esc(&panic_msg(e)),
                    crate::dump::esc(&loc)
                )
            }
        };
        let mut o = stdout.lock();
        let _ = writeln!(o, "{}\t{}", idx, res);
        let _ = o.flush();
    }
}

pub struct SplitMix64(pub u64);
impl SplitMix64 {
    pub fn next(&mut self) -> u64 {
        self.0 = self.0.wrapping_add(0x9E3779B97F4A7C15);
        let mut z = self.0;
        z = (z ^ (z >> 30)).wrapping_mul(0xBF58476D1CE4E5B9);
        z = (z ^ (z >> 27)).wrapping_mul(0x94D049BB133111EB);
        z ^ (z >> 31)
    }
    pub fn below(&mut self, n: u64) -> u64 {
        self.next() % n
    }
}

pub fn render_tree(tree: &usvg::Tree, w: u32, h: u32, ts: tiny_skia::Transform) -> Option<tiny_skia::Pixmap> {
    let mut pm = tiny_skia::Pixmap::new(w, h)?;
    resvg::render(tree, ts, &mut pm.as_mut());
    Some(pm)
}

/// (number of differing pixels, max channel delta) between two equally sized pixmaps.
pub fn diff_pixmaps(a: &tiny_skia::Pixmap, b: &tiny_skia::Pixmap, tol: u8) -> (usize, u8) {
    let (da, db) = (a.data(), b.data());
    let mut n = 0usize;
    let mut mx = 0u8;
    for (pa, pb) in da.chunks_exact(4).zip(db.chunks_exact(4)) {
        let mut d = 0u8;
        for k in 0..4 {
            let x = pa[k].abs_diff(pb[k]);
            if x > d {
                d = x;
            }
        }
        if d > tol {
            n += 1;
        }
        if d > mx {
            mx = d;
        }
    }
    (n, mx)
}

pub fn parse_ts(s: &str) -> tiny_skia::Transform {
    let v: Vec<f32> = s.split(',').filter_map(|x| x.trim().parse().ok()).collect();
    if v.len() == 6 {
        tiny_skia::Transform::from_row(v[0], v[1], v[2], v[3], v[4], v[5])
    } else {
        tiny_skia::Transform::identity()
    }
}
