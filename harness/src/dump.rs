//! Complete JSON dump of a `usvg::Tree`, written by hand (no serde), using only
//! the public API of `usvg`.
//!
//! Public interface:
//!   - `dump_tree(&usvg::Tree) -> String`  one line of JSON
//!   - `esc(&str) -> String`               JSON string literal (with quotes)
//!   - `num(f32) -> String`                exact JSON number (or "inf"/"-inf"/"nan" strings)
//!
//! Pointers (`"ptr"`, `"path_ptr"`) are the addresses of the referenced
//! definition objects and serve as `Arc` identities.

use std::fmt::{Debug, Display};

use usvg::filter;
use usvg::tiny_skia_path as tsp;
use usvg::{
    ClipPath, Color, Fill, Group, Image, ImageKind, LinearGradient, Mask, Node, NonZeroRect, Paint,
    Path, Pattern, RadialGradient, Rect, Stop, Stroke, Text, TextDecorationStyle, TextFlow,
    Transform, Tree,
};

// ---------------------------------------------------------------------------
// Public helpers
// ---------------------------------------------------------------------------

/// Dumps the whole tree as a single line of JSON.
pub fn dump_tree(tree: &usvg::Tree) -> String {
    let mut o = String::with_capacity(16 * 1024);
    w_tree(&mut o, tree);
    o
}

/// JSON string escape, including the surrounding quotes.
pub fn esc(s: &str) -> String {
    let mut o = String::with_capacity(s.len() + 2);
    o.push('"');
    for c in s.chars() {
        match c {
            '"' => o.push_str("\\\""),
            '\\' => o.push_str("\\\\"),
            '\n' => o.push_str("\\n"),
            '\r' => o.push_str("\\r"),
            '\t' => o.push_str("\\t"),
            c if (c as u32) < 0x20 || c as u32 == 0x7f => {
                o.push_str(&format!("\\u{:04x}", c as u32));
            }
            // Line/paragraph separators are legal in JSON, but escape them anyway so that
            // the output never contains anything a line-oriented reader could split on.
            '\u{2028}' | '\u{2029}' | '\u{85}' => {
                o.push_str(&format!("\\u{:04x}", c as u32));
            }
            c => o.push(c),
        }
    }
    o.push('"');
    o
}

/// Exact float formatting: a reader parsing the result as f64 gets exactly the f32 value.
/// Non-finite values become the JSON strings "inf", "-inf", "nan".
pub fn num(x: f32) -> String {
    if x.is_finite() {
        // Rust's Debug for f64 prints the shortest round-trip decimal, always with either
        // a fraction ("1.0") or an exponent ("1e-7", "1e16", "1.5e-7"): all valid JSON numbers.
        format!("{:?}", x as f64)
    } else if x.is_nan() {
        "\"nan\"".to_string()
    } else if x > 0.0 {
        "\"inf\"".to_string()
    } else {
        "\"-inf\"".to_string()
    }
}

// ---------------------------------------------------------------------------
// Tiny JSON builder
// ---------------------------------------------------------------------------

trait Xywh {
    fn xywh(&self) -> [f32; 4];
}

impl Xywh for Rect {
    fn xywh(&self) -> [f32; 4] {
        [self.x(), self.y(), self.width(), self.height()]
    }
}

impl Xywh for NonZeroRect {
    fn xywh(&self) -> [f32; 4] {
        [self.x(), self.y(), self.width(), self.height()]
    }
}

fn w_nums(o: &mut String, v: &[f32]) {
    o.push('[');
    for (i, x) in v.iter().enumerate() {
        if i != 0 {
            o.push(',');
        }
        o.push_str(&num(*x));
    }
    o.push(']');
}

fn w_arr<T, I, F>(o: &mut String, items: I, mut f: F)
where
    I: IntoIterator<Item = T>,
    F: FnMut(&mut String, T),
{
    o.push('[');
    for (i, item) in items.into_iter().enumerate() {
        if i != 0 {
            o.push(',');
        }
        f(o, item);
    }
    o.push(']');
}

fn w_ts(o: &mut String, t: Transform) {
    w_nums(o, &[t.sx, t.ky, t.kx, t.sy, t.tx, t.ty]);
}

fn w_rgb(o: &mut String, c: Color) {
    o.push_str(&format!("[{},{},{}]", c.red, c.green, c.blue));
}

fn ptr<T>(r: &T) -> usize {
    r as *const T as usize
}

struct Obj<'a> {
    o: &'a mut String,
    first: bool,
}

impl<'a> Obj<'a> {
    fn new(o: &'a mut String) -> Self {
        o.push('{');
        Obj { o, first: true }
    }

    fn key(&mut self, k: &str) -> &mut String {
        if !self.first {
            self.o.push(',');
        }
        self.first = false;
        self.o.push('"');
        self.o.push_str(k);
        self.o.push_str("\":");
        self.o
    }

    fn str(&mut self, k: &str, v: &str) {
        let s = esc(v);
        self.key(k).push_str(&s);
    }

    fn dbg<T: Debug>(&mut self, k: &str, v: &T) {
        self.str(k, &format!("{:?}", v));
    }

    fn num(&mut self, k: &str, v: f32) {
        let s = num(v);
        self.key(k).push_str(&s);
    }

    fn onum(&mut self, k: &str, v: Option<f32>) {
        match v {
            Some(v) => self.num(k, v),
            None => self.null(k),
        }
    }

    fn int<T: Display>(&mut self, k: &str, v: T) {
        let s = format!("{}", v);
        self.key(k).push_str(&s);
    }

    fn bool(&mut self, k: &str, v: bool) {
        self.key(k).push_str(if v { "true" } else { "false" });
    }

    fn null(&mut self, k: &str) {
        self.key(k).push_str("null");
    }

    fn nums(&mut self, k: &str, v: &[f32]) {
        w_nums(self.key(k), v);
    }

    fn rect<R: Xywh>(&mut self, k: &str, r: R) {
        w_nums(self.key(k), &r.xywh());
    }

    fn orect<R: Xywh>(&mut self, k: &str, r: Option<R>) {
        match r {
            Some(r) => self.rect(k, r),
            None => self.null(k),
        }
    }

    fn ts(&mut self, k: &str, t: Transform) {
        w_ts(self.key(k), t);
    }

    fn rgb(&mut self, k: &str, c: Color) {
        w_rgb(self.key(k), c);
    }

    fn with<F: FnOnce(&mut String)>(&mut self, k: &str, f: F) {
        f(self.key(k));
    }

    fn opt<T, F: FnOnce(&mut String, T)>(&mut self, k: &str, v: Option<T>, f: F) {
        match v {
            Some(v) => f(self.key(k), v),
            None => self.null(k),
        }
    }

    fn arr<T, I, F>(&mut self, k: &str, items: I, f: F)
    where
        I: IntoIterator<Item = T>,
        F: FnMut(&mut String, T),
    {
        w_arr(self.key(k), items, f);
    }

    fn end(self) {
        self.o.push('}');
    }
}

/// Per-tree context (the font database is only used to name the faces of layouted glyphs).
#[derive(Clone, Copy)]
struct Cx<'a> {
    db: &'a usvg::fontdb::Database,
}

// ---------------------------------------------------------------------------
// Tree
// ---------------------------------------------------------------------------

fn w_tree(o: &mut String, t: &Tree) {
    let cx = Cx { db: t.fontdb() };
    let cx = &cx;
    let mut j = Obj::new(o);
    j.nums("size", &[t.size().width(), t.size().height()]);
    j.with("root", |o| w_group(o, cx, t.root()));
    j.arr("linear_gradients", t.linear_gradients(), |o, g| w_lg(o, g));
    j.arr("radial_gradients", t.radial_gradients(), |o, g| w_rg(o, g));
    j.arr("patterns", t.patterns(), |o, p| w_pattern(o, cx, p));
    j.arr("clip_paths", t.clip_paths(), |o, c| w_clip(o, cx, c));
    j.arr("masks", t.masks(), |o, m| w_mask(o, cx, m));
    j.arr("filters", t.filters(), |o, f| w_filter(o, cx, f));
    // Extra public accessor.
    j.bool("has_text_nodes", t.has_text_nodes());
    j.end();
}

// ---------------------------------------------------------------------------
// Nodes
// ---------------------------------------------------------------------------

fn w_node(o: &mut String, cx: &Cx, n: &Node) {
    match n {
        Node::Group(g) => w_group(o, cx, g),
        Node::Path(p) => w_path(o, cx, p, n.abs_layer_bounding_box()),
        Node::Image(i) => w_image(o, cx, i, n.abs_layer_bounding_box()),
        Node::Text(t) => w_text(o, cx, t, n.abs_layer_bounding_box()),
    }
}

fn w_group(o: &mut String, cx: &Cx, g: &Group) {
    let mut j = Obj::new(o);
    j.str("t", "g");
    j.str("id", g.id());
    j.ts("ts", g.transform());
    j.ts("abs_ts", g.abs_transform());
    j.num("opacity", g.opacity().get());
    j.dbg("blend", &g.blend_mode());
    j.bool("isolate", g.isolate());
    j.bool("should_isolate", g.should_isolate());
    j.opt("clip", g.clip_path(), |o, c| w_clip(o, cx, c));
    j.opt("mask", g.mask(), |o, m| w_mask(o, cx, m));
    j.arr("filters", g.filters(), |o, f| w_filter(o, cx, f));
    j.rect("bbox", g.bounding_box());
    j.rect("abs_bbox", g.abs_bounding_box());
    j.rect("sbbox", g.stroke_bounding_box());
    j.rect("abs_sbbox", g.abs_stroke_bounding_box());
    j.rect("lbbox", g.layer_bounding_box());
    j.rect("abs_lbbox", g.abs_layer_bounding_box());
    j.orect("fbbox", g.filters_bounding_box());
    j.arr("children", g.children(), |o, n| w_node(o, cx, n));
    j.end();
}

fn w_clip(o: &mut String, cx: &Cx, c: &ClipPath) {
    let mut j = Obj::new(o);
    j.int("ptr", ptr(c));
    j.str("id", c.id());
    j.ts("ts", c.transform());
    j.opt("clip", c.clip_path(), |o, c| w_clip(o, cx, c));
    j.with("root", |o| w_group(o, cx, c.root()));
    j.end();
}

fn w_mask(o: &mut String, cx: &Cx, m: &Mask) {
    let mut j = Obj::new(o);
    j.int("ptr", ptr(m));
    j.str("id", m.id());
    j.rect("rect", m.rect());
    j.dbg("kind", &m.kind());
    j.opt("mask", m.mask(), |o, m| w_mask(o, cx, m));
    j.with("root", |o| w_group(o, cx, m.root()));
    j.end();
}

fn w_segs(j: &mut Obj, p: &tsp::Path) {
    j.arr("segs", p.segments(), |o, s| match s {
        tsp::PathSegment::MoveTo(p) => {
            o.push_str("[\"M\",");
            o.push_str(&num(p.x));
            o.push(',');
            o.push_str(&num(p.y));
            o.push(']');
        }
        tsp::PathSegment::LineTo(p) => {
            o.push_str("[\"L\",");
            o.push_str(&num(p.x));
            o.push(',');
            o.push_str(&num(p.y));
            o.push(']');
        }
        tsp::PathSegment::QuadTo(p1, p) => {
            o.push_str("[\"Q\"");
            for v in [p1.x, p1.y, p.x, p.y] {
                o.push(',');
                o.push_str(&num(v));
            }
            o.push(']');
        }
        tsp::PathSegment::CubicTo(p1, p2, p) => {
            o.push_str("[\"C\"");
            for v in [p1.x, p1.y, p2.x, p2.y, p.x, p.y] {
                o.push(',');
                o.push_str(&num(v));
            }
            o.push(']');
        }
        tsp::PathSegment::Close => o.push_str("[\"Z\"]"),
    });
    j.int("len", p.len());
}

fn w_path(o: &mut String, cx: &Cx, p: &Path, abs_lbbox: Option<NonZeroRect>) {
    let mut j = Obj::new(o);
    j.str("t", "path");
    j.str("id", p.id());
    j.bool("visible", p.is_visible());
    j.opt("fill", p.fill(), |o, f| w_fill(o, cx, f));
    j.opt("stroke", p.stroke(), |o, s| w_stroke(o, cx, s));
    j.dbg("paint_order", &p.paint_order());
    j.dbg("rendering", &p.rendering_mode());
    j.ts("abs_ts", p.abs_transform());
    j.rect("bbox", p.bounding_box());
    j.rect("abs_bbox", p.abs_bounding_box());
    j.rect("sbbox", p.stroke_bounding_box());
    j.rect("abs_sbbox", p.abs_stroke_bounding_box());
    j.orect("abs_lbbox", abs_lbbox);
    w_segs(&mut j, p.data());
    j.end();
}

fn w_image(o: &mut String, _cx: &Cx, i: &Image, abs_lbbox: Option<NonZeroRect>) {
    let mut j = Obj::new(o);
    j.str("t", "image");
    j.str("id", i.id());
    j.bool("visible", i.is_visible());
    j.nums("size", &[i.size().width(), i.size().height()]);
    j.dbg("rendering", &i.rendering_mode());
    j.ts("abs_ts", i.abs_transform());
    // An image cannot be stroked: Node::stroke_bounding_box() == bounding_box().
    j.rect("bbox", i.bounding_box());
    j.rect("abs_bbox", i.abs_bounding_box());
    j.rect("sbbox", i.bounding_box());
    j.rect("abs_sbbox", i.abs_bounding_box());
    j.orect("abs_lbbox", abs_lbbox);
    let (kind, data_len, svg) = match i.kind() {
        ImageKind::JPEG(d) => ("JPEG", d.len(), None),
        ImageKind::PNG(d) => ("PNG", d.len(), None),
        ImageKind::GIF(d) => ("GIF", d.len(), None),
        ImageKind::WEBP(d) => ("WEBP", d.len(), None),
        ImageKind::SVG(t) => ("SVG", 0, Some(t)),
    };
    j.str("kind", kind);
    j.int("data_len", data_len);
    // The nested tree carries its own font database, hence its own context.
    j.opt("svg", svg, |o, t| w_tree(o, t));
    j.end();
}

// ---------------------------------------------------------------------------
// Paint
// ---------------------------------------------------------------------------

/// Extracts the (non-public) `context_element` field out of the derived `Debug` output of
/// `Fill`/`Stroke`. It is the last field of both structs, and its value can never contain
/// the field name itself, so `rfind` is unambiguous. Returns `None` for `None`.
fn ctx_of<T: Debug>(v: &T) -> Option<String> {
    const KEY: &str = "context_element: ";
    let s = format!("{:?}", v);
    let i = s.rfind(KEY)?;
    let val = &s[i + KEY.len()..];
    let val = val.strip_suffix(" }").unwrap_or(val);
    if val == "None" {
        return None;
    }
    let val = val
        .strip_prefix("Some(")
        .and_then(|v| v.strip_suffix(')'))
        .unwrap_or(val);
    Some(val.to_string())
}

fn w_fill(o: &mut String, cx: &Cx, f: &Fill) {
    let mut j = Obj::new(o);
    j.with("paint", |o| w_paint(o, cx, f.paint()));
    j.num("opacity", f.opacity().get());
    j.dbg("rule", &f.rule());
    j.opt("ctx", ctx_of(f), |o, s| o.push_str(&esc(&s)));
    j.end();
}

fn w_stroke(o: &mut String, cx: &Cx, s: &Stroke) {
    let mut j = Obj::new(o);
    j.with("paint", |o| w_paint(o, cx, s.paint()));
    j.num("opacity", s.opacity().get());
    j.num("width", s.width().get());
    j.num("miterlimit", s.miterlimit().get());
    j.dbg("linecap", &s.linecap());
    j.dbg("linejoin", &s.linejoin());
    j.num("dashoffset", s.dashoffset());
    j.opt("dasharray", s.dasharray(), |o, d| w_nums(o, d));
    j.opt("ctx", ctx_of(s), |o, s| o.push_str(&esc(&s)));
    j.end();
}

fn w_paint(o: &mut String, cx: &Cx, p: &Paint) {
    let mut j = Obj::new(o);
    match p {
        Paint::Color(c) => {
            j.str("k", "color");
            j.rgb("rgb", *c);
        }
        Paint::LinearGradient(g) => {
            j.str("k", "lg");
            j.int("ptr", ptr::<LinearGradient>(g));
            j.with("def", |o| w_lg(o, g));
        }
        Paint::RadialGradient(g) => {
            j.str("k", "rg");
            j.int("ptr", ptr::<RadialGradient>(g));
            j.with("def", |o| w_rg(o, g));
        }
        Paint::Pattern(p) => {
            j.str("k", "pattern");
            j.int("ptr", ptr::<Pattern>(p));
            j.with("def", |o| w_pattern(o, cx, p));
        }
    }
    j.end();
}

fn w_stops(o: &mut String, stops: &[Stop]) {
    w_arr(o, stops, |o, s| {
        let mut j = Obj::new(o);
        j.num("offset", s.offset().get());
        j.rgb("rgb", s.color());
        j.num("opacity", s.opacity().get());
        j.end();
    });
}

fn w_lg(o: &mut String, g: &LinearGradient) {
    let mut j = Obj::new(o);
    j.int("ptr", ptr(g));
    j.str("id", g.id());
    j.num("x1", g.x1());
    j.num("y1", g.y1());
    j.num("x2", g.x2());
    j.num("y2", g.y2());
    j.ts("ts", g.transform());
    j.dbg("spread", &g.spread_method());
    j.with("stops", |o| w_stops(o, g.stops()));
    j.end();
}

fn w_rg(o: &mut String, g: &RadialGradient) {
    let mut j = Obj::new(o);
    j.int("ptr", ptr(g));
    j.str("id", g.id());
    j.num("cx", g.cx());
    j.num("cy", g.cy());
    j.num("r", g.r().get());
    j.num("fx", g.fx());
    j.num("fy", g.fy());
    j.ts("ts", g.transform());
    j.dbg("spread", &g.spread_method());
    j.with("stops", |o| w_stops(o, g.stops()));
    j.end();
}

fn w_pattern(o: &mut String, cx: &Cx, p: &Pattern) {
    let mut j = Obj::new(o);
    j.int("ptr", ptr(p));
    j.str("id", p.id());
    j.ts("ts", p.transform());
    j.rect("rect", p.rect());
    j.with("root", |o| w_group(o, cx, p.root()));
    j.end();
}

// ---------------------------------------------------------------------------
// Text
// ---------------------------------------------------------------------------

fn w_decoration_style(o: &mut String, cx: &Cx, d: &TextDecorationStyle) {
    let mut j = Obj::new(o);
    j.opt("fill", d.fill(), |o, f| w_fill(o, cx, f));
    j.opt("stroke", d.stroke(), |o, s| w_stroke(o, cx, s));
    j.end();
}

fn w_text(o: &mut String, cx: &Cx, t: &Text, abs_lbbox: Option<NonZeroRect>) {
    let mut j = Obj::new(o);
    j.str("t", "text");
    j.str("id", t.id());
    j.ts("abs_ts", t.abs_transform());
    j.rect("bbox", t.bounding_box());
    j.rect("abs_bbox", t.abs_bounding_box());
    j.rect("sbbox", t.stroke_bounding_box());
    j.rect("abs_sbbox", t.abs_stroke_bounding_box());
    j.orect("abs_lbbox", abs_lbbox);
    j.dbg("rendering", &t.rendering_mode());
    j.nums("dx", t.dx());
    j.nums("dy", t.dy());
    j.nums("rotate", t.rotate());
    j.dbg("writing_mode", &t.writing_mode());
    j.arr("chunks", t.chunks(), |o, c| {
        let mut j = Obj::new(o);
        j.onum("x", c.x());
        j.onum("y", c.y());
        j.dbg("anchor", &c.anchor());
        j.str("text", c.text());
        j.arr("spans", c.spans(), |o, s| {
            let mut j = Obj::new(o);
            j.int("start", s.start());
            j.int("end", s.end());
            j.opt("fill", s.fill(), |o, f| w_fill(o, cx, f));
            j.opt("stroke", s.stroke(), |o, st| w_stroke(o, cx, st));
            j.num("font_size", s.font_size().get());
            j.bool("visible", s.is_visible());
            j.arr("families", s.font().families(), |o, f| {
                o.push_str(&esc(&format!("{:?}", f)))
            });
            // Extra public accessors.
            j.dbg("font_style", &s.font().style());
            j.dbg("font_stretch", &s.font().stretch());
            j.int("font_weight", s.font().weight());
            j.dbg("paint_order", &s.paint_order());
            j.bool("small_caps", s.small_caps());
            j.bool("apply_kerning", s.apply_kerning());
            j.with("decoration", |o| {
                let d = s.decoration();
                let mut j = Obj::new(o);
                j.opt("underline", d.underline(), |o, d| {
                    w_decoration_style(o, cx, d)
                });
                j.opt("overline", d.overline(), |o, d| {
                    w_decoration_style(o, cx, d)
                });
                j.opt("line_through", d.line_through(), |o, d| {
                    w_decoration_style(o, cx, d)
                });
                j.end();
            });
            j.dbg("dominant_baseline", &s.dominant_baseline());
            j.dbg("alignment_baseline", &s.alignment_baseline());
            j.arr("baseline_shift", s.baseline_shift(), |o, b| match b {
                usvg::BaselineShift::Number(n) => {
                    o.push_str("{\"Number\":");
                    o.push_str(&num(*n));
                    o.push('}');
                }
                other => o.push_str(&esc(&format!("{:?}", other))),
            });
            j.num("letter_spacing", s.letter_spacing());
            j.num("word_spacing", s.word_spacing());
            j.onum("text_length", s.text_length());
            j.dbg("length_adjust", &s.length_adjust());
            j.end();
        });
        match c.text_flow() {
            TextFlow::Linear => j.str("flow", "Linear"),
            TextFlow::Path(tp) => j.with("flow", |o| {
                let mut j = Obj::new(o);
                j.int("path_ptr", ptr::<usvg::TextPath>(&tp));
                j.str("id", tp.id());
                j.num("start_offset", tp.start_offset());
                w_segs(&mut j, tp.path());
                j.end();
            }),
        }
        j.end();
    });
    j.with("flattened", |o| w_group(o, cx, t.flattened()));
    // Extra public accessor: the positioned glyphs.
    j.arr("layouted", t.layouted(), |o, s| {
        let mut j = Obj::new(o);
        j.opt("fill", s.fill.as_ref(), |o, f| w_fill(o, cx, f));
        j.opt("stroke", s.stroke.as_ref(), |o, st| w_stroke(o, cx, st));
        j.dbg("paint_order", &s.paint_order);
        j.num("font_size", s.font_size.get());
        j.bool("visible", s.visible);
        j.arr("glyphs", &s.positioned_glyphs, |o, g| {
            let mut j = Obj::new(o);
            j.int("id", g.id.0);
            j.str("text", &g.text);
            j.str("font", &format!("{}", g.font));
            j.opt("face", cx.db.face(g.font), |o, f| {
                o.push_str(&esc(&f.post_script_name))
            });
            j.ts("ts", g.transform());
            j.ts("outline_ts", g.outline_transform());
            j.end();
        });
        let deco = |o: &mut String, p: &Path| {
            w_path(o, cx, p, p.abs_bounding_box().to_non_zero_rect())
        };
        j.opt("underline", s.underline.as_ref(), deco);
        j.opt("overline", s.overline.as_ref(), deco);
        j.opt("line_through", s.line_through.as_ref(), deco);
        j.end();
    });
    j.end();
}

// ---------------------------------------------------------------------------
// Filters
// ---------------------------------------------------------------------------

fn w_filter(o: &mut String, cx: &Cx, f: &filter::Filter) {
    let mut j = Obj::new(o);
    j.int("ptr", ptr(f));
    j.str("id", f.id());
    j.rect("rect", f.rect());
    j.arr("primitives", f.primitives(), |o, p| {
        let mut j = Obj::new(o);
        j.rect("rect", p.rect());
        j.dbg("ci", &p.color_interpolation());
        j.str("result", p.result());
        j.with("kind", |o| w_kind(o, cx, p.kind()));
        j.end();
    });
    j.end();
}

fn w_input(o: &mut String, i: &filter::Input) {
    match i {
        filter::Input::SourceGraphic => o.push_str("\"SourceGraphic\""),
        filter::Input::SourceAlpha => o.push_str("\"SourceAlpha\""),
        filter::Input::Reference(s) => {
            o.push_str("{\"ref\":");
            o.push_str(&esc(s));
            o.push('}');
        }
    }
}

fn w_tf(o: &mut String, f: &filter::TransferFunction) {
    use filter::TransferFunction as TF;
    let mut j = Obj::new(o);
    match f {
        TF::Identity => j.str("k", "Identity"),
        TF::Table(v) => {
            j.str("k", "Table");
            j.nums("v", v);
        }
        TF::Discrete(v) => {
            j.str("k", "Discrete");
            j.nums("v", v);
        }
        TF::Linear { slope, intercept } => {
            j.str("k", "Linear");
            j.num("slope", *slope);
            j.num("intercept", *intercept);
        }
        TF::Gamma {
            amplitude,
            exponent,
            offset,
        } => {
            j.str("k", "Gamma");
            j.num("amplitude", *amplitude);
            j.num("exponent", *exponent);
            j.num("offset", *offset);
        }
    }
    j.end();
}

fn w_light(o: &mut String, l: filter::LightSource) {
    let mut j = Obj::new(o);
    match l {
        filter::LightSource::DistantLight(l) => {
            j.str("k", "Distant");
            j.num("azimuth", l.azimuth);
            j.num("elevation", l.elevation);
        }
        filter::LightSource::PointLight(l) => {
            j.str("k", "Point");
            j.num("x", l.x);
            j.num("y", l.y);
            j.num("z", l.z);
        }
        filter::LightSource::SpotLight(l) => {
            j.str("k", "Spot");
            j.num("x", l.x);
            j.num("y", l.y);
            j.num("z", l.z);
            j.num("px", l.points_at_x);
            j.num("py", l.points_at_y);
            j.num("pz", l.points_at_z);
            j.num("exp", l.specular_exponent.get());
            j.onum("cone", l.limiting_cone_angle);
        }
    }
    j.end();
}

fn w_kind(o: &mut String, cx: &Cx, k: &filter::Kind) {
    use filter::Kind as K;
    let mut j = Obj::new(o);
    match k {
        K::Blend(fe) => {
            j.str("k", "Blend");
            j.with("in1", |o| w_input(o, fe.input1()));
            j.with("in2", |o| w_input(o, fe.input2()));
            j.dbg("mode", &fe.mode());
        }
        K::ColorMatrix(fe) => {
            j.str("k", "ColorMatrix");
            j.with("in", |o| w_input(o, fe.input()));
            j.with("kind", |o| {
                let mut j = Obj::new(o);
                match fe.kind() {
                    filter::ColorMatrixKind::Matrix(v) => {
                        j.str("k", "Matrix");
                        j.nums("values", v);
                    }
                    filter::ColorMatrixKind::Saturate(v) => {
                        j.str("k", "Saturate");
                        j.num("v", v.get());
                    }
                    filter::ColorMatrixKind::HueRotate(v) => {
                        j.str("k", "HueRotate");
                        j.num("v", *v);
                    }
                    filter::ColorMatrixKind::LuminanceToAlpha => {
                        j.str("k", "LuminanceToAlpha");
                    }
                }
                j.end();
            });
        }
        K::ComponentTransfer(fe) => {
            j.str("k", "ComponentTransfer");
            j.with("in", |o| w_input(o, fe.input()));
            j.with("r", |o| w_tf(o, fe.func_r()));
            j.with("g", |o| w_tf(o, fe.func_g()));
            j.with("b", |o| w_tf(o, fe.func_b()));
            j.with("a", |o| w_tf(o, fe.func_a()));
        }
        K::Composite(fe) => {
            j.str("k", "Composite");
            j.with("in1", |o| w_input(o, fe.input1()));
            j.with("in2", |o| w_input(o, fe.input2()));
            j.with("op", |o| match fe.operator() {
                filter::CompositeOperator::Arithmetic { k1, k2, k3, k4 } => {
                    o.push_str("{\"Arithmetic\":");
                    w_nums(o, &[k1, k2, k3, k4]);
                    o.push('}');
                }
                op => o.push_str(&esc(&format!("{:?}", op))),
            });
        }
        K::ConvolveMatrix(fe) => {
            j.str("k", "ConvolveMatrix");
            j.with("in", |o| w_input(o, fe.input()));
            let m = fe.matrix();
            j.int("cols", m.columns());
            j.int("rows", m.rows());
            j.int("target_x", m.target_x());
            j.int("target_y", m.target_y());
            j.nums("data", m.data());
            j.num("divisor", fe.divisor().get());
            j.num("bias", fe.bias());
            j.dbg("edge_mode", &fe.edge_mode());
            j.bool("preserve_alpha", fe.preserve_alpha());
        }
        K::DiffuseLighting(fe) => {
            j.str("k", "DiffuseLighting");
            j.with("in", |o| w_input(o, fe.input()));
            j.num("surface_scale", fe.surface_scale());
            j.num("diffuse_constant", fe.diffuse_constant());
            j.rgb("rgb", fe.lighting_color());
            j.with("light", |o| w_light(o, fe.light_source()));
        }
        K::DisplacementMap(fe) => {
            j.str("k", "DisplacementMap");
            j.with("in1", |o| w_input(o, fe.input1()));
            j.with("in2", |o| w_input(o, fe.input2()));
            j.num("scale", fe.scale());
            j.dbg("xch", &fe.x_channel_selector());
            j.dbg("ych", &fe.y_channel_selector());
        }
        K::DropShadow(fe) => {
            j.str("k", "DropShadow");
            j.with("in", |o| w_input(o, fe.input()));
            j.num("dx", fe.dx());
            j.num("dy", fe.dy());
            j.num("sx", fe.std_dev_x().get());
            j.num("sy", fe.std_dev_y().get());
            j.rgb("rgb", fe.color());
            j.num("opacity", fe.opacity().get());
        }
        K::Flood(fe) => {
            j.str("k", "Flood");
            j.rgb("rgb", fe.color());
            j.num("opacity", fe.opacity().get());
        }
        K::GaussianBlur(fe) => {
            j.str("k", "GaussianBlur");
            j.with("in", |o| w_input(o, fe.input()));
            j.num("sx", fe.std_dev_x().get());
            j.num("sy", fe.std_dev_y().get());
        }
        K::Image(fe) => {
            j.str("k", "Image");
            j.with("root", |o| w_group(o, cx, fe.root()));
        }
        K::Merge(fe) => {
            j.str("k", "Merge");
            j.arr("inputs", fe.inputs(), |o, i| w_input(o, i));
        }
        K::Morphology(fe) => {
            j.str("k", "Morphology");
            j.with("in", |o| w_input(o, fe.input()));
            j.dbg("op", &fe.operator());
            j.num("rx", fe.radius_x().get());
            j.num("ry", fe.radius_y().get());
        }
        K::Offset(fe) => {
            j.str("k", "Offset");
            j.with("in", |o| w_input(o, fe.input()));
            j.num("dx", fe.dx());
            j.num("dy", fe.dy());
        }
        K::SpecularLighting(fe) => {
            j.str("k", "SpecularLighting");
            j.with("in", |o| w_input(o, fe.input()));
            j.num("surface_scale", fe.surface_scale());
            j.num("specular_constant", fe.specular_constant());
            j.num("specular_exponent", fe.specular_exponent());
            j.rgb("rgb", fe.lighting_color());
            j.with("light", |o| w_light(o, fe.light_source()));
        }
        K::Tile(fe) => {
            j.str("k", "Tile");
            j.with("in", |o| w_input(o, fe.input()));
        }
        K::Turbulence(fe) => {
            j.str("k", "Turbulence");
            j.num("fx", fe.base_frequency_x().get());
            j.num("fy", fe.base_frequency_y().get());
            j.int("octaves", fe.num_octaves());
            j.int("seed", fe.seed());
            j.bool("stitch", fe.stitch_tiles());
            j.dbg("kind", &fe.kind());
        }
    }
    j.end();
}

#[cfg(test)]
mod tests {
    use super::{esc, num};

    #[test]
    fn esc_basic() {
        assert_eq!(esc("a\"b"), "\"a\\\"b\"");
        assert_eq!(esc("a\\b\n\t\u{1}é"), "\"a\\\\b\\n\\t\\u0001é\"");
    }

    #[test]
    fn num_basic() {
        assert_eq!(num(1.0), "1.0");
        assert_eq!(num(-0.0), "-0.0");
        assert_eq!(num(1e-7), "1.0000000116860974e-7");
        assert_eq!(num(1.1920929e-7), "1.1920928955078125e-7");
        assert_eq!(num(1152921504606846976.0), "1.152921504606847e18"); // 2^60
        assert_eq!(num(f32::MAX), "3.4028234663852886e38");
        assert_eq!(num(f32::INFINITY), "\"inf\"");
        assert_eq!(num(f32::NEG_INFINITY), "\"-inf\"");
        assert_eq!(num(f32::NAN), "\"nan\"");
        for x in [0.1f32, 1e-7, 1e20, f32::MAX, f32::MIN_POSITIVE, 1e-45] {
            assert_eq!(num(x).parse::<f64>().unwrap(), x as f64);
        }
    }
}
