(* C08  Write then parse preserves the rendering.
   Property theorems only.  The enum <-> string tables of BOTH the parser and the writer, the parser defaults and
   the constructor lists are in Gen/EnumTables.v, regenerated from /repo on every run (tools/gen_enums.py); the
   number formatting constants are in Gen/WriterNum.v (tools/gen_writer.py).  So a mis-spelt "bevel", a dropped arm
   or a changed elision default fails here with the constructor as witness.
   Tie: correspondence op `enum-rt` (real write + re-parse per enum value) and the round-trip rendering oracle. *)
From RV Require Import Gen.EnumTables.
From RV Require Import Gen.WriterNum.
From RV Require Import Model.WriteNum.
From RV Require Import Proofs.WriteNum.
From RV Require Import Gen.IdSites.
From RV Require Import Model.RoundTrip.
From RV Require Import Proofs.RoundTrip.
From RV Require Import Gen.ElisionTables.
From RV Require Import Model.Elision.
From RV Require Import Proofs.Elision.
From RV Require Import Gen.NumSites.
From RV Require Import Model.NumTrip.
From RV Require Import Proofs.NumTrip.
From RV Require Import Model.Tree.
From RV Require Import Model.Writer.
From RV Require Import Proofs.Collect.
From RV Require Import Proofs.DefsOnce.
From RV Require Import Gen.UnitsTables.
From RV Require Import Model.UnitsTrip.
From RV Require Import Proofs.UnitsTrip.
From RV Require Import Gen.TextGuards.
From RV Require Import Model.TextGuards.
From RV Require Import Proofs.TextGuards.
From RV Require Import Gen.StopSites.
From RV Require Import Model.Stops.
From RV Require Import Proofs.Stops.
From Coq Require Import String List Bool ZArith QArith Qabs.
Import ListNotations.
Local Open Scope string_scope.

(* ---- LineCap: what the writer emits parses back to the same constructor ... *)
Theorem C08_enum_roundtrip_LineCap : forall v s, write_LineCap v = Some s -> parse_LineCap s = Some v.
Proof. intros v s H; destruct v; inversion H; subst; reflexivity. Qed.
Print Assumptions C08_enum_roundtrip_LineCap.
(* ... and a constructor for which nothing is written is what the parser assumes when the attribute is absent *)
Theorem C08_elision_sound_LineCap : forall v, write_LineCap v = None -> default_LineCap = v.
Proof. intros v H; destruct v; try discriminate H; reflexivity. Qed.
Print Assumptions C08_elision_sound_LineCap.

(* ---- LineJoin: what the writer emits parses back to the same constructor ... *)
Theorem C08_enum_roundtrip_LineJoin : forall v s, write_LineJoin v = Some s -> parse_LineJoin s = Some v.
Proof. intros v s H; destruct v; inversion H; subst; reflexivity. Qed.
Print Assumptions C08_enum_roundtrip_LineJoin.
(* ... and a constructor for which nothing is written is what the parser assumes when the attribute is absent *)
Theorem C08_elision_sound_LineJoin : forall v, write_LineJoin v = None -> default_LineJoin = v.
Proof. intros v H; destruct v; try discriminate H; reflexivity. Qed.
Print Assumptions C08_elision_sound_LineJoin.

(* ---- FillRule: what the writer emits parses back to the same constructor ... *)
Theorem C08_enum_roundtrip_FillRule : forall v s, write_FillRule v = Some s -> parse_FillRule s = Some v.
Proof. intros v s H; destruct v; inversion H; subst; reflexivity. Qed.
Print Assumptions C08_enum_roundtrip_FillRule.
(* ... and a constructor for which nothing is written is what the parser assumes when the attribute is absent *)
Theorem C08_elision_sound_FillRule : forall v, write_FillRule v = None -> default_FillRule = v.
Proof. intros v H; destruct v; try discriminate H; reflexivity. Qed.
Print Assumptions C08_elision_sound_FillRule.

(* ---- SpreadMethod: what the writer emits parses back to the same constructor ... *)
Theorem C08_enum_roundtrip_SpreadMethod : forall v s, write_SpreadMethod v = Some s -> parse_SpreadMethod s = Some v.
Proof. intros v s H; destruct v; inversion H; subst; reflexivity. Qed.
Print Assumptions C08_enum_roundtrip_SpreadMethod.
(* ... and a constructor for which nothing is written is what the parser assumes when the attribute is absent *)
Theorem C08_elision_sound_SpreadMethod : forall v, write_SpreadMethod v = None -> default_SpreadMethod = v.
Proof. intros v H; destruct v; try discriminate H; reflexivity. Qed.
Print Assumptions C08_elision_sound_SpreadMethod.

(* ---- Units: what the writer emits parses back to the same constructor ... *)
Theorem C08_enum_roundtrip_Units : forall v s, write_Units v = Some s -> parse_Units s = Some v.
Proof. intros v s H; destruct v; inversion H; subst; reflexivity. Qed.
Print Assumptions C08_enum_roundtrip_Units.
(* ... and a constructor for which nothing is written is what the parser assumes when the attribute is absent *)
Theorem C08_elision_sound_Units : forall v, write_Units v = None -> default_Units = v.
Proof. intros v H; destruct v; try discriminate H; reflexivity. Qed.
Print Assumptions C08_elision_sound_Units.

(* ---- BlendMode: what the writer emits parses back to the same constructor ... *)
Theorem C08_enum_roundtrip_BlendMode : forall v s, write_BlendMode v = Some s -> parse_BlendMode s = Some v.
Proof. intros v s H; destruct v; inversion H; subst; reflexivity. Qed.
Print Assumptions C08_enum_roundtrip_BlendMode.
(* ... and a constructor for which nothing is written is what the parser assumes when the attribute is absent *)
Theorem C08_elision_sound_BlendMode : forall v, write_BlendMode v = None -> default_BlendMode = v.
Proof. intros v H; destruct v; try discriminate H; reflexivity. Qed.
Print Assumptions C08_elision_sound_BlendMode.

(* ---- ShapeRendering: what the writer emits parses back to the same constructor ... *)
Theorem C08_enum_roundtrip_ShapeRendering : forall v s, write_ShapeRendering v = Some s -> parse_ShapeRendering s = Some v.
Proof. intros v s H; destruct v; inversion H; subst; reflexivity. Qed.
Print Assumptions C08_enum_roundtrip_ShapeRendering.
(* ... and a constructor for which nothing is written is what the parser assumes when the attribute is absent *)
Theorem C08_elision_sound_ShapeRendering : forall v, write_ShapeRendering v = None -> default_ShapeRendering = v.
Proof. intros v H; destruct v; try discriminate H; reflexivity. Qed.
Print Assumptions C08_elision_sound_ShapeRendering.

(* ---- TextRendering: what the writer emits parses back to the same constructor ... *)
Theorem C08_enum_roundtrip_TextRendering : forall v s, write_TextRendering v = Some s -> parse_TextRendering s = Some v.
Proof. intros v s H; destruct v; inversion H; subst; reflexivity. Qed.
Print Assumptions C08_enum_roundtrip_TextRendering.
(* ... and a constructor for which nothing is written is what the parser assumes when the attribute is absent *)
Theorem C08_elision_sound_TextRendering : forall v, write_TextRendering v = None -> default_TextRendering = v.
Proof. intros v H; destruct v; try discriminate H; reflexivity. Qed.
Print Assumptions C08_elision_sound_TextRendering.

(* ---- ImageRendering: what the writer emits parses back to the same constructor ... *)
Theorem C08_enum_roundtrip_ImageRendering : forall v s, write_ImageRendering v = Some s -> parse_ImageRendering s = Some v.
Proof. intros v s H; destruct v; inversion H; subst; reflexivity. Qed.
Print Assumptions C08_enum_roundtrip_ImageRendering.
(* ... and a constructor for which nothing is written is what the parser assumes when the attribute is absent *)
Theorem C08_elision_sound_ImageRendering : forall v, write_ImageRendering v = None -> default_ImageRendering = v.
Proof. intros v H; destruct v; try discriminate H; reflexivity. Qed.
Print Assumptions C08_elision_sound_ImageRendering.

(* ---- TextAnchor: what the writer emits parses back to the same constructor ... *)
Theorem C08_enum_roundtrip_TextAnchor : forall v s, write_TextAnchor v = Some s -> parse_TextAnchor s = Some v.
Proof. intros v s H; destruct v; inversion H; subst; reflexivity. Qed.
Print Assumptions C08_enum_roundtrip_TextAnchor.
(* ... and a constructor for which nothing is written is what the parser assumes when the attribute is absent *)
Theorem C08_elision_sound_TextAnchor : forall v, write_TextAnchor v = None -> default_TextAnchor = v.
Proof. intros v H; destruct v; try discriminate H; reflexivity. Qed.
Print Assumptions C08_elision_sound_TextAnchor.

(* ---- FontStyle: what the writer emits parses back to the same constructor ... *)
Theorem C08_enum_roundtrip_FontStyle : forall v s, write_FontStyle v = Some s -> parse_FontStyle s = Some v.
Proof. intros v s H; destruct v; inversion H; subst; reflexivity. Qed.
Print Assumptions C08_enum_roundtrip_FontStyle.
(* ... and a constructor for which nothing is written is what the parser assumes when the attribute is absent *)
Theorem C08_elision_sound_FontStyle : forall v, write_FontStyle v = None -> default_FontStyle = v.
Proof. intros v H; destruct v; try discriminate H; reflexivity. Qed.
Print Assumptions C08_elision_sound_FontStyle.

(* ---- FontStretch: what the writer emits parses back to the same constructor ... *)
Theorem C08_enum_roundtrip_FontStretch : forall v s, write_FontStretch v = Some s -> parse_FontStretch s = Some v.
Proof. intros v s H; destruct v; inversion H; subst; reflexivity. Qed.
Print Assumptions C08_enum_roundtrip_FontStretch.
(* ... and a constructor for which nothing is written is what the parser assumes when the attribute is absent *)
Theorem C08_elision_sound_FontStretch : forall v, write_FontStretch v = None -> default_FontStretch = v.
Proof. intros v H; destruct v; try discriminate H; reflexivity. Qed.
Print Assumptions C08_elision_sound_FontStretch.

(* ---- DominantBaseline: what the writer emits parses back to the same constructor ... *)
Theorem C08_enum_roundtrip_DominantBaseline : forall v s, write_DominantBaseline v = Some s -> parse_DominantBaseline s = Some v.
Proof. intros v s H; destruct v; inversion H; subst; reflexivity. Qed.
Print Assumptions C08_enum_roundtrip_DominantBaseline.
(* ... and a constructor for which nothing is written is what the parser assumes when the attribute is absent *)
Theorem C08_elision_sound_DominantBaseline : forall v, write_DominantBaseline v = None -> default_DominantBaseline = v.
Proof. intros v H; destruct v; try discriminate H; reflexivity. Qed.
Print Assumptions C08_elision_sound_DominantBaseline.

(* ---- AlignmentBaseline: what the writer emits parses back to the same constructor ... *)
Theorem C08_enum_roundtrip_AlignmentBaseline : forall v s, write_AlignmentBaseline v = Some s -> parse_AlignmentBaseline s = Some v.
Proof. intros v s H; destruct v; inversion H; subst; reflexivity. Qed.
Print Assumptions C08_enum_roundtrip_AlignmentBaseline.
(* ... and a constructor for which nothing is written is what the parser assumes when the attribute is absent *)
Theorem C08_elision_sound_AlignmentBaseline : forall v, write_AlignmentBaseline v = None -> default_AlignmentBaseline = v.
Proof. intros v H; destruct v; try discriminate H; reflexivity. Qed.
Print Assumptions C08_elision_sound_AlignmentBaseline.

(* ---- LengthAdjust: what the writer emits parses back to the same constructor ... *)
Theorem C08_enum_roundtrip_LengthAdjust : forall v s, write_LengthAdjust v = Some s -> parse_LengthAdjust s = Some v.
Proof. intros v s H; destruct v; inversion H; subst; reflexivity. Qed.
Print Assumptions C08_enum_roundtrip_LengthAdjust.
(* ... and a constructor for which nothing is written is what the parser assumes when the attribute is absent *)
Theorem C08_elision_sound_LengthAdjust : forall v, write_LengthAdjust v = None -> default_LengthAdjust = v.
Proof. intros v H; destruct v; try discriminate H; reflexivity. Qed.
Print Assumptions C08_elision_sound_LengthAdjust.

(* ---- ColorInterpolation: what the writer emits parses back to the same constructor ... *)
Theorem C08_enum_roundtrip_ColorInterpolation : forall v s, write_ColorInterpolation v = Some s -> parse_ColorInterpolation s = Some v.
Proof. intros v s H; destruct v; inversion H; subst; reflexivity. Qed.
Print Assumptions C08_enum_roundtrip_ColorInterpolation.
(* ... and a constructor for which nothing is written is what the parser assumes when the attribute is absent *)
Theorem C08_elision_sound_ColorInterpolation : forall v, write_ColorInterpolation v = None -> default_ColorInterpolation = v.
Proof. intros v H; destruct v; try discriminate H; reflexivity. Qed.
Print Assumptions C08_elision_sound_ColorInterpolation.

(* ---- CompositeOperator: what the writer emits parses back to the same constructor ... *)
Theorem C08_enum_roundtrip_CompositeOperator : forall v s, write_CompositeOperator v = Some s -> parse_CompositeOperator s = Some v.
Proof. intros v s H; destruct v; inversion H; subst; reflexivity. Qed.
Print Assumptions C08_enum_roundtrip_CompositeOperator.
(* ... and a constructor for which nothing is written is what the parser assumes when the attribute is absent *)
Theorem C08_elision_sound_CompositeOperator : forall v, write_CompositeOperator v = None -> default_CompositeOperator = v.
Proof. intros v H; destruct v; try discriminate H; reflexivity. Qed.
Print Assumptions C08_elision_sound_CompositeOperator.

(* ---- EdgeMode: what the writer emits parses back to the same constructor ... *)
Theorem C08_enum_roundtrip_EdgeMode : forall v s, write_EdgeMode v = Some s -> parse_EdgeMode s = Some v.
Proof. intros v s H; destruct v; inversion H; subst; reflexivity. Qed.
Print Assumptions C08_enum_roundtrip_EdgeMode.
(* ... and a constructor for which nothing is written is what the parser assumes when the attribute is absent *)
Theorem C08_elision_sound_EdgeMode : forall v, write_EdgeMode v = None -> default_EdgeMode = v.
Proof. intros v H; destruct v; try discriminate H; reflexivity. Qed.
Print Assumptions C08_elision_sound_EdgeMode.

(* ---- ColorChannel: what the writer emits parses back to the same constructor ... *)
Theorem C08_enum_roundtrip_ColorChannel : forall v s, write_ColorChannel v = Some s -> parse_ColorChannel s = Some v.
Proof. intros v s H; destruct v; inversion H; subst; reflexivity. Qed.
Print Assumptions C08_enum_roundtrip_ColorChannel.
(* ... and a constructor for which nothing is written is what the parser assumes when the attribute is absent *)
Theorem C08_elision_sound_ColorChannel : forall v, write_ColorChannel v = None -> default_ColorChannel = v.
Proof. intros v H; destruct v; try discriminate H; reflexivity. Qed.
Print Assumptions C08_elision_sound_ColorChannel.

(* ---- MorphologyOperator: what the writer emits parses back to the same constructor ... *)
Theorem C08_enum_roundtrip_MorphologyOperator : forall v s, write_MorphologyOperator v = Some s -> parse_MorphologyOperator s = Some v.
Proof. intros v s H; destruct v; inversion H; subst; reflexivity. Qed.
Print Assumptions C08_enum_roundtrip_MorphologyOperator.
(* ... and a constructor for which nothing is written is what the parser assumes when the attribute is absent *)
Theorem C08_elision_sound_MorphologyOperator : forall v, write_MorphologyOperator v = None -> default_MorphologyOperator = v.
Proof. intros v H; destruct v; try discriminate H; reflexivity. Qed.
Print Assumptions C08_elision_sound_MorphologyOperator.

(* ---- TurbulenceKind: what the writer emits parses back to the same constructor ... *)
Theorem C08_enum_roundtrip_TurbulenceKind : forall v s, write_TurbulenceKind v = Some s -> parse_TurbulenceKind s = Some v.
Proof. intros v s H; destruct v; inversion H; subst; reflexivity. Qed.
Print Assumptions C08_enum_roundtrip_TurbulenceKind.
(* ... and a constructor for which nothing is written is what the parser assumes when the attribute is absent *)
Theorem C08_elision_sound_TurbulenceKind : forall v, write_TurbulenceKind v = None -> default_TurbulenceKind = v.
Proof. intros v H; destruct v; try discriminate H; reflexivity. Qed.
Print Assumptions C08_elision_sound_TurbulenceKind.

(* ---- MaskType: what the writer emits parses back to the same constructor ... *)
Theorem C08_enum_roundtrip_MaskType : forall v s, write_MaskType v = Some s -> parse_MaskType s = Some v.
Proof. intros v s H; destruct v; inversion H; subst; reflexivity. Qed.
Print Assumptions C08_enum_roundtrip_MaskType.
(* ... and a constructor for which nothing is written is what the parser assumes when the attribute is absent *)
Theorem C08_elision_sound_MaskType : forall v, write_MaskType v = None -> default_MaskType = v.
Proof. intros v H; destruct v; try discriminate H; reflexivity. Qed.
Print Assumptions C08_elision_sound_MaskType.

(* ---- WritingMode: what the writer emits parses back to the same constructor ... *)
Theorem C08_enum_roundtrip_WritingMode : forall v s, write_WritingMode v = Some s -> parse_WritingMode s = Some v.
Proof. intros v s H; destruct v; inversion H; subst; reflexivity. Qed.
Print Assumptions C08_enum_roundtrip_WritingMode.
(* ... and a constructor for which nothing is written is what the parser assumes when the attribute is absent *)
Theorem C08_elision_sound_WritingMode : forall v, write_WritingMode v = None -> default_WritingMode = v.
Proof. intros v H; destruct v; try discriminate H; reflexivity. Qed.
Print Assumptions C08_elision_sound_WritingMode.

(* ---- every table the generator found (also the ones not listed above), including second spellings *)
Theorem C08_all_enum_tables : forallb (fun b => b) enum_checks = true.
Proof. vm_compute. reflexivity. Qed.
Print Assumptions C08_all_enum_tables.

(* ---- numbers: |write_num p x - x| <= 1 / (2 * 10^min(p,12)) for every precision a u8 can hold and EVERY finite x
   (integral values of any magnitude are written exactly: F13 fixed) *)
Theorem C08_num_error : forall p x v,
  (0 <= p <= 255)%Z -> write_num p x = WOk v ->
  exists pw, nth_error pow_vec (Z.to_nat (pow_index p)) = Some pw /\ (Qabs (v - x) <= 1 / (2 * inject_Z pw))%Q.
Proof. intros p x v [H _]. apply write_num_error. exact H. Qed.
Print Assumptions C08_num_error.

Theorem C08_pow_vec_is_powers_of_ten : pow_vec = map (fun i => (10 ^ Z.of_nat i)%Z) (seq 0 (length pow_vec)).
Proof. exact pow_vec_is_powers. Qed.
Print Assumptions C08_pow_vec_is_powers_of_ten.

(* default precision 8: the error is at most 5e-9 *)
Theorem C08_num_error_default : forall x v, write_num 8 x = WOk v -> (Qabs (v - x) <= 1 # 200000000)%Q.
Proof.
  intros x v H. destruct (write_num_error 8 x v) as (pw & E & B); [discriminate|exact H|].
  vm_compute in E. inversion E; subst pw. exact B.
Qed.
Print Assumptions C08_num_error_default.

(* ---- ids: every site of writer.rs that writes an id or a reference (Gen/IdSites.v: 13 definition sites incl. the text-path
   paths of write_text_path_paths followed through Path::new into write_path, 11 reference sites) writes the prefix exactly
   once, for EVERY prefix and EVERY id *)
Theorem C08_id_prefixed_once : forall lab k toks,
  In (lab, k, toks) id_sites -> forall prefix id, emit prefix id toks = expected k prefix id.
Proof. exact id_sites_prefixed_once. Qed.
Print Assumptions C08_id_prefixed_once.

(* ... so what the parser extracts from any written reference is what any definition site writes for the same tree id *)
Theorem C08_written_refs_resolve : forall lr kr tr ld td,
  In (lr, kr, tr) id_sites -> kr <> SDef -> In (ld, SDef, td) id_sites ->
  forall prefix id, clean (prefix ++ id) = true ->
  link_target kr (emit prefix id tr) = Some (emit prefix id td).
Proof. exact refs_resolve. Qed.
Print Assumptions C08_written_refs_resolve.

Theorem C08_written_href_resolves : forall lr tr ld td,
  In (lr, SHref, tr) id_sites -> In (ld, SDef, td) id_sites ->
  forall prefix id, parse_href (emit prefix id tr) = Some (emit prefix id td).
Proof. exact href_resolves. Qed.
Print Assumptions C08_written_href_resolves.

(* ... and distinct tree ids stay distinct *)
Theorem C08_written_ids_injective : forall l1 t1 l2 t2,
  In (l1, SDef, t1) id_sites -> In (l2, SDef, t2) id_sites ->
  forall prefix i j, emit prefix i t1 = emit prefix j t2 -> i = j.
Proof. exact written_ids_injective. Qed.
Print Assumptions C08_written_ids_injective.

Theorem C08_id_without_prefix : forall id, emit "" id id_attr_no_prefix = id.
Proof. exact no_prefix_branch. Qed.
Print Assumptions C08_id_without_prefix.

(* ---- conditionally written numeric attributes (Gen/ElisionTables.v: startOffset, opacity, stop-/fill-/stroke-opacity,
   stroke-dashoffset, stroke-miterlimit, stroke-width, font-weight, letter-/word-spacing): whenever the writer's condition
   (as written in writer.rs) lets the attribute out, the value is - within the tolerance of the writer's own comparison -
   the one the PARSER assumes for the absent attribute, for EVERY value.  A condition with an extra conjunct
   (`linejoin == Miter && ..`, seeded C08-13) has no `written` case and fails here. *)
Theorem C08_elision_numeric_sound : forall name c d v,
  In (name, c, d) elision_sites -> written c v = false ->
  exists d0, d = Some d0 /\ (Qabs (v - d0) <= tol c)%Q.
Proof. exact elision_numeric_sound. Qed.
Print Assumptions C08_elision_numeric_sound.

Theorem C08_elision_exact_sound : forall name c0 d v,
  In (name, CNe c0, d) elision_sites -> written (CNe c0) v = false -> exists d0, d = Some d0 /\ (v == d0)%Q.
Proof. exact elision_exact_sound. Qed.
Print Assumptions C08_elision_exact_sound.

(* ---- numbers, lifted (second pass).  Sites: Gen/NumSites.v = every write_num call of writer.rs (6 in write_transform, 20 in the path data;
   any other call, a coordinate printed otherwise, or another precision option is a broken tie).  The written order / letters / arities are
   what the reading side expects: *)
Theorem C08_num_sites_match_reader : chk_num_sites = true.
Proof. exact num_sites_ok. Qed.
Print Assumptions C08_num_sites_match_reader.

(* the "second round trip changes nothing further" clause for numbers: writing an already written value gives the same value,
   EVERY finite x, EVERY precision *)
Theorem C08_write_num_idempotent : forall p x v,
  (0 <= p)%Z -> write_num p x = WOk v -> exists v', write_num p v = WOk v' /\ (v' == v)%Q.
Proof. exact write_num_idempotent. Qed.
Print Assumptions C08_write_num_idempotent.

(* lists of numbers: total, each entry within 1 / (2 * 10^min(p,12)), idempotent *)
Theorem C08_nums_total : forall p l, (0 <= p)%Z -> exists vs, write_nums p l = Some vs.
Proof. exact write_nums_total. Qed.
Print Assumptions C08_nums_total.
Theorem C08_nums_error : forall p l vs,
  (0 <= p)%Z -> write_nums p l = Some vs ->
  exists pw, nth_error pow_vec (Z.to_nat (pow_index p)) = Some pw /\
             Forall2 (fun x v => Qabs (v - x) <= 1 / (2 * inject_Z pw))%Q l vs.
Proof. exact write_nums_error. Qed.
Print Assumptions C08_nums_error.
Theorem C08_nums_idempotent : forall p l vs,
  (0 <= p)%Z -> write_nums p l = Some vs -> exists vs', write_nums p vs = Some vs' /\ Forall2 Qeq vs' vs.
Proof. exact write_nums_idempotent. Qed.
Print Assumptions C08_nums_idempotent.

(* transforms: what the parser reads (the identity for the elided attribute) is within the bound in all six entries *)
Theorem C08_transform_roundtrip : forall p ts w,
  (0 <= p)%Z -> write_transform p ts = Some w ->
  exists pw, nth_error pow_vec (Z.to_nat (pow_index p)) = Some pw /\
             Forall2 (fun x v => Qabs (v - x) <= 1 / (2 * inject_Z pw))%Q ts (read_transform w).
Proof. exact write_transform_error. Qed.
Print Assumptions C08_transform_roundtrip.
Theorem C08_transform_total : forall p ts, (0 <= p)%Z -> exists w, write_transform p ts = Some w.
Proof. exact write_transform_total. Qed.
Print Assumptions C08_transform_total.

(* path data of any length: same segment kinds in the same order, every coordinate within the bound; and idempotent *)
Theorem C08_path_data_roundtrip : forall p l out,
  (0 <= p)%Z -> write_segs p l = Some out ->
  exists pw, nth_error pow_vec (Z.to_nat (pow_index p)) = Some pw /\
             Forall2 (fun a b => fst a = fst b /\ Forall2 (fun x v => Qabs (v - x) <= 1 / (2 * inject_Z pw))%Q (snd a) (snd b)) l out.
Proof. exact write_segs_error. Qed.
Print Assumptions C08_path_data_roundtrip.
Theorem C08_path_data_idempotent : forall p l out,
  (0 <= p)%Z -> write_segs p l = Some out ->
  exists out', write_segs p out = Some out' /\ Forall2 (fun a b => fst a = fst b /\ Forall2 Qeq (snd a) (snd b)) out' out.
Proof. exact write_segs_idempotent. Qed.
Print Assumptions C08_path_data_idempotent.
Theorem C08_path_data_total : forall p l, (0 <= p)%Z -> exists out, write_segs p l = Some out.
Proof. exact write_segs_total. Qed.
Print Assumptions C08_path_data_total.

(* ---- <defs> completeness for the round trip (corollary of C05_collect_complete / C05_collect_nodup over C07's writer model, both read-only):
   every mask / clip path / pattern / gradient found by the field-by-field enumeration of the tree - at ANY position of a mask -> mask or
   clip -> clip chain, inside pattern content, feImage sub-trees, mask / clip content, nested images, flattened text; no bound on chain length
   or nesting (seeded C08-12) - is held exactly once by its collection and write_defs writes its element. *)
Theorem C08_mask_written_once : forall o root m,
  In m (reach_masks root) ->
  count_occ N.eq_dec (map m_ptr (t_masks (with_collections root))) (m_ptr m) = 1%nat /\
  exists m', m_ptr m' = m_ptr m /\ In m' (t_masks (with_collections root)) /\ In (write_mask o m') (write_defs o (with_collections root)).
Proof. exact mask_written_once. Qed.
Print Assumptions C08_mask_written_once.
Theorem C08_mask_chain_reached : forall root g m0 m,
  In (NGroup g) (all_group root) -> g_mask g = Some m0 -> In m (mask_chain m0) -> In m (reach_masks root).
Proof. exact mask_chain_reached. Qed.
Print Assumptions C08_mask_chain_reached.
Theorem C08_clip_written_once : forall o root c,
  In c (reach_clips root) ->
  count_occ N.eq_dec (map c_ptr (t_clips (with_collections root))) (c_ptr c) = 1%nat /\
  exists c', c_ptr c' = c_ptr c /\ In c' (t_clips (with_collections root)) /\ In (write_clip o c') (write_defs o (with_collections root)).
Proof. exact clip_written_once. Qed.
Print Assumptions C08_clip_written_once.
Theorem C08_clip_chain_reached : forall root g c0 c,
  In (NGroup g) (all_group root) -> g_clip g = Some c0 -> In c (clip_chain c0) -> In c (reach_clips root).
Proof. exact clip_chain_reached. Qed.
Print Assumptions C08_clip_chain_reached.
Theorem C08_pattern_written_once : forall o root p,
  In p (reach_paints root) -> is_pat p = true ->
  count_occ N.eq_dec (map pa_ptr (t_pats (with_collections root))) (pa_ptr p) = 1%nat /\
  exists p', pa_ptr p' = pa_ptr p /\ In p' (t_pats (with_collections root)) /\ In (write_pat o p') (write_defs o (with_collections root)).
Proof. exact pattern_written_once. Qed.
Print Assumptions C08_pattern_written_once.
Theorem C08_gradient_written_once : forall o root p,
  In p (reach_paints root) ->
  (is_lin p = true -> count_occ N.eq_dec (map pa_ptr (t_lins (with_collections root))) (pa_ptr p) = 1%nat /\
      exists p', pa_ptr p' = pa_ptr p /\ In (write_lin o p') (write_defs o (with_collections root))) /\
  (is_rad p = true -> count_occ N.eq_dec (map pa_ptr (t_rads (with_collections root))) (pa_ptr p) = 1%nat /\
      exists p', pa_ptr p' = pa_ptr p /\ In (write_rad o p') (write_defs o (with_collections root))).
Proof. exact gradient_written_once. Qed.
Print Assumptions C08_gradient_written_once.
Theorem C08_filter_collected_once : forall root f,
  In f (reach_filters root) ->
  count_occ N.eq_dec (map f_ptr (t_filts (with_collections root))) (f_ptr f) = 1%nat /\
  exists f', f_ptr f' = f_ptr f /\ In f' (t_filts (with_collections root)).
Proof. exact filter_collected_once. Qed.
Print Assumptions C08_filter_collected_once.

(* ---- enum families without a tree-level table: *Units (per attribute: the writer's `def` / constant against the parser's default for the
   absent attribute, keyword tables of both sides) and visibility (bool in the tree, keywords in the parser): Gen/UnitsTables.v *)
Theorem C08_units_roundtrip : forall a c wdef pdef u,
  In (a, c, wdef, pdef) units_sites -> In u (site_values (a, c, wdef, pdef)) ->
  read_units (write_units u wdef) pdef = Some u.
Proof. exact units_roundtrip. Qed.
Print Assumptions C08_units_roundtrip.
Theorem C08_units_all_complete : forall u, In u units_all.
Proof. exact units_all_complete. Qed.
Print Assumptions C08_units_all_complete.
Theorem C08_visibility_roundtrip : forall b, read_visible (write_visibility b) = Some b.
Proof. exact visibility_roundtrip. Qed.
Print Assumptions C08_visibility_roundtrip.

(* ---- attributes of preserved text: the conditions around each write (Gen/TextGuards.v, 26 sites of the Node::Text arm and write_span)
   are only the attribute's own; for text-anchor, spelled out: for EVERY chunk shape (explicit x or not, explicit y or not, on a text
   path or not) and every anchor, what is written - or elided - reads back as the same anchor (seeded C08-16: the write nested under
   `if let Some(x) = chunk.x` fails both) *)
Theorem C08_text_anchor_every_chunk_shape : forall sh v, anchor_read (anchor_written sh v) = Some v.
Proof. exact text_anchor_roundtrip. Qed.
Print Assumptions C08_text_anchor_every_chunk_shape.
Theorem C08_text_attr_guards_own : forall a gs, In (a, gs) guard_sites -> gs = [].
Proof. exact no_foreign_guards. Qed.
Print Assumptions C08_text_attr_guards_own.

(* ---- gradient stops: the stop loop of write_base_grad (Gen/StopSites.v) has nothing that skips or ends an iteration and writes offset,
   colour and (elided at 1) opacity: every stop of the tree is written, in order, and reads back as itself - ALL stop lists, in particular
   consecutive stops of one colour (seeded C08-17) *)
Theorem C08_stops_roundtrip : forall l, Forall2 stop_eq (map read_stop (write_stops l)) l.
Proof. exact stops_roundtrip. Qed.
Print Assumptions C08_stops_roundtrip.
Theorem C08_stops_count : forall l, length (write_stops l) = length l.
Proof. exact stops_count. Qed.
Print Assumptions C08_stops_count.
Theorem C08_stop_fields : chk_stop_fields = true.
Proof. exact stop_fields_ok. Qed.
Print Assumptions C08_stop_fields.

(* ---- non-vacuity *)
Example C08_nv_linejoin : write_LineJoin LineJoin_Bevel = Some "bevel" /\ parse_LineJoin "bevel" = Some LineJoin_Bevel /\
                          write_LineJoin LineJoin_Miter = None /\ default_LineJoin = LineJoin_Miter.
Proof. repeat split; reflexivity. Qed.
Example C08_nv_id_sites : (11 <=? length (filter is_def id_sites))%nat = true /\ (11 <=? length (filter (fun s => negb (is_def s)) id_sites))%nat = true /\
                          expected SDef "doc1-" "curve" = "doc1-curve" /\ link_target SHref (expected SHref "doc1-" "curve") = Some "doc1-curve" /\
                          link_target SIri (expected SIri "doc1-" "g1") = Some "doc1-g1" /\
                          emit "doc1-" "curve" [KPrefix; KPrefix; KRaw] <> expected SDef "doc1-" "curve".
Proof. repeat split; try (vm_compute; reflexivity). vm_compute. discriminate. Qed.
Example C08_nv_elision : (11 <=? length elision_sites)%nat = true /\
                         written (CApprox 4 4) 4 = false /\ written (CApprox 4 4) (401 # 100) = true /\ written (CNe 1) (1 # 2) = true /\
                         written (COther "stroke.linejoin == LineJoin::Miter && !stroke.miterlimit.is_default()") 10 = false /\
                         (tol (CApprox 4 4) <= 1 # 200000)%Q.
Proof. repeat split; vm_compute; try reflexivity; discriminate. Qed.
Example C08_nv_numtrip : write_num 3 (20005 # 10000) = WOk (inject_Z 2001 / inject_Z 1000) /\
                         write_num 3 (inject_Z 2001 / inject_Z 1000) = WOk (inject_Z 2001 / inject_Z 1000) /\
                         write_transform 8 [1; 0; 0; 1; 0; 0]%Q = Some None /\
                         write_segs 0 [(0%nat, [3 # 2; 1 # 3]%Q); (4%nat, [])] = Some [(0%nat, [inject_Z 2 / inject_Z 1; inject_Z 0 / inject_Z 1]%Q); (4%nat, [])].
Proof. repeat split; vm_compute; reflexivity. Qed.
(* a mask -> mask -> mask chain on a group inside the content of a pattern: the innermost mask is reached *)
Example C08_nv_mask_chain :
  let m3 := MD 3 13 None (G 0 false None None [] []) in
  let m2 := MD 2 12 (Some m3) (G 0 false None None [] []) in
  let m1 := MD 1 11 (Some m2) (G 0 false None None [] []) in
  let inner := G 0 false None (Some m1) [] [NPath 0 true PColor PNone] in
  let root := G 0 false None None [] [NPath 0 true (PPat 9 19 (G 0 false None None [] [NGroup inner])) PNone] in
  In m3 (reach_masks root) /\ map m_ptr (t_masks (with_collections root)) = [1; 2; 3]%N.
Proof. vm_compute. split; [auto 10|reflexivity]. Qed.
Example C08_nv_units : (5 <=? length units_sites)%nat = true /\ write_units U_UserSpaceOnUse U_ObjectBoundingBox = Some "userSpaceOnUse" /\
                       write_units U_ObjectBoundingBox U_ObjectBoundingBox = None /\ read_units None U_UserSpaceOnUse <> Some U_ObjectBoundingBox.
Proof. repeat split; try (vm_compute; reflexivity). vm_compute. discriminate. Qed.
Example C08_nv_text_guards : (20 <=? length guard_sites)%nat = true /\ length all_shapes = 8%nat /\
                             guard_holds {| has_x := false; has_y := true; on_path := false |} "if let Some(x) = chunk.x" = false /\
                             anchor_written {| has_x := false; has_y := true; on_path := true |} TextAnchor_End = Some "end".
Proof. repeat split; vm_compute; reflexivity. Qed.
Example C08_nv_stops : map read_stop (write_stops [(0, 255%N, 1); (3 # 5, 255%N, 1); (1, 16711680%N, 1 # 2)]%Q) =
                       [(0, 255%N, 1); (3 # 5, 255%N, 1); (1, 16711680%N, 1 # 2)]%Q.
Proof. vm_compute. reflexivity. Qed.
