(* C20  The command-line tool is a faithful, fail-safe wrapper of the library.   (label: PARTIAL)
   Property theorems only.  fit_to_size, fit_to_transform, decide_fit, cli_fit_to_rect, parse_*_ok and
   c20_process_steps are the SOURCE-DERIVED definitions of Gen/C20Cli.v (regenerated from
   crates/resvg/src/main.rs on every run); IntSize arithmetic of tiny-skia-path is hand-modelled in
   Model/CliPrims.v (exact rationals; tied by the c20-fit correspondence).  pico-args, the file system, the
   PNG encoder and partial writes are outside the model. *)
From Coq Require Import Qround String.
From RV Require Import Model.Base Model.GeomPrims Model.CliPrims Gen.C20Cli Model.Cli Proofs.Cli.
Local Open Scope Z_scope.

(* --- dimension rules (on the rounded integer document size) ---------------------------------------- *)
Theorem C20_dims_w : forall s W r, fit_to_size (FitWidth W) s = Some r ->
  is_w r = W /\ is_h r = sat_u32 (Qceiling (zq W * zq (is_h s) / zq (is_w s))%Q) /\ 0 < W <= U32_MAX /\ 0 < is_h r.
Proof. exact dims_w. Qed.
Print Assumptions C20_dims_w.

Theorem C20_dims_h : forall s H r, fit_to_size (FitHeight H) s = Some r ->
  is_h r = H /\ is_w r = sat_u32 (Qceiling (zq H * zq (is_w s) / zq (is_h s))%Q) /\ 0 < H <= U32_MAX /\ 0 < is_w r.
Proof. exact dims_h. Qed.
Print Assumptions C20_dims_h.

Theorem C20_ceil_side_is_least : forall a b c, 0 < a -> 0 < b -> 0 < c -> Qceiling (zq a * zq b / zq c)%Q <= U32_MAX ->
  let v := sat_u32 (Qceiling (zq a * zq b / zq c)%Q) in
  (zq v - 1 < zq a * zq b / zq c /\ zq a * zq b / zq c <= zq v)%Q.
Proof. exact ceil_side_least. Qed.
Print Assumptions C20_ceil_side_is_least.

Theorem C20_dims_wh : forall s W H r, fit_to_size (FitSize W H) s = Some r ->
  0 < W <= U32_MAX /\ 0 < H <= U32_MAX /\
  ((is_w r = W /\ is_h r = sat_u32 (Qceiling (zq W * zq (is_h s) / zq (is_w s))%Q)) \/
   (is_h r = H /\ is_w r = sat_u32 (Qceiling (zq H * zq (is_w s) / zq (is_h s))%Q) /\ is_w r < W)).
Proof. exact dims_wh. Qed.
Print Assumptions C20_dims_wh.

(* "fits inside W x H": refuted for the faithful model, guarded by the decidable class k_wh_ceil_tie *)
Theorem C20_dims_wh_fits_refuted : exists s W H r,
  fit_to_size (FitSize W H) s = Some r /\ k_wh_ceil_tie s W H = true /\ H < is_h r.
Proof. exact dims_wh_fits_refuted. Qed.
Print Assumptions C20_dims_wh_fits_refuted.

Theorem C20_dims_wh_fits : forall s W H r, 0 < is_w s -> 0 < is_h s ->
  fit_to_size (FitSize W H) s = Some r -> k_wh_ceil_tie s W H = false -> is_w r <= W /\ is_h r <= H.
Proof. exact dims_wh_fits. Qed.
Print Assumptions C20_dims_wh_fits.

Theorem C20_dims_z : forall s z r, fit_to_size (FitZoom z) s = Some r ->
  is_w r = sat_u32 (Qround_haz (zq (is_w s) * z)%Q) /\ is_h r = sat_u32 (Qround_haz (zq (is_h s) * z)%Q) /\
  0 < is_w r /\ 0 < is_h r.
Proof. exact dims_z. Qed.
Print Assumptions C20_dims_z.

Theorem C20_dims_z_zero_is_error : forall s z, fit_to_size (FitZoom z) s = None <->
  (sat_u32 (Qround_haz (zq (is_w s) * z)%Q) = 0 \/ sat_u32 (Qround_haz (zq (is_h s) * z)%Q) = 0).
Proof. exact dims_z_zero. Qed.
Print Assumptions C20_dims_z_zero_is_error.

Theorem C20_round_is_nearest : forall q, (0 <= q)%Q ->
  (zq (Qround_haz q) - (1 # 2) <= q /\ q < zq (Qround_haz q) + (1 # 2))%Q.
Proof. exact Qround_haz_spec. Qed.
Print Assumptions C20_round_is_nearest.

Theorem C20_default_size_rule :
  (forall w h z, decide_fit (Some w) (Some h) z = ((inject_Z w, inject_Z h), FitSize w h)) /\
  (forall w z, decide_fit (Some w) None z = ((inject_Z w, 100 # 1), FitWidth w)) /\
  (forall h z, decide_fit None (Some h) z = ((100 # 1, inject_Z h), FitHeight h)) /\
  (forall z, decide_fit None None (Some z) = ((100 # 1, 100 # 1), FitZoom z)) /\
  decide_fit None None None = ((100 # 1, 100 # 1), FitOriginal).
Proof. exact default_size_rule. Qed.
Print Assumptions C20_default_size_rule.

Theorem C20_validation_ranges :
  (forall n, parse_dpi_ok n = true <-> 10 <= n <= 4000) /\
  (forall n, parse_length_ok n = true <-> 0 < n) /\
  (forall q, parse_zoom_ok q = true <-> (0 < q)%Q) /\
  (forall n, parse_font_size_ok n = true <-> 0 < n <= 192) /\
  DEFAULT_DPI = 96 /\ DEFAULT_FONT_SIZE = 12.
Proof. exact validation_ranges. Qed.
Print Assumptions C20_validation_ranges.

Theorem C20_usvg_validators_agree :
  (forall n, usvg_parse_dpi_ok n = parse_dpi_ok n) /\ (forall n, usvg_parse_length_ok n = parse_length_ok n) /\
  (forall n, usvg_parse_font_size_ok n = parse_font_size_ok n).
Proof. exact usvg_validators_agree. Qed.
Print Assumptions C20_usvg_validators_agree.

Theorem C20_usvg_write_defaults :
  usvg_coordinates_precision_default = 8 /\ usvg_transforms_precision_default = 8 /\
  usvg_coordinates_precision_help = (2, 8, usvg_coordinates_precision_default) /\
  usvg_transforms_precision_help = (2, 8, usvg_transforms_precision_default) /\
  lib_coordinates_precision_default = usvg_coordinates_precision_default /\
  lib_transforms_precision_default = usvg_transforms_precision_default /\
  (forall n, usvg_parse_precision_ok n = true <-> 2 <= n <= 8).
Proof. exact usvg_write_defaults. Qed.
Print Assumptions C20_usvg_write_defaults.

Theorem C20_resources_dir_rule : forall explicit file_input,
  resvg_resources_dir explicit file_input = (if explicit then ResExplicit else if file_input then ResInputDir else ResNone) /\
  usvg_resources_dir explicit file_input = resvg_resources_dir explicit file_input.
Proof. exact resources_dir_rule. Qed.
Print Assumptions C20_resources_dir_rule.

(* --- the transform handed to the renderer maps the document box onto the target ----------------------- *)
Theorem C20_fit_transform_matches_size : forall f s v, 0 < is_w s -> 0 < is_h s -> fit_to_size f s = Some v ->
  let t := fit_to_transform f s in
  (map_x t (zq (is_w s)) (zq (is_h s)) == zq (is_w v) /\ map_y t (zq (is_w s)) (zq (is_h s)) == zq (is_h v) /\
   map_x t 0 0 == 0 /\ map_y t 0 0 == 0 /\ t_kx t == 0 /\ t_ky t == 0)%Q.
Proof. exact fit_transform_matches_size. Qed.
Print Assumptions C20_fit_transform_matches_size.

(* --- process: outcomes -------------------------------------------------------------------------------- *)
Theorem C20_error_no_output : forall a e,
  (forall k, fst (process a e) = Exit1 k -> snd (process a e) = false) /\
  (forall p, fst (process a e) = Panic p -> snd (process a e) = false).
Proof. exact error_no_output. Qed.
Print Assumptions C20_error_no_output.

Theorem C20_steps_write_last : writes_last c20_process_steps = true /\ c20_fallible_after_write = 0.
Proof. exact steps_write_last. Qed.
Print Assumptions C20_steps_write_last.

Theorem C20_exit0_image_written : forall a e d, fst (process a e) = Exit0 (Some d) -> snd (process a e) = true.
Proof. exact exit0_image_written. Qed.
Print Assumptions C20_exit0_image_written.

Theorem C20_exit_codes : forall a e,
  (args_valid a = false -> process a e = (Exit1 EArgs, false)) /\
  (args_valid a = true -> e_read_ok e = false -> process a e = (Exit1 ERead, false)) /\
  (args_valid a = true -> e_read_ok e = true -> e_gunzip_ok e = true -> e_utf8_ok e = true -> e_xml_ok e = false ->
     process a e = (Exit1 EXml, false)) /\
  (args_valid a = true -> e_read_ok e = true -> e_gunzip_ok e = true -> e_utf8_ok e = true -> e_xml_ok e = true ->
     e_tree e = None -> process a e = (Exit1 ETree, false)) /\
  (forall sz, args_valid a = true -> e_read_ok e = true -> e_gunzip_ok e = true -> e_utf8_ok e = true -> e_xml_ok e = true ->
     e_tree e = Some sz -> a_query_all a = true ->
     process a e = (if Nat.eqb (e_ids e) 0 then Exit1 ENoIds else Exit0 None, false)) /\
  (forall sz k, args_valid a = true -> e_read_ok e = true -> e_gunzip_ok e = true -> e_utf8_ok e = true -> e_xml_ok e = true ->
     e_tree e = Some sz -> a_query_all a = false -> render_svg a e sz = RErr k -> process a e = (Exit1 k, false)).
Proof. exact exit_codes. Qed.
Print Assumptions C20_exit_codes.

Theorem C20_normal_dims : forall a e d, a_export_id a = false -> a_area_drawing a = false ->
  fst (process a e) = Exit0 (Some d) ->
  exists sz, e_tree e = Some sz /\ fit_to_size (the_fit a) (to_int_size (fst sz) (snd sz)) = Some d.
Proof. exact normal_dims. Qed.
Print Assumptions C20_normal_dims.

Theorem C20_export_dims : forall a e d, a_export_id a = true -> a_area_page a = false ->
  fst (process a e) = Exit0 (Some d) ->
  exists x y w h, e_node e = NodeBox x y w h /\ fit_to_size (the_fit a) (to_int_size w h) = Some d.
Proof. exact export_dims. Qed.
Print Assumptions C20_export_dims.

(* --- export rules, full strength (bd4cb7e: node scaled by the same factor as its canvas; 85fde2f: page offset scaled) --- *)
Theorem C20_export_node_fills_canvas : forall a docsize w h size, a_area_page a = false ->
  fit_to_size (the_fit a) (to_int_size w h) = Some size ->
  let t := export_ts a docsize w h in let nb := to_int_size w h in
  (map_x t (zq (is_w nb)) (zq (is_h nb)) == zq (is_w size) /\ map_y t (zq (is_w nb)) (zq (is_h nb)) == zq (is_h size) /\
   map_x t 0 0 == 0 /\ map_y t 0 0 == 0 /\ t_kx t == 0 /\ t_ky t == 0)%Q.
Proof. exact export_node_fills_canvas. Qed.
Print Assumptions C20_export_node_fills_canvas.

Theorem C20_export_area_page_rules : forall a docsize x y w h psize, a_area_page a = true ->
  fit_to_size (the_fit a) (to_int_size (fst docsize) (snd docsize)) = Some psize ->
  let t := export_ts a docsize w h in let doc := to_int_size (fst docsize) (snd docsize) in
  (map_x t (zq (is_w doc)) (zq (is_h doc)) == zq (is_w psize) /\ map_y t (zq (is_w doc)) (zq (is_h doc)) == zq (is_h psize) /\
   map_x t x y == x * t_sx t /\ map_y t x y == y * t_sy t)%Q /\
  page_offset a docsize x y w h = (sat_i32 (Qtrunc (x * t_sx t)%Q), sat_i32 (Qtrunc (y * t_sy t)%Q)).
Proof. exact export_area_page_rules. Qed.
Print Assumptions C20_export_area_page_rules.

(* --- trimming (--export-area-drawing), as fixed by cbe5ba7 ------------------------------------------- *)
Theorem C20_trim_no_panic : forall fit doc canvas c,
  pixmap_new_ok canvas = true -> is_h canvas <= I32_MAX -> exists s, trim fit doc canvas c = ROk s.
Proof. exact trim_no_panic. Qed.
Print Assumptions C20_trim_no_panic.

Theorem C20_trim_within_canvas : forall fit doc canvas c s,
  pixmap_new_ok canvas = true -> is_h canvas <= I32_MAX -> trim fit doc canvas c = ROk s ->
  0 < is_w s <= is_w canvas /\ 0 < is_h s <= is_h canvas.
Proof. exact trim_within_canvas. Qed.
Print Assumptions C20_trim_within_canvas.

Theorem C20_trim_shape : c20_trim_shape_ok = true /\ c20_trim_fallback_ok = true /\ c20_draw_guard_ok = true /\ c20_canvas_alloc_ok = true.
Proof. repeat split; vm_compute; reflexivity. Qed.
Print Assumptions C20_trim_shape.

(* --- "never crashes": the four panic classes are fixed (925640f, 57970e3, 71df1bd, dd6e054).  Full strength up to the
   resource assumption that the canvas has at most i32::MAX rows (a taller one needs >= 8 GiB of pixels) ------------- *)
Theorem C20_no_panic : forall a e, canvas_height_fits_i32 a e = true -> forall p, fst (process a e) <> Panic p.
Proof. exact no_panic. Qed.
Print Assumptions C20_no_panic.

Theorem C20_no_panic_without_trim : forall a e, a_area_drawing a = false -> forall p, fst (process a e) <> Panic p.
Proof. exact no_panic_without_trim. Qed.
Print Assumptions C20_no_panic_without_trim.

(* every .unwrap()/.expect() of main.rs is a reviewed one; Pixmap::new is checked with `?`, draw_pixmap is guarded *)
(* --- extension round 4: sizes are never zero / out of range, on every path of the state machine --- *)
Theorem C20_fit_size_valid : forall f s r, isize_valid s -> fit_to_size f s = Some r -> isize_valid r.
Proof. exact fit_size_valid. Qed.
Print Assumptions C20_fit_size_valid.

Theorem C20_render_ok_dims : forall a e sz d, render_svg a e sz = ROk d ->
  0 < is_w d <= MAX_PIXMAP_W /\ 0 < is_h d <= U32_MAX.
Proof. exact render_ok_dims. Qed.
Print Assumptions C20_render_ok_dims.

Theorem C20_written_image_dims_valid : forall a e d, fst (process a e) = Exit0 (Some d) ->
  snd (process a e) = true /\ 0 < is_w d <= MAX_PIXMAP_W /\ 0 < is_h d <= U32_MAX.
Proof. exact written_image_dims_valid. Qed.
Print Assumptions C20_written_image_dims_valid.

(* --- round 4, 2nd pass: render_svg's control flow, the page offset and main's exit status are SOURCE-DERIVED (Gen/C20Cli.v
   c20_render_*, page_offset_gen, c20_main_err_exit); the hand model equals their interpretation for all inputs --- *)
Theorem C20_render_svg_is_skeleton : forall a e ds, render_svg a e ds = run_render a e ds.
Proof. exact render_svg_is_skeleton. Qed.
Print Assumptions C20_render_svg_is_skeleton.

Theorem C20_skeleton_ok_dims : forall a e sz d, run_render a e sz = ROk d ->
  0 < is_w d <= MAX_PIXMAP_W /\ 0 < is_h d <= U32_MAX.
Proof. exact run_render_ok_dims. Qed.
Print Assumptions C20_skeleton_ok_dims.

Theorem C20_render_messages : render_msgs_ok = true.
Proof. exact render_msgs. Qed.
Print Assumptions C20_render_messages.

Theorem C20_render_allocs_follow_fits :
  alloc_after_fit (c20_render_export ++ c20_render_export_page) false = true /\
  alloc_after_fit (c20_render_normal ++ c20_render_normal_drawing) false = true.
Proof. exact render_allocs_follow_fits. Qed.
Print Assumptions C20_render_allocs_follow_fits.

Theorem C20_page_offset_is_scaled_origin : forall bbox t,
  page_offset_gen bbox t = (sat_i32 (Qtrunc (rx bbox * t_sx t)%Q), sat_i32 (Qtrunc (ry bbox * t_sy t)%Q)).
Proof. exact page_offset_is_scaled_origin. Qed.
Print Assumptions C20_page_offset_is_scaled_origin.

Theorem C20_page_offset_within_pixel : forall bbox t,
  in_i32 (Qtrunc (rx bbox * t_sx t)%Q) = true -> in_i32 (Qtrunc (ry bbox * t_sy t)%Q) = true ->
  (Qabs.Qabs (zq (fst (page_offset_gen bbox t)) - rx bbox * t_sx t) < 1)%Q /\
  (Qabs.Qabs (zq (snd (page_offset_gen bbox t)) - ry bbox * t_sy t) < 1)%Q.
Proof. exact page_offset_within_pixel. Qed.
Print Assumptions C20_page_offset_within_pixel.

Theorem C20_page_offset_hand_is_gen : forall a docsize x y w h,
  page_offset a docsize x y w h = page_offset_gen {| rx := x; ry := y; rw := w; rh := h |} (export_ts a docsize w h).
Proof. exact page_offset_hand_is_gen. Qed.
Print Assumptions C20_page_offset_hand_is_gen.

Theorem C20_main_exit_code : c20_main_err_exit = 1 /\ (forall k, outcome_code (Exit1 k) = 1) /\ (forall d, outcome_code (Exit0 d) = 0).
Proof. exact main_exit_code. Qed.
Print Assumptions C20_main_exit_code.

(* non-vacuity: origin 10.6 x zoom 2.5 = 26.5 -> pixel 26 (not 25 = 10 * 2.5, not 27) *)
Example C20_page_offset_nv :
  page_offset_gen {| rx := (53 # 5)%Q; ry := (-(53 # 5))%Q; rw := 1%Q; rh := 1%Q |} (from_scale (5 # 2)%Q (5 # 2)%Q) = (26, -26).
Proof. reflexivity. Qed.

(* --- round 5 (seed C20-16): string-valued option --languages: both tools hand every comma-separated item to
   usvg::Options::languages as written (blanks around an item removed; case, duplicates and order kept).  The item operations,
   separator, "every item kept" and "passed to Options unchanged" facts are SOURCE-DERIVED from both main.rs files. --- *)
Theorem C20_usvg_languages_unchanged : forall arg,
  cli_languages usvg_lang_separator usvg_lang_item_ops usvg_lang_all_items_kept usvg_lang_passed_unchanged arg = Some (spec_languages arg).
Proof. exact usvg_languages_unchanged. Qed.
Print Assumptions C20_usvg_languages_unchanged.

Theorem C20_resvg_languages_unchanged : forall arg,
  cli_languages resvg_lang_separator resvg_lang_item_ops resvg_lang_all_items_kept resvg_lang_passed_unchanged arg = Some (spec_languages arg).
Proof. exact resvg_languages_unchanged. Qed.
Print Assumptions C20_resvg_languages_unchanged.

Theorem C20_languages_faithful_flags :
  lang_ops_faithful usvg_lang_separator usvg_lang_item_ops usvg_lang_all_items_kept usvg_lang_passed_unchanged = true /\
  lang_ops_faithful resvg_lang_separator resvg_lang_item_ops resvg_lang_all_items_kept resvg_lang_passed_unchanged = true.
Proof. exact languages_faithful_flags. Qed.
Print Assumptions C20_languages_faithful_flags.

Example C20_languages_example :
  cli_languages usvg_lang_separator usvg_lang_item_ops usvg_lang_all_items_kept usvg_lang_passed_unchanged "EN-us, de-DE,de-DE , zh-Hant"%string
  = Some ["EN-us"; "de-DE"; "de-DE"; "zh-Hant"]%string.
Proof. exact languages_example. Qed.

Theorem C20_unwrap_ledger : unwrap_ledger_ok = true.
Proof. exact unwrap_ledger. Qed.
Print Assumptions C20_unwrap_ledger.

(* regression witnesses of the fixed classes *)
Example C20_fixed_target_overflow : args_valid (args_w 1000000000) = true /\
  process (args_w 1000000000) doc_20x10 = (Exit1 ETargetTooLarge, false).
Proof. exact fixed_target_overflow. Qed.
Example C20_fixed_area_drawing : process args_adraw env_far = (Exit0 (Some {| is_w := 20; is_h := 10 |}), true).
Proof. exact fixed_area_drawing. Qed.
Example C20_fixed_area_page : process args_apage env_far = (Exit0 (Some {| is_w := 20; is_h := 10 |}), true).
Proof. exact fixed_area_page. Qed.
Example C20_fixed_stdout_write :
  process (mk_args None None None None true true true false false false false)
          {| e_read_ok := true; e_gunzip_ok := true; e_utf8_ok := true; e_xml_ok := true; e_tree := Some (20 # 1, 10 # 1)%Q; e_ids := 1%nat;
             e_node := NodeMissing; e_content := (2 # 1, 2 # 1, 5 # 1, 5 # 1)%Q; e_alloc_ok := true; e_encode_ok := true; e_write_ok := false |}
  = (Exit1 EWrite, false).
Proof. exact fixed_stdout_write. Qed.

Example C20_fixed_alloc_abort :
  process (mk_args None None (Some (100000 # 1)%Q) None true true false false false false false)
          {| e_read_ok := true; e_gunzip_ok := true; e_utf8_ok := true; e_xml_ok := true; e_tree := Some (40 # 1, 30 # 1)%Q; e_ids := 0%nat;
             e_node := NodeMissing; e_content := (0, 0, 5 # 1, 5 # 1)%Q; e_alloc_ok := false; e_encode_ok := true; e_write_ok := true |}
  = (Exit1 ETargetTooLarge, false).
Proof. exact fixed_alloc_abort. Qed.

(* --- non-vacuity ------------------------------------------------------------------------------------ *)
Example C20_run_w7 : process (args_w 7) doc_20x10 = (Exit0 (Some {| is_w := 7; is_h := 4 |}), true).
Proof. exact run_w7. Qed.
Example C20_run_wh : process (mk_args (Some 7) (Some 9) None None true true false false false false false) doc_20x10
  = (Exit0 (Some {| is_w := 7; is_h := 4 |}), true).
Proof. exact run_wh. Qed.
Example C20_run_z15 : process (mk_args None None (Some (3 # 2)%Q) None true true false false false false false) doc_20x10
  = (Exit0 (Some {| is_w := 30; is_h := 15 |}), true).
Proof. exact run_z15. Qed.
Example C20_run_z_small : process (mk_args None None (Some (1 # 1000)%Q) None true true false false false false false) doc_20x10
  = (Exit1 ETargetZero, false).
Proof. exact run_z_small. Qed.
Example C20_run_w0 : process (args_w 0) doc_20x10 = (Exit1 EArgs, false).
Proof. exact run_w0. Qed.
Example C20_trim_f20_witness :
  trim FitOriginal {| is_w := 100; is_h := 100 |} {| is_w := 100; is_h := 100 |} (500 # 1, 500 # 1, 10 # 1, 10 # 1)%Q
  = ROk {| is_w := 100; is_h := 100 |}.
Proof. exact trim_f20_witness. Qed.
