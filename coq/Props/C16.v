(* C16  Filters stay inside their region, keep pixels valid premultiplied RGBA, identity chains are no-ops.
   Property theorems only.  The byte kernels (multiply_alpha_*, demultiply_alpha_*, the two lookup tables,
   f32_bound, colour-matrix rows, transfer arithmetic, pass lists such as apply_color_matrix_steps,
   early-return guards) are the SOURCE-DERIVED definitions of Gen/PixelTables.v, and fit_to_rect is the
   source-derived Gen/LeafFit.v; all are regenerated from /repo on every run.  Arithmetic is exact IEEE
   binary32 (Flocq), hence the four classical stdlib axioms in the assumption lists. *)
From RV Require Import Model.Base.
From RV Require Import Model.GeomPrims.
From RV Require Import Gen.LeafFit.
From RV Require Import Model.F32.
From RV Require Import Gen.PixelTables.
From RV Require Import Model.Pixel.
From RV Require Import Model.FilterGeom.
From RV Require Import Proofs.PixelBase.
From RV Require Import Proofs.PixelMulValid.
From RV Require Import Proofs.PixelRoundtrip.
From RV Require Import Proofs.PixelValid.
From RV Require Import Proofs.PixelIdentity.
From RV Require Import Proofs.PixelEarly.
From RV Require Import Proofs.Morphology.
From RV Require Import Proofs.FilterGeom.
From RV Require Import Model.SrgbSpec.
From RV Require Import Proofs.SrgbSpec.
From RV Require Import Proofs.PixelArith.
From RV Require Import Model.FilterWire.
From RV Require Import Proofs.FilterWire.
From RV Require Import Proofs.PixelConvolve.
From RV Require Import Proofs.PixelChain.
From RV Require Import Proofs.PixelIdentity2.
From RV Require Import Proofs.PixelChainId.
From RV Require Import Gen.FilterFuncs.
From Coq Require Import String.
From Flocq Require Import Core BinarySingleNaN.
Local Open Scope Z_scope.

(* ================================================================== validity: colour <= alpha *)
Theorem C16_multiply_valid : forall c a, is_byte c -> is_byte a -> mul_alpha c a <= a.
Proof. exact mul_alpha_le_alpha. Qed.
Print Assumptions C16_multiply_valid.

Theorem C16_into_srgb_valid : forall p, byte_px p -> valid_px (px_into_srgb p) /\ byte_px (px_into_srgb p).
Proof. exact into_srgb_valid. Qed.
Print Assumptions C16_into_srgb_valid.

Theorem C16_into_linear_valid : forall p, byte_px p -> valid_px (px_into_linear p) /\ byte_px (px_into_linear p).
Proof. exact into_linear_valid. Qed.
Print Assumptions C16_into_linear_valid.

(* any matrix / saturate value / luminanceToAlpha, any input pixel (even an invalid one) *)
Theorem C16_color_matrix_valid : forall k p, byte_px p ->
  valid_px (px_color_matrix k p) /\ byte_px (px_color_matrix k p).
Proof. exact color_matrix_valid. Qed.
Print Assumptions C16_color_matrix_valid.

(* any four transfer functions (identity, table, discrete, linear with any parameters, NaN included) *)
Theorem C16_component_transfer_valid : forall fs p, byte_px p ->
  valid_px (px_component_transfer fs p) /\ byte_px (px_component_transfer fs p).
Proof. exact component_transfer_valid. Qed.
Print Assumptions C16_component_transfer_valid.

Theorem C16_turbulence_valid : forall noise, (forall q, byte_px q -> byte_px (noise q)) -> forall p, byte_px p ->
  valid_px (run_steps noise apply_turbulence_steps p).
Proof. exact turbulence_valid. Qed.
Print Assumptions C16_turbulence_valid.

(* feComposite arithmetic: ANY coefficients (overflowing, infinite, NaN), ANY two input pixels; proved by monotonicity of
   binary32 rounding over the source-derived `calc` (including its non-finite guard) *)
Theorem C16_arithmetic_valid : forall k1 k2 k3 k4 p1 p2, valid_px (px_arithmetic k1 k2 k3 k4 p1 p2).
Proof. exact arithmetic_valid. Qed.
Print Assumptions C16_arithmetic_valid.

(* any operator, radius, image size and content *)
Theorem C16_morphology_valid : forall op crx cry w h data, Forall valid_px data ->
  Forall valid_px (morphology op crx cry w h data).
Proof. exact morphology_valid. Qed.
Print Assumptions C16_morphology_valid.

(* feConvolveMatrix (extension round 4): ANY kernel, order, target, edge mode, divisor, bias (finite, infinite, NaN), both
   preserveAlpha values, ANY image: the four window sums sr sg sb sa and the centre alpha are arbitrary binary32 / integer
   values; over the source-derived closure `calc`, new_a, bounded_new_a and the two stores of convolve_matrix.rs *)
Theorem C16_convolve_valid : forall preserve divisor bias sr sg sb sa in_a,
  valid_px (cv_out preserve divisor bias sr sg sb sa in_a).
Proof. exact convolve_out_valid. Qed.
Print Assumptions C16_convolve_valid.

(* the same for the sums the two loops accumulate over any visited (kernel value, pixel) list, and for the composition
   apply_convolve_matrix performs (demultiply first under preserveAlpha, no multiply afterwards) *)
Theorem C16_convolve_window_valid : forall preserve divisor bias win in_p,
  valid_px (cv_pixel preserve divisor bias win in_p) /\ byte_px (cv_pixel preserve divisor bias win in_p).
Proof. intros. split; [apply convolve_valid|apply cv_pixel_byte]. Qed.
Print Assumptions C16_convolve_window_valid.

Theorem C16_convolve_uniform_valid : forall preserve divisor bias ks p,
  valid_px (px_convolve_uniform preserve divisor bias ks p) /\ byte_px (px_convolve_uniform preserve divisor bias ks p).
Proof. exact convolve_uniform_valid. Qed.
Print Assumptions C16_convolve_uniform_valid.

(* WHOLE CHAINS (extension round 4): for every list of wired primitives (zero offset / blur, colour matrix, component
   transfer, merge, arithmetic composite, over composite / normal blend, 1x1 convolve), every parameter, every wiring
   (named, shadowed, unknown references, SourceAlpha) and every color-interpolation-filters assignment, every stored
   result and the final sRGB result are valid premultiplied byte pixels, the on-demand into_srgb / into_linear_rgb
   conversions between primitives included *)
Theorem C16_chain_valid : forall ps src, byte_px src -> valid_px src ->
  Forall (fun nv => byte_px (fst (snd nv)) /\ valid_px (fst (snd nv))) (run_prims src [] ps) /\
  byte_px (run_filter ps src) /\ valid_px (run_filter ps src).
Proof. exact chain_valid. Qed.
Print Assumptions C16_chain_valid.

(* ================================================================== lookup tables (as in the source now) *)
(* every entry is the byte nearest to the sRGB transfer function (decided in exact rationals, Model/SrgbSpec.v) *)
Theorem C16_lut_is_srgb_transfer : forall c, is_byte c ->
  into_linear_ok c (lut_into_linear_ch c) = true /\ from_linear_ok c (lut_from_linear_ch c) = true.
Proof. intros c Hc. split; [apply into_linear_table_is_srgb|apply from_linear_table_is_srgb]; exact Hc. Qed.
Print Assumptions C16_lut_is_srgb_transfer.

Theorem C16_lut_monotone : forall c d, 0 <= c -> c <= d -> d <= 255 ->
  lut_into_linear_ch c <= lut_into_linear_ch d /\ lut_from_linear_ch c <= lut_from_linear_ch d.
Proof. intros. split; [apply into_linear_monotone|apply from_linear_monotone]; assumption. Qed.
Print Assumptions C16_lut_monotone.

Theorem C16_lut_endpoints :
  lut_into_linear_ch 0 = 0 /\ lut_into_linear_ch 255 = 255 /\ lut_from_linear_ch 0 = 0 /\ lut_from_linear_ch 255 = 255.
Proof. exact lut_endpoints. Qed.
Print Assumptions C16_lut_endpoints.

Theorem C16_lut_roundtrip_srgb : forall c, is_byte c ->
  Z.abs (lut_from_linear_ch (lut_into_linear_ch c) - c) <= 6 /\
  (60 <= c -> Z.abs (lut_from_linear_ch (lut_into_linear_ch c) - c) <= 1).
Proof. exact lut_roundtrip_srgb. Qed.
Print Assumptions C16_lut_roundtrip_srgb.

Theorem C16_lut_roundtrip_linear : forall c, is_byte c ->
  Z.abs (lut_into_linear_ch (lut_from_linear_ch c) - c) <= 1.
Proof. exact lut_roundtrip_linear. Qed.
Print Assumptions C16_lut_roundtrip_linear.

(* ================================================================== identities (error 0, not +-1) *)
Theorem C16_roundtrip_premul : forall c a, is_byte c -> is_byte a -> c <= a ->
  mul_alpha (demul_alpha c a) a = c.
Proof. exact mul_demul_id. Qed.
Print Assumptions C16_roundtrip_premul.

Theorem C16_from_normalized_id : forall c, is_byte c -> cm_from_normalized (cm_to_normalized c) = c.
Proof. exact from_to_normalized. Qed.
Print Assumptions C16_from_normalized_id.

Theorem C16_identity_matrix : forall p, byte_px p -> valid_px p ->
  px_color_matrix (CMMatrix identity_matrix) p = p.
Proof. exact color_matrix_identity. Qed.
Print Assumptions C16_identity_matrix.

Theorem C16_identity_transfer : forall fs,
  (forall i, tf_dummy (nthZ fs i TFIdentity) = true \/ tf_is_id (nthZ fs i TFIdentity)) ->
  forall p, byte_px p -> valid_px p -> px_component_transfer fs p = p.
Proof. exact component_transfer_identity. Qed.
Print Assumptions C16_identity_transfer.

Theorem C16_identity_transfer_instances :
  tf_is_id (TFLinear f1 fzero) /\ tf_is_id (TFTable [fzero; f1]) /\
  tf_is_id (TFTable [fzero; flit 1 4; flit 1 2; flit 3 4; f1]).
Proof. exact (conj tf_linear_id (conj tf_table01_id tf_table5_id)). Qed.
Print Assumptions C16_identity_transfer_instances.

Theorem C16_offset_zero_id : forall (I : Type) sx sy (input shifted : I),
  is_finite sx = true -> is_finite sy = true -> apply_offset_model fzero fzero sx sy input shifted = input.
Proof. exact offset_zero_id. Qed.
Print Assumptions C16_offset_zero_id.

Theorem C16_blur_zero_id : forall (I : Type) sx sy (input blurred : I),
  is_finite sx = true -> is_finite sy = true -> apply_blur_model fzero fzero sx sy input blurred = input.
Proof. exact blur_zero_id. Qed.
Print Assumptions C16_blur_zero_id.

Theorem C16_merge_single_id : forall p, merge_single p = p.
Proof. exact merge_single_id. Qed.
Print Assumptions C16_merge_single_id.

(* second pass: saturate(1) and hueRotate(0).  The nine source-derived coefficient expressions evaluate in binary32 to exactly
   the identity rows (hueRotate: with cos 0 = 1, sin 0 = 0 from libm), and the rows give back every byte *)
Theorem C16_saturate1_hue0_coefs : cm_saturate_coefs (fmax0 f1) = idm3 /\ cm_hue_coefs f1 fzero = idm3.
Proof. exact (conj saturate1_coefs hue0_coefs). Qed.
Print Assumptions C16_saturate1_hue0_coefs.

Theorem C16_identity_saturate1 : forall p, byte_px p -> valid_px p -> px_color_matrix (CMSaturate f1) p = p.
Proof. exact color_matrix_saturate1. Qed.
Print Assumptions C16_identity_saturate1.

Theorem C16_identity_hue0 : forall p, byte_px p -> valid_px p -> px_color_matrix (CMHueRotate f1 fzero) p = p.
Proof. exact color_matrix_hue0. Qed.
Print Assumptions C16_identity_hue0.

(* feBlend normal / feComposite over / feMerge onto a transparent backdrop *)
Theorem C16_over_transparent_id : forall p, over_px p px0 = p.
Proof. exact over_px0. Qed.
Print Assumptions C16_over_transparent_id.

(* IDENTITY CHAINS of any length and wiring, all primitives computing in colour space c: exactly the source for sRGB, exactly one
   round trip through the real lookup tables for linearRGB (bounded by the C16_lut_roundtrip theorems), never an accumulation *)
Theorem C16_identity_chain : forall c ps src, byte_px src -> valid_px src -> Forall (identity_prim c) ps -> ps <> [] ->
  run_filter ps src = src \/ (c = CsLinear /\ run_filter ps src = px_into_srgb (px_into_linear src)).
Proof. exact identity_chain. Qed.
Print Assumptions C16_identity_chain.

Theorem C16_identity_chain_noop : forall ps src, byte_px src -> valid_px src -> Forall (identity_prim CsSRGB) ps -> ps <> [] ->
  run_filter ps src = src.
Proof. exact identity_chain_noop. Qed.
Print Assumptions C16_identity_chain_noop.

(* ================================================================== wiring of named results (model validated by the `wire` correspondence) *)
Theorem C16_reference_is_last_result : forall results name v,
  find_last (results ++ [(name, v)]) name None = Some v /\
  (forall other, other <> name -> find_last (results ++ [(other, v)]) name None = find_last results name None).
Proof. intros. split; [apply find_last_newest|intros; apply find_last_other; assumption]. Qed.
Print Assumptions C16_reference_is_last_result.

Theorem C16_results_are_immutable : forall src ps results n v,
  nth_error results n = Some v -> nth_error (run_prims src results ps) n = Some v.
Proof. exact results_are_immutable. Qed.
Print Assumptions C16_results_are_immutable.

Theorem C16_shadowed_name_reads_newest : forall src other name, byte_px src ->
  run_filter [ {| w_kind := WColorMatrix CMLuminanceToAlpha WSource; w_cs := CsSRGB; w_name := name |};
               {| w_kind := WOffset0 WSource; w_cs := CsSRGB; w_name := name |};
               {| w_kind := WMerge [WRef name]; w_cs := CsSRGB; w_name := other |} ] src = src.
Proof. exact shadowed_name_reads_newest. Qed.
Print Assumptions C16_shadowed_name_reads_newest.

(* ================================================================== containment *)
Theorem C16_clip_rects_cover_complement : forall w h s px py,
  0 <= i_right s -> 0 <= i_bottom s -> in_canvas w h px py = true ->
  cleared w h s px py = negb (in_irect s px py).
Proof. exact clip_rects_cover_complement. Qed.
Print Assumptions C16_clip_rects_cover_complement.

Theorem C16_clip_rects_never_clear_inside : forall w h s px py,
  in_irect s px py = true -> cleared w h s px py = false.
Proof. exact clip_rects_never_clear_inside. Qed.
Print Assumptions C16_clip_rects_never_clear_inside.

(* the side condition is needed: a primitive subregion wholly left of (above) the filter region is not
   cropped away completely (outside the property statement, which speaks about the filter region) *)
Theorem C16_clip_rects_cover_refuted :
  exists w h s px py, in_canvas w h px py = true /\ in_irect s px py = false /\ cleared w h s px py = false.
Proof. exact clip_rects_cover_refuted. Qed.
Print Assumptions C16_clip_rects_cover_refuted.

Theorem C16_int_region_within_hull : forall r, pos_rect r ->
  let ir := to_int_rect r in
  ix ir = hull_l r /\ i_right ir <= hull_r r /\ iy ir = hull_t r /\ i_bottom ir <= hull_b r.
Proof. exact int_region_within_hull. Qed.
Print Assumptions C16_int_region_within_hull.
(* guarded by the KNOWN class layer_origin_negative (tiny-skia Rect::round, see Model/FilterGeom.v) *)
Theorem C16_result_within_region : forall (A : Type) (blend : A -> A -> A) canvas layer bbox maxb ib,
  pos_rect bbox -> filter_layer bbox maxb = Some ib -> layer_origin_negative ib = false ->
  forall x y, in_hull bbox x y = false -> draw_layer blend canvas ib layer x y = canvas x y.
Proof. exact result_within_region. Qed.
Print Assumptions C16_result_within_region.

Theorem C16_result_within_region_refuted :
  exists bbox maxb ib x y, pos_rect bbox /\ filter_layer bbox maxb = Some ib /\ layer_origin_negative ib = true /\
    in_hull bbox x y = false /\
    draw_layer (fun s d : Z => s) (fun _ _ => 0) ib (fun _ _ => 255) x y = 255.
Proof. exact result_within_region_refuted. Qed.
Print Assumptions C16_result_within_region_refuted.

(* whatever the origin: nothing is painted more than one pixel beyond the right / bottom edge of the hull *)
Theorem C16_result_within_region_plus1 : forall (A : Type) (blend : A -> A -> A) canvas layer bbox maxb ib,
  pos_rect bbox -> filter_layer bbox maxb = Some ib ->
  forall x y, in_hull_plus1 bbox x y = false -> draw_layer blend canvas ib layer x y = canvas x y.
Proof. exact result_within_region_plus1. Qed.
Print Assumptions C16_result_within_region_plus1.

Theorem C16_layer_within_max : forall bbox maxb ib, filter_layer bbox maxb = Some ib ->
  ix maxb <= ix ib /\ i_right ib <= i_right maxb /\ iy maxb <= iy ib /\ i_bottom ib <= i_bottom maxb.
Proof. exact layer_within_max. Qed.
Print Assumptions C16_layer_within_max.

(* ================================================================== CSS filter FUNCTIONS are converted per element (final pass) *)
(* usvg parser/filter.rs convert(), source-derived table Gen/FilterFuncs.v: the only access to the conversion cache in the whole
   body is the id generator (no lookup in / insert into cache.filters on the function path); every arm of `match func` except Url is
   handled by the closure create_base_filter_func and nothing else (no continue / break / return / cache access inside an arm);
   the loop body is exactly `let func = match func {..}; match func {..}` with the parse-error return as its only early exit;
   and the closure derives the region from the CALLER's object bounding box (checked_bbox_transform(rect, object_bbox)) and pushes a
   fresh Filter carrying that rect: two elements with equal function text and different boxes never share a region *)
Theorem C16_function_filters_not_shared :
  fn_cache_accesses = ["cache.gen_filter_id"]%string /\
  forallb (fun ac => orb (String.eqb (fst ac) "Url") (String.eqb (snd ac) "create_base_filter_func")) fn_arm_callees = true /\
  map fst fn_arm_callees = ["Blur"; "DropShadow"; "Brightness"; "Contrast"; "Grayscale"; "HueRotate"; "Invert"; "Opacity"; "Sepia"; "Saturate"; "Url"]%string /\
  fn_loop_statements = 2%nat /\ fn_loop_exits = ["return Ok(Vec::new())"]%string /\
  fn_region_from_own_bbox = true.
Proof. repeat split; reflexivity. Qed.
Print Assumptions C16_function_filters_not_shared.

(* ================================================================== non-vacuity *)
Example C16_ex_mul : mul_alpha 200 128 = 100 /\ demul_alpha 100 128 = 199 /\ demul_alpha 0 0 = 0.
Proof. vm_compute. repeat split; reflexivity. Qed.
Example C16_ex_matrix_not_trivial :
  px_color_matrix CMLuminanceToAlpha {| pr := 100; pg := 50; pb := 25; pa := 200 |}
  <> {| pr := 100; pg := 50; pb := 25; pa := 200 |}.
Proof. vm_compute. discriminate. Qed.
Example C16_ex_invalid_input_repaired :
  valid_pxb {| pr := 250; pg := 0; pb := 0; pa := 10 |} = false /\
  valid_pxb (px_into_linear {| pr := 250; pg := 0; pb := 0; pa := 10 |}) = true.
Proof. vm_compute. split; reflexivity. Qed.
(* a kernel of 2 over-brightens: alpha saturates, colours are clamped to it; the clamp is what keeps the pixel valid *)
Example C16_ex_convolve :
  let p := {| pr := 200; pg := 100; pb := 50; pa := 200 |} in
  px_list (px_convolve_uniform false f1 fzero [flit 2 1] p) = [255; 200; 100; 255] /\
  px_list (px_convolve_uniform true f1 (flit 1 2) [flit 2 1] p) = [200; 200; 179; 200].
Proof. vm_compute. split; reflexivity. Qed.
Example C16_ex_chain :
  let src := {| pr := 200; pg := 100; pb := 50; pa := 200 |} in
  let ps := [ {| w_kind := WArithmetic fzero (flit 2 1) fzero (flit 1 10) WSource WSource; w_cs := CsLinear; w_name := 1%N |};
              {| w_kind := WConvolve1 false (flit 1 2) fzero f1 (WRef 1%N); w_cs := CsSRGB; w_name := 2%N |};
              {| w_kind := WOver (WRef 1%N) (WRef 2%N); w_cs := CsLinear; w_name := 3%N |} ] in
  valid_pxb (run_filter ps src) = true /\ px_eqb (run_filter ps src) src = false.
Proof. vm_compute. split; reflexivity. Qed.
Example C16_ex_erode : morph_pixel Erode 2 2 2 2 demo_img 1 1 = {| pr := 0; pg := 0; pb := 0; pa := 0 |}.
Proof. vm_compute. reflexivity. Qed.
Example C16_ex_crop : crop_bitmap 4 2 {| ix := 1; iy := 0; iw := 2; ih := 1 |} = [0; 1; 1; 0; 0; 0; 0; 0].
Proof. vm_compute. reflexivity. Qed.
Example C16_ex_layer :
  filter_layer {| rx := 3 # 2; ry := 2 # 1; rw := 5 # 2; rh := 1 # 1 |} {| ix := -10; iy := -10; iw := 50; ih := 50 |}
  = Some {| ix := 1; iy := 2; iw := 3; ih := 1 |}.
Proof. vm_compute. reflexivity. Qed.
(* a chain that meets identity_prim: every kind, a shadowed name, an unknown reference *)
Example C16_ex_identity_chain :
  Forall (identity_prim CsSRGB)
    [ {| w_kind := WColorMatrix (CMSaturate f1) WSource; w_cs := CsSRGB; w_name := 1%N |};
      {| w_kind := WOffset0 (WRef 1%N); w_cs := CsLinear; w_name := 1%N |};
      {| w_kind := WColorMatrix (CMHueRotate f1 fzero) (WRef 9%N); w_cs := CsSRGB; w_name := 2%N |};
      {| w_kind := WTransfer [TFLinear f1 fzero; TFTable [fzero; f1]; TFIdentity; TFIdentity] (WRef 1%N); w_cs := CsSRGB; w_name := 3%N |};
      {| w_kind := WMerge [WRef 3%N]; w_cs := CsSRGB; w_name := 4%N |} ].
Proof.
  assert (F : id_fs [TFLinear f1 fzero; TFTable [fzero; f1]; TFIdentity; TFIdentity]).
  { intro j. unfold nthZ. destruct (Z.to_nat j) as [|[|[|[|n]]]]; cbn [nth].
    - right. exact tf_linear_id.
    - right. exact tf_table01_id.
    - left. reflexivity.
    - left. reflexivity.
    - left. destruct n; reflexivity. }
  repeat (apply Forall_cons); try apply Forall_nil; unfold identity_prim; cbn [w_kind w_cs].
  - split; [right; left; reflexivity|split; [exact I|reflexivity]].
  - exact I.
  - split; [right; right; reflexivity|split; [exact I|reflexivity]].
  - split; [exact F|split; [exact I|reflexivity]].
  - split; [exact I|reflexivity].
Qed.
