(* C17  Document size and viewBox mapping follow the SVG viewport rules.
   Property theorems only.  `to_transform`, `aligned_pos`, `fit_view_box` are the SOURCE-DERIVED
   definitions in Gen/LeafViewBox.v (regenerated from /repo on every run). *)
From RV Require Import Model.Base Model.GeomPrims Model.ViewBoxSpec Model.ViewBoxChk Gen.LeafViewBox Proofs.ViewBox.
From RV Require Import Gen.Units Model.SvgSize Proofs.SvgSize.
From Coq Require Import String.
From RV Require Import Gen.PctAxis Model.ViewportPrims Gen.LeafViewport Proofs.Viewport.
From RV Require Import Gen.LeafImage Proofs.ImageFit.
From RV Require Import Gen.LeafMarker Proofs.Marker.
From RV Require Import Gen.Consts Gen.RenderLimit Proofs.RenderLimit.
Local Open Scope Q_scope.

Theorem C17_no_skew : forall vb s,
  t_kx (to_transform vb s) == 0 /\ t_ky (to_transform vb s) == 0.
Proof. exact no_skew. Qed.
Print Assumptions C17_no_skew.

Theorem C17_scale_positive : forall vb s, vb_ok vb s ->
  0 < t_sx (to_transform vb s) /\ 0 < t_sy (to_transform vb s).
Proof. exact scale_positive. Qed.
Print Assumptions C17_scale_positive.

Theorem C17_none_maps_exactly : forall vb s, vb_ok vb s -> ar_align (vb_aspect vb) = ANone ->
  let t := to_transform vb s in let r := vb_rect vb in
  img_lo_x t r == 0 /\ img_hi_x t r == sw s /\ img_lo_y t r == 0 /\ img_hi_y t r == sh s.
Proof. exact none_maps_exactly. Qed.
Print Assumptions C17_none_maps_exactly.

Theorem C17_uniform : forall vb s, vb_ok vb s -> ar_align (vb_aspect vb) <> ANone ->
  t_sx (to_transform vb s) == t_sy (to_transform vb s).
Proof. exact uniform. Qed.
Print Assumptions C17_uniform.

Theorem C17_meet_inside : forall vb s, vb_ok vb s ->
  ar_align (vb_aspect vb) <> ANone -> ar_slice (vb_aspect vb) = false ->
  let t := to_transform vb s in let r := vb_rect vb in
  0 <= img_lo_x t r /\ img_hi_x t r <= sw s /\ 0 <= img_lo_y t r /\ img_hi_y t r <= sh s.
Proof. exact meet_inside. Qed.
Print Assumptions C17_meet_inside.

Theorem C17_meet_touches : forall vb s, vb_ok vb s ->
  ar_align (vb_aspect vb) <> ANone -> ar_slice (vb_aspect vb) = false ->
  let t := to_transform vb s in let r := vb_rect vb in
  img_hi_x t r - img_lo_x t r == sw s \/ img_hi_y t r - img_lo_y t r == sh s.
Proof. exact meet_touches. Qed.
Print Assumptions C17_meet_touches.

Theorem C17_slice_covers : forall vb s, vb_ok vb s ->
  ar_align (vb_aspect vb) <> ANone -> ar_slice (vb_aspect vb) = true ->
  let t := to_transform vb s in let r := vb_rect vb in
  img_lo_x t r <= 0 /\ sw s <= img_hi_x t r /\ img_lo_y t r <= 0 /\ sh s <= img_hi_y t r.
Proof. exact slice_covers. Qed.
Print Assumptions C17_slice_covers.

Theorem C17_slice_touches : forall vb s, vb_ok vb s ->
  ar_align (vb_aspect vb) <> ANone -> ar_slice (vb_aspect vb) = true ->
  let t := to_transform vb s in let r := vb_rect vb in
  img_hi_x t r - img_lo_x t r == sw s \/ img_hi_y t r - img_lo_y t r == sh s.
Proof. exact slice_touches. Qed.
Print Assumptions C17_slice_touches.

Theorem C17_align_x : forall vb s, vb_ok vb s -> forall sd, align_x (ar_align (vb_aspect vb)) = Some sd ->
  let t := to_transform vb s in let r := vb_rect vb in
  aligned sd (img_lo_x t r) (img_hi_x t r) (sw s).
Proof. exact aligned_x. Qed.
Print Assumptions C17_align_x.

Theorem C17_align_y : forall vb s, vb_ok vb s -> forall sd, align_y (ar_align (vb_aspect vb)) = Some sd ->
  let t := to_transform vb s in let r := vb_rect vb in
  aligned sd (img_lo_y t r) (img_hi_y t r) (sh s).
Proof. exact aligned_y. Qed.
Print Assumptions C17_align_y.

Theorem C17_scale_law : forall vb s k, vb_ok vb s -> 0 < k ->
  ts_eq (to_transform vb (scale_size k s)) (ts_concat (from_scale k k) (to_transform vb s)).
Proof. exact scale_law. Qed.
Print Assumptions C17_scale_law.

Theorem C17_image_fit : forall actual rect a, pos_size actual -> pos_rect rect ->
  ts_eq (image_ts actual rect a)
        (ts_concat (from_translate (rx rect) (ry rect))
           (to_transform {| vb_rect := {| rx := 0; ry := 0; rw := sw actual; rh := sh actual |};
                            vb_aspect := a |} (r_size rect))).
Proof. exact image_fit. Qed.
Print Assumptions C17_image_fit.

(* --- document size: `resolve_svg_size` (hand model over the source-derived unit table, tied by the
   svg-size correspondence) computes exactly the SVG rule per dimension: absolute unit at the DPI,
   percentage of the viewBox, else percentage of the default size; missing = 100%; it fails exactly
   when a resolved dimension is not positive. *)
Theorem C17_size_rules : forall w h vb dpi fs ds,
  let W := spec_dim w (option_map rw vb) (sw ds) dpi fs in
  let H := spec_dim h (option_map rh vb) (sh ds) dpi fs in
  match fst (resolve_svg_size w h vb dpi fs ds) with
  | Some s => sw s == W /\ sh s == H /\ 0 < W /\ 0 < H
  | None => ~ (0 < W /\ 0 < H)
  end.
Proof. exact size_rules. Qed.
Print Assumptions C17_size_rules.

Theorem C17_size_restore_iff : forall w h vb dpi fs ds,
  snd (resolve_svg_size w h vb dpi fs ds) = true <->
  vb = None /\ (is_pct (match w with Some l => l | None => def_len end) = true \/
                is_pct (match h with Some l => l | None => def_len end) = true).
Proof. exact restore_iff. Qed.
Print Assumptions C17_size_restore_iff.

(* the unit table regenerated from units.rs: 1in = 2.54cm = 25.4mm = 72pt = 6pc = dpi user units *)
Theorem C17_unit_in : forall n dpi fs, exists v, convert_abs UIn n dpi fs = Some v /\ v == n * dpi.
Proof. exact unit_in. Qed.
Print Assumptions C17_unit_in.

Theorem C17_unit_equiv : forall n dpi fs a b c d e,
  convert_abs UIn n dpi fs = Some a ->
  convert_abs UCm (n * (254#100)) dpi fs = Some b ->
  convert_abs UMm (n * (254#10)) dpi fs = Some c ->
  convert_abs UPt (n * 72) dpi fs = Some d ->
  convert_abs UPc (n * 6) dpi fs = Some e ->
  a == b /\ a == c /\ a == d /\ a == e.
Proof. exact unit_equiv. Qed.
Print Assumptions C17_unit_equiv.

Theorem C17_unit_px : forall n dpi fs,
  convert_abs UPx n dpi fs = convert_abs UNone n dpi fs /\ convert_abs UPx n dpi fs = Some n.
Proof. exact unit_px. Qed.
Print Assumptions C17_unit_px.

(* --- extension round 4: the nested <svg> / <symbol> viewport (use_node.rs).  `use_node_size`, `viewbox_transform`,
   `get_clip_rect` (Gen/LeafViewport.v) and the percent-axis table (Gen/PctAxis.v) are SOURCE-DERIVED. *)
Theorem C17_pct_axis : pct_axis A_X = AxW /\ pct_axis A_Width = AxW /\ pct_axis A_Y = AxH /\ pct_axis A_Height = AxH.
Proof. exact pct_axis_xywh. Qed.
Print Assumptions C17_pct_axis.

Theorem C17_viewport_size : forall n st,
  fst (use_node_size n st) == spec_own_w n st /\ snd (use_node_size n st) == spec_own_h n st.
Proof. exact viewport_size_spec. Qed.
Print Assumptions C17_viewport_size.

Theorem C17_viewport_transform : forall n l st,
  match viewbox_transform n l st with
  | Some t => exists r W H, vn_viewbox l = Some r /\ W == spec_vp_w n st /\ H == spec_vp_h n st /\ 0 < W /\ 0 < H /\
                            t = to_transform {| vb_rect := r; vb_aspect := aspect_or_default l |} {| sw := W; sh := H |}
  | None => vn_viewbox l = None \/ ~ (0 < spec_vp_w n st /\ 0 < spec_vp_h n st)
  end.
Proof. exact viewport_transform_spec. Qed.
Print Assumptions C17_viewport_transform.

Theorem C17_clip_is_viewport : forall n l st c, get_clip_rect n l st = Some c ->
  rx c == spec_vp_x n st /\ ry c == spec_vp_y n st /\ rw c == spec_vp_w n st /\ rh c == spec_vp_h n st /\
  0 < rw c /\ 0 < rh c /\ spec_clips n l st = true.
Proof. exact clip_is_viewport. Qed.
Print Assumptions C17_clip_is_viewport.

Theorem C17_clip_none_iff : forall n l st,
  get_clip_rect n l st = None <-> spec_clips n l st = false \/ ~ (0 < spec_vp_w n st /\ 0 < spec_vp_h n st).
Proof. exact clip_none_iff. Qed.
Print Assumptions C17_clip_none_iff.

Theorem C17_viewport_one_rect : forall n l st t c, viewbox_transform n l st = Some t -> get_clip_rect n l st = Some c ->
  exists r, vn_viewbox l = Some r /\ pos_size (r_size c) /\
            t = to_transform {| vb_rect := r; vb_aspect := aspect_or_default l |} (r_size c) /\
            viewport_ts n st t = ts_concat (from_translate (rx c) (ry c)) t.
Proof. exact viewport_dims_agree. Qed.
Print Assumptions C17_viewport_one_rect.

Theorem C17_meet_inside_clip : forall n l st t c r,
  viewbox_transform n l st = Some t -> get_clip_rect n l st = Some c -> vn_viewbox l = Some r -> pos_rect r ->
  ar_align (aspect_or_default l) <> ANone -> ar_slice (aspect_or_default l) = false ->
  let T := viewport_ts n st t in
  rx c <= img_lo_x T r /\ img_hi_x T r <= rx c + rw c /\ ry c <= img_lo_y T r /\ img_hi_y T r <= ry c + rh c.
Proof. exact meet_inside_clip. Qed.
Print Assumptions C17_meet_inside_clip.

Theorem C17_slice_covers_clip : forall n l st t c r,
  viewbox_transform n l st = Some t -> get_clip_rect n l st = Some c -> vn_viewbox l = Some r -> pos_rect r ->
  ar_align (aspect_or_default l) <> ANone -> ar_slice (aspect_or_default l) = true ->
  let T := viewport_ts n st t in
  img_lo_x T r <= rx c /\ rx c + rw c <= img_hi_x T r /\ img_lo_y T r <= ry c /\ ry c + rh c <= img_hi_y T r.
Proof. exact slice_covers_clip. Qed.
Print Assumptions C17_slice_covers_clip.

Theorem C17_none_fills_clip : forall n l st t c r,
  viewbox_transform n l st = Some t -> get_clip_rect n l st = Some c -> vn_viewbox l = Some r -> pos_rect r ->
  ar_align (aspect_or_default l) = ANone ->
  let T := viewport_ts n st t in
  img_lo_x T r == rx c /\ img_hi_x T r == rx c + rw c /\ img_lo_y T r == ry c /\ img_hi_y T r == ry c + rh c.
Proof. exact none_fills_clip. Qed.
Print Assumptions C17_none_fills_clip.

(* --- round 4, 2nd pass: <image> placement (image.rs convert_inner); image_ts_gen / image_bbox_gen / image_clip_gen are
   SOURCE-DERIVED (Gen/LeafImage.v) --- *)
Theorem C17_image_ts_hand_is_gen : forall actual rect a, image_ts actual rect a = image_ts_gen actual rect a.
Proof. exact image_ts_hand_is_gen. Qed.
Print Assumptions C17_image_ts_hand_is_gen.

Theorem C17_image_fit_src : forall actual rect a, pos_size actual -> pos_rect rect ->
  ts_eq (image_ts_gen actual rect a) (ts_concat (from_translate (rx rect) (ry rect)) (to_transform (image_vb actual a) (r_size rect))).
Proof. exact image_ts_gen_fit. Qed.
Print Assumptions C17_image_fit_src.

Theorem C17_image_clip : forall actual rect a, image_clip_gen actual rect a = if ar_slice a then Some rect else None.
Proof. exact image_clip_spec. Qed.
Print Assumptions C17_image_clip.

Theorem C17_image_bbox_uses_aligned_ts : forall actual rect a pts,
  image_bbox_gen actual rect a pts = rect_transform (size_to_rect actual 0 0) (ts_concat pts (image_ts_gen actual rect a)).
Proof. exact image_bbox_uses_ts. Qed.
Print Assumptions C17_image_bbox_uses_aligned_ts.

Theorem C17_image_bbox_spec : forall actual rect a, pos_size actual -> pos_rect rect ->
  let T := to_transform (image_vb actual a) (r_size rect) in
  let r := vb_rect (image_vb actual a) in
  exists b, image_bbox_gen actual rect a ts_identity = Some b /\
            rx b == rx rect + img_lo_x T r /\ rx b + rw b == rx rect + img_hi_x T r /\
            ry b == ry rect + img_lo_y T r /\ ry b + rh b == ry rect + img_hi_y T r.
Proof. exact image_bbox_spec. Qed.
Print Assumptions C17_image_bbox_spec.

(* non-vacuity: a 20x10 picture in a 100x100 box at (5, 7), xMaxYMid meet: drawn 100x50 at (5, 32) *)
Example C17_image_nv :
  match image_bbox_gen {| sw := 20; sh := 10 |} {| rx := 5; ry := 7; rw := 100; rh := 100 |} {| ar_align := XMaxYMid; ar_slice := false |} ts_identity with
  | Some b => Qeq_bool (rx b) 5 && Qeq_bool (ry b) 32 && Qeq_bool (rw b) 100 && Qeq_bool (rh b) 50 = true
  | None => False
  end.
Proof. vm_compute. reflexivity. Qed.

(* --- round 5 (missed seed C17-17): the scale law needs the layer limit of resvg::render / render_node to be a function of the
   PIXMAP only.  render_target_size / render_node_target_size are SOURCE-DERIVED (Gen/RenderLimit.v), MAXBB_* are Gen/Consts.v --- *)
Theorem C17_render_limit_canvas_only : forall pm d,
  render_target_size pm d = (cw pm, ch pm) /\ render_node_target_size pm d = (cw pm, ch pm).
Proof. exact render_limit_canvas_only. Qed.
Print Assumptions C17_render_limit_canvas_only.

Theorem C17_render_limit_ignores_document : forall pm d1 d2,
  render_target_size pm d1 = render_target_size pm d2 /\ render_node_target_size pm d1 = render_node_target_size pm d2.
Proof. exact render_limit_ignores_document. Qed.
Print Assumptions C17_render_limit_ignores_document.

Theorem C17_render_limit_contains_canvas : forall w h, (0 < w -> 0 < h ->
  - (w * MAXBB_OFF_X) <= 0 /\ w <= - (w * MAXBB_OFF_X) + w * MAXBB_MUL_W /\
  - (h * MAXBB_OFF_Y) <= 0 /\ h <= - (h * MAXBB_OFF_Y) + h * MAXBB_MUL_H)%Z.
Proof. exact render_limit_contains_canvas. Qed.
Print Assumptions C17_render_limit_contains_canvas.

(* --- final pass: the marker viewport (marker.rs); marker_rect / marker_stroke_scale / marker_has_overflow / marker_clip_rect /
   marker_ts are SOURCE-DERIVED (Gen/LeafMarker.v); the rule is spec_marker_ts / spec_marker_scale of Proofs/Marker.v --- *)
Theorem C17_marker_ts : forall p z rot r k vb,
  ts_eq (marker_ts p z rot r k vb) (spec_marker_ts p (if z then ts_identity else rot) r k vb).
Proof. exact marker_ts_spec. Qed.
Print Assumptions C17_marker_ts.

Theorem C17_marker_ref_on_vertex : forall p z rot r k vb, t_tx rot == 0 -> t_ty rot == 0 ->
  map_x (marker_ts p z rot r k vb) (rx r) (ry r) == pt_x p /\ map_y (marker_ts p z rot r k vb) (rx r) (ry r) == pt_y p.
Proof. exact marker_ref_on_vertex. Qed.
Print Assumptions C17_marker_ref_on_vertex.

Theorem C17_marker_units : forall sw, marker_stroke_scale true sw = Some 1 /\ marker_stroke_scale false sw = sw.
Proof. exact marker_units_scale. Qed.
Print Assumptions C17_marker_units.

Theorem C17_marker_scale_rule : forall r k v, pos_rect r -> 0 < k -> pos_rect (vb_rect v) ->
  let s := spec_marker_scale r k (Some v) in
  0 < fst s /\ 0 < snd s /\
  (ar_align (vb_aspect v) <> ANone -> fst s == snd s) /\
  (ar_align (vb_aspect v) = ANone -> fst s * rw (vb_rect v) == rw r * k /\ snd s * rh (vb_rect v) == rh r * k) /\
  (ar_align (vb_aspect v) <> ANone -> ar_slice (vb_aspect v) = false ->
     fst s * rw (vb_rect v) <= rw r * k /\ snd s * rh (vb_rect v) <= rh r * k) /\
  (ar_align (vb_aspect v) <> ANone -> ar_slice (vb_aspect v) = true ->
     rw r * k <= fst s * rw (vb_rect v) /\ rh r * k <= snd s * rh (vb_rect v)).
Proof. exact marker_scale_rule. Qed.
Print Assumptions C17_marker_scale_rule.

Theorem C17_marker_clip_rule : forall o,
  marker_has_overflow o = negb (match o with Some s => negb (String.eqb s "hidden" || String.eqb s "scroll") | None => false end).
Proof. exact marker_clip_rule. Qed.
Print Assumptions C17_marker_clip_rule.

Theorem C17_marker_clip_rect : forall r vb,
  marker_clip_rect r vb = match vb with Some v => vb_rect v | None => {| rx := 0; ry := 0; rw := rw r; rh := rh r |} end.
Proof. exact marker_clip_rect_rule. Qed.
Print Assumptions C17_marker_clip_rect.

Theorem C17_marker_rect_rule : forall n st,
  let d l dflt base := spec_dim (Some (opt_unwrap_or l dflt)) (Some base) 0 (st_dpi st) (st_fs st) in
  let W := rw (st_view_box st) in let H := rh (st_view_box st) in
  match marker_rect n st with
  | Some r => rx r == d (mk_ref_x n) len_zero W /\ ry r == d (mk_ref_y n) len_zero H /\
              rw r == d (mk_width n) (len_num 3) W /\ rh r == d (mk_height n) (len_num 3) H /\ 0 < rw r /\ 0 < rh r
  | None => ~ (0 < d (mk_width n) (len_num 3) W /\ 0 < d (mk_height n) (len_num 3) H)
  end.
Proof. exact marker_rect_rule. Qed.
Print Assumptions C17_marker_rect_rule.

(* non-vacuity: markerWidth 6 x markerHeight 4, stroke width 2 (strokeWidth units), viewBox 0 0 12 4 meet, ref (3, 1) at vertex (48, 64):
   scale 1 on both axes, ref lands on the vertex *)
Example C17_marker_nv :
  let t := marker_ts {| pt_x := 48; pt_y := 64 |} true ts_identity {| rx := 3; ry := 1; rw := 6; rh := 4 |} 2
             (Some {| vb_rect := {| rx := 0; ry := 0; rw := 12; rh := 4 |}; vb_aspect := {| ar_align := XMidYMid; ar_slice := false |} |}) in
  Qeq_bool (t_sx t) 1 && Qeq_bool (t_sy t) 1 && Qeq_bool (t_tx t) 45 && Qeq_bool (t_ty t) 63 = true.
Proof. vm_compute. reflexivity. Qed.

(* non-vacuity: a `use` of width 50% x 40 on a 600x400 viewport referencing a symbol with a viewBox: both the
   transform and the clip rectangle exist, the viewport is 300 x 40 at (10, 20) *)
Example C17_viewport_nv :
  let u := {| vn_is_svg := false; vn_x := Some (mk_len 10 UNone); vn_y := Some (mk_len 20 UPx);
              vn_width := Some (mk_len 50 UPercent); vn_height := Some (mk_len 40 UNone);
              vn_overflow := None; vn_viewbox := None; vn_aspect := None |} in
  let s := {| vn_is_svg := false; vn_x := None; vn_y := None; vn_width := None; vn_height := None;
              vn_overflow := Some "hidden"%string; vn_viewbox := Some {| rx := 0; ry := 0; rw := 30; rh := 8 |};
              vn_aspect := None |} in
  let st := {| st_view_box := {| rx := 0; ry := 0; rw := 600; rh := 400 |}; st_use_size := (None, None); st_dpi := 96; st_fs := 12 |} in
  match viewbox_transform u s st, get_clip_rect u s st with
  | Some t, Some c => Qeq_bool (rx c) 10 && Qeq_bool (ry c) 20 && Qeq_bool (rw c) 300 && Qeq_bool (rh c) 40 && Qeq_bool (t_sx t) 5 = true
  | _, _ => False
  end.
Proof. vm_compute. reflexivity. Qed.

Example C17_size_nv :
  fst (resolve_svg_size (Some {| l_num := 2; l_unit := UIn |}) None
         (Some {| rx := 0; ry := 0; rw := 30; rh := 40 |}) 96 12 {| sw := 100; sh := 100 |})
  = Some {| sw := 2 * 96; sh := 40 * (100 / 100) |}.
Proof. reflexivity. Qed.

(* non-vacuity: the hypotheses are satisfiable and the conclusion is about a real mapping *)
Example C17_nv :
  let vb := {| vb_rect := {| rx := -10; ry := 5; rw := 100; rh := 50 |};
               vb_aspect := {| ar_align := XMidYMax; ar_slice := false |} |} in
  let s := {| sw := 300; sh := 400 |} in
  vb_ok vb s /\ Qeq_bool (t_sx (to_transform vb s)) 3 = true
  /\ Qeq_bool (t_ty (to_transform vb s)) (400 - 150 - 15) = true.
Proof. cbn. unfold vb_ok, pos_rect, pos_size. cbn. repeat split; try reflexivity; lra. Qed.
