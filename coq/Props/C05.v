(* C05  All references inside a tree are closed, unique and well-founded.
   Property theorems only.  Models: Model/Tree.v (tree/mod.rs collectors, as fixed: whole clip/mask chains),
   Model/Filters.v (parser/filter.rs), Model/Ids.v over Gen/IdTables.v (parser/converter.rs, source-derived).
   Tie: correspondence ops `collect`, `filter-wiring`, `ids` (tools/props/c05.py). *)
From RV Require Import Gen.IdTables.
From RV Require Import Gen.CollectTables.
From RV Require Import Gen.IdPrograms.
From RV Require Import Model.IdPrograms.
From RV Require Import Proofs.IdPrograms.
From RV Require Import Model.Tree.
From RV Require Import Model.Filters.
From RV Require Import Model.Ids.
From RV Require Import Proofs.Tree.
From RV Require Import Proofs.Collect.
From RV Require Import Proofs.Filters.
From RV Require Import Proofs.Ids.
From Coq Require Import NArith ZArith QArith List Bool String.
Import ListNotations.
Local Open Scope N_scope.

(* ---- collections: no definition appears twice (Arc identity), for any tree and any starting vector *)
Theorem C05_collect_nodup : forall root, coll_nodup (with_collections root).
Proof. exact with_collections_nodup. Qed.
Print Assumptions C05_collect_nodup.

(* ---- collections are complete: every clip path / mask (at ANY depth of a clip-path / mask chain), filter
   and paint server found by the field-by-field enumeration of the tree is in its collection.
   Full strength: no bound on chain length or nesting (F8 fixed). *)
Theorem C05_collect_complete : forall root, coll_complete (with_collections root).
Proof. exact with_collections_complete. Qed.
Print Assumptions C05_collect_complete.

(* ---- and nothing that is not in the tree is collected *)
Theorem C05_collect_sound : forall root, coll_sound (with_collections root).
Proof. exact with_collections_sound. Qed.
Print Assumptions C05_collect_sound.

(* ---- hidden paths (visibility = hidden / collapse: `NPath i false ..`) stay in the tree with their fill and
   stroke and the writer emits their url(#id): their gradients and patterns are collected like any other,
   wherever the path sits (under a group, inside a pattern, a mask, a flattened text ..). *)
Theorem C05_hidden_path_paints_collected : forall root i fl st p,
  In (NPath i false fl st) (all_group root) -> In p [fl; st] ->
  (is_lin p = true -> In (pa_ptr p) (map pa_ptr (t_lins (with_collections root)))) /\
  (is_rad p = true -> In (pa_ptr p) (map pa_ptr (t_rads (with_collections root)))) /\
  (is_pat p = true -> In (pa_ptr p) (map pa_ptr (t_pats (with_collections root)))).
Proof. exact hidden_path_paints_collected. Qed.
Print Assumptions C05_hidden_path_paints_collected.

(* ---- tie: the `match node` of tree/mod.rs::loop_over_paint_servers, regenerated from the source on every run, has
   one unguarded arm per node kind, the Path arm pushes fill and stroke, and sub-roots are always entered *)
Theorem C05_paint_loop_arms_as_modelled :
  paint_loop_arms =
  [("Group", "", ArmRec); ("Path", "", ArmPush ["fill"; "stroke"]); ("Image", "", ArmSkip); ("Text", "", ArmSkip)]%string
  /\ paint_loop_subroots = true.
Proof. exact paint_loop_arms_as_modelled. Qed.
Print Assumptions C05_paint_loop_arms_as_modelled.

(* .. and read arm by arm (first matching arm wins, a guarded arm has no reading) that table pushes exactly what the
   model's `node_paints` pushes, for every node and every paint kind - whatever the node's `visible` flag *)
Theorem C05_node_paints_is_source_arms : forall sel n, first_arm sel paint_loop_arms n = Some (node_paints sel n).
Proof. exact node_paints_is_source_arms. Qed.
Print Assumptions C05_node_paints_is_source_arms.

(* .. and the four collection loops contain no other condition than the address tests (`seen.insert(Arc::as_ptr(x))`: true
   exactly when no Arc with that address was pushed before, see Proofs/Collect.v) and `if let Node::Group` *)
Theorem C05_collector_guards_as_modelled :
  collector_guards =
  [("collect_clip_paths", ["let Node::Group(ref g) = node"; "seen.insert(Arc::as_ptr(c))"; "let Node::Group(ref g) = node"]);
   ("collect_masks", ["let Node::Group(ref g) = node"; "seen.insert(Arc::as_ptr(m))"; "let Node::Group(ref g) = node"]);
   ("collect_filters", ["let Node::Group(ref g) = node"; "seen.insert(Arc::as_ptr(filter))"; "let Node::Group(ref g) = node"]);
   ("collect_paint_servers", ["seen_lg.insert(Arc::as_ptr(lg))"; "seen_rg.insert(Arc::as_ptr(rg))";
                              "seen_patt.insert(Arc::as_ptr(patt))"]);
   ("loop_over_paint_servers", ["let Some(paint) = paint"])]%string.
Proof. exact collector_guards_as_modelled. Qed.
Print Assumptions C05_collector_guards_as_modelled.

(* .. and the address sets are the addresses of the lists: both start empty where the walk starts, the guarded insert is the
   only operation on a set, the recursive calls hand list and set on unchanged *)
Theorem C05_collector_seen_as_modelled :
  map fst collector_seen = ["collect_clip_paths"; "collect_masks"; "collect_filters"; "collect_paint_servers";
                            "loop_over_paint_servers"]%string
  /\ map (fun r => List.length (snd r)) collector_seen = [4; 4; 4; 6; 0]%nat
  /\ collector_calls =
     ["tree.collect_paint_servers();";
      "tree.root.collect_clip_paths(&mut tree.clip_paths, &mut HashSet::new());";
      "tree.root.collect_masks(&mut tree.masks, &mut HashSet::new());";
      "tree.root.collect_filters(&mut tree.filters, &mut HashSet::new());"]%string
  /\ tree_list_inits =
     ["clip_paths: Vec::new()"; "filters: Vec::new()"; "linear_gradients: Vec::new()"; "masks: Vec::new()";
      "patterns: Vec::new()"; "radial_gradients: Vec::new()"]%string.
Proof.
  destruct collector_seen_as_modelled as (Hs & Hc & Hi). rewrite Hs. repeat split; try reflexivity; assumption.
Qed.
Print Assumptions C05_collector_seen_as_modelled.

(* non-vacuity: a hidden path under a group, and a hidden path inside a pattern used by a hidden path; the three
   servers are used by nothing else and all three are collected *)
Definition hidden_root : group :=
  G 0 false None None []
    [NGroup (G 5 false None None [] [NPath 1 false (PLin 11 21) (PRad 12 22)]);
     NPath 2 false (PPat 13 23 (G 0 false None None [] [NPath 3 false (PLin 14 24) PNone])) PNone;
     NPath 4 true PColor PNone].
Example C05_hidden_nonvacuous :
  In (NPath 3 false (PLin 14 24) PNone) (all_group hidden_root) /\
  map pa_ptr (t_lins (with_collections hidden_root)) = [11; 14] /\
  map pa_ptr (t_rads (with_collections hidden_root)) = [12] /\
  map pa_ptr (t_pats (with_collections hidden_root)) = [13].
Proof. vm_compute. intuition. Qed.

(* chains are finite by typing: the n-th link of a chain is in the chain that is walked *)
Theorem C05_chain_walk : forall c c' d, c_next c = Some c' -> In d (clip_chain c') -> In d (clip_chain c).
Proof. exact clip_chain_next. Qed.
Print Assumptions C05_chain_walk.

(* ---- text spans keep their own paints; those are NOT collected (loop_over_paint_servers skips Node::Text
   "flattened text would be used instead"), DESIGN section 5 F27: refuted, class `text-span-paint` *)
Definition f27_root : group :=
  G 0 false None None [] [NText 0 (G 0 false None None [] [NPath 0 true (PLin 8 2) PNone]) [CH None [PP (PLin 7 1) PNone]]].
Theorem C05_span_paints_collected_refuted :
  exists root p, In p (reach_span_paints root) /\
    ~ In (pa_ptr p) (map pa_ptr (t_lins (with_collections root))).
Proof.
  exists f27_root, (PLin 7 1). split; [vm_compute; auto|]. vm_compute. intros [H|[]]. discriminate.
Qed.
Print Assumptions C05_span_paints_collected_refuted.

Theorem C05_span_paints_collected_guarded : forall t,
  span_paints_missing t = [] ->
  forall p, In p (reach_span_paints (t_root t)) ->
    In (pa_ptr p) (map pa_ptr (t_lins t ++ t_rads t ++ t_pats t)).
Proof.
  intros t H p Hp. unfold span_paints_missing in H.
  set (have := map pa_ptr (t_lins t ++ t_rads t ++ t_pats t)) in *.
  destruct (mem_N (pa_ptr p) have) eqn:E.
  - unfold mem_N in E. apply existsb_exists in E. destruct E as (x & Hx & Ex). apply N.eqb_eq in Ex. subst. exact Hx.
  - exfalso. assert (Hin : In (pa_ptr p) (filter (fun q => negb (mem_N q have)) (map pa_ptr (reach_span_paints (t_root t))))).
    { apply filter_In. split; [apply in_map; exact Hp|]. rewrite E. reflexivity. }
    rewrite H in Hin. exact Hin.
Qed.
Print Assumptions C05_span_paints_collected_guarded.

(* ---- filter primitives: collect_children never fails, and in its output every Reference input of
   primitive i is the result of some primitive j < i -- any number of primitives, any explicit,
   duplicate, unknown or keyword names *)
Theorem C05_collect_children_total : forall cs, exists out, collect_children cs = Some out.
Proof. exact collect_children_total. Qed.
Print Assumptions C05_collect_children_total.

Theorem C05_filter_inputs_wf : forall cs out,
  collect_children cs = Some out ->
  forall i p r, nth_error out i = Some p -> In (RRef r) (rp_inputs p) ->
    exists j q, (j < i)%nat /\ nth_error out j = Some q /\ rp_result q = r.
Proof. intros cs out H. apply wired_spec. apply (collect_children_wired cs). exact H. Qed.
Print Assumptions C05_filter_inputs_wf.

(* ---- result names: a result is an explicit `result` attribute or a generated "result<i>", so it is
   non-empty whenever no `result` attribute is empty *)
Theorem C05_results_nonempty : forall cs out,
  (forall c nm, In c cs -> fc_result c = Some nm -> nm <> RStr 0) ->
  collect_children cs = Some out -> Forall (fun p => rp_result p <> RStr 0) out.
Proof.
  intros cs out H E. unfold collect_children in E.
  apply (collect_children_from_results cs (fun nm => nm <> RStr 0) H) with (prims := []) (st := {| fr_names := []; fr_idx := 1 |}); auto.
  intros i; discriminate.
Qed.
Print Assumptions C05_results_nonempty.

(* ---- kernel shape: a feConvolveMatrix that survives conversion has exactly cols*rows values and a
   target inside the kernel (the usize product cannot wrap: F3 fixed) *)
Theorem C05_kernel_shape : forall ord mlen dz tx ty k,
  convolve_kernel ord mlen dz tx ty = Some k -> kernel_ok k = true.
Proof. exact convolve_kernel_ok. Qed.
Print Assumptions C05_kernel_shape.

(* a specular lighting primitive that survives conversion has its exponent in [1, 128] *)
Theorem C05_specular_exponent : forall a e, specular_exponent a = Some e -> (1 <= e /\ e <= 128)%Q.
Proof. exact specular_exponent_range. Qed.
Print Assumptions C05_specular_exponent.

Theorem C05_color_matrix_len : forall v n, color_matrix_len v = Some n -> n = 20%Z.
Proof.
  intros [v|] n; simpl; [|discriminate]. destruct (Z.eqb_spec v 20); [|discriminate]. intro H; inversion H; subst; reflexivity.
Qed.
Print Assumptions C05_color_matrix_len.

(* ---- generated ids *)
Theorem C05_gen_ids_fresh : forall h k c nm c',
  gen_id h k c = Some (nm, c') ->
  exists i, nm = gen_name k i /\ c_idx c k < i /\ c_idx c' k = i /\ ~ In (h nm) (c_hashes c).
Proof.
  intros h k c nm c' H. apply gen_id_fresh in H. destruct H as (i & H1 & H2 & H3 & _ & _ & H6).
  exists i. repeat split; auto. apply H6. destruct k; reflexivity.
Qed.
Print Assumptions C05_gen_ids_fresh.

Theorem C05_gen_names_injective : forall k k' i i', gen_name k i = gen_name k' i' -> k = k' /\ i = i'.
Proof. exact gen_name_inj. Qed.
Print Assumptions C05_gen_names_injective.

Theorem C05_gen_id_terminates : forall h k c, (forall a b, h a = h b -> a = b) -> gen_id h k c <> None.
Proof. exact gen_id_total. Qed.
Print Assumptions C05_gen_id_terminates.

(* ---- all ids are pairwise distinct: whatever the hash, whatever the order of keeping and generating,
   if every kept id is the (non-empty) id of SOME element of the source document -- of any kind, F9 fixed:
   the statement uses the source-derived `all_ids_filter` -- and no id is kept twice *)
Theorem C05_ids_unique : forall h (doc : doc_ids) evs out,
  (forall s, In s (kept evs) -> s <> ""%string /\ exists tag, In (tag, s) doc) ->
  NoDup (kept evs) ->
  run h evs (new_cache h doc) = Some out -> NoDup out.
Proof.
  intros h doc evs out Hk Hnd H.
  apply (run_unique h (populate all_ids_filter doc) evs (new_cache h doc) out); auto.
  - intros k; destruct k; reflexivity.
  - intros s Hs. destruct (Hk s Hs) as (Hne & tag & Hin). change all_ids_filter with (@None (list string)).
    apply (populate_all doc tag s); auto.
Qed.
Print Assumptions C05_ids_unique.

(* ---- k generations, of any interleaving of the seven kinds, give k pairwise distinct ids, none of which is the id of an
   element of the source document - for ANY document and ANY hash function *)
Theorem C05_gen_sequence_fresh : forall h (doc : doc_ids) ks out,
  run h (map (Gen) ks) (new_cache h doc) = Some out ->
  List.length out = List.length ks /\ NoDup out /\ (forall x tag, In x out -> x <> ""%string -> ~ In (tag, x) doc).
Proof.
  intros h doc ks out H.
  destruct (gen_sequence_fresh h (populate all_ids_filter doc) ks (new_cache h doc) out) as (L & ND & F); auto.
  - intros k; destruct k; reflexivity.
  - repeat split; auto. intros x tag Hx Hne Hin. apply (F x Hx).
    change all_ids_filter with (@None (list string)). apply (populate_all doc tag x); auto.
Qed.
Print Assumptions C05_gen_sequence_fresh.

(* with a collision-free hash the run never gets stuck *)
Theorem C05_run_total : forall h evs c, (forall a b, h a = h b -> a = b) -> run h evs c <> None.
Proof. intros h evs c Hinj. apply run_total. exact Hinj. Qed.
Print Assumptions C05_run_total.

(* the hypothesis "no id is kept twice" is necessary: keeping the id of one source element for two tree
   elements (cloned definition content, DESIGN section 5 F29 / F22) repeats it *)
Theorem C05_ids_unique_kept_twice_refuted :
  exists h (doc : doc_ids) evs out,
    (forall s, In s (kept evs) -> s <> ""%string /\ exists tag, In (tag, s) doc) /\
    run h evs (new_cache h doc) = Some out /\ ~ NoDup out.
Proof.
  exists (fun _ => 0), [("rect", "r")]%string, [Keep "r"; Keep "r"]%string, ["r"; "r"]%string.
  split; [|split].
  - intros s Hs. split; [|exists "rect"%string]; destruct Hs as [E|[E|[]]]; subst; try discriminate; left; reflexivity.
  - reflexivity.
  - intro H. inversion H as [|? ? Hn _]. apply Hn. left. reflexivity.
Qed.
Print Assumptions C05_ids_unique_kept_twice_refuted.

(* ---- lookup by id *)
Theorem C05_node_by_id : forall g x n, node_by_id g x = Some n -> node_id n = x /\ In n (desc_group g).
Proof. exact node_by_id_some. Qed.
Print Assumptions C05_node_by_id.

Theorem C05_node_by_id_none : forall g x,
  node_by_id g x = None <-> (forall n, In n (desc_group g) -> node_id n <> x).
Proof. exact node_by_id_none. Qed.
Print Assumptions C05_node_by_id_none.

Theorem C05_node_by_id_unique : forall g n,
  NoDup (map node_id (desc_group g)) -> In n (desc_group g) -> node_by_id g (node_id n) = Some n.
Proof. exact node_by_id_unique. Qed.
Print Assumptions C05_node_by_id_unique.

(* ---- non-vacuity *)
(* the F8 witness shape: chains a -> b -> c of clip paths and of masks; all three links are collected *)
Definition leaf : group := G 0 false None None [] [NPath 0 true PColor PNone].
Definition f08_root : group :=
  G 0 false None None []
    [NGroup (G 0 false (Some (CD 1 11 (Some (CD 2 12 (Some (CD 3 13 None leaf)) leaf)) leaf)) None [] [NPath 0 true PColor PNone]);
     NGroup (G 0 false None (Some (MD 4 14 (Some (MD 5 15 (Some (MD 6 16 None leaf)) leaf)) leaf)) [] [NPath 0 true PColor PNone])].
Example C05_nv_chain :
  map c_ptr (t_clips (with_collections f08_root)) = [1; 2; 3] /\
  map m_ptr (t_masks (with_collections f08_root)) = [4; 5; 6].
Proof. vm_compute. split; reflexivity. Qed.

(* a clip path that is only reachable through a pattern inside a mask inside a feImage is collected *)
Definition deep_root : group :=
  G 0 false None None []
    [NGroup (G 0 false None None
       [FD 9 19 [PR 9 0 1 [] (Some (G 0 false None None []
          [NGroup (G 0 false None (Some (MD 8 18 None (G 0 false None None []
             [NPath 0 true (PPat 7 17 (G 0 false None None [] [NGroup (G 0 false (Some (CD 1 11 None leaf)) None [] [])])) PNone]))) [] [])]))]] [])].
Example C05_nv_deep : map c_ptr (t_clips (with_collections deep_root)) = [1] /\
                      map pa_ptr (t_pats (with_collections deep_root)) = [7].
Proof. vm_compute. split; reflexivity. Qed.

(* wiring: an unknown name falls back to the previous result, a duplicate name is allowed *)
Example C05_nv_wiring :
  collect_children
    [ {| fc_known := true; fc_region_ok := true; fc_ins := [None]; fc_result := Some (RStr 5) |};
      {| fc_known := true; fc_region_ok := true; fc_ins := [Some (InName (RStr 9)); Some (InName (RStr 5))]; fc_result := None |};
      {| fc_known := false; fc_region_ok := true; fc_ins := []; fc_result := None |};
      {| fc_known := true; fc_region_ok := true; fc_ins := [Some InUnsupported]; fc_result := Some (RGen 3) |};
      {| fc_known := true; fc_region_ok := true; fc_ins := [None]; fc_result := None |} ]
  = Some [ {| rp_inputs := [RSourceGraphic]; rp_result := RStr 5 |};
           {| rp_inputs := [RRef (RStr 5); RRef (RStr 5)]; rp_result := RGen 2 |};
           {| rp_inputs := [RSourceGraphic]; rp_result := RGen 3 |};
           {| rp_inputs := [RRef (RGen 3)]; rp_result := RGen 4 |} ].
Proof. vm_compute. reflexivity. Qed.

(* the F9 witness: <rect id="clipPath1"> makes the first generated clip path id "clipPath2" *)
Fixpoint hs (s : string) : N :=
  match s with EmptyString => 1 | String c r => Ascii.N_of_ascii c + 256 * hs r end.
Example C05_nv_gen :
  option_map fst (gen_id hs KClipPath (new_cache hs [("rect", "clipPath1")]%string)) = Some "clipPath2"%string.
Proof. vm_compute. reflexivity. Qed.

(* ---------------------------------------------------------------- second pass (round 4) *)

(* ---- one source element, several emitted nodes: on EVERY control path of image::convert_inner (slice / no slice),
   converter::convert_path (each arm of `match raw_paint_order.order`, append_single_paint_path inlined for Fill and Stroke)
   and the clip-rect branch of use_node::convert - regenerated from the source as straight-line id programs - at most one
   of the nodes pushed into the tree carries the element id (a `.clone()` of the id next to a node that keeps it, a missing
   `= String::new()` or a copy instead of `mem::swap` makes the count 2) *)
Theorem C05_source_id_at_most_once : forall name p,
  In (name, p) id_programs -> (src_count (emitted p) <= 1)%nat.
Proof. exact source_id_at_most_once. Qed.
Print Assumptions C05_source_id_at_most_once.

Theorem C05_id_programs_sites :
  existsb (fun np => String.eqb (fst np) "image::convert_inner/slice") id_programs = true /\
  existsb (fun np => String.eqb (fst np) "use_node::convert/clip-rect") id_programs = true /\
  (5 <= List.length (filter (fun np => prefix "convert_path/" (fst np)) id_programs))%nat.
Proof. exact id_programs_sites. Qed.
Print Assumptions C05_id_programs_sites.

Example C05_id_programs_nonvacuous :
  forallb (fun np => existsb is_assign (snd np)) id_programs = true /\
  existsb (fun np => Nat.leb 3 (List.length (emitted (snd np))) && Nat.eqb (src_count (emitted (snd np))) 1) id_programs = true.
Proof. exact id_programs_nonvacuous. Qed.

(* ---- nested documents: every document is converted with its own Cache (new_cache), so the generators restart: ANY document
   that has no element ids gets `<prefix>1` for its first generated id of every kind - an outer document and a nested SVG
   image therefore share generated ids (e.g. both `filter1`) .. *)
Theorem C05_nested_generators_restart : forall h k (d : doc_ids),
  populate all_ids_filter d = [] -> exists c, gen_id h k (new_cache h d) = Some (gen_name k 1, c).
Proof.
  intros h k d E. unfold gen_id, new_cache. simpl. rewrite E. simpl.
  rewrite Bool.andb_false_r. eexists. reflexivity.
Qed.
Print Assumptions C05_nested_generators_restart.

(* .. which is harmless for the collections only because they identify definitions by object (Arc::ptr_eq, pinned by
   C05_collector_guards_as_modelled), never by id: two reachable filters with different identities are both collected
   whatever their ids *)
Theorem C05_equal_ids_both_collected : forall root f1 f2,
  In f1 (reach_filters root) -> In f2 (reach_filters root) -> f_id f1 = f_id f2 -> f_ptr f1 <> f_ptr f2 ->
  In (f_ptr f1) (map f_ptr (t_filts (with_collections root))) /\
  In (f_ptr f2) (map f_ptr (t_filts (with_collections root))) /\
  NoDup (map f_ptr (t_filts (with_collections root))).
Proof.
  intros root f1 f2 H1 H2 _ _. destruct (with_collections_complete root) as (_ & _ & C & _).
  destruct (with_collections_nodup root) as (_ & _ & _ & _ & _ & N). repeat split; auto.
Qed.
Print Assumptions C05_equal_ids_both_collected.

(* an outer group filtered by `filter1` (object 1) and a nested SVG image whose group is filtered by its own `filter1` (object 2) *)
Example C05_nested_equal_ids_nonvacuous :
  map f_ptr (t_filts (with_collections
    (G 0 false None None []
       [NGroup (G 0 false None None [FD 1 7 []] [NPath 0 true PColor PNone]);
        NImage 0 (Some (G 0 false None None [] [NGroup (G 0 false None None [FD 2 7 []] [NPath 0 true PColor PNone])]))]))) = [1; 2].
Proof. reflexivity. Qed.

(* ---- final pass: the general statement behind the table - ANY straight-line program over node variables that only MOVES the id
   (new / assign at most once / clear / mem::swap / push by move: no `.clone()` of an id or of a node, no copying push, no second
   representation), started with no variable holding the source id, emits it at most once.  Induction over the program, any length. *)
Theorem C05_copy_free_programs_emit_once : forall p,
  copy_free p = true -> (src_count (IdPrograms.run p (fun _ => KEmpty)) <= 1)%nat.
Proof. exact copy_free_at_most_once. Qed.
Print Assumptions C05_copy_free_programs_emit_once.

(* the image programs of the generated table are such programs (and do not depend on the starting environment); the table also holds
   the text site now: the Text node carries the element id, its flattened group holds a copy as second representation of the SAME node *)
Example C05_copy_free_instances :
  forallb (fun np => implb (prefix "image::" (fst np))
                       (copy_free (snd np) &&
                        Nat.eqb (src_count (IdPrograms.run (snd np) (fun _ => KEmpty))) (src_count (emitted (snd np))))) id_programs = true /\
  existsb (fun np => prefix "image::" (fst np)) id_programs = true /\
  existsb (fun np => String.eqb (fst np) "text::convert") id_programs = true.
Proof. destruct table_instances as [A B]. repeat split; auto. Qed.
