(* C13  Rendering commutes with whole-pixel translation of the canvas transform.
   Property theorems only (geometry of the offscreen layers; the rasteriser's own equivariance is observed by
   the e2e oracle).  `layer_ibbox`, `layer_shift_ts`, `layer_ts`, `fit_to_rect`, `max_bbox_args` are the
   SOURCE-DERIVED definitions of Gen/LeafRender.v / Gen/LeafFit.v. *)
From RV Require Import Model.Base Model.RenderPrims Gen.Consts Gen.LeafFit Gen.LeafRender Model.Render.
From RV Require Import Proofs.Render.
From RV Require Import Gen.LeafFilterPos Model.FilterPos Proofs.FilterPos.
Local Open Scope Z_scope.

Theorem C13_floor_ceil_shift : forall x d,
  f32_floor (x + inject_Z d)%Q = f32_floor x + d /\ f32_ceil (x + inject_Z d)%Q = f32_ceil x + d.
Proof. exact floor_ceil_shift. Qed.
Print Assumptions C13_floor_ceil_shift.

(* the unclamped layer box moves with the content *)
Theorem C13_raw_box_equivariant : forall dx dy b nf,
  raw_box (qshift dx dy b) nf = ishift dx dy (raw_box b nf).
Proof. exact raw_box_shift. Qed.
Print Assumptions C13_raw_box_equivariant.

(* the source-derived layer box is equivariant when the clamp box moves along (no i32 saturation) *)
Theorem C13_layer_box_equivariant : forall dx dy b nf m,
  small_bbox b -> small_bbox (qshift dx dy b) -> valid_irect m -> valid_irect (ishift dx dy m) ->
  layer_ibbox (qshift dx dy b) nf (ishift dx dy m) = option_map (ishift dx dy) (layer_ibbox b nf m).
Proof. exact layer_ibbox_equivariant. Qed.
Print Assumptions C13_layer_box_equivariant.

(* the real clamp box does not move - but clamping never changes what is on the canvas *)
Theorem C13_clamp_visible_part : forall r m W H px py,
  valid_irect r -> valid_irect m -> inside (canvas_rect W H) m -> in_irect (canvas_rect W H) px py ->
  (in_irect r px py <-> exists q, fit_to_rect r m = Some q /\ in_irect q px py).
Proof. exact clamp_visible_part. Qed.
Print Assumptions C13_clamp_visible_part.

(* hence: the layers of the shifted and of the unshifted rendering agree on every pixel that is on the
   canvas in both *)
Theorem C13_layers_agree_on_canvas : forall dx dy b nf W H m px py,
  small_bbox b -> small_bbox (qshift dx dy b) ->
  1 <= W <= CANVAS_MAX -> 1 <= H <= CANVAS_MAX -> max_bbox W H = Some m ->
  in_irect (canvas_rect W H) px py -> in_irect (canvas_rect W H) (px + dx) (py + dy) ->
  (in_lres (layer_box b nf m) px py <-> in_lres (layer_box (qshift dx dy b) nf m) (px + dx) (py + dy)).
Proof. exact layers_agree_on_canvas_max. Qed.
Print Assumptions C13_layers_agree_on_canvas.

(* the layer transform differs from the group transform by whole pixels only: the sub-pixel phase and the
   linear part are preserved, with or without clamping *)
Theorem C13_shift_ts_fraction_preserved : forall b i t,
  (t_tx (layer_content_ts b i t) == t_tx t - inject_Z (ix i) /\
   t_ty (layer_content_ts b i t) == t_ty t - inject_Z (iy i) /\
   t_sx (layer_content_ts b i t) == t_sx t /\ t_ky (layer_content_ts b i t) == t_ky t /\
   t_kx (layer_content_ts b i t) == t_kx t /\ t_sy (layer_content_ts b i t) == t_sy t)%Q.
Proof. exact shift_ts_integer. Qed.
Print Assumptions C13_shift_ts_fraction_preserved.

(* and when the layer box moved with the content, the content is rendered with the very same transform *)
Theorem C13_shift_ts_equivariant : forall dx dy b i t,
  ts_eq (layer_content_ts (qshift dx dy b) (ishift dx dy i)
                          (ts_concat (from_translate (inject_Z dx) (inject_Z dy)) t))
        (layer_content_ts b i t).
Proof. exact shift_ts_equivariant. Qed.
Print Assumptions C13_shift_ts_equivariant.

(* the filter region that filter::apply_inner recomputes inside the layer (single filter, layer not clamped)
   is the layer box itself, shifted to the origin: unchanged by a whole-pixel root translation *)
Theorem C13_filter_region_equivariant : forall dx dy b m,
  small_bbox b -> small_bbox (qshift dx dy b) -> valid_irect m ->
  filter_layer_clamped b m = false -> filter_layer_clamped (qshift dx dy b) m = false ->
  forall i i', layer_box b false m = LBox i -> layer_box (qshift dx dy b) false m = LBox i' ->
  i' = ishift dx dy i /\ filter_region (qshift dx dy b) i' = filter_region b i.
Proof. exact filter_region_equivariant. Qed.
Print Assumptions C13_filter_region_equivariant.

(* hence every input of filter::apply (layer transform, source size, region) is shift-invariant: light-source
   positions, the turbulence offset region.x - ts.tx and primitive sub-regions are functions of these only *)
Theorem C13_filter_inputs_invariant : forall dx dy b m t,
  small_bbox b -> small_bbox (qshift dx dy b) -> valid_irect m ->
  filter_layer_clamped b m = false -> filter_layer_clamped (qshift dx dy b) m = false ->
  forall i i', layer_box b false m = LBox i -> layer_box (qshift dx dy b) false m = LBox i' ->
  ts_eq (layer_content_ts (qshift dx dy b) i' (ts_concat (from_translate (inject_Z dx) (inject_Z dy)) t))
        (layer_content_ts b i t) /\
  layer_size i' = layer_size i /\
  filter_region (qshift dx dy b) i' = filter_region b i.
Proof. exact filter_inputs_invariant. Qed.
Print Assumptions C13_filter_inputs_invariant.

(* nested layers, any depth (full strength since ffdf909: children are clamped against the clamp box moved into
   the layer's frame).  The two renderings may reach the group through differently clamped enclosing layers -
   frames (ox,oy,m) and (ox',oy',m') - while its content moves by (dx,dy) in device space; the layers still
   agree on every pixel that is on the canvas in both *)
Theorem C13_nested_layers_agree_on_canvas : forall dx dy b nf m0 W H ox oy m ox' oy' m' px py,
  let b' := qshift (dx - (ox' - ox)) (dy - (oy' - oy)) b in
  small_bbox b -> small_bbox b' ->
  1 <= W <= CANVAS_MAX -> 1 <= H <= CANVAS_MAX -> max_bbox W H = Some m0 ->
  frame m0 ox oy m -> frame m0 ox' oy' m' ->
  in_irect (canvas_rect W H) px py -> in_irect (canvas_rect W H) (px + dx) (py + dy) ->
  (in_lres (layer_box b nf m) (px - ox) (py - oy) <->
   in_lres (layer_box b' nf m') (px + dx - ox') (py + dy - oy')).
Proof. exact nested_layers_agree. Qed.
Print Assumptions C13_nested_layers_agree_on_canvas.

(* ------------------------------------------------------------------ non-vacuity *)
Example C13_nv_shift :
  layer_ibbox (qshift 7 (-13) (mk_qrect (105 # 10) (203 # 10) (30 # 1) (1 # 4))) true (mk_irect (-200) (-200) 500 500)
  = Some (mk_irect 15 5 34 5).
Proof. vm_compute. reflexivity. Qed.
Example C13_nv_clamped_differently :
  (* a box reaching far left: before the shift it is clamped at -200, after a shift by +40 it still is; the
     integer boxes are not translates of each other, yet they agree on the canvas *)
  layer_ibbox (mk_qrect (-(400 # 1)) 0 (450 # 1) (10 # 1)) true (mk_irect (-200) (-200) 500 500) = Some (mk_irect (-200) (-2) 252 14) /\
  layer_ibbox (qshift 40 0 (mk_qrect (-(400 # 1)) 0 (450 # 1) (10 # 1))) true (mk_irect (-200) (-200) 500 500) = Some (mk_irect (-200) (-2) 292 14).
Proof. split; vm_compute; reflexivity. Qed.

(* ------------------------------------------------------------------ extension round 4: position-dependent primitives
   turb_offset, turb_sample, point_light_xy, spot_light_xy, spot_points_at_xy, filter_canvas_draw_pos are the
   SOURCE-DERIVED definitions of Gen/LeafFilterPos.v (filter/mod.rs apply_turbulence, transform_light_source,
   apply_to_canvas; filter/turbulence.rs apply).  The layer frame of a filtered group moves by (ex, ey) between the two
   renderings (Model/FilterPos.v): (0,0) when the layer follows its content, (dx,dy) when it is clamped to max_bbox. *)
Local Open Scope Q_scope.
Theorem C13_turbulence_offset_invariant : forall region t ex ey,
  qpair_eq (turb_offset (ishift ex ey region) (ts_shift ex ey t)) (turb_offset region t).
Proof. exact turb_offset_frame_invariant. Qed.
Print Assumptions C13_turbulence_offset_invariant.

Theorem C13_point_light_equivariant : forall lx ly region t ex ey,
  qpair_eq (point_light_xy lx ly (ishift ex ey region) (ts_shift ex ey t)) (point_light_xy lx ly region t).
Proof. exact point_light_frame_invariant. Qed.
Print Assumptions C13_point_light_equivariant.

(* feSpotLight: full strength since a831d94 (the mapping subtracted region.x() from the y coordinates before: the former
   C13_spot_light_equivariant_refuted / C13_spot_light_error and the ex = ey guard are gone) *)
Theorem C13_spot_light_equivariant : forall lx ly px py region t ex ey,
  qpair_eq (spot_light_xy lx ly (ishift ex ey region) (ts_shift ex ey t)) (spot_light_xy lx ly region t) /\
  qpair_eq (spot_points_at_xy px py (ishift ex ey region) (ts_shift ex ey t)) (spot_points_at_xy px py region t).
Proof. exact spot_light_frame_invariant. Qed.
Print Assumptions C13_spot_light_equivariant.

(* feTurbulence end to end: which lattice point a device pixel shows.  The filter result is drawn at
   filter_canvas_draw_pos = (0,0) of the layer although its pixel (0,0) stands for the region origin: *)
Theorem C13_turbulence_phase_correct : forall px py ox oy region t sx sy, ~ sx == 0 -> ~ sy == 0 ->
  ix region = 0%Z -> iy region = 0%Z ->
  qpair_eq (turb_device_sample px py ox oy region t sx sy)
           ((inject_Z px - (t_tx t + inject_Z ox)) / sx, (inject_Z py - (t_ty t + inject_Z oy)) / sy).
Proof. exact turb_device_sample_correct. Qed.
Print Assumptions C13_turbulence_phase_correct.
(* guarded: the layer follows its content (not clamped) - the phase moves with the picture *)
Theorem C13_turbulence_phase_equivariant : forall px py ox oy dx dy region t sx sy, ~ sx == 0 -> ~ sy == 0 ->
  qpair_eq (turb_device_sample (px + dx) (py + dy) (ox + dx) (oy + dy) region t sx sy)
           (turb_device_sample px py ox oy region t sx sy).
Proof. exact turb_device_sample_equivariant_guarded. Qed.
Print Assumptions C13_turbulence_phase_equivariant.
(* full strength fails: with a clamped filter layer the phase slips by exactly (ex / sx, ey / sy) *)
Theorem C13_turbulence_phase_shift : forall px py ox oy dx dy ex ey region t sx sy, ~ sx == 0 -> ~ sy == 0 ->
  fst (turb_device_sample (px + dx) (py + dy) (ox + dx - ex) (oy + dy - ey) (ishift ex ey region) (ts_shift ex ey t) sx sy)
    == fst (turb_device_sample px py ox oy region t sx sy) + inject_Z ex / sx /\
  snd (turb_device_sample (px + dx) (py + dy) (ox + dx - ex) (oy + dy - ey) (ishift ex ey region) (ts_shift ex ey t) sx sy)
    == snd (turb_device_sample px py ox oy region t sx sy) + inject_Z ey / sy.
Proof. exact turb_device_sample_shift. Qed.
Print Assumptions C13_turbulence_phase_shift.
Theorem C13_turbulence_phase_equivariant_refuted : exists px py ox oy dx dy ex ey region t sx sy,
  ~ sx == 0 /\ ~ sy == 0 /\
  ~ qpair_eq (turb_device_sample (px + dx) (py + dy) (ox + dx - ex) (oy + dy - ey) (ishift ex ey region) (ts_shift ex ey t) sx sy)
             (turb_device_sample px py ox oy region t sx sy).
Proof. exact turb_device_sample_refuted. Qed.
Print Assumptions C13_turbulence_phase_equivariant_refuted.

(* ------------------------------------------------------------------ second pass: the remaining position-dependent pieces
   translate_checked, tile_origin, feimage_pos, scale_coordinates_q, pattern_shader_ts: Gen/LeafFilterPos.v (filter/mod.rs,
   path.rs); filter_to_int_rect: Gen/LeafRender.v (region and primitive sub-regions use the same conversion). *)
Theorem C13_subregion_clip_equivariant : forall r o ex ey,
  translate_checked (ishift ex ey r) (ishift ex ey o) = translate_checked r o.
Proof. exact translate_checked_frame_invariant. Qed.
Print Assumptions C13_subregion_clip_equivariant.

Theorem C13_tile_origin_equivariant : forall input_region region ex ey,
  tile_origin (ishift ex ey input_region) (ishift ex ey region) = tile_origin input_region region.
Proof. exact tile_origin_frame_invariant. Qed.
Print Assumptions C13_tile_origin_equivariant.

Theorem C13_feimage_placement_equivariant : forall ox oy dx dy ex ey sub region,
  feimage_device_pos (ox + dx - ex) (oy + dy - ey) (ishift ex ey sub) (ishift ex ey region) =
  ((fst (feimage_device_pos ox oy sub region) + dx)%Z, (snd (feimage_device_pos ox oy sub region) + dy)%Z).
Proof. exact feimage_device_pos_equivariant. Qed.
Print Assumptions C13_feimage_placement_equivariant.

Theorem C13_offset_scaling_invariant : forall hyp dx dy t ex ey,
  offset_of hyp dx dy (ts_shift ex ey t) = offset_of hyp dx dy t.
Proof. exact offset_of_frame_invariant. Qed.
Print Assumptions C13_offset_scaling_invariant.

Theorem C13_pattern_phase : forall T pattern_ts rx ry sx sy dx dy x y,
  map_x (pattern_device_ts (ts_shift dx dy T) pattern_ts rx ry sx sy) x y
    == map_x (pattern_device_ts T pattern_ts rx ry sx sy) x y + inject_Z dx /\
  map_y (pattern_device_ts (ts_shift dx dy T) pattern_ts rx ry sx sy) x y
    == map_y (pattern_device_ts T pattern_ts rx ry sx sy) x y + inject_Z dy.
Proof. exact pattern_phase_equivariant. Qed.
Print Assumptions C13_pattern_phase.

(* exact in the Q idealisation; in f32 an edge within an ulp of an integer may flip: class filter-region-ulp *)
Theorem C13_subregion_equivariant : forall b ex ey, small_bbox b -> small_bbox (qshift ex ey b) ->
  filter_to_int_rect (qshift ex ey b) = option_map (ishift ex ey) (filter_to_int_rect b).
Proof. exact subregion_equivariant. Qed.
Print Assumptions C13_subregion_equivariant.

Example C13_nv_second_pass :
  translate_checked (mk_irect (-60) (-70) 40 30) (mk_irect (-80) (-80) 600 600) = Some (mk_irect 20 10 40 30) /\
  tile_origin (mk_irect (-71) (-84) 40 30) (mk_irect (-91) (-94) 600 600) = Some (20%Z, 10%Z) /\
  feimage_device_pos (-120) (-120) (mk_irect 150 160 40 30) (mk_irect 0 0 300 300) = (30%Z, 40%Z).
Proof. repeat split; vm_compute; reflexivity. Qed.

(* ------------------------------------------------------------------ round 5: no unregistered way to skip a node
   render_exits: Gen/RenderExits.v (source-derived from render.rs render_nodes / render_node, path.rs render / fill_path /
   stroke_path, image.rs render / render_inner / render_vector / render_raster); render_exits_expected: the registered table *)
From RV Require Import Gen.RenderExits Model.RenderExits.
Theorem C13_render_exits_registered : render_exits = render_exits_expected.
Proof. reflexivity. Qed.
Print Assumptions C13_render_exits_registered.
