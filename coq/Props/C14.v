(* C14  Offscreen group layers are invisible: isolation never changes the picture.
   Property theorems only.  `layer_ibbox`, `layer_shift_ts`, `layer_ts`, `layer_draw_pos`, `layer_draw_ts`,
   `max_bbox_args` (inside layer_box / layer_content_ts / max_bbox) and `fit_to_rect` are the
   SOURCE-DERIVED definitions of Gen/LeafRender.v and Gen/LeafFit.v (regenerated from
   crates/resvg/src/{render,lib,geom}.rs on every run). *)
From RV Require Import Model.Base Model.RenderPrims Gen.Consts Gen.LeafFit Gen.LeafRender Model.Render Model.Compose.
From RV Require Import Proofs.Render Proofs.Compose.
From RV Require Import Model.Blend8 Model.Compose8 Proofs.Compose8.
Local Open Scope Q_scope.

(* ------------------------------------------------------------------ compositing algebra (per pixel) *)
Theorem C14_over_assoc : forall a b c, peq (over a (over b c)) (over (over a b) c).
Proof. exact over_assoc. Qed.
Print Assumptions C14_over_assoc.

(* drawing a list of source-over draws onto bg = drawing them onto a clear layer, then the layer onto bg *)
Theorem C14_layer_invisible : forall ds bg, peq (paint ds bg) (over (paint ds clear) bg).
Proof. exact paint_layer. Qed.
Print Assumptions C14_layer_invisible.

(* the same for every render tree (groups nested to any depth, isolated or not, any opacities) *)
Theorem C14_layer_invisible_tree : forall n bg, peq (render n bg) (over (render n clear) bg).
Proof. exact render_layer. Qed.
Print Assumptions C14_layer_invisible_tree.

(* forcing or removing isolation on any set of opacity-1 groups, at all depths at once, changes nothing *)
Theorem C14_isolation_flags_irrelevant : forall f g n bg,
  peq (render (reflag f 0 n) bg) (render (reflag g 0 n) bg).
Proof. exact flags_irrelevant. Qed.
Print Assumptions C14_isolation_flags_irrelevant.

Theorem C14_opacity_mul : forall a b p, peq (scale a (scale b p)) (scale (a * b) p).
Proof. exact scale_mul. Qed.
Print Assumptions C14_opacity_mul.

Theorem C14_opacity_nested : forall a b ch bg,
  peq (render (Grp true a [Grp true b ch]) bg) (render (Grp true (a * b) ch) bg).
Proof. exact opacity_nested. Qed.
Print Assumptions C14_opacity_nested.

Theorem C14_opacity_zero : forall ch bg, peq (render (Grp true 0 ch) bg) bg.
Proof. exact opacity_zero. Qed.
Print Assumptions C14_opacity_zero.

Theorem C14_opacity_one : forall ch bg, peq (render (Grp true 1 ch) bg) (render (Grp false 1 ch) bg).
Proof. exact opacity_one. Qed.
Print Assumptions C14_opacity_one.

Theorem C14_opacity_alpha_ratio : forall o ch,
  pa (render (Grp true o ch) clear) == o * pa (render (Grp false 1 ch) clear).
Proof. exact opacity_alpha_ratio. Qed.
Print Assumptions C14_opacity_alpha_ratio.

(* ------------------------------------------------------------------ layer geometry *)
Local Open Scope Z_scope.

(* every canvas pixel that the content box, grown by a 1-pixel anti-aliasing fringe, touches lies in the
   allocated layer - whatever the clamping did.  Guard: the device box fits i32 arithmetic (|x|,w <= 2^29). *)
Theorem C14_layer_covers_content : forall b W H m px py,
  small_bbox b -> 1 <= W <= CANVAS_MAX -> 1 <= H <= CANVAS_MAX -> max_bbox W H = Some m ->
  in_irect (canvas_rect W H) px py -> touches b 1%Q px py ->
  in_lres (layer_box b true m) px py.
Proof. exact layer_covers_content_canvas. Qed.
Print Assumptions C14_layer_covers_content.

(* nested layers, any depth.  `frame m0 ox oy m`: a coordinate frame (accumulated layer origin ox,oy; clamp box m)
   reached from the root through any number of nested layers, each handing `layer_child_max` (source-derived:
   the clamp box translated into the layer's frame, ffdf909) to its children. *)
Theorem C14_nested_frame_invariant : forall m0 ox oy m, valid_irect m0 -> frame m0 ox oy m ->
  m = ishift (- ox) (- oy) m0 /\ valid_irect m.
Proof. exact frame_inv. Qed.
Print Assumptions C14_nested_frame_invariant.

(* full strength: whatever the nesting, every canvas pixel the content (+ 1 px fringe) touches is in the layer *)
Theorem C14_nested_layer_covers_content : forall b m0 W H ox oy m px py,
  small_bbox b -> 1 <= W <= CANVAS_MAX -> 1 <= H <= CANVAS_MAX -> max_bbox W H = Some m0 -> frame m0 ox oy m ->
  in_irect (canvas_rect W H) px py -> touches b 1%Q (px - ox) (py - oy) ->
  in_lres (layer_box b true m) (px - ox) (py - oy).
Proof. exact nested_layer_covers_content. Qed.
Print Assumptions C14_nested_layer_covers_content.

(* clamping to max_bbox never clips anything that is on the canvas *)
Theorem C14_clamp_keeps_canvas : forall r m W H px py,
  valid_irect r -> valid_irect m -> inside (canvas_rect W H) m -> in_irect (canvas_rect W H) px py ->
  (in_irect r px py <-> exists q, fit_to_rect r m = Some q /\ in_irect q px py).
Proof. exact clamp_visible_part. Qed.
Print Assumptions C14_clamp_keeps_canvas.

(* placing the layer at layer_draw_pos with layer_draw_ts undoes the shift applied to its content:
   no shift, for every point and every group transform - clamped or not *)
Theorem C14_offset_consistent : forall b i t x y,
  (map_x layer_draw_ts (map_x (layer_content_ts b i t) x y) (map_y (layer_content_ts b i t) x y)
     + inject_Z (fst (layer_draw_pos i)) == map_x t x y /\
   map_y layer_draw_ts (map_x (layer_content_ts b i t) x y) (map_y (layer_content_ts b i t) x y)
     + inject_Z (snd (layer_draw_pos i)) == map_y t x y)%Q.
Proof. exact offset_consistent. Qed.
Print Assumptions C14_offset_consistent.

(* the allocated pixmap has exactly the layer box's size *)
Theorem C14_layer_size : forall i, layer_size i = (iw i, ih i).
Proof. exact layer_size_spec. Qed.
Print Assumptions C14_layer_size.

(* ------------------------------------------------------------------ non-vacuity *)
(* a translucent group half outside a 100x100 canvas gets a layer that still covers its visible part *)
Example C14_nv_half_outside :
  exists m, max_bbox 100 100 = Some m /\
  layer_box (mk_qrect (60 # 1) (-(30 # 1)) (805 # 10) (705 # 10)) true m = LBox (mk_irect 58 (-32) 85 75).
Proof. eexists. split; [vm_compute; reflexivity|]. vm_compute. reflexivity. Qed.
(* a group 10x the canvas gets the clamped box *)
Example C14_nv_clamped :
  exists m, max_bbox 100 100 = Some m /\
  layer_box (mk_qrect (-(450 # 1)) (-(450 # 1)) (1000 # 1) (1000 # 1)) true m = LBox (mk_irect (-200) (-200) 500 500).
Proof. eexists. split; [vm_compute; reflexivity|]. vm_compute. reflexivity. Qed.
(* three nested layers around a box from -300 to 500 on a 100x100 canvas (the witness of the former defect
   nested-layer-clamp; the numbers are the recorded trace of the real renderer after ffdf909): the second and third
   frame have origin (-200, 8) and clamp box [0,500) x [-208,292) - the canvas, at local x 200..300, is inside *)
Example C14_nv_three_nested :
  let m0 := mk_irect (-200) (-200) 500 500 in
  let P1 := mk_irect (-200) 8 500 84 in
  let m1 := layer_child_max m0 P1 in
  let P2 := mk_irect 0 0 500 84 in
  let m2 := layer_child_max m1 P2 in
  layer_box (mk_qrect (-(300 # 1)) (10 # 1) (800 # 1) (80 # 1)) true m0 = LBox P1 /\
  m1 = mk_irect 0 (-208) 500 500 /\
  layer_box (mk_qrect (-(100 # 1)) (2 # 1) (800 # 1) (80 # 1)) true m1 = LBox P2 /\
  m2 = m1 /\
  layer_box (mk_qrect (-(100 # 1)) (2 # 1) (800 # 1) (80 # 1)) true m2 = LBox P2.
Proof. cbv zeta. repeat split; vm_compute; reflexivity. Qed.
Example C14_nv_half_alpha :
  peq (render (Grp true (1 # 2) [Draw {| pr := 1; pg := 0; pb := 0; pa := 1 |}]) clear)
      {| pr := 1 # 2; pg := 0; pb := 0; pa := 1 # 2 |}.
Proof. unfold peq; simpl. repeat split; reflexivity. Qed.

(* ------------------------------------------------------------------ extension round 4: the 8-bit layer path
   `over8` is tiny-skia's draw_pixmap (SourceOver, opacity 1, Nearest) on premultiplied bytes - what render_group
   composites a layer with; tied to the real tiny-skia by the exhaustive table op c14-drawpix. *)
(* one layer composite stores the exact source-over value (the Q algebra above) rounded: within half a level *)
Theorem C14_draw_pixmap_rounds_over : forall s d, (0 <= a8 s <= 255)%Z ->
  close_px (1 # 2)%Q (over8 s d) (over (q8 s) (q8 d)).
Proof. exact draw_pixmap_rounds_over. Qed.
Print Assumptions C14_draw_pixmap_rounds_over.

(* any number of additional layers around a node changes no bit (the oracle's nest modes: 0 files differ) *)
Theorem C14_nested_isolation_exact : forall k n bg, render8 (wrap8 k n) bg = render8 n bg.
Proof. exact wrap8_exact. Qed.
Print Assumptions C14_nested_isolation_exact.

(* n draws painted directly vs through a layer: every channel within (3n - 1) / 2 levels, for all byte inputs.
   n = 1: exact (the integer part of 1); n = 2: 2 levels - attained, see C14_quantisation_two_attained, so the
   property text's "+-1" does not hold for overlapping translucent children of an isolated group *)
Theorem C14_quantisation : forall ds bg, Forall byte_px8 ds -> byte_px8 bg -> ds <> [] ->
  (2 * dist8 (paint8 ds bg) (over8 (paint8 ds clear8) bg) <= 3 * Z.of_nat (length ds) - 1)%Z.
Proof. exact quantisation. Qed.
Print Assumptions C14_quantisation.

Theorem C14_single_draw_layer_exact : forall d bg, over8 (paint8 [d] clear8) bg = paint8 [d] bg.
Proof. exact single_draw_exact. Qed.
Print Assumptions C14_single_draw_layer_exact.

(* the bound is tight at n = 2: two translucent greys over a light background differ by 2 levels *)
Example C14_quantisation_two_attained :
  let d1 := {| r8 := 21; g8 := 21; b8 := 21; a8 := 30 |} in
  let d2 := {| r8 := 45; g8 := 45; b8 := 45; a8 := 115 |} in
  let bg := {| r8 := 252; g8 := 252; b8 := 252; a8 := 255 |} in
  r8 (paint8 [d1; d2] bg) = 178%Z /\ r8 (over8 (paint8 [d1; d2] clear8) bg) = 180%Z /\
  dist8 (paint8 [d1; d2] bg) (over8 (paint8 [d1; d2] clear8) bg) = 2%Z.
Proof. cbv zeta. split; [|split]; vm_compute; reflexivity. Qed.

From Coq Require Import Lqa.
From RV Require Import Model.BBox Gen.BBoxTables Proofs.BBox Model.LayerTree Proofs.LayerTree.
(* ------------------------------------------------------------------ second pass: layer_bounding_box from the leaves up
   `layer_of` composes, over a whole tree, the pieces of C12's model of usvg Group::calculate_bounding_boxes
   (Model/BBox.v, locked to crates/usvg/src/tree/mod.rs by Gen/BBoxTables.v; tied to the real usvg by the
   correspondence c14-lbbox).  `inner n q`: q is a point the node can paint, in its own coordinates (leaves: their stroke
   box; a group with filters: its filter region; any other group: what its children paint, mapped by their transforms). *)
Local Open Scope Q_scope.
Theorem C14_layer_source_facts_lock : bbox_facts = bbox_facts_expected.
Proof. exact bbox_facts_lock. Qed.
Print Assumptions C14_layer_source_facts_lock.

(* layer_of is the layer field C12's calculate_bounding_boxes stores *)
Theorem C14_layer_of_is_calculate_bounding_boxes : forall t fs ch abs_ts prev g,
  calculate_bounding_boxes abs_ts fs prev (map to_child ch) = (g, true) ->
  layer_of (LGroup t fs ch) = Some (gb_layer g).
Proof. exact layer_of_is_calculate_bounding_boxes. Qed.
Print Assumptions C14_layer_of_is_calculate_bounding_boxes.

(* for ALL trees, any nesting depth: the layer box contains everything the node paints *)
Theorem C14_layer_box_contains_painted : forall n L q,
  okb n = true -> layer_of n = Some L -> inner n q -> inside L (fst q) (snd q).
Proof. exact layer_contains_inner. Qed.
Print Assumptions C14_layer_box_contains_painted.

(* ... and so does the device box render_group derives from it (`layer_bounding_box().transform(transform)?`), which is
   the `b` of C14_layer_covers_content / C14_nested_layer_covers_content: the layer never clips content unless
   max_bbox clamps it *)
Theorem C14_device_layer_box_contains_painted : forall n T L B q,
  okb n = true -> layer_of n = Some L -> nz_transform T L = Some B -> inner n q ->
  inside B (map_x T (fst q) (snd q)) (map_y T (fst q) (snd q)).
Proof. exact device_layer_contains_painted. Qed.
Print Assumptions C14_device_layer_box_contains_painted.

(* non-vacuity: a group holding a leaf, an empty group, a rotated sub-group with a stroked leaf two levels down and a
   filtered sub-group; the point (-28, 12) is painted by the rotated leaf (its own (12, 28)) *)
Example C14_nv_layer_tree :
  let deep := LGroup (from_row 0 1 (-1) 0 0 0) [] [LGroup (from_row 1 0 0 1 2 3) [] [LLeaf (mkbox 5 5 20 30)]] in
  let n := LGroup ts_identity [] [LLeaf (mkbox 0 0 10 10); LGroup ts_identity [] []; deep;
                                  LGroup (from_row 2 0 0 2 0 0) [mkbox 40 40 50 60] [LLeaf (mkbox 0 0 1000 1000)]] in
  okb n = true /\ layer_of n = Some (mkbox (-33) 0 100 120) /\ inner n (-28, 12).
Proof.
  cbv zeta. split; [vm_compute; reflexivity|]. split; [vm_compute; reflexivity|].
  cbn [inner filters_bounding_box fold_left to_nonzero]. right. right. left.
  exists (12, 28). split.
  - cbn [inner filters_bounding_box fold_left to_nonzero]. left. exists (10, 25). split.
    + unfold inside; cbn. lra.
    + split; vm_compute; reflexivity.
  - split; vm_compute; reflexivity.
Qed.

(* ------------------------------------------------------------------ final pass: group opacity in bytes (C14_opacity_layer)
   opacity_u8 / opacity_of_byte: C15's exact-binary32 model of draw_pixmap with PixmapPaint { opacity } over a transparent
   destination (Model/ClipMask.v, read-only; complete correspondence with the real tiny-skia: c15-table opacity). *)
From RV Require Import Model.F32 Model.ClipMask Proofs.ClipNest Proofs.Opacity8.
Local Open Scope Z_scope.
(* opacity 0 erases a layer exactly, opacity 1 is bit-exact (consistent with C14_nested_isolation_exact): all 256 bytes *)
Theorem C14_opacity_layer_zero : forall c, is_byte c -> opacity_u8 c (opacity_of_byte 0) = 0.
Proof. exact opacity_zero_exact. Qed.
Print Assumptions C14_opacity_layer_zero.
Theorem C14_opacity_layer_one : forall c, is_byte c -> opacity_u8 c (opacity_of_byte 255) = c.
Proof. exact opacity_one_exact. Qed.
Print Assumptions C14_opacity_layer_one.
(* nested groups, inner opacity a, outer opacity b (bytes / 255): outer 0 erases, outer 1 passes the inner layer through *)
Theorem C14_opacity_nested_outer_zero : forall c a, is_byte c -> is_byte a -> nest_two c (nest_row 0 a) = 0.
Proof. exact nested_outer_zero. Qed.
Print Assumptions C14_opacity_nested_outer_zero.
Theorem C14_opacity_nested_outer_one : forall c a, is_byte c -> is_byte a ->
  nest_two c (nest_row 255 a) = opacity_u8 c (opacity_of_byte a).
Proof. exact nested_outer_one. Qed.
Print Assumptions C14_opacity_nested_outer_one.
(* two layers (a, then b) against one layer with the f32 product a * b: within ONE level for all 65 536 (channel, a) pairs at
   outer opacity b = 128/255.  PARTIAL: proved for this b only (one complete sweep costs ~4 min of vm_compute; all 2^24
   (c, a, b) triples do not fit); an exact-f32 enumeration of all triples outside Coq gives the same maximum 1, reached e.g.
   at (c, a, b) = (64, 254, 2) - C14_opacity_layer_attained *)
Theorem C14_opacity_layer_partial : forall c a, is_byte c -> is_byte a ->
  Z.abs (nest_two c (nest_row 128 a) - nest_one c (nest_row 128 a)) <= 1.
Proof. exact nested_opacity_128. Qed.
Print Assumptions C14_opacity_layer_partial.
Example C14_opacity_layer_attained : nest_two 64 (nest_row 2 254) = 1 /\ nest_one 64 (nest_row 2 254) = 0.
Proof. exact nested_opacity_attained. Qed.
