(* C14  Offscreen group layers are invisible: isolation never changes the picture.
   Property theorems only.  `layer_ibbox`, `layer_shift_ts`, `layer_ts`, `layer_draw_pos`, `layer_draw_ts`,
   `max_bbox_args` (inside layer_box / layer_content_ts / max_bbox) and `fit_to_rect` are the
   SOURCE-DERIVED definitions of Gen/LeafRender.v and Gen/LeafFit.v (regenerated from
   crates/resvg/src/{render,lib,geom}.rs on every run). *)
From RV Require Import Model.Base Model.RenderPrims Gen.Consts Gen.LeafFit Gen.LeafRender Model.Render Model.Compose.
From RV Require Import Proofs.Render Proofs.Compose.
Local Open Scope Q_scope.

(* ------------------------------------------------------------------ compositing algebra (per pixel) *)
Theorem C14_over_assoc : forall a b c, peq (over a (over b c)) (over (over a b) c).
Proof. exact over_assoc. Qed.
Print Assumptions C14_over_assoc.

(* drawing a list of source-over draws onto bg = drawing them onto a clear layer, then the layer onto bg *)
Theorem C14_layer_invisible : forall ds bg, peq (paint ds bg) (over (paint ds clear) bg).
Proof. exact paint_layer. Qed.
Print Assumptions C14_layer_invisible.

(* the same for every render tree (groups nested to any depth, isolated or not, any opacities) *)
Theorem C14_layer_invisible_tree : forall n bg, peq (render n bg) (over (render n clear) bg).
Proof. exact render_layer. Qed.
Print Assumptions C14_layer_invisible_tree.

(* forcing or removing isolation on any set of opacity-1 groups, at all depths at once, changes nothing *)
Theorem C14_isolation_flags_irrelevant : forall f g n bg,
  peq (render (reflag f 0 n) bg) (render (reflag g 0 n) bg).
Proof. exact flags_irrelevant. Qed.
Print Assumptions C14_isolation_flags_irrelevant.

Theorem C14_opacity_mul : forall a b p, peq (scale a (scale b p)) (scale (a * b) p).
Proof. exact scale_mul. Qed.
Print Assumptions C14_opacity_mul.

Theorem C14_opacity_nested : forall a b ch bg,
  peq (render (Grp true a [Grp true b ch]) bg) (render (Grp true (a * b) ch) bg).
Proof. exact opacity_nested. Qed.
Print Assumptions C14_opacity_nested.

Theorem C14_opacity_zero : forall ch bg, peq (render (Grp true 0 ch) bg) bg.
Proof. exact opacity_zero. Qed.
Print Assumptions C14_opacity_zero.

Theorem C14_opacity_one : forall ch bg, peq (render (Grp true 1 ch) bg) (render (Grp false 1 ch) bg).
Proof. exact opacity_one. Qed.
Print Assumptions C14_opacity_one.

Theorem C14_opacity_alpha_ratio : forall o ch,
  pa (render (Grp true o ch) clear) == o * pa (render (Grp false 1 ch) clear).
Proof. exact opacity_alpha_ratio. Qed.
Print Assumptions C14_opacity_alpha_ratio.

(* ------------------------------------------------------------------ layer geometry *)
Local Open Scope Z_scope.

(* every canvas pixel that the content box, grown by a 1-pixel anti-aliasing fringe, touches lies in the
   allocated layer - whatever the clamping did.  Guard: the device box fits i32 arithmetic (|x|,w <= 2^29). *)
Theorem C14_layer_covers_content : forall b W H m px py,
  small_bbox b -> 1 <= W <= CANVAS_MAX -> 1 <= H <= CANVAS_MAX -> max_bbox W H = Some m ->
  in_irect (canvas_rect W H) px py -> touches b 1%Q px py ->
  in_lres (layer_box b true m) px py.
Proof. exact layer_covers_content_canvas. Qed.
Print Assumptions C14_layer_covers_content.

(* nested layers.  A group inside enclosing layers is laid out in their frame (accumulated origin ox,oy)
   but clamped against the untranslated max_bbox.  Guarded form: the frame keeps the canvas inside max_bbox. *)
Theorem C14_nested_layer_covers_content : forall b m W H ox oy px py,
  small_bbox b -> valid_irect m -> frame_ok W H ox oy m ->
  in_irect (canvas_rect W H) px py -> touches b 1%Q (px - ox) (py - oy) ->
  in_lres (layer_box b true m) (px - ox) (py - oy).
Proof. exact layer_covers_content_frame. Qed.
Print Assumptions C14_nested_layer_covers_content.

(* one level of nesting always satisfies the guard *)
Theorem C14_nested_once_ok : forall W H m P px py,
  1 <= W <= CANVAS_MAX -> 1 <= H <= CANVAS_MAX -> max_bbox W H = Some m ->
  valid_irect P -> inside P m -> in_irect P px py -> in_irect (canvas_rect W H) px py ->
  frame_ok W H (ix P) (iy P) m.
Proof. exact frame_ok_depth1. Qed.
Print Assumptions C14_nested_once_ok.

(* two levels do not: the faithful model loses visible content (known class nested-layer-clamp) *)
Theorem C14_nested_layer_covers_content_refuted :
  exists W H m b1 P1 b2 P2 b3 px py,
    max_bbox W H = Some m /\ layer_box b1 true m = LBox P1 /\ layer_box b2 true m = LBox P2 /\
    small_bboxb b3 = true /\
    in_irect (canvas_rect W H) px py /\ in_irect P1 px py /\ in_irect P2 (px - ix P1) (py - iy P1) /\
    frame_okb W H (ix P1 + ix P2) (iy P1 + iy P2) m = false /\
    touches b3 0%Q (px - ix P1 - ix P2) (py - iy P1 - iy P2) /\
    ~ in_lres (layer_box b3 true m) (px - ix P1 - ix P2) (py - iy P1 - iy P2).
Proof. exact nested_clamp_refuted. Qed.
Print Assumptions C14_nested_layer_covers_content_refuted.

(* outside the guard the clause fails in the faithful model: a 2^31-wide group is dropped *)
Theorem C14_layer_covers_content_refuted :
  exists b W H px py, small_bboxb b = false /\ max_bbox W H <> None /\
    in_irect (canvas_rect W H) px py /\ touches b 0%Q px py /\
    forall m, max_bbox W H = Some m -> layer_box b true m = LSkip.
Proof. exact huge_group_skipped. Qed.
Print Assumptions C14_layer_covers_content_refuted.

(* clamping to max_bbox never clips anything that is on the canvas *)
Theorem C14_clamp_keeps_canvas : forall r m W H px py,
  valid_irect r -> valid_irect m -> inside (canvas_rect W H) m -> in_irect (canvas_rect W H) px py ->
  (in_irect r px py <-> exists q, fit_to_rect r m = Some q /\ in_irect q px py).
Proof. exact clamp_visible_part. Qed.
Print Assumptions C14_clamp_keeps_canvas.

(* placing the layer at layer_draw_pos with layer_draw_ts undoes the shift applied to its content:
   no shift, for every point and every group transform - clamped or not *)
Theorem C14_offset_consistent : forall b i t x y,
  (map_x layer_draw_ts (map_x (layer_content_ts b i t) x y) (map_y (layer_content_ts b i t) x y)
     + inject_Z (fst (layer_draw_pos i)) == map_x t x y /\
   map_y layer_draw_ts (map_x (layer_content_ts b i t) x y) (map_y (layer_content_ts b i t) x y)
     + inject_Z (snd (layer_draw_pos i)) == map_y t x y)%Q.
Proof. exact offset_consistent. Qed.
Print Assumptions C14_offset_consistent.

(* the allocated pixmap has exactly the layer box's size *)
Theorem C14_layer_size : forall i, layer_size i = (iw i, ih i).
Proof. exact layer_size_spec. Qed.
Print Assumptions C14_layer_size.

(* ------------------------------------------------------------------ non-vacuity *)
(* a translucent group half outside a 100x100 canvas gets a layer that still covers its visible part *)
Example C14_nv_half_outside :
  exists m, max_bbox 100 100 = Some m /\
  layer_box (mk_qrect (60 # 1) (-(30 # 1)) (805 # 10) (705 # 10)) true m = LBox (mk_irect 58 (-32) 85 75).
Proof. eexists. split; [vm_compute; reflexivity|]. vm_compute. reflexivity. Qed.
(* a group 10x the canvas gets the clamped box *)
Example C14_nv_clamped :
  exists m, max_bbox 100 100 = Some m /\
  layer_box (mk_qrect (-(450 # 1)) (-(450 # 1)) (1000 # 1) (1000 # 1)) true m = LBox (mk_irect (-200) (-200) 500 500).
Proof. eexists. split; [vm_compute; reflexivity|]. vm_compute. reflexivity. Qed.
Example C14_nv_half_alpha :
  peq (render (Grp true (1 # 2) [Draw {| pr := 1; pg := 0; pb := 0; pa := 1 |}]) clear)
      {| pr := 1 # 2; pg := 0; pb := 0; pa := 1 # 2 |}.
Proof. unfold peq; simpl. repeat split; reflexivity. Qed.
