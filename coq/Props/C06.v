(* C06  Results are reproducible: same input gives the same bytes, always.
   Property theorems only.  PARTIAL by nature: a Gallina model is a function, so what is proved is that the
   code's sources of non-functional behaviour are absent (source-derived ledger Gen/C06Sites.v, regenerated
   from /repo on every run) or unobservable (container model).  Thread interleavings, allocator and OS are
   only observed by the e2e-C06 oracle. *)
From Coq Require Import String ZArith List Bool Permutation.
Import ListNotations.
From RV Require Import Model.HashModel Proofs.HashModel.
From RV Require Import Model.C06State Proofs.C06State.
From Coq Require Import Sorted.
From RV Require Import Gen.C06Sites Gen.C06BinSites Model.C06Chk Proofs.C06Sites.

(* --- hash containers ------------------------------------------------------------------------- *)
Theorem C06_hash_uses_lookup_only :
  forallb hsite_ok c06_hash_sites = true /\ forallb ctor_ok c06_hash_ctor_sites = true /\
  (forall h, In h c06_hash_sites ->
     (exists o, method_op (hs_method h) = Some o /\ lookup_only unit unit o = true)
     \/ (method_op (hs_method h) = None /\ str_in (hs_method h) whole_value_kinds = true)).
Proof. exact (conj hash_sites_lookup_only (conj hash_ctors_empty hash_site_classified)). Qed.
Print Assumptions C06_hash_uses_lookup_only.

Theorem C06_hash_receivers_resolved : forallb hsite_resolved c06_hash_sites = true.
Proof. exact hash_sites_resolved. Qed.
Print Assumptions C06_hash_receivers_resolved.

Theorem C06_hash_mentions_accounted : forallb mention_ok c06_hash_mentions = true.
Proof. exact hash_mentions_accounted. Qed.
Print Assumptions C06_hash_mentions_accounted.

Theorem C06_order_oblivious :
  forall (K V : Type) (keqb : K -> K -> bool), (forall a b, keqb a b = true <-> a = b) ->
  forall p1 p2 : oracle K V, oracle_ok K V p1 -> oracle_ok K V p2 ->
  forall prog, forallb (lookup_only K V) prog = true ->
  run K V keqb p1 0 prog [] = run K V keqb p2 0 prog [].
Proof. exact order_oblivious. Qed.
Print Assumptions C06_order_oblivious.

Theorem C06_order_oblivious_from_equal_contents :
  forall (K V : Type) (keqb : K -> K -> bool), (forall a b, keqb a b = true <-> a = b) ->
  forall p1 p2 : oracle K V, oracle_ok K V p1 -> oracle_ok K V p2 ->
  forall prog, forallb (lookup_only K V) prog = true ->
  forall n1 n2 s1 s2, Permutation s1 s2 -> NoDup (keys K V s1) ->
  run K V keqb p1 n1 prog s1 = run K V keqb p2 n2 prog s2.
Proof. exact order_oblivious_gen. Qed.
Print Assumptions C06_order_oblivious_from_equal_contents.

(* non-vacuity: the restriction to the lookup interface is necessary *)
Theorem C06_iteration_observes_order :
  exists p1 p2, oracle_ok nat nat p1 /\ oracle_ok nat nat p2 /\
    run nat nat Nat.eqb p1 0 iter_prog [] <> run nat nat Nat.eqb p2 0 iter_prog [].
Proof. exact iteration_observes_order. Qed.
Print Assumptions C06_iteration_observes_order.

(* --- hashers, shared state, unsafe ------------------------------------------------------------ *)
Theorem C06_fixed_hasher :
  forallb hasher_ok c06_hasher_sites = true /\ string_hash_fixed c06_hasher_sites = true.
Proof. exact hashers_fixed. Qed.
Print Assumptions C06_fixed_hasher.

Theorem C06_no_shared_mutable_state : forallb ssite_ok c06_shared_sites = true.
Proof. exact shared_sites_allowed. Qed.
Print Assumptions C06_no_shared_mutable_state.

(* the same obligations for the two command-line front ends (hash containers lookup-only, no shared mutable state
   beyond the stated allowlist) *)
Theorem C06_binaries_ledger : bin_ledger_ok = true.
Proof. exact bin_ledger. Qed.
Print Assumptions C06_binaries_ledger.

(* the scanner sees statics / thread_local / locks / atomics in nested inline modules, feature-gated code and fn bodies *)
Theorem C06_scanner_selftest : c06_scanner_selftest = true.
Proof. exact scanner_selftest. Qed.
Print Assumptions C06_scanner_selftest.

Theorem C06_forbid_unsafe : forbid_ok c06_forbid_unsafe = true.
Proof. exact forbid_unsafe_both. Qed.
Print Assumptions C06_forbid_unsafe.

(* --- extension round 4: state that outlives a call, histories, schedules ----------------------------------------
   Every entry of the source-derived ledger c06_shared_sites is a cell with a class (C06Chk.cell_class: the reason as a
   constructor).  A new `thread_local!` / `static` / Mutex / OnceCell anywhere in crates/{usvg,resvg}/src appends a
   Mutable cell to ledger_classes and C06_state_ledger_discharged stops holding. *)
Theorem C06_state_ledger_discharged :
  forallb discharged ledger_classes = true /\ forallb discharged (map bin_cell_class c06_bin_shared_sites) = true.
Proof. exact (conj ledger_discharged bin_ledger_discharged). Qed.
Print Assumptions C06_state_ledger_discharged.

(* for ANY ledger whose cells are all discharged and any program that respects the classes: the output of a call is the
   same after every history (in particular: used process vs fresh process, h2 = []) *)
Theorem C06_history_independent :
  forall F G Hc (classes : list cls) init prog,
  forallb discharged classes = true -> (forall x, forallb (instr_ok classes) (prog x) = true) ->
  forall h1 h2 x,
    fst (call F G Hc classes init prog x (hrun F G Hc classes init prog h1 (store0 init)))
    = fst (call F G Hc classes init prog x (hrun F G Hc classes init prog h2 (store0 init))).
Proof. exact history_independent. Qed.
Print Assumptions C06_history_independent.

(* N threads over one shared store that any history has already used, ANY schedule: a thread that ran to completion
   holds the output of one call in a fresh process *)
Theorem C06_any_schedule :
  forall F G Hc (classes : list cls) init prog,
  forallb discharged classes = true -> (forall x, forallb (instr_ok classes) (prog x) = true) ->
  forall (xs h sched : list nat) i th,
    nth_error (fst (interleave F G Hc classes sched (map (spawn init prog) xs) (hrun F G Hc classes init prog h (store0 init)))) i = Some th ->
    t_prog th = [] ->
    exists x, nth_error xs i = Some x /\ fst (t_loc th) = fst (call F G Hc classes init prog x (store0 init)).
Proof. exact any_schedule. Qed.
Print Assumptions C06_any_schedule.

(* the same two statements for the ledger of the current source *)
Theorem C06_ledger_history_independent :
  forall F G Hc init prog, (forall x, forallb (instr_ok ledger_classes) (prog x) = true) ->
  forall h1 h2 x,
    fst (call F G Hc ledger_classes init prog x (hrun F G Hc ledger_classes init prog h1 (store0 init)))
    = fst (call F G Hc ledger_classes init prog x (hrun F G Hc ledger_classes init prog h2 (store0 init))).
Proof. exact ledger_history_independent. Qed.
Print Assumptions C06_ledger_history_independent.

Theorem C06_ledger_any_schedule :
  forall F G Hc init prog, (forall x, forallb (instr_ok ledger_classes) (prog x) = true) ->
  forall (xs h sched : list nat) i th,
    nth_error (fst (interleave F G Hc ledger_classes sched (map (spawn init prog) xs)
                      (hrun F G Hc ledger_classes init prog h (store0 init)))) i = Some th ->
    t_prog th = [] ->
    exists x, nth_error xs i = Some x /\ fst (t_loc th) = fst (call F G Hc ledger_classes init prog x (store0 init)).
Proof. exact ledger_any_schedule. Qed.
Print Assumptions C06_ledger_any_schedule.

(* the converse: one undischarged cell (a counter read at entry and written back: seeded change C06-14 in miniature)
   makes the output depend on the history, and on the schedule *)
Theorem C06_history_independence_refuted_by_mutable_cell :
  exists F G Hc classes init prog h1 h2 x,
    (forall y, forallb (instr_ok classes) (prog y) = true) /\
    forallb discharged classes = false /\
    fst (call F G Hc classes init prog x (hrun F G Hc classes init prog h1 (store0 init)))
    <> fst (call F G Hc classes init prog x (hrun F G Hc classes init prog h2 (store0 init))).
Proof. exact history_dependence_with_mutable_cell. Qed.
Print Assumptions C06_history_independence_refuted_by_mutable_cell.

Theorem C06_schedule_independence_refuted_by_mutable_cell :
  exists F G Hc classes init prog xs s1 s2,
    (forall y, forallb (instr_ok classes) (prog y) = true) /\
    map (fun t => length (t_prog t)) (fst (interleave F G Hc classes s1 (map (spawn init prog) xs) (store0 init))) = [0; 0]%nat /\
    map (fun t => length (t_prog t)) (fst (interleave F G Hc classes s2 (map (spawn init prog) xs) (store0 init))) = [0; 0]%nat /\
    map (fun t => fst (t_loc t)) (fst (interleave F G Hc classes s1 (map (spawn init prog) xs) (store0 init)))
    <> map (fun t => fst (t_loc t)) (fst (interleave F G Hc classes s2 (map (spawn init prog) xs) (store0 init))).
Proof. exact schedule_dependence_with_mutable_cell. Qed.
Print Assumptions C06_schedule_independence_refuted_by_mutable_cell.

(* --- extension round 4: order of sorted sequences ------------------------------------------------------------- *)
(* every sort / dedup / heap / parallel-iterator site of usvg, resvg, both main.rs, simplecss and fontdb (versions pinned by
   Cargo.lock) is a stable sort, dedup or binary_search; simplecss sorts the rules by specificity with a stable sort;
   fontdb keeps its faces in a SlotMap and touches the file system / environment only while a Database is built *)
Theorem C06_order_ledger : order_ledger_ok = true.
Proof. exact order_ledger. Qed.
Print Assumptions C06_order_ledger.

(* a stable sort is a function of (key, source order): ANY sorted arrangement that keeps equal-key elements in source
   order is the insertion-sort result *)
Theorem C06_stable_sort_unique :
  forall (A : Type) (key : A -> nat) (l l' : list A),
  StronglySorted (fun a b => key a <= key b)%nat l' -> (forall k, keyfilter A key k l' = keyfilter A key k l) ->
  l' = ssort A key l.
Proof. exact stable_sort_unique. Qed.
Print Assumptions C06_stable_sort_unique.

(* an unstable sort (any sorted permutation) is determined only when the keys are pairwise different ... *)
Theorem C06_unstable_sort_determined_when_keys_distinct :
  forall (A : Type) (key : A -> nat) (l l1 l2 : list A), NoDup (map key l) ->
  Permutation l l1 -> StronglySorted (fun a b => key a <= key b)%nat l1 ->
  Permutation l l2 -> StronglySorted (fun a b => key a <= key b)%nat l2 -> l1 = l2.
Proof. exact unstable_sort_determined_when_keys_distinct. Qed.
Print Assumptions C06_unstable_sort_determined_when_keys_distinct.

(* ... and stability matters for the CSS cascade (last matching rule wins): two rules of equal specificity *)
Theorem C06_css_cascade_needs_stable_sort :
  exists rules l1 l2, Permutation rules l1 /\ StronglySorted (fun a b => fst a <= fst b)%nat l1 /\
    Permutation rules l2 /\ StronglySorted (fun a b => fst a <= fst b)%nat l2 /\
    cascade l1 <> cascade l2 /\ css_value rules = Some 22%nat.
Proof. exact css_cascade_needs_stable_sort. Qed.
Print Assumptions C06_css_cascade_needs_stable_sort.

Theorem C06_css_cascade_stable_deterministic :
  forall rules l', StronglySorted (fun a b => fst a <= fst b)%nat l' ->
  (forall k, keyfilter _ fst k l' = keyfilter _ fst k rules) -> cascade l' = css_value rules.
Proof. exact css_cascade_stable_deterministic. Qed.
Print Assumptions C06_css_cascade_stable_deterministic.

(* --- generated ids --------------------------------------------------------------------------- *)
Theorem C06_cache_per_call : cache_per_call_ok = true.
Proof. exact cache_per_call. Qed.
Print Assumptions C06_cache_per_call.

Theorem C06_gen_fns_wf : gen_fns_ok = true.
Proof. exact gen_fns_wf. Qed.
Print Assumptions C06_gen_fns_wf.

Theorem C06_id_counters_deterministic :
  forall (kind : Type) (kind_eqb : kind -> kind -> bool) (H : Type) (heqb : H -> H -> bool)
         (idhash : kind -> nat -> H) (s1 s2 : list H),
  Permutation s1 s2 ->
  forall fuel calls c,
    gen_run kind kind_eqb H idhash (mem H heqb s1) fuel calls c =
    gen_run kind kind_eqb H idhash (mem H heqb s2) fuel calls c.
Proof. exact ids_storage_independent. Qed.
Print Assumptions C06_id_counters_deterministic.

Theorem C06_gen_smallest_free :
  forall (kind H : Type) (idhash : kind -> nat -> H) taken fuel k c n,
  gen_loop kind H idhash taken fuel k c = Some n ->
  (c < n)%nat /\ taken (idhash k n) = false /\ (forall m, (c < m < n)%nat -> taken (idhash k m) = true).
Proof. exact gen_loop_spec. Qed.
Print Assumptions C06_gen_smallest_free.

Theorem C06_gen_kinds_independent :
  forall (kind : Type) (kind_eqb : kind -> kind -> bool), (forall a b, kind_eqb a b = true <-> a = b) ->
  forall (H : Type) (idhash : kind -> nat -> H) taken fuel k calls c c', c k = c' k ->
  ids_of kind kind_eqb k (gen_run kind kind_eqb H idhash taken fuel calls c) =
  ids_of kind kind_eqb k (gen_run kind kind_eqb H idhash taken fuel (filter (fun k' => kind_eqb k' k) calls) c').
Proof. exact gen_kinds_independent. Qed.
Print Assumptions C06_gen_kinds_independent.

Theorem C06_ids_distinct_across_kinds : forall f g, In f c06_gen_id_fns -> In g c06_gen_id_fns ->
  gf_prefix f <> gf_prefix g -> forall d1 d2 : string, (gf_prefix f ++ d1)%string <> (gf_prefix g ++ d2)%string.
Proof. exact gen_prefixes_disjoint. Qed.
Print Assumptions C06_ids_distinct_across_kinds.

(* --- shared font database ------------------------------------------------------------------- *)
Theorem C06_fontdb_cow :
  forall (D : Type) (w : world D) i j f, world_ok D w -> i <> j ->
  seen D (make_mut_apply D w i f) j = seen D w j.
Proof. exact make_mut_isolated. Qed.
Print Assumptions C06_fontdb_cow.

(* --- non-vacuity ----------------------------------------------------------------------------- *)
Example C06_ledger_nonempty :
  (40 <= length c06_scanned_files)%nat /\ (10 <= length c06_hash_sites)%nat /\
  (3 <= length c06_hash_ctor_sites)%nat /\ (1 <= length c06_hasher_sites)%nat /\
  (1 <= length c06_gen_id_fns)%nat /\ (1 <= length c06_hash_fields)%nat.
Proof. exact ledger_nonempty. Qed.
Example C06_lookup_prog_runs :
  run nat nat Nat.eqb rev_oracle 0 lookup_prog [] =
  [OVal None; OVal None; OVal (Some 10); OVal (Some 11); OBool false; OVal (Some 20); ONat 1; OVal None; OUnit; ONat 0].
Proof. exact lookup_prog_example. Qed.
Example C06_checker_rejects_iteration :
  hsite_ok {| hs_file := "x"; hs_fn := "f"; hs_owner := "Cache"; hs_name := "clip_paths"; hs_method := "for_in"; hs_line := 1 |} = false
  /\ hsite_ok {| hs_file := "x"; hs_fn := "f"; hs_owner := "Cache"; hs_name := "paint"; hs_method := "values"; hs_line := 1 |} = false
  /\ hsite_ok {| hs_file := "x"; hs_fn := "f"; hs_owner := "Cache"; hs_name := "paint"; hs_method := "frobnicate"; hs_line := 1 |} = false
  /\ ssite_ok {| ss_file := "crates/usvg/src/parser/converter.rs"; ss_fn := ""; ss_kind := "static_mut"; ss_text := ""; ss_line := 1 |} = false
  /\ ssite_ok {| ss_file := "crates/usvg/src/text/mod.rs"; ss_fn := ""; ss_kind := "Rc"; ss_text := ""; ss_line := 1 |} = false
  /\ ssite_ok {| ss_file := "crates/resvg/src/image.rs"; ss_fn := ""; ss_kind := "static_interior"; ss_text := "static DECODED_IMAGES: Mutex<Vec<u8>> = Mutex::new(Vec::new());"; ss_line := 1 |} = false
  /\ bin_ssite_ok {| ss_file := "crates/resvg/src/main.rs"; ss_fn := "load_fonts"; ss_kind := "time"; ss_text := ""; ss_line := 1 |} = false
  /\ hsite_ok {| hs_file := "crates/resvg/src/main.rs"; hs_fn := "load_fonts"; hs_owner := "local"; hs_name := "font_files"; hs_method := "for_in"; hs_line := 1 |} = false.
Proof. vm_compute. repeat split; reflexivity. Qed.
Example C06_make_mut_applies :
  forall (D : Type) (w : world D) i c f, nth_error (holders D w) i = Some c ->
  seen D (make_mut_apply D w i f) i = Some (f (cells D w c)).
Proof. exact make_mut_applies. Qed.
Example C06_state_model_runs :
  fst (call exF exG exHc ex_classes ex_init ex_prog 5 (hrun exF exG exHc ex_classes ex_init ex_prog [1; 2; 5; 3]%nat (store0 ex_init)))
  = fst (call exF exG exHc ex_classes ex_init ex_prog 5 (store0 ex_init))
  /\ fst (call exF exG exHc ex_classes ex_init ex_prog 5 (store0 ex_init)) <> fst (call exF exG exHc ex_classes ex_init ex_prog 6 (store0 ex_init)).
Proof. exact ex_history. Qed.
Example C06_schedules_complete_and_agree :
  outs (interleave exF exG exHc ex_classes ex_rr (map (spawn ex_init ex_prog) [5; 6; 5]%nat) (store0 ex_init))
  = outs (interleave exF exG exHc ex_classes ex_seq (map (spawn ex_init ex_prog) [5; 6; 5]%nat)
            (hrun exF exG exHc ex_classes ex_init ex_prog [9; 9]%nat (store0 ex_init)))
  /\ map fst (outs (interleave exF exG exHc ex_classes ex_rr (map (spawn ex_init ex_prog) [5; 6; 5]%nat) (store0 ex_init))) = [0; 0; 0]%nat.
Proof. exact ex_schedules. Qed.
Example C06_ledger_cells_inhabited :
  existsb (fun c => match c with ImmInit => true | _ => false end) ledger_classes = true
  /\ existsb (fun c => match c with CallLocal => true | _ => false end) ledger_classes = true
  /\ existsb (fun c => match c with ExtInput => true | _ => false end) ledger_classes = true
  /\ existsb (fun c => match c with ImmInit => true | _ => false end) (map bin_cell_class c06_bin_shared_sites) = true
  /\ existsb (fun c => match c with NotOutput => true | _ => false end) (map bin_cell_class c06_bin_shared_sites) = true.
Proof. exact ledger_classes_inhabited. Qed.
Example C06_ledger_program_admitted : forallb (instr_ok ledger_classes) touch_all = true /\ (10 <= length touch_all)%nat.
Proof. exact touch_all_ok. Qed.
Example C06_class_checker_rejects :
  cell_class {| ss_file := "crates/resvg/src/path.rs"; ss_fn := ""; ss_kind := "thread_local"; ss_text := "thread_local! {"; ss_line := 1 |} = Mutable
  /\ cell_class {| ss_file := "crates/resvg/src/filter/iir_blur.rs"; ss_fn := ""; ss_kind := "static_interior"; ss_text := "static SCRATCH: Mutex<Vec<f64>> = Mutex::new(Vec::new());"; ss_line := 1 |} = Mutable
  /\ cell_class {| ss_file := "crates/resvg/src/render.rs"; ss_fn := "render"; ss_kind := "fs"; ss_text := ""; ss_line := 1 |} = Mutable
  /\ cell_class {| ss_file := "crates/usvg/src/writer.rs"; ss_fn := "write"; ss_kind := "fmt_ptr"; ss_text := ""; ss_line := 1 |} = Mutable
  /\ order_site_ok {| ss_file := "crates/usvg/src/text/layout.rs"; ss_fn := "f"; ss_kind := "sort_unstable"; ss_text := ""; ss_line := 1 |} = false
  /\ dep_site_ok {| ss_file := "fontdb/src/lib.rs"; ss_fn := "query"; ss_kind := "env"; ss_text := ""; ss_line := 1 |} = false
  /\ hsite_ok {| hs_file := "x"; hs_fn := "f"; hs_owner := "Document"; hs_name := "links"; hs_method := "macro_arg"; hs_line := 1 |} = false.
Proof. vm_compute. repeat split; reflexivity. Qed.
