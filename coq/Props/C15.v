(* C15  Clipping, masking and opacity only remove paint, and only where specified.
   Property theorems only.  Per-pixel model of crates/resvg/src/clip.rs / mask.rs / render.rs; the blend
   modes and buffer initialisation are the SOURCE-DERIVED constants of Gen/ClipTables.v (its own generated file: edits of the filter kernels do not touch this closure) (regenerated
   from /repo on every run); tiny-skia's apply_mask scaling and luminance coefficient are modelled exactly
   (u8 / binary32) and compared exhaustively with the real crate by the harness. *)
From RV Require Import Model.Base.
From RV Require Import Model.F32.
From RV Require Import Gen.ClipTables.
From RV Require Import Model.Blend8.
From RV Require Import Model.ClipMask.
From RV Require Import Proofs.ByteSweep.
From RV Require Import Proofs.ClipMask.
From RV Require Import Model.RenderPrims.
From RV Require Import Gen.LeafRender.
From RV Require Import Proofs.ClipNest.
From RV Require Import Model.ClipChk.
From RV Require Import Gen.RenderExits.
From Coq Require Import String.
Local Open Scope Q_scope.

(* clip, mask and opacity all multiply premultiplied channels by a factor in [0,1] *)
Theorem C15_factor_never_increases : forall p f, 0 <= p -> unit_q f -> 0 <= apply_factor p f /\ apply_factor p f <= p.
Proof. exact apply_factor_le. Qed.
Print Assumptions C15_factor_never_increases.

Theorem C15_clip_factor_unit : forall kids nested, kids_ok kids -> unit_q nested -> unit_q (clip_factor kids nested).
Proof. exact clip_factor_unit. Qed.
Print Assumptions C15_clip_factor_unit.

(* clip trees of any depth: clip-path on the clipPath, on its children, on their children, ... *)
Theorem C15_clip_tree_factor_unit : forall cl, wf_clip cl -> unit_q (eval_clip cl).
Proof. exact eval_clip_unit. Qed.
Print Assumptions C15_clip_tree_factor_unit.

Theorem C15_outside_clip_transparent : forall kids nested,
  Forall (fun k => snd k == 0) kids -> clip_factor kids nested == 0.
Proof. intros. apply outside_clip_transparent; [reflexivity|assumption]. Qed.
Print Assumptions C15_outside_clip_transparent.

(* guarded by the KNOWN class xor_hazard (F16) *)
Theorem C15_inside_clip_unchanged : forall kids nested, kids_ok kids -> xor_hazard kids = false ->
  Exists (fun k => snd k == 1) kids -> clip_factor kids nested == nested.
Proof. exact inside_clip_unchanged. Qed.
Print Assumptions C15_inside_clip_unchanged.

Theorem C15_inside_clip_unchanged_refuted :
  kids_ok f16_kids /\ Exists (fun k => snd k == 1) f16_kids /\ xor_hazard f16_kids = true /\ clip_factor f16_kids 1 == 0.
Proof. exact inside_clip_unchanged_refuted. Qed.
Print Assumptions C15_inside_clip_unchanged_refuted.

Theorem C15_plain_children_no_hazard : forall kids, Forall (fun k => fst k = false) kids -> xor_hazard kids = false.
Proof. intros kids H. apply plain_children_no_hazard, H. Qed.
Print Assumptions C15_plain_children_no_hazard.

Theorem C15_nested_clip_intersection : forall kids nested, kids_ok kids -> unit_q nested ->
  clip_factor kids nested == clip_factor kids 1 * nested /\
  clip_factor kids nested <= nested /\ clip_factor kids nested <= clip_factor kids 1.
Proof. exact nested_clip_intersection. Qed.
Print Assumptions C15_nested_clip_intersection.

Theorem C15_mask_factor_unit : forall coef region nested, unit_q coef -> unit_q region -> unit_q nested ->
  unit_q (mask_factor coef region nested).
Proof. exact mask_factor_unit. Qed.
Print Assumptions C15_mask_factor_unit.

Theorem C15_outside_mask_region_transparent : forall coef nested, mask_factor coef 0 nested == 0.
Proof. exact outside_mask_region. Qed.
Print Assumptions C15_outside_mask_region_transparent.

Theorem C15_white_mask_identity : forall region nested, mask_factor 1 region nested == region * nested.
Proof. exact white_mask_q. Qed.
Print Assumptions C15_white_mask_identity.

(* exact u8: tiny-skia's apply_mask scaling, all 65 536 (channel, coverage) pairs *)
Theorem C15_mask_monotone_u8 : forall c m, is_byte c -> is_byte m ->
  (0 <= scale_u8 c m <= c)%Z /\ ((m < 255)%Z -> (scale_u8 c m <= scale_u8 c (m + 1))%Z).
Proof. exact scale_u8_le. Qed.
Print Assumptions C15_mask_monotone_u8.

Theorem C15_full_and_empty_coverage_u8 : forall c, is_byte c -> scale_u8 c 255 = c /\ scale_u8 c 0 = 0%Z.
Proof. exact scale_u8_full. Qed.
Print Assumptions C15_full_and_empty_coverage_u8.

(* a white opaque mask pixel has luminance coefficient exactly 255, a transparent or black one 0 (exact binary32) *)
Theorem C15_white_luminance_u8 : lum_mask_u8 255 255 255 255 = 255%Z /\ lum_mask_u8 0 0 0 0 = 0%Z /\ lum_mask_u8 0 0 0 255 = 0%Z.
Proof. exact white_luminance_is_full. Qed.
Print Assumptions C15_white_luminance_u8.

Theorem C15_clip_modes_now :
  clip_buffer_initial_opaque = true /\ clip_children_mode = BClear /\
  clip_group_children_mode = BSourceOver /\ clip_group_merge_mode = BXor /\ clip_mode_flows_unchanged = true.
Proof. exact clip_modes_now. Qed.
Print Assumptions C15_clip_modes_now.

(* shape of mask.rs::apply and of render_group as they are in the source now: an empty mask clears the target, the
   mask content is restricted to the mask region before it is converted, the mask's own mask is applied to the
   target first, luminance / alpha kinds are passed through, and a group is filtered, clipped, masked, faded in that order *)
Theorem C15_mask_code_shape :
  mask_empty_is_transparent = true /\ mask_steps_in_order = true /\ mask_luminance_kept = true /\
  mask_alpha_kept = true /\ group_order_filter_clip_mask_opacity = true.
Proof. repeat split; reflexivity. Qed.
Print Assumptions C15_mask_code_shape.

(* nested isolation: the clamp box a layer hands to the groups inside it (source-derived layer_child_max of render_group) is the
   parent's box in the LAYER's frame: layer pixel (x, y) is inside it iff canvas-frame pixel (x + origin) is inside the parent's *)
Theorem C15_nested_bounds_in_layer_frame : forall maxb ib o,
  irect_translate maxb (- ix ib) (- iy ib) = Some o ->
  layer_child_max maxb ib = o /\
  forall x y, pix_in (layer_child_max maxb ib) x y <-> pix_in maxb (x + ix ib)%Z (y + iy ib)%Z.
Proof. exact nested_bounds_in_layer_frame. Qed.
Print Assumptions C15_nested_bounds_in_layer_frame.


(* ================================================================== extension round 4: nesting to ANY depth *)
(* mask on mask on mask ... (mask.rs::apply recursion): the factor stays in [0,1] *)
Theorem C15_mask_tree_factor_unit : forall m, wf_mask m -> unit_q (eval_mask m).
Proof. exact eval_mask_unit. Qed.
Print Assumptions C15_mask_tree_factor_unit.

(* a mask with a mask is the product: never more than either lets through, never more than its own rectangle *)
Theorem C15_nested_mask_intersection : forall c r k, unit_q c -> unit_q r -> wf_mask k ->
  eval_mask (MMask c r (Some k)) == eval_mask (MMask c r None) * eval_mask k /\
  eval_mask (MMask c r (Some k)) <= eval_mask k /\
  eval_mask (MMask c r (Some k)) <= eval_mask (MMask c r None) /\
  eval_mask (MMask c r (Some k)) <= r.
Proof. exact nested_mask_intersection. Qed.
Print Assumptions C15_nested_mask_intersection.

(* outside the mask rectangle of ANY level of the chain the target becomes transparent *)
Theorem C15_outside_any_mask_level_transparent : forall m, m_outside m -> eval_mask m == 0.
Proof. exact outside_any_mask_level. Qed.
Print Assumptions C15_outside_any_mask_level_transparent.

(* any stack of group effects (clip factor, mask factor, opacity of a group, of its parent, of its grandparent ...) only
   removes paint, and every further level removes at least as much *)
Theorem C15_factor_stack_never_increases : forall fs gs p, 0 <= p -> Forall unit_q fs -> Forall unit_q gs ->
  0 <= apply_factors p fs /\ apply_factors p fs <= p /\ apply_factors p (fs ++ gs) <= apply_factors p fs.
Proof.
  intros fs gs p Hp Hf Hg. destruct (apply_factors_le fs p Hp Hf) as [A B].
  split; [exact A|]. split; [exact B|]. apply apply_factors_prefix; assumption.
Qed.
Print Assumptions C15_factor_stack_never_increases.

(* exact bytes (tiny-skia apply_mask + Mask::from_pixmap, luminance in binary32), mask chains of any depth, any mask
   content pixel, any coverage of each mask rectangle: the target channel never grows ... *)
Theorem C15_mask_chain_u8_never_increases : forall m c, umask_wf m -> is_byte c -> (0 <= umask_apply m c <= c)%Z.
Proof. intros m c. exact (umask_apply_le m c). Qed.
Print Assumptions C15_mask_chain_u8_never_increases.

(* ... and is exactly 0 where the mask rectangle of some level does not cover the pixel *)
Theorem C15_mask_chain_u8_outside_zero : forall m c, umask_wf m -> is_byte c -> umask_outside m -> umask_apply m c = 0%Z.
Proof. intros m c. exact (umask_outside_zero m c). Qed.
Print Assumptions C15_mask_chain_u8_outside_zero.


(* ================================================================== second pass *)
(* group opacity as tiny-skia's highp pipeline applies it (load * 1/255, * opacity, SourceOver onto transparent, round-to-nearest-even
   store), exact binary32, ALL 65 536 (premultiplied channel, opacity byte) pairs: never adds paint, 0 at opacity 0, unchanged at
   opacity 1, monotone in the opacity *)
Theorem C15_opacity_u8 : forall c k, is_byte c -> is_byte k ->
  let v := opacity_u8 c (fst (op_pair k)) in
  (0 <= v <= c)%Z /\ (k = 0%Z -> v = 0%Z) /\ (k = 255%Z -> v = c) /\ ((k < 255)%Z -> (v <= opacity_u8 c (snd (op_pair k)))%Z).
Proof. exact opacity_u8_facts. Qed.
Print Assumptions C15_opacity_u8.

Theorem C15_group_paint_shape : group_paint_is_opacity_nearest = true /\ op_pair 128 = (opacity_of_byte 128, opacity_of_byte 129).
Proof. split; reflexivity. Qed.
Print Assumptions C15_group_paint_shape.

(* any chain of apply_mask bytes (clip-path on clip-path on ..., clip + mask of nested groups): never increases, every further level
   removes at least as much, and one level with no coverage (byte 0) makes the result exactly 0 *)
Theorem C15_scale_chain_u8 : forall ms ns c, is_byte c -> Forall is_byte ms -> Forall is_byte ns ->
  (0 <= scale_chain c ms <= c)%Z /\ (scale_chain c (ms ++ ns) <= scale_chain c ms)%Z /\ (In 0%Z ms -> scale_chain c ms = 0%Z).
Proof.
  intros ms ns c Hc Hm Hn. split; [apply scale_chain_le; assumption|]. split; [apply scale_chain_prefix; assumption|].
  apply scale_chain_zero; assumption.
Qed.
Print Assumptions C15_scale_chain_u8.

(* the luminance coefficient of ANY mask content pixel (coloured, translucent, even invalid) is a byte: the factor is in [0,1] *)
Theorem C15_luminance_coef_byte : forall r g b a, is_byte (lum_mask_u8 r g b a).
Proof. exact lum_coef_byte. Qed.
Print Assumptions C15_luminance_coef_byte.


(* ================================================================== round 5: clip children and mask content are always drawn *)
(* clip.rs draws every clipPath child through path.rs::fill_path (clip_mode_flows_unchanged).  In the source-derived table of
   conditional heads and early exits (Gen/RenderExits.v) fill_path has exactly: the zero-size test of the path's own bounds and the two
   matches on fill rule / paint kind, with 5 exits - NO test involving the transform, the canvas or the pixmap, so a child that
   overlaps the canvas is never culled; path.rs::render only tests visibility.  A new geometric fast path changes this obligation. *)
Theorem C15_clip_children_not_culled :
  exits_of "path.rs::fill_path" render_exits =
    Some (["path.data().bounds().width() == 0.0 || path.data().bounds().height() == 0.0"; "match fill.rule()"; "match fill.paint()"]%string, 5%nat) /\
  exits_of "path.rs::render" render_exits =
    Some (["!path.is_visible()"; "path.paint_order() == usvg::PaintOrder::FillAndStroke"]%string, 1%nat) /\
  clip_mode_flows_unchanged = true.
Proof. repeat split; reflexivity. Qed.
Print Assumptions C15_clip_children_not_culled.

(* non-vacuity *)
Example C15_ex_half : clip_factor [(false, 1 # 2); (false, 1 # 2)] 1 == 3 # 4.
Proof. vm_compute. reflexivity. Qed.
Example C15_ex_tree :
  eval_clip (CClip [CPath 1; CGroup [CPath 1] (CClip [CPath 1] None)] None) == 0 /\
  eval_clip (CClip [CGroup [CPath 1] (CClip [CPath 1] None); CPath 1] None) == 1.
Proof. vm_compute. repeat split; reflexivity. Qed.
Example C15_ex_scale : scale_u8 200 128 = 100%Z /\ lum_mask_u8 128 128 128 255 = 128%Z /\ lum_mask_u8 100 50 25 200 = 59%Z.
Proof. vm_compute. repeat split; reflexivity. Qed.
Example C15_ex_mask_chain :
  eval_mask (MMask (1 # 2) 1 (Some (MMask (1 # 2) 1 (Some (MMask 1 (1 # 2) None))))) == 1 # 8 /\
  umask_apply (UMask true 128 128 128 255 255 (Some (UMask false 0 0 0 128 255 None))) 200 = 50%Z /\
  umask_apply (UMask true 255 255 255 255 255 (Some (UMask false 0 0 0 255 0 None))) 200 = 0%Z.
Proof. vm_compute. repeat split; reflexivity. Qed.
Example C15_ex_opacity : opacity_u8 200 (opacity_of_byte 128) = 100%Z /\ opacity_u8 255 (opacity_of_byte 1) = 1%Z /\
  scale_chain 200 [128; 128; 255]%Z = 50%Z /\ scale_chain 200 [255; 0; 255]%Z = 0%Z.
Proof. vm_compute. repeat split; reflexivity. Qed.
