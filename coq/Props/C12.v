(* C12  Reported bounding boxes and transforms agree with what is painted.
   Property theorems only; model: Model/BBox.v (BBox, Group::calculate_bounding_boxes, Rect::transform, abs_transform
   threading, image abs box as fixed by af9970c) over exact rationals, tied to the implementation by the `bbox`
   correspondence (every group of every corpus tree recomputed by the model inside Coq). *)
From RV Require Import Model.Base Model.BBox Gen.BBoxTables Proofs.BBox.
Local Open Scope Q_scope.

(* Rect::transform = bounding box of the four mapped corners: it contains the image of every point of the
   rectangle, and each of its sides is attained at a corner (it is the smallest such box). *)
Theorem C12_rect_transform_bounds : forall t r r' x y,
  rect_transform t r = Some r' -> inside r x y -> inside r' (map_x t x y) (map_y t x y).
Proof. exact rect_transform_bounds. Qed.
Print Assumptions C12_rect_transform_bounds.

Theorem C12_rect_transform_tight : forall t r,
  let b := map_box t r in
  (exists x y, (x = bx0 r \/ x = bx1 r) /\ (y = by0 r \/ y = by1 r) /\ bx0 b == map_x t x y) /\
  (exists x y, (x = bx0 r \/ x = bx1 r) /\ (y = by0 r \/ y = by1 r) /\ bx1 b == map_x t x y) /\
  (exists x y, (x = bx0 r \/ x = bx1 r) /\ (y = by0 r \/ y = by1 r) /\ by0 b == map_y t x y) /\
  (exists x y, (x = bx0 r \/ x = bx1 r) /\ (y = by0 r \/ y = by1 r) /\ by1 b == map_y t x y).
Proof. exact map_box_tight. Qed.
Print Assumptions C12_rect_transform_tight.

(* After Group::calculate_bounding_boxes each of the four object/stroke boxes of a (non-empty) group contains the
   corresponding box of every live child (group children: mapped by the child's transform; `live` = all children except
   empty groups without filters, which both loops skip since ab43936); when the call succeeds the
   layer box is the union of the filter regions if the group has filters, else it contains every child's layer
   (stroke) box, and the absolute layer box is the layer box mapped by the group's absolute transform. *)
Theorem C12_parent_contains_children : forall abs_ts filters prev cs g ok,
  calculate_bounding_boxes abs_ts filters prev cs = (g, ok) ->
  live cs <> [] -> (forall c, In c (live cs) -> child_valid c = true) ->
  (forall c, In c (live cs) ->
     contains (gb_obj g) (c_obj c) /\ contains (gb_abs g) (c_abs c) /\
     contains (gb_stroke g) (c_stroke c) /\ contains (gb_abs_stroke g) (c_abs_stroke c)) /\
  (ok = true ->
     match filters_bounding_box filters with
     | Some f => gb_layer g = f
     | None => forall c l, In c (live cs) -> c_layer c = Some l -> contains (gb_layer g) l
     end /\ nz_transform abs_ts (gb_layer g) = Some (gb_abs_layer g)).
Proof. exact parent_contains_children. Qed.
Print Assumptions C12_parent_contains_children.

Theorem C12_object_bbox_contains : forall cs u c,
  calculate_object_bbox cs = Some u -> In c (live cs) -> contains u (c_obj c).
Proof. exact object_bbox_contains. Qed.
Print Assumptions C12_object_bbox_contains.

(* A child group without children and without filters has no painted content: since ab43936 both loops skip it (`live`),
   and the boxes are exactly those of the group without that child. *)
Theorem C12_empty_group_is_skipped : forall abs_ts filters prev l1 l2,
  calculate_bounding_boxes abs_ts filters prev (l1 ++ CEmptyGroup :: l2) = calculate_bounding_boxes abs_ts filters prev (l1 ++ l2) /\
  calculate_object_bbox (l1 ++ CEmptyGroup :: l2) = calculate_object_bbox (l1 ++ l2).
Proof. exact empty_group_is_skipped. Qed.
Print Assumptions C12_empty_group_is_skipped.

(* Axis-aligned absolute transforms (no rotation / skew): the absolute box IS the object box mapped by the
   absolute transform.  Paths: definitional (Path::new, branch without skew = path_abs_box).  Groups: the union
   commutes with axis-aligned maps, and mapping through a child group composes. *)
Theorem C12_abs_box_is_mapped_box : forall t cs uo ua, skewless t ->
  (forall c, In c (live cs) -> box_valid (c_obj c) = true /\ box_eq (c_abs c) (map_box t (c_obj c))) ->
  union_of c_obj cs = Some uo -> union_of c_abs cs = Some ua -> box_eq ua (map_box t uo).
Proof. exact abs_box_is_mapped_box_group. Qed.
Print Assumptions C12_abs_box_is_mapped_box.

Theorem C12_mapped_box_composes : forall a b r, skewless a -> skewless b -> box_valid r = true ->
  box_eq (map_box (ts_concat a b) r) (map_box a (map_box b r)).
Proof. exact map_box_compose. Qed.
Print Assumptions C12_mapped_box_composes.

(* ARBITRARY affine transforms (rotation, skew, mirror, even singular).  Unstroked polygonal paths, both branches of
   Path::new (with skew: bounding box of the transformed path; without: the mapped object box): the absolute box contains
   the image of every vertex and of every point of every segment. *)
Theorem C12_path_abs_contains_vertex : forall t pts b p,
  path_abs_bbox t pts = Some b -> In p pts -> inside b (map_x t (fst p) (snd p)) (map_y t (fst p) (snd p)).
Proof. exact path_abs_contains_vertex. Qed.
Print Assumptions C12_path_abs_contains_vertex.

Theorem C12_path_abs_contains_segment : forall t pts b p q l,
  path_abs_bbox t pts = Some b -> In p pts -> In q pts -> 0 <= l <= 1 ->
  inside b (fst (apply_ts t (mix l p q))) (snd (apply_ts t (mix l p q))).
Proof. exact path_abs_contains_segment. Qed.
Print Assumptions C12_path_abs_contains_segment.

(* Groups, by induction over the tree, for arbitrary transforms: the absolute box of a group contains the absolute box of
   every child, hence - at any depth - the image of every vertex (and segment point) of every path below it under that
   path's own absolute transform. *)
Theorem C12_tree_child_box_contained : forall ch b c bc,
  pt_abs_box (PGroup ch) = Some b -> In c ch -> pt_abs_box c = Some bc -> contains b bc.
Proof. exact tree_child_box_contained. Qed.
Print Assumptions C12_tree_child_box_contained.

Theorem C12_tree_abs_box_contains_points : forall n b a p,
  pt_abs_box n = Some b -> In (a, p) (leaf_points n) -> inside b (map_x a (fst p) (snd p)) (map_y a (fst p) (snd p)).
Proof. exact tree_abs_box_contains_points. Qed.
Print Assumptions C12_tree_abs_box_contains_points.

Theorem C12_tree_abs_box_contains_segments : forall n b a p q l,
  pt_abs_box n = Some b -> In (a, p) (leaf_points n) -> In (a, q) (leaf_points n) -> 0 <= l <= 1 ->
  inside b (fst (apply_ts a (mix l p q))) (snd (apply_ts a (mix l p q))).
Proof. exact tree_abs_box_contains_segments. Qed.
Print Assumptions C12_tree_abs_box_contains_segments.

(* abs_transform of every node = product of the ancestors' transforms down to the node ... *)
Theorem C12_abs_transform_product : forall n pabs,
  has_use_ts n = false -> product_ok pabs (thread pabs n) = true.
Proof. exact abs_transform_product_guarded. Qed.
Print Assumptions C12_abs_transform_product.

(* ... KNOWN class use_transform_twice (F14): a group made for a `use` / `symbol` element that has its own
   `transform` attribute gets abs = parent * ts * transform (or misses it on the clip wrapper); nested `svg` elements
   are fixed (fb5447a) and fall under the theorem above.  Witness
   structure/use/transform-attribute-1.svg: ts = translate(20 20), abs = translate(40 40). *)
Theorem C12_known_use_transform_twice_refuted :
  exists n, has_use_ts n = true /\ product_ok ts_identity (thread ts_identity n) = false.
Proof. exact abs_transform_product_refuted. Qed.
Print Assumptions C12_known_use_transform_twice_refuted.

(* KNOWN class stroke_box_skew: Path::new, branch with skew, strokes the transformed path with the untransformed stroke
   width.  For one segment under rotate(90) scale(s): the computed box does not contain the true stroke box when
   s = 2; it does when the transform is a pure rotation. *)
Theorem C12_known_stroke_box_skew_refuted :
  exists s len w, 0 < s /\ 0 < len /\ 0 < w /\ ~ contains (skew_branch_stroke_box s len w) (true_stroke_box s len w).
Proof. exact stroke_box_skew_refuted. Qed.
Print Assumptions C12_known_stroke_box_skew_refuted.

Theorem C12_stroke_box_pure_rotation : forall s len w,
  s == 1 -> 0 <= len -> 0 <= w -> contains (skew_branch_stroke_box s len w) (true_stroke_box s len w).
Proof. exact stroke_box_rotation_guarded. Qed.
Print Assumptions C12_stroke_box_pure_rotation.

(* image abs box (as fixed by af9970c): contains every point of the picture mapped by the view box transform and
   then by the parent's absolute transform - each applied once. *)
Theorem C12_image_abs_box : forall parent_abs image_ts w h b x y,
  image_abs_box parent_abs image_ts w h = Some b -> 0 <= x <= w -> 0 <= y <= h ->
  inside b (map_x parent_abs (map_x image_ts x y) (map_y image_ts x y))
           (map_y parent_abs (map_x image_ts x y) (map_y image_ts x y)).
Proof. exact image_abs_box_contains. Qed.
Print Assumptions C12_image_abs_box.

(* every source anchor the model transcribes (BBox::expand, the loops of calculate_bounding_boxes, Path::new,
   image abs box, abs_transform threading, ...) is present in the current source: Gen/BBoxTables.v *)
Theorem C12_source_facts_lock : bbox_facts = bbox_facts_expected.
Proof. exact bbox_facts_lock. Qed.
Print Assumptions C12_source_facts_lock.

(* ------------------------------------------------------------------ extension round 4: sub-trees *)
(* The product clause on the whole FOREST: the main tree and every clip-path / mask / pattern / feImage sub-tree hanging off
   any node, at every nesting depth (sub-trees of nodes of sub-trees included), each sub-tree relative to its own root
   (a Group::empty(): identity).  Guarded by the two known classes. *)
Theorem C12_forest_abs_transform_product : forall n pabs,
  xhas_use_ts n = false -> xhas_pushed n = false -> xproduct_ok pabs (xthread pabs n) = true.
Proof. exact forest_product_guarded. Qed.
Print Assumptions C12_forest_abs_transform_product.

(* KNOWN class pattern_pushed_transform: paint_server.rs push_pattern_transform wraps the converted pattern content into a
   group with transform = abs_transform = w and leaves the descendants' abs_transform as they were (the TODO in the source).
   Witness paint-servers/pattern/patternContentUnits=objectBoundingBox.svg: w = scale(160, 70), leaf abs = identity. *)
Theorem C12_known_pattern_pushed_transform_refuted :
  exists n, xhas_use_ts n = false /\ xhas_pushed n = true /\ xproduct_ok ts_identity (xthread ts_identity n) = false.
Proof. exact forest_pushed_refuted. Qed.
Print Assumptions C12_known_pattern_pushed_transform_refuted.

(* The forest invariant IS the conjunction of the per-node checks the `bbox` correspondence evaluates on a dump (a leaf against
   its parent group, a group against parent * own transform, a sub-tree root against the identity): no node of the forest
   escapes, and nothing else is needed. *)
Theorem C12_forest_product_is_local : forall n pabs,
  xproduct_ok pabs n = forallb (fun pm => bnode_local_ok (fst pm) (snd pm)) (bflat pabs n).
Proof. exact forest_product_is_local. Qed.
Print Assumptions C12_forest_product_is_local.

(* the forest invariant implies the main-tree one of C12_abs_transform_product (sub-trees dropped) *)
Theorem C12_forest_implies_main : forall n pabs,
  xhas_pushed n = false -> xproduct_ok pabs (xthread pabs n) = true -> product_ok pabs (thread pabs (xmain n)) = true.
Proof. exact forest_implies_main. Qed.
Print Assumptions C12_forest_implies_main.

(* non-vacuity: a clipped group whose clip path has its own clip path and a child with transform, a masked group with an
   objectBoundingBox wrapper (transform = abs = w under the identity root), a path with a pattern fill *)
Example C12_ex_forest :
  let clip2 := xroot [] [XLeaf []] in
  let clip1 := xroot [] [XGroup GK_Plain (from_row 0 1 (-1) 0 5 5) ts_identity [clip2] [XLeaf []]] in
  let mask := xroot [] [XGroup GK_Plain (from_row 160 0 0 70 20 40) ts_identity [] [XLeaf []; XLeaf []]] in
  let patt := xroot [] [XGroup GK_Plain (from_scale 2 2) ts_identity [] [XLeaf []]] in
  let n := XGroup GK_Plain (from_translate 3 4) ts_identity [clip1; mask] [XLeaf [patt]; XGroup GK_Plain (from_scale 2 3) ts_identity [] [XLeaf []]] in
  xhas_use_ts n = false /\ xhas_pushed n = false /\ xproduct_ok (from_translate 10 5) (xthread (from_translate 10 5) n) = true /\
  length (bflat (from_translate 10 5) (xthread (from_translate 10 5) n)) = 16%nat.
Proof. vm_compute. repeat split. Qed.

(* ------------------------------------------------------------------ non-vacuity *)
(* F21 witness: a 20x20 picture in <image x="50" y="60" width="40" height="40">: box (50,60)-(90,100) *)
Example C12_ex_image : image_abs_box ts_identity (from_row 2 0 0 2 50 60) 20 20 = Some (mkbox 50 60 90 100).
Proof. vm_compute. reflexivity. Qed.
Example C12_ex_group :
  let leaf := CLeaf {| lb_obj := mkbox 0 0 10 10; lb_abs := mkbox 5 5 15 15; lb_stroke := mkbox (-1) (-1) 11 11; lb_abs_stroke := mkbox 4 4 16 16 |} in
  let inner := fst (calculate_bounding_boxes (from_translate 5 5) [] dummy_boxes [leaf]) in
  let outer := calculate_bounding_boxes ts_identity [] dummy_boxes [CGroup (from_translate 5 5) inner; leaf] in
  snd outer = true /\ gb_obj (fst outer) = mkbox 0 0 15 15 /\ gb_layer (fst outer) = mkbox (-1) (-1) 16 16 /\
  chk_contains [] [CGroup (from_translate 5 5) inner; leaf] (fst outer) = true.
Proof. vm_compute. repeat split. Qed.
Example C12_ex_rotate : (* a rotation by 90 degrees: the mapped box is the rotated rectangle *)
  map_box (from_row 0 1 (-1) 0 0 0) (mkbox 0 0 10 20) = mkbox (-20) 0 0 10.
Proof. vm_compute. reflexivity. Qed.
(* structure/svg/background-color-with-viewbox.svg (5431e4e): the background rectangle is an ordinary leaf of the group
   that carries the root viewBox transform *)
Example C12_ex_background : product_ok ts_identity (thread ts_identity
  (TGroup GK_Plain (from_translate 100 100) ts_identity [TLeaf; TLeaf])) = true.
Proof. vm_compute. reflexivity. Qed.
(* nested svg with transform T, viewport translate/scale V and clip wrapper (fb5447a): group(T) > clip wrapper(identity) > group(V) *)
Example C12_ex_nested_svg :
  let n := TGroup GK_Plain (from_translate 7 3) ts_identity
             [TGroup GK_ClipWrap ts_identity ts_identity [TGroup GK_Plain (from_row 2 0 0 2 20 30) ts_identity [TLeaf]]] in
  has_use_ts n = false /\ product_ok (from_translate 10 5) (thread (from_translate 10 5) n) = true.
Proof. vm_compute. split; reflexivity. Qed.
(* a triangle under a 45 degree rotation with scale sqrt(2) (matrix 1 1 -1 1): skew branch *)
Example C12_ex_rotated_path :
  path_abs_bbox (from_row 1 1 (-1) 1 0 0) [(0, 0); (10, 0); (0, 10)] = Some (mkbox (-10) 0 10 10) /\
  pt_abs_box (PGroup [PLeaf (from_row 1 1 (-1) 1 0 0) [(0, 0); (10, 0); (0, 10)]; PGroup []; PFixed (mkbox 20 20 30 30)]) = Some (mkbox (-10) 0 30 30).
Proof. vm_compute. split; reflexivity. Qed.
Example C12_ex_product : product_ok ts_identity (thread ts_identity
  (TGroup GK_Plain (from_translate 3 4) ts_identity [TGroup GK_Plain (from_scale 2 2) ts_identity [TLeaf]; TLeaf])) = true.
Proof. vm_compute. reflexivity. Qed.
(* fd607e1: the root of a synthesised viewport clip path (marker.rs / use_node.rs clip_element / image.rs: one rectangle made by
   Path::new_simple under identity transforms) goes through calculate_bounding_boxes like every other root - C12_parent_contains_children
   applies unguarded; painting/marker/inheritance-2.svg: rectangle (0,0)-(20,20) *)
Example C12_ex_synth_clip_root :
  let rect := CLeaf {| lb_obj := mkbox 0 0 20 20; lb_abs := mkbox 0 0 20 20; lb_stroke := mkbox 0 0 20 20; lb_abs_stroke := mkbox 0 0 20 20 |} in
  let r := calculate_bounding_boxes ts_identity [] dummy_boxes [rect] in
  snd r = true /\ gb_obj (fst r) = mkbox 0 0 20 20 /\ gb_abs_layer (fst r) = mkbox 0 0 20 20 /\
  chk_contains [] [rect] (fst r) = true /\ chk_contains [] [rect] dummy_boxes = false.
Proof. vm_compute. repeat split. Qed.

(* ------------------------------------------------------------------ extension round 4 (b): fill box <= stroke box <= layer box *)
(* A leaf whose fill box lies inside its stroke box (checked for every dumped path by the correspondence `leaf-sandwich`):
   the layer box and the stroke box of its parent group (no filters) contain the leaf's stroke box AND its fill box. *)
Theorem C12_fill_in_stroke_in_layer : forall abs_ts prev cs g b,
  calculate_bounding_boxes abs_ts [] prev cs = (g, true) ->
  (forall c, In c (live cs) -> child_valid c = true) ->
  In (CLeaf b) cs -> contains (lb_stroke b) (lb_obj b) ->
  contains (gb_layer g) (lb_stroke b) /\ contains (gb_layer g) (lb_obj b) /\ contains (gb_stroke g) (lb_obj b).
Proof. exact fill_in_stroke_in_layer. Qed.
Print Assumptions C12_fill_in_stroke_in_layer.

(* The layer box of a group without filters is EXACTLY the union of its live children's layer boxes (leaf: stroke box; group:
   its layer box mapped by its transform, when that survives): it is that union, and each of its four sides is attained by a
   child - nothing is added, nothing is lost.  (With filters: the layer box IS the filter region, C12_parent_contains_children.) *)
Theorem C12_layer_box_is_union : forall abs_ts prev cs g,
  calculate_bounding_boxes abs_ts [] prev cs = (g, true) ->
  to_nonzero (union_opt c_layer cs) = Some (gb_layer g) /\
  (exists c r, In c (live cs) /\ c_layer c = Some r /\ bx0 (gb_layer g) == bx0 r) /\
  (exists c r, In c (live cs) /\ c_layer c = Some r /\ by0 (gb_layer g) == by0 r) /\
  (exists c r, In c (live cs) /\ c_layer c = Some r /\ bx1 (gb_layer g) == bx1 r) /\
  (exists c r, In c (live cs) /\ c_layer c = Some r /\ by1 (gb_layer g) == by1 r).
Proof. exact layer_box_is_union. Qed.
Print Assumptions C12_layer_box_is_union.

(* the inflation bound of the sandwich is at least half the stroke width, and inflating is monotone *)
Theorem C12_stroke_radius_ge_half : forall w ml join cap, 0 <= w -> w / 2 <= stroke_radius w ml join cap.
Proof. exact stroke_radius_ge_half. Qed.
Print Assumptions C12_stroke_radius_ge_half.
Theorem C12_inflate_monotone : forall b c r s, contains b c -> r <= s -> contains (inflate b s) (inflate c r).
Proof. exact inflate_mono. Qed.
Print Assumptions C12_inflate_monotone.

(* a 100 x 50 rectangle stroked with width 8, miter join (limit 4), butt caps: stroke box = fill box grown by 4 passes; a stroke box
   grown by 20 (> 4 * 4 * 1.05) or one that does not contain the fill box fails *)
Example C12_ex_sandwich :
  chk_leaf_sandwich (1 # 100) true 8 4 0 0 (mkbox 10 10 110 60) (mkbox 6 6 114 64) = true /\
  chk_leaf_sandwich (1 # 100) true 8 4 0 0 (mkbox 10 10 110 60) (mkbox (-10) 6 114 64) = false /\
  chk_leaf_sandwich (1 # 100) true 8 4 0 0 (mkbox 10 10 110 60) (mkbox 12 6 114 64) = false /\
  chk_leaf_sandwich (1 # 100) false 0 4 0 0 (mkbox 10 10 110 60) (mkbox 10 10 110 60) = true.
Proof. vm_compute. repeat split. Qed.
