(* C03  Cyclic references of any length and kind are neutralised.
   Property theorems only.  The guards of the reference-following code (G_... booleans, PREPASS, depth
   steps) are SOURCE-DERIVED: Gen/LinkGuards.v and Gen/Consts.v are regenerated from /repo on every run
   by tools/gen_links.py / tools/translate.py, and Model/SvgBuild.v + Model/Links.v apply a guard only
   where the source has it. *)
From Coq Require Import ZArith NArith List Bool Lia.
From RV Require Import Gen.Consts Gen.LinkGuards Model.SvgBuild Model.Links Proofs.SvgBuild Proofs.Links.
From RV Require Import Model.LinksChk Model.LinksNest Proofs.LinksFrame Proofs.LinksNest.
From RV Require Import Model.LinksSites Proofs.LinksSites.
Import ListNotations.

(* ---- the converter's reference-following recursion ends: for every document of any size and any mix
   of kinds, `convert` with fuel 2*|nodes|+1 (one unit per element pushed on parent_defs or
   parent_markers) never runs out of fuel ---- *)
Theorem C03_convert_terminates : forall d : snode, convert d <> Fuel.
Proof. exact convert_terminates. Qed.
Print Assumptions C03_convert_terminates.

(* ---- the whole front end (use expansion, pre-pass, conversion) on any XML document ---- *)
Theorem C03_parse_total : forall x : xnode, parse x <> POutOfFuel.
Proof. exact parse_total. Qed.
Print Assumptions C03_parse_total.

(* ---- every element that is pushed on an in-progress stack is new on it: the stacks never hold an
   element twice, hold elements of the document only, and the marker stack holds markers only (so its
   depth is at most the number of marker elements) ---- *)
Theorem C03_marker_stack_sound : forall d out c, convert d = Done out c ->
  Forall (fun e => match e with (m, id, defs, markers) =>
            NoDup defs /\ NoDup markers /\
            length markers <= length (marker_ids (inherit [] false d)) /\
            length defs <= length (sflat (inherit [] false d)) /\
            match m with MMarker => hd_error markers = Some id | _ => hd_error defs = Some id end
          end) (ca_log c).
Proof.
  intros d out c H. pose proof (convert_log_ok d out c H) as Hl.
  rewrite Forall_forall in *. intros [[[m id] defs] markers] Hin. specialize (Hl _ Hin).
  destruct Hl as (H1 & H2 & H3 & H4 & H5). repeat split; try assumption.
  - apply NoDup_incl_length; assumption.
  - replace (length (sflat (inherit [] false d))) with (length (ids (inherit [] false d))) by apply map_length.
    apply NoDup_incl_length; assumption.
Qed.
Print Assumptions C03_marker_stack_sound.

(* ---- HrefIter yields at most nodes.len() + 1 elements and its own step counter stops it ---- *)
Theorem C03_href_chain_bounded : forall d n : snode,
  snd (href_iter d n) = false /\ length (fst (href_iter d n)) <= S (length (sflat d)).
Proof. exact href_iter_bounded. Qed.
Print Assumptions C03_href_chain_bounded.

(* ---- the pre-pass loops: each `while find.. set none` loop leaves by itself after at most
   (#attributes of that name that hold a reference) iterations, and on exit no cycle of length <= 2
   (through descendants) of that kind is left ---- *)
Theorem C03_prepass_removes_short_cycles : forall (d : snode),
  (forall e k, match run_loop (find_recursive_link e k) k d with
               | (d', n, fin) => fin = true /\ n <= count_links k d /\ no_short_link_cycle e k d'
               end) /\
  (forall k, match run_loop (find_recursive_pattern k) k d with
             | (d', n, fin) => fin = true /\ n <= count_links k d /\ no_short_pattern_cycle k d'
             end).
Proof.
  intro d. split.
  - intros e k. pose proof (run_loop_adequate (find_recursive_link e k) k d (find_link_sound e k)) as H.
    destruct (run_loop (find_recursive_link e k) k d) as [[d' n] fin]. destruct H as (H1 & H2 & H3).
    split; [exact H1|]. split; [exact H2|]. apply find_link_none, H3.
  - intro k. pose proof (run_loop_adequate (find_recursive_pattern k) k d (find_pattern_sound k)) as H.
    destruct (run_loop (find_recursive_pattern k) k d) as [[d' n] fin]. destruct H as (H1 & H2 & H3).
    split; [exact H1|]. split; [exact H2|]. apply find_pattern_none, H3.
Qed.
Print Assumptions C03_prepass_removes_short_cycles.

(* ... and all five exit conditions hold of the document the whole pre-pass returns: later loops only remove
   references, which cannot create a short cycle (stated over the generated call list PREPASS) *)
Theorem C03_prepass_result_has_no_short_cycles : forall d : snode,
  let d' := prepass d in
  no_short_pattern_cycle AFill d' /\ no_short_pattern_cycle AStroke d' /\
  no_short_link_cycle TClipPath AClip d' /\ no_short_link_cycle TMask AMask d' /\ no_short_link_cycle TFilter AFilter d'.
Proof. exact prepass_establishes. Qed.
Print Assumptions C03_prepass_result_has_no_short_cycles.

(* ---- frame theorem: a shape that carries no reference and sits below svg / g elements that carry
   none is converted whatever else the document contains (cycles of any kind and length included):
   if the document is parsed at all, the shape is in the produced tree ---- *)
Theorem C03_witness_preserved : forall (x w : xnode) (nm : N),
  xplain_at w x -> xname w = Some nm ->
  match parse x with
  | POk out _ => In nm (item_names out)
  | PErr => exists k, snd (build x) = OErr k
  | POutOfFuel => False
  end.
Proof. exact parse_keeps_witness. Qed.
Print Assumptions C03_witness_preserved.

Theorem C03_convert_keeps_witness : forall (d w : snode) (nm : N),
  witness_in d w -> s_name w = Some nm -> exists out c, convert d = Done out c /\ In nm (item_names out).
Proof. exact convert_keeps_witness. Qed.
Print Assumptions C03_convert_keeps_witness.

(* ---- "still parses": the use expansion is finite for EVERY reference graph.  Since fix 1c16806 every `use`
   that is being resolved has its ancestors and its target on an in-progress list and a target on that list is
   not expanded, so each nested expansion consumes a fresh element of the document: with limits that depend on
   the size of the document only, the construction is never stopped by the depth limit (and never runs out of
   fuel), whatever the node limit is.  Together with C03_witness_preserved: a document is rejected only for
   its genuine size / depth, never for a reference loop. ---- *)
Theorem C03_use_expansion_finite : forall (x : xnode) (nl : Z),
  match snd (build_with (max_step * Z.of_nat (expansion_fuel x)) nl (expansion_fuel x) x) with
  | OErr EDepth | OOut => False
  | _ => True
  end.
Proof. exact build_expansion_finite. Qed.
Print Assumptions C03_use_expansion_finite.

(* ---- extension round 4 ---- *)

(* frame clause of the pre-pass, for every document: the tree skeleton (ids, tags, names, units flags, attribute
   names, children) is unchanged; no reference appears; and a reference that does NOT lie on a cycle of length
   <= 2 of the document the pre-pass was given (on_short_cycle: through descendants, of the kind the attribute
   belongs to, or the feImage shape) is still there with the same value. *)
Theorem C03_prepass_frame : forall d : snode,
  skel (prepass d) = skel d /\
  (forall e, In e (link_table (prepass d)) -> In e (link_table d)) /\
  (forall id k v, In (id, k, v) (link_table d) -> ~ on_short_cycle d id k -> In (id, k, v) (link_table (prepass d))).
Proof. exact prepass_frame. Qed.
Print Assumptions C03_prepass_frame.

(* ... the same with the decidable test the correspondence `chk_impl_frame` applies to the implementation *)
Theorem C03_prepass_frame_decidable : forall (d : snode) id k v,
  In (id, k, v) (link_table d) -> on_short_cycle_b d id k = false -> In (id, k, v) (link_table (prepass d)).
Proof. exact prepass_frame_b. Qed.
Print Assumptions C03_prepass_frame_decidable.

(* ... and the pre-pass is nothing but a list of `attribute := none` steps, each on a short cycle of the input *)
Theorem C03_prepass_removes_only_cycle_references : forall d : snode,
  exists S, prepass d = apply_rm S d /\ Forall (fun p => on_short_cycle d (fst p) (snd p)) S.
Proof. exact prepass_removes. Qed.
Print Assumptions C03_prepass_removes_only_cycle_references.

(* nested documents (image / feImage href -> load_sub_svg): for EVERY file system - a file may include itself,
   directly or through other files or data: URLs - every option set of the caller and every document, loading
   ends with fuel 2, i.e. sub-documents are loaded to depth 1 only, one Tree::from_data call per reference at most;
   more fuel gives the same result. *)
Theorem C03_nested_documents_bounded : forall (fs : fsys) (o : ropt) (d : idoc) (fuel : nat),
  (exists t, load (S (S fuel)) fs o d = Some t /\ depth t <= 1 /\ calls t <= S (length d)) /\
  load (S (S fuel)) fs o d = load 2 fs o d.
Proof. intros. split; [apply nest_bounded|apply nest_fuel_irrelevant]. Qed.
Print Assumptions C03_nested_documents_bounded.

(* ---- extension round 4, second pass ---- *)

(* the visited-list walks (clippath.rs / mask.rs is_cacheable) end on every reference graph - tail + cycle (rho)
   shapes included - for every document and start element: no fuel needed beyond |document|, every element is
   visited at most once *)
Theorem C03_chain_walk_terminates : forall (d : snode) (k : akey) (n : snode), In n (sflat d) -> (k = AClip \/ k = AMask) ->
  snd (chain_walk d k n) = false /\ NoDup (map s_id (fst (chain_walk d k n))) /\
  length (fst (chain_walk d k n)) <= length (sflat d).
Proof. exact chain_walk_terminates. Qed.
Print Assumptions C03_chain_walk_terminates.

(* which guard breaks which shape: "stop at the current element", "stop at the current or the first element" and
   no guard never stop on the rho-shaped mask chain m0 -> m1 -> m2 -> m3 -> m1 (whatever the fuel), the visited
   list stops it after four elements *)
Theorem C03_weak_guards_refuted : forall g, g = WSelf \/ g = WOrigin \/ g = WNone ->
  forall fuel, snd (chain_go g (S fuel) rho_doc AMask (rho_m 0) (rho_m 0) [rho_m 0]) = true.
Proof. exact weak_guards_refuted. Qed.
Print Assumptions C03_weak_guards_refuted.

(* every link-following construct of crates/usvg/src/parser/** (generated table SITES: node_attribute,
   attribute::<SvgNode>, href_iter, element_by_id, resolve_href, per enclosing function, with the number of
   occurrences) is classified with a mechanism that stops on every graph (stack of elements in progress, step
   counter, visited list, in-progress list of the use expansion, or no further following) and the generated guard
   that witnesses the mechanism is present *)
Theorem C03_link_sites_covered :
  forall s, In s SITES -> exists c, In c CLASSIFIED /\ site_matches s c = true.
Proof. exact sites_have_complete_guards. Qed.
Print Assumptions C03_link_sites_covered.

(* final pass: a textPath reference is read (geometry of the path), not followed - shapes.rs and switch.rs contain no
   link-following construct - and switch::convert converts its selected child with the caller's state, like a group
   (the generator renders a switch as the model's non-g container; its documents go through every correspondence) *)
Theorem C03_textpath_switch_follow_nothing :
  G_TEXTPATH_NO_FOLLOW = true /\ G_SWITCH_AS_GROUP = true /\ no_follow_files = true /\
  (forall m, guard_push m = true).
Proof. exact textpath_switch_follow_nothing. Qed.
Print Assumptions C03_textpath_switch_follow_nothing.

Local Open Scope N_scope.
Definition wit : xnode := XN 90 TShape (Some 99) false [(AFill, None)] [].
Definition svg (ks : list xnode) : xnode := XN 0 TSvg None false [] ks.
(* the former witnesses of the class use-expansion-loop (corpus/c03, corpus/witness/F01-use.txt) *)
Definition use2_doc : xnode := svg [
  XN 1 TG (Some 1) false [] [XN 2 TUse None false [(AHref, Some 2)] []];
  XN 3 TG (Some 2) false [] [XN 4 TUse None false [(AHref, Some 1)] []];
  wit].
Definition use3_doc : xnode := svg [
  XN 1 TG (Some 1) false [] [XN 2 TUse None false [(AHref, Some 2)] []];
  XN 3 TG (Some 2) false [] [XN 4 TUse None false [(AHref, Some 3)] []];
  XN 5 TG (Some 3) false [] [XN 6 TUse None false [(AHref, Some 1)] []];
  wit].

(* ---- non-vacuity: the fixed witnesses F1 (mask / clipPath / pattern 3-cycles, mixed), F2 (href), the
   shapes the use guards do catch, an acyclic chain ---- *)
Definition shape (u : nat) : xnode := XN u TShape None false [] [].
Definition names (r : presult) : option (list N) := match r with POk out _ => Some (item_names out) | _ => None end.

(* two and three groups that use each other: only the use that closes the loop is dropped, the shape is kept *)
Example C03_nv_use_loops_parse :
  names (parse use2_doc) = Some [1; 2; 99] /\ names (parse use3_doc) = Some [1; 2; 3; 99] /\
  b_count (fst (build use2_doc)) = 11%Z /\ b_count (fst (build use3_doc)) = 21%Z.
Proof. vm_compute. repeat split; reflexivity. Qed.

Example C03_nv_mask_3cycle :
  names (parse (svg [XN 1 TMask (Some 1) false [(AMask, Some 2)] [shape 2];
                     XN 3 TMask (Some 2) false [(AMask, Some 3)] [shape 4];
                     XN 5 TMask (Some 3) false [(AMask, Some 1)] [shape 6];
                     XN 7 TShape (Some 10) false [(AMask, Some 1)] []; wit])) = Some [99].
Proof. vm_compute. reflexivity. Qed.

Example C03_nv_clip_3cycle :
  names (parse (svg [XN 1 TClipPath (Some 1) true [(AClip, Some 2)] [shape 2];
                     XN 3 TClipPath (Some 2) true [(AClip, Some 3)] [shape 4];
                     XN 5 TClipPath (Some 3) true [(AClip, Some 1)] [shape 6];
                     XN 7 TShape (Some 10) false [(AClip, Some 1)] []; wit])) = Some [99].
Proof. vm_compute. reflexivity. Qed.

Example C03_nv_pattern_3cycle_stack :
  match parse (svg [XN 1 TPattern (Some 1) true [] [XN 2 TShape None false [(AFill, Some 2)] []];
                    XN 3 TPattern (Some 2) true [] [XN 4 TShape None false [(AFill, Some 3)] []];
                    XN 5 TPattern (Some 3) true [] [XN 6 TShape None false [(AFill, Some 1)] []];
                    XN 7 TShape (Some 10) false [(AFill, Some 1)] []; wit]) with
  | POk out log => item_names out = [10; 99] /\ map (fun e => snd (fst e)) log = [[6; 4; 2]; [4; 2]; [2]]%nat
  | _ => False
  end.
Proof. vm_compute. split; reflexivity. Qed.

(* mask -> pattern -> filter -> feImage -> element that uses the mask again *)
Example C03_nv_mixed :
  names (parse (svg [XN 1 TMask (Some 1) false [] [XN 2 TShape None false [(AFill, Some 2)] []];
                     XN 3 TPattern (Some 2) true [] [XN 4 TShape None false [(AFilter, Some 3)] []];
                     XN 5 TFilter (Some 3) false [] [XN 6 TFeImage None false [(AHref, Some 4)] []];
                     XN 7 TShape (Some 4) false [(AMask, Some 1)] []; wit])) = Some [4; 99].
Proof. vm_compute. reflexivity. Qed.

(* a -> b -> c -> b through xlink:href: the walk is cut by the step counter *)
Example C03_nv_href_loop :
  let d := SN 0 TOther None false [] [
             SN 1 TGradient (Some 1) false [(AHref, Some 2)] []; SN 2 TGradient (Some 2) false [(AHref, Some 3)] [];
             SN 3 TGradient (Some 3) false [(AHref, Some 2)] []] in
  match lookup d 1 with
  | Some a => length (fst (href_iter d a)) = 5%nat /\ snd (href_iter d a) = false
  | None => False
  end.
Proof. vm_compute. split; reflexivity. Qed.

(* a 2-cycle of clip paths is neutralised by the pre-pass: one reference is rewritten to none *)
Example C03_nv_prepass_2cycle :
  match build (svg [XN 1 TClipPath (Some 1) true [(AClip, Some 2)] [shape 2];
                    XN 3 TClipPath (Some 2) true [(AClip, Some 1)] [shape 4]; wit]) with
  | (_, OOk s) => (length (link_table s) = 2 /\ length (link_table (prepass s)) = 1)%nat
  | _ => False
  end.
Proof. vm_compute. split; reflexivity. Qed.

(* use shapes that ARE caught: use <-> use, and an acyclic 3-chain expands to the expected node count *)
Example C03_nv_use_pair_caught :
  names (parse (svg [XN 1 TUse (Some 1) false [(AHref, Some 2)] []; XN 3 TUse (Some 2) false [(AHref, Some 1)] []; wit]))
  = Some [1; 2; 99].
Proof. vm_compute. reflexivity. Qed.

Example C03_nv_acyclic_chain :
  match build (svg [XN 1 TG (Some 1) false [] [XN 2 TUse None false [(AHref, Some 2)] []];
                    XN 3 TG (Some 2) false [] [XN 4 TUse None false [(AHref, Some 3)] []];
                    XN 5 TG (Some 3) false [] [shape 6]; wit]) with
  | (st, OOk s) => b_count st = 15%Z /\ b_maxdepth st = 8%Z
  | _ => False
  end.
Proof. vm_compute. split; reflexivity. Qed.

(* ---- extension round 4: non-vacuity ---- *)
(* a 2-cycle of clip paths, entered by a shape whose own reference is not on the cycle: one reference of the cycle is
   removed (it is on a short cycle), the entry reference and the other half stay *)
Example C03_nv_frame :
  match build (svg [XN 1 TClipPath (Some 1) true [(AClip, Some 2)] [shape 2];
                    XN 3 TClipPath (Some 2) true [(AClip, Some 1)] [shape 4];
                    XN 5 TShape (Some 10) false [(AClip, Some 1)] []; wit]) with
  | (_, OOk s) =>
      link_table s = [(2%nat, AClip, 2); (4%nat, AClip, 1); (6%nat, AClip, 1)] /\
      link_table (prepass s) = [(2%nat, AClip, 2); (6%nat, AClip, 1)] /\
      map (fun e => match e with (id, k, _) => on_short_cycle_b s id k end) (link_table s) = [true; true; false]
  | _ => False
  end.
Proof. vm_compute. repeat split; reflexivity. Qed.

(* a file that includes itself (path 0 -> file 0) next to a data: document that includes the file again: two
   sub-documents, nothing below them; the same with any amount of fuel *)
Example C03_nv_nested_self_include :
  let fs := fs_of [Some [HPath 0; HData [HPath 0]]]%nat in
  load 2 fs ropt_default [HPath 0; HData [HPath 0]; HPath 7]%nat = Some (LT [LT []; LT []]) /\
  load 50 fs ropt_default [HPath 0]%nat = Some (LT [LT []]).
Proof. vm_compute. split; reflexivity. Qed.

(* duplicate ids: `use` resolves an id to the FIRST element that carries it (id_map), every other reference to the
   LAST element of the svgtree (doc.links.insert overwrites); all theorems above are stated for arbitrary documents,
   duplicates included, and the correspondence samples such documents ("random graph dup-id") *)
Example C03_nv_duplicate_ids :
  let x := svg [XN 1 TG (Some 1) false [] [shape 2]; XN 3 TClipPath (Some 1) true [] [shape 4];
                XN 5 TUse None false [(AHref, Some 1)] []; XN 6 TShape (Some 10) false [(AClip, Some 1)] []] in
  option_map xuid (xfind x 1) = Some 1%nat /\
  match build x with
  | (_, OOk s) => option_map s_tag (lookup s 1) = Some TClipPath /\ names (parse x) = Some [1; 10]
  | _ => False
  end.
Proof. vm_compute. repeat split; reflexivity. Qed.

(* ---- second pass: non-vacuity ---- *)
(* list-valued filter attributes: mask 1 holds a shape filtered by "blur() url(#2)", filter 2 holds an feImage of
   element 4, which uses mask 1 again (a 3-cycle the pre-pass does not see: node_attribute rejects lists): the
   conversion ends (the inner use of mask 1 is rejected by the stack test, the outer one succeeds: element 4 stays, as in
   the implementation), the witness stays; an element whose list has one valid
   and one dangling entry stays, one whose only url is dangling goes *)
Example C03_nv_filter_list :
  names (parse (svg [XN 1 TMask (Some 1) false [] [XN 2 TShape None false [(AFilter, None); (AFilter, Some 2)] []];
                     XN 3 TFilter (Some 2) false [] [XN 4 TFeImage None false [(AHref, Some 4)] []];
                     XN 5 TShape (Some 4) false [(AMask, Some 1)] [];
                     XN 6 TFilter (Some 5) true [] [XN 7 TFeOther None false [] []];
                     XN 8 TShape (Some 6) false [(AFilter, Some 5); (AFilter, Some 77)] [];
                     XN 9 TShape (Some 7) false [(AFilter, None); (AFilter, Some 77)] [];
                     XN 10 TShape (Some 8) false [(AFilter, Some 77); (AFilter, Some 77)] []; wit]))
  = Some [4; 6; 7; 99].
Proof. vm_compute. reflexivity. Qed.
