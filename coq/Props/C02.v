(* C02  Rendering is total and its memory is bounded by the canvas, not the document.
   Property theorems only: the geometry that bounds group and filter layers.  `fit_to_rect`, `layer_ibbox`,
   `layer_size`, `max_bbox_args` are the SOURCE-DERIVED definitions of Gen/LeafFit.v and Gen/LeafRender.v;
   the constants are Gen/Consts.v.  Filter kernels, pattern tiles, clip / mask buffers are covered by the
   system oracle (allocation + time + panic sweep) only. *)
From RV Require Import Model.Base Model.RenderPrims Gen.Consts Gen.LeafFit Gen.LeafRender Model.Render.
From RV Require Import Proofs.Render.
From RV Require Import Gen.LeafMorph Model.Morph Proofs.Morph.
From RV Require Import Gen.LeafTurb Model.Turb Proofs.Turb.
From Coq Require Import String.
From RV Require Import Gen.C02Sites Gen.LeafLoops Model.C02Surf Proofs.C02Surf Proofs.C02Ledger.
From RV Require Import Gen.LeafKernels Proofs.C02Kernels Proofs.C02Live Model.LinksNest.
Local Open Scope Z_scope.

(* geom::fit_to_rect is the intersection *)
Theorem C02_fit_to_rect_spec : forall r b, valid_irect r -> valid_irect b ->
  (forall q, fit_to_rect r b = Some q ->
     valid_irect q /\ inside q r /\ inside q b /\
     forall px py, in_irect q px py <-> (in_irect r px py /\ in_irect b px py)) /\
  (fit_to_rect r b = None <-> forall px py, ~ (in_irect r px py /\ in_irect b px py)).
Proof. exact fit_to_rect_spec. Qed.
Print Assumptions C02_fit_to_rect_spec.

(* resvg::render: max_bbox exists (the unwrap cannot fail), is MAXBB_MUL canvases large and contains the canvas *)
Theorem C02_canvas_in_max_bbox : forall W H, 1 <= W <= CANVAS_MAX -> 1 <= H <= CANVAS_MAX ->
  exists m, max_bbox W H = Some m /\ valid_irect m /\ inside (canvas_rect W H) m /\
            iw m = MAXBB_MUL_W * W /\ ih m = MAXBB_MUL_H * H.
Proof. exact canvas_in_max_bbox. Qed.
Print Assumptions C02_canvas_in_max_bbox.

(* every group layer that is allocated - filtered or not, whatever numbers the document contains - lies
   inside max_bbox, is allocated with exactly its box's size, and is at most k x k canvases large *)
Theorem C02_layer_within_max : forall b nf W H m r,
  1 <= W <= CANVAS_MAX -> 1 <= H <= CANVAS_MAX -> max_bbox W H = Some m -> layer_box b nf m = LBox r ->
  valid_irect r /\ inside r m /\ layer_size r = (iw r, ih r) /\
  iw r <= MAXBB_MUL_W * W /\ ih r <= MAXBB_MUL_H * H /\
  iw r * ih r <= (MAXBB_MUL_W * MAXBB_MUL_H) * (W * H).
Proof. exact layer_bounded. Qed.
Print Assumptions C02_layer_within_max.

(* computing the layer box cannot panic for any box, filtered or not: saturating casts and padding, `?` on
   IntRect::from_xywh, and (since the fix of the filter-region overflow) the checked geom::to_int_rect *)
Theorem C02_layer_total : forall b nf m, layer_box b nf m <> LPanic.
Proof. exact layer_total. Qed.
Print Assumptions C02_layer_total.

(* neither render_group nor filter::apply_inner uses the panicking tiny_skia Rect::to_int_rect().unwrap() *)
Theorem C02_regions_checked : filter_to_int_rect_unwraps = false /\ layer_to_int_rect_unwraps = false.
Proof. exact filter_region_checked. Qed.
Print Assumptions C02_regions_checked.

(* boxes beyond i32 are skipped (no layer, no allocation) *)
Theorem C02_huge_filter_group_skipped :
  exists b m, valid_irect m /\ small_bboxb b = false /\ layer_box b false m = LSkip.
Proof. exact huge_filter_group_skipped. Qed.
Print Assumptions C02_huge_filter_group_skipped.

(* what the size assert!s of the filter kernels need: the region filter::apply_inner recomputes has the size
   of the layer.  Holds for a single filter whose device region is inside max_bbox ... *)
Theorem C02_filter_images_same_size : forall b m,
  small_bbox b -> valid_irect m -> filter_layer_clamped b m = false -> filter_sizes_agree b m = true.
Proof. exact filter_sizes_agree_unclamped. Qed.
Print Assumptions C02_filter_images_same_size.

(* ... and fails as soon as the layer is clamped (known class filter-size-assert, F4) *)
Theorem C02_filter_images_same_size_refuted :
  exists b m, valid_irect m /\ small_bboxb b = true /\ filter_layer_clamped b m = true /\
              filter_sizes_agree b m = false.
Proof. exact filter_sizes_agree_refuted. Qed.
Print Assumptions C02_filter_images_same_size_refuted.

(* feMorphology: the window of morphology::apply (source-derived morph_columns / morph_rows) is capped by the image
   it scans, whatever radius the document contains; the work is at most (w*h)^2 window cells - with
   C02_layer_within_max, at most (k^2 W H)^2: bounded by the canvas alone (quartic: class morphology-cost, F30) *)
Theorem C02_morphology_window_bounded : forall rx ry w h, 0 <= w -> 0 <= h ->
  0 <= morph_columns rx w <= w /\ 0 <= morph_rows ry h <= h /\ 0 <= morph_ops rx ry w h <= (w * h) * (w * h).
Proof. exact morph_ops_bounded. Qed.
Print Assumptions C02_morphology_window_bounded.

(* feTurbulence: the integer arithmetic a document can push to the edge of i32 (source-derived Gen/LeafTurb.v lists every
   intermediate result as an unbounded integer; "in i32" = no overflow panic in debug, no silent wrap in release).
   seed: every i32 seed <= 0 (incl. i32::MIN) is normalised without leaving the range, into [1, RAND_M - 1] *)
Theorem C02_turbulence_seed_in_range : forall seed, I32_MIN <= seed <= 0 ->
  Forall i32P (turb_seed_steps seed) /\ 1 <= turb_seed_norm seed <= 2147483646.
Proof. exact turb_seed_ok. Qed.
Print Assumptions C02_turbulence_seed_in_range.

(* stitchTiles: the per-octave update of the stitch box stays in range from any state, i.e. for any numOctaves *)
Theorem C02_turbulence_stitch_in_range : forall w x h y, i32P w -> i32P x -> i32P h -> i32P y ->
  Forall i32P (turb_stitch_steps w x h y) /\
  (let '(w', x', h', y') := turb_stitch_next w x h y in i32P w' /\ i32P x' /\ i32P h' /\ i32P y').
Proof. exact turb_stitch_ok. Qed.
Print Assumptions C02_turbulence_stitch_in_range.

Theorem C02_turbulence_wrap_in_range : forall b w, i32P b -> i32P w -> Forall i32P (turb_wrap_steps b w).
Proof. exact turb_wrap_ok. Qed.
Print Assumptions C02_turbulence_wrap_in_range.

(* ================================================================== extension round 4 *)
(* clip buffers (clip.rs apply / clip_group), mask buffers (mask.rs: pixmap + alpha mask) and the buffer of a nested SVG image
   (image.rs render_vector) are allocated with the size of the surface the function was handed - the size arguments are
   SOURCE-DERIVED (Gen/C02Sites.v surface_buffers), render_group hands them its own layer - so along ANY chain of nested
   clips / masks every buffer has exactly the layer's size: at most k x k canvases, whatever the document says *)
Theorem C02_clip_mask_buffers : forall b nf W H m r fs,
  1 <= W <= CANVAS_MAX -> 1 <= H <= CANVAS_MAX -> max_bbox W H = Some m -> layer_box b nf m = LBox r ->
  Forall (fun f => In f (map snd surface_buffers)) fs ->
  surface_calls_ok = true /\ surface_buffers <> [] /\
  nest fs (layer_size r) = (iw r, ih r) /\
  fst (nest fs (layer_size r)) * snd (nest fs (layer_size r)) <= (MAXBB_MUL_W * MAXBB_MUL_H) * (W * H).
Proof. exact clip_mask_buffers. Qed.
Print Assumptions C02_clip_mask_buffers.

(* the clause FAILS for pattern tiles: path::render_pattern_pixmap allocates exactly the number written in the document,
   for every n up to u32::MAX, on any canvas (class pattern-tile-unbounded, F5) *)
Theorem C02_pattern_tile_follows_document : forall n, 1 <= n <= U32_MAX ->
  pattern_tile_size (mk_qrect 0 0 (n # 1) (n # 1)) 1 1 = (n, n).
Proof. exact pattern_tile_follows_document. Qed.
Print Assumptions C02_pattern_tile_follows_document.

(* ... and for filter results: every Pixmap::try_create of filter/mod.rs is sized by the filter region or by an existing
   image (closed vocabulary, source-derived); the region is the document's rectangle, not clamped (class filter-image-unbounded, F4) *)
Theorem C02_filter_results_sized_by_region :
  Forall (fun a => a = "region"%string \/ a = "input"%string) filter_alloc_args.
Proof. exact filter_alloc_vocab. Qed.
Print Assumptions C02_filter_results_sized_by_region.

(* every buffer-creating expression of crates/resvg/src is classified: layer / surface-sized / copy of an existing image /
   constant / per-document-item, or a registered class that follows the document; no stale entries *)
Theorem C02_alloc_sites_classified :
  (forall s, In s alloc_sites -> exists c, In (s, c) alloc_ledger /\ aclass_ok c = true) /\
  (forall e, In e alloc_ledger -> In (fst e) alloc_sites) /\ alloc_sites <> [].
Proof. exact alloc_sites_classified. Qed.
Print Assumptions C02_alloc_sites_classified.

(* every unwrap / expect / assert / debug_assert / unreachable / panic of crates/resvg/src has a ledger entry (proved,
   computed, reviewed or registered class) and the number of index expressions per function is the reviewed one *)
Theorem C02_sites_discharged :
  (forall s, In s panic_sites -> exists c, In (s, c) panic_ledger /\ pclass_ok c = true) /\
  (forall s, In s index_counts -> exists c, In (s, c) index_ledger) /\ panic_sites <> [].
Proof. exact sites_discharged. Qed.
Print Assumptions C02_sites_discharged.

(* filter::apply_inner / apply_tile move a primitive subregion into the filter region's frame with translate_checked (SOURCE-DERIVED
   by rs2coq; repaired in b25a51c, formerly IntRect::translate(-region.x(), -region.y()).unwrap(): guarded + _refuted).  FULL strength,
   for ALL regions and subregions: no unwrap, the i64 arithmetic stays in range, the result is None (-> Error::InvalidRegion) or a valid
   IntRect (fits i32) that is the subregion moved by the region's origin; a subregion inside the region always has a result, inside 0..w x 0..h *)
Theorem C02_subregion_clip_total : forall region sub,
  valid_irect region -> valid_irect sub ->
  subregion2_unwraps = false /\
  forallb in_i64 (translate_checked_i64_steps sub region) = true /\
  (forall q, subregion2 region sub = Some q ->
     valid_irect q /\ ix q = ix sub - ix region /\ iy q = iy sub - iy region /\ iw q = iw sub /\ ih q = ih sub) /\
  (subregion2 region sub = None -> ~ (inside sub region)) /\
  (inside sub region -> exists q, subregion2 region sub = Some q /\ 0 <= ix q /\ 0 <= iy q /\
                                  ix q + iw q <= iw region /\ iy q + ih q <= ih region).
Proof. exact subregion2_total. Qed.
Print Assumptions C02_subregion_clip_total.

(* box blur (box_blur_vert / box_blur_horz, loop ranges SOURCE-DERIVED): for every radius >= 1 (radius 0 returns early) and
   every line length n >= 1 the three output loops write the line exactly once (n writes: the running index stays inside
   the line), the four loops together run at most 2n times - independent of the radius, hence of stdDeviation - and none
   of the usize subtractions in the ranges underflows where it is evaluated *)
Theorem C02_box_blur_line_covered : forall r n, 1 <= r -> 1 <= n ->
  bb_writes r n = n /\ bb_trips r n <= 2 * n /\
  0 <= bb_pre_hi r n <= n /\
  (bb_skip r n = false -> 0 <= bb_mid_hi r n /\ 0 <= bb_tail_hi r n /\ 0 <= n - r - 1).
Proof. exact bb_line. Qed.
Print Assumptions C02_box_blur_line_covered.

(* feConvolveMatrix edgeMode=wrap: `while t < 0 { t += dim }  t %= dim` ends after at most `target` rounds and yields a
   coordinate inside the image, for every image position, kernel cell and target *)
Theorem C02_convolve_wrap_terminates : forall p target o dim,
  1 <= dim -> 0 <= p < dim -> 0 <= target -> 0 <= o ->
  exists v n, conv_wrap (Z.to_nat target) p target o dim = Some (v, n) /\ 0 <= v < dim /\ 0 <= n <= target.
Proof. exact conv_wrap_ok. Qed.
Print Assumptions C02_convolve_wrap_terminates.

(* IIR blur: the upward `while y > 0 { ..; y -= width }` starts at buf.len() - width >= 0 and reaches exactly 0 after
   h - 1 rounds (no usize underflow), the downward loop ends within h rounds; `steps` is the constant 4 *)
Theorem C02_iir_loops : forall w h, 1 <= w -> 1 <= h ->
  iir_up (Z.to_nat (h - 1)) w h = Some (0, h - 1) /\ 0 <= iir_up_start (iir_buf_len w h) w /\
  (exists v n, iir_down (Z.to_nat h) w h = Some (v, n)) /\ iir_steps = 4.
Proof. exact iir_loops. Qed.
Print Assumptions C02_iir_loops.

(* the clause FAILS for feTurbulence: the per-pixel octave loop runs exactly numOctaves times, for every value usvg can
   produce (class turbulence-octaves) *)
Theorem C02_turbulence_octaves_follow_document : forall n, 0 <= n <= U32_MAX -> turb_octave_trips n = n.
Proof. exact turb_octaves_follow_document. Qed.
Print Assumptions C02_turbulence_octaves_follow_document.

(* ================================================================== extension round 4, second pass *)
(* lighting (diffuse / specular): unless the image is smaller than 3x3 (early return, SOURCE-DERIVED guard - seed C02-8 turned its
   `||` into `&&`), every one of the 9 calc(nx, ny, <normal>) calls of lighting::apply - corners, edge loops, interior loop - writes
   inside the image and every pixel its normal function reads through alpha_at lies inside the image; `width - 2` does not underflow *)
Theorem C02_lighting_indices_in_range : forall w h x y, light_guard w h = false ->
  0 <= w - 2 /\ 0 <= h - 2 /\ List.length (light_calls w h x y) = 9%nat /\ Forall (light_call_ok w h x y) (light_calls w h x y).
Proof. exact lighting_indices_ok. Qed.
Print Assumptions C02_lighting_indices_in_range.
Theorem C02_image_index_in_range : forall w h p, in_img w h p -> 0 <= w * snd p + fst p < w * h.
Proof. exact in_img_index. Qed.
Print Assumptions C02_image_index_in_range.

(* feDisplacementMap: under the SOURCE-DERIVED guard both indices are inside the images and `oy * w + ox` stays in i32, for EVERY
   rounded offset (any i32: huge scales saturate, NaN casts to 0) - for images of at most i32::MAX pixels (a larger one needs a
   >= 8 GiB filter region first: class filter-image-unbounded) *)
Theorem C02_displacement_indices_in_range : forall w h x y ox oy,
  1 <= w -> 1 <= h -> w * h <= I32_MAX -> 0 <= x -> 0 <= y -> dm_guard w h x y ox oy = true ->
  0 <= dm_idx w h x y ox oy < w * h /\ 0 <= dm_idx1 w h x y ox oy < w * h /\ Forall i32R (dm_idx_steps w h x y ox oy).
Proof. exact displacement_indices_ok. Qed.
Print Assumptions C02_displacement_indices_in_range.

(* feComponentTransfer table / discrete: every index into `values` is in range and `len - 1` does not underflow, for every
   non-empty list (empty ones never reach transfer: is_dummy, pinned) and EVERY channel value c (any rational; NaN / negative cast to 0) *)
Theorem C02_transfer_indices_in_range : forall len c, 1 <= len ->
  Forall (fun i => 0 <= i < len) (ct_table_indices len c) /\ Forall (fun s => 0 <= s) (ct_table_usize_steps len) /\
  Forall (fun i => 0 <= i < len) (ct_discrete_indices len c) /\ Forall (fun s => 0 <= s) (ct_discrete_usize_steps len).
Proof. exact transfer_indices_ok. Qed.
Print Assumptions C02_transfer_indices_in_range.

(* box blur sizes: for every sigma > 0 (w_ideal = sqrt(..) + 1 >= 1, its saturating cast wf in 1 ..= i32::MAX): wl is odd, >= 1,
   wl + 2 does not overflow, and the radii `((box - 1) / 2) as usize` are non-negative (a negative one would become ~2^64) *)
Theorem C02_box_gauss_sizes_bounded : forall wf, 1 <= wf <= I32_MAX ->
  1 <= bg_wl wf <= I32_MAX - 2 /\ Z.rem (bg_wl wf) 2 = 1 /\ bg_wu (bg_wl wf) <= I32_MAX /\
  0 <= bg_radius (bg_wl wf) /\ 0 <= bg_radius (bg_wu (bg_wl wf)) <= 1073741823 /\ bg_radius 1 = 0.
Proof. exact box_gauss_ok. Qed.
Print Assumptions C02_box_gauss_sizes_bounded.

(* every call of filter::f32_bound hands it finite limits (the two debug_assert!s on min / max): literals 0, 1, 255 or a value that
   is itself the result of f32_bound(0, _, 1) - decided over the list of ALL call sites *)
Theorem C02_f32_bound_limits : forallb f32_bound_args_ok f32_bound_calls = true /\ f32_bound_calls <> [].
Proof. exact f32_bound_calls_ok. Qed.
Print Assumptions C02_f32_bound_limits.

(* group layers at ANY nesting depth (frames reachable through layer_child_max, source-derived) are at most k x k canvases *)
Theorem C02_nested_layers_bounded : forall W H m0 ox oy m b nf r,
  1 <= W <= CANVAS_MAX -> 1 <= H <= CANVAS_MAX -> max_bbox W H = Some m0 -> frame m0 ox oy m -> layer_box b nf m = LBox r ->
  valid_irect r /\ iw r <= MAXBB_MUL_W * W /\ ih r <= MAXBB_MUL_H * H /\ iw r * ih r <= K2 * (W * H).
Proof. exact nested_layer_bounded. Qed.
Print Assumptions C02_nested_layers_bounded.

(* memory alive at the same time: n layers (any frames) together hold at most n * k^2 * W * H pixels.  The factor n is NOT bounded by
   the canvas: it follows the nesting depth / clip-chain length / number of filter primitives of the document (counts, not magnitudes) *)
Theorem C02_live_layers_linear : forall W H m0 (ls : list (Z * Z * irect * qrect * bool * irect)),
  1 <= W <= CANVAS_MAX -> 1 <= H <= CANVAS_MAX -> max_bbox W H = Some m0 ->
  Forall (fun e => let '(ox, oy, m, b, nf, r) := e in frame m0 ox oy m /\ layer_box b nf m = LBox r) ls ->
  fold_right Z.add 0 (map (fun e => let '(_, _, _, _, _, r) := e in iw r * ih r) ls) <= Z.of_nat (List.length ls) * (K2 * (W * H)).
Proof. exact nested_layers_total. Qed.
Print Assumptions C02_live_layers_linear.

(* layers inside a nested SVG image: k^4 canvases (fresh max_bbox of the surface-sized buffer), and images nest one level only
   (C03's loader model, Proofs/LinksNest.v nest_bounded, imported read-only) *)
Theorem C02_nested_image_layers_bounded : forall W H m0 ox oy m b nf r m1 ox1 oy1 m' b1 nf1 r1,
  1 <= W -> MAXBB_MUL_W * W <= CANVAS_MAX -> 1 <= H -> MAXBB_MUL_H * H <= CANVAS_MAX ->
  max_bbox W H = Some m0 -> frame m0 ox oy m -> layer_box b nf m = LBox r ->
  max_bbox (fst (buf_image_pixmap_0 (layer_size r))) (snd (buf_image_pixmap_0 (layer_size r))) = Some m1 ->
  frame m1 ox1 oy1 m' -> layer_box b1 nf1 m' = LBox r1 ->
  iw r1 * ih r1 <= (K2 * K2) * (W * H).
Proof. exact nested_image_layer_bounded. Qed.
Print Assumptions C02_nested_image_layers_bounded.
Theorem C02_image_nesting_depth : forall (fs : fsys) (o : ropt) (d : idoc) (fuel : nat),
  exists t, load (S (S fuel)) fs o d = Some t /\ (depth t <= 1)%nat.
Proof. exact image_nesting_depth_1. Qed.
Print Assumptions C02_image_nesting_depth.

(* ------------------------------------------------------------------ non-vacuity *)
(* a translucent group half outside a 100x100 canvas gets a layer *)
Example C02_nv_half_outside :
  layer_box (mk_qrect (60 # 1) (-(30 # 1)) (805 # 10) (705 # 10)) true (mk_irect (-200) (-200) 500 500)
  = LBox (mk_irect 58 (-32) 85 75).
Proof. vm_compute. reflexivity. Qed.
(* a group 10x the canvas gets the clamped box; one 3e10 wide is skipped, not a panic *)
Example C02_nv_clamped :
  layer_box (mk_qrect (-(450 # 1)) (-(450 # 1)) (1000 # 1) (1000 # 1)) true (mk_irect (-200) (-200) 500 500)
  = LBox (mk_irect (-200) (-200) 500 500).
Proof. vm_compute. reflexivity. Qed.
Example C02_nv_huge_skipped :
  layer_box (mk_qrect 0 0 (30000000000 # 1) (50 # 1)) true (mk_irect (-200) (-200) 500 500) = LSkip.
Proof. vm_compute. reflexivity. Qed.
Example C02_nv_morph_huge_radius :
  morph_columns (3000000000 # 1) 6 = 6 /\ morph_chan false (1000000000 # 1) (1000000000 # 1) 3 2 [0; 10; 0; 0; 0; 5] = [10; 10; 10; 10; 10; 10].
Proof. split; vm_compute; reflexivity. Qed.
Example C02_nv_fit_none :
  fit_to_rect (mk_irect 600 0 10 10) (mk_irect (-200) (-200) 500 500) = None.
Proof. vm_compute. reflexivity. Qed.
(* extension round 4 *)
Example C02_nv_nested_clip_of_mask :
  nest [buf_mask_pixmap_0; buf_clip_pixmap_0; buf_clip_pixmap_1] (layer_size (mk_irect 58 (-32) 85 75)) = (85, 75).
Proof. vm_compute. reflexivity. Qed.
Example C02_nv_pattern_tile_100000 :   (* <pattern width=100000 height=100000> on a 100x100 canvas: 1e10 pixels against 25e4 *)
  pattern_tile_size (mk_qrect 0 0 (100000 # 1) (100000 # 1)) 1 1 = (100000, 100000).
Proof. vm_compute. reflexivity. Qed.
Example C02_nv_subregion_inside :
  subregion2 (mk_irect (-10) 5 200 100) (mk_irect 20 30 50 40) = Some (mk_irect 30 25 50 40).
Proof. vm_compute. reflexivity. Qed.
Example C02_nv_subregion_far_none :   (* the former witness of filter-subregion-overflow: now an invalid region, not a panic *)
  subregion2 (mk_irect (-1999999800) 200 2100000000 100) (mk_irect 200000200 200 10 10) = None.
Proof. exact subregion2_far_none. Qed.
Example C02_nv_box_blur_short_line : bb_writes 7 3 = 3 /\ bb_trips 7 3 = 6 /\ bb_writes 2 40 = 40 /\ bb_skip 7 3 = true.
Proof. vm_compute. auto. Qed.
Example C02_nv_conv_wrap : conv_wrap 8 0 8 0 3 = Some (1, 3).   (* -8 -> -5 -> -2 -> 1 *)
Proof. vm_compute. reflexivity. Qed.
Example C02_nv_iir : iir_up 4 7 5 = Some (0, 4) /\ iir_down 5 7 5 = Some (35, 4).
Proof. vm_compute. auto. Qed.
(* second pass *)
Example C02_nv_lighting_guard : light_guard 1 120 = true /\ light_guard 3 3 = false /\ light_guard 2 3 = true.
Proof. vm_compute. auto. Qed.
Example C02_nv_lighting_3x3 : map (fun c => snd (fst c)) (light_calls 3 3 1 1) =
  [((false, false), (0, 0)); ((false, false), (2, 0)); ((false, false), (0, 2)); ((false, false), (2, 2));
   ((true, false), (1, 0)); ((true, false), (1, 2)); ((false, true), (0, 1)); ((false, true), (2, 1)); ((true, true), (1, 1))].
Proof. vm_compute. reflexivity. Qed.
Example C02_nv_displacement : dm_guard 4 2 3 1 2 1 = true /\ dm_idx 4 2 3 1 2 1 = 6 /\ dm_guard 4 2 3 1 2147483647 0 = false.
Proof. vm_compute. auto. Qed.
Example C02_nv_transfer : ct_table_indices 3 (1 # 2) = [1; 2] /\ ct_table_indices 3 1 = [2] /\ ct_discrete_indices 4 (7 # 2) = [3]
  /\ ct_table_indices 1 (1 # 3) = [0].
Proof. vm_compute. auto. Qed.
Example C02_nv_box_gauss : bg_wl 2147483647 = 2147483645 /\ bg_wl 6 = 5 /\ bg_radius (bg_wu (bg_wl 6)) = 3.
Proof. vm_compute. auto. Qed.
