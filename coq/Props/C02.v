(* C02  Rendering is total and its memory is bounded by the canvas, not the document.
   Property theorems only: the geometry that bounds group and filter layers.  `fit_to_rect`, `layer_ibbox`,
   `layer_size`, `max_bbox_args` are the SOURCE-DERIVED definitions of Gen/LeafFit.v and Gen/LeafRender.v;
   the constants are Gen/Consts.v.  Filter kernels, pattern tiles, clip / mask buffers are covered by the
   system oracle (allocation + time + panic sweep) only. *)
From RV Require Import Model.Base Model.RenderPrims Gen.Consts Gen.LeafFit Gen.LeafRender Model.Render.
From RV Require Import Proofs.Render.
From RV Require Import Gen.LeafMorph Model.Morph Proofs.Morph.
From RV Require Import Gen.LeafTurb Model.Turb Proofs.Turb.
Local Open Scope Z_scope.

(* geom::fit_to_rect is the intersection *)
Theorem C02_fit_to_rect_spec : forall r b, valid_irect r -> valid_irect b ->
  (forall q, fit_to_rect r b = Some q ->
     valid_irect q /\ inside q r /\ inside q b /\
     forall px py, in_irect q px py <-> (in_irect r px py /\ in_irect b px py)) /\
  (fit_to_rect r b = None <-> forall px py, ~ (in_irect r px py /\ in_irect b px py)).
Proof. exact fit_to_rect_spec. Qed.
Print Assumptions C02_fit_to_rect_spec.

(* resvg::render: max_bbox exists (the unwrap cannot fail), is MAXBB_MUL canvases large and contains the canvas *)
Theorem C02_canvas_in_max_bbox : forall W H, 1 <= W <= CANVAS_MAX -> 1 <= H <= CANVAS_MAX ->
  exists m, max_bbox W H = Some m /\ valid_irect m /\ inside (canvas_rect W H) m /\
            iw m = MAXBB_MUL_W * W /\ ih m = MAXBB_MUL_H * H.
Proof. exact canvas_in_max_bbox. Qed.
Print Assumptions C02_canvas_in_max_bbox.

(* every group layer that is allocated - filtered or not, whatever numbers the document contains - lies
   inside max_bbox, is allocated with exactly its box's size, and is at most k x k canvases large *)
Theorem C02_layer_within_max : forall b nf W H m r,
  1 <= W <= CANVAS_MAX -> 1 <= H <= CANVAS_MAX -> max_bbox W H = Some m -> layer_box b nf m = LBox r ->
  valid_irect r /\ inside r m /\ layer_size r = (iw r, ih r) /\
  iw r <= MAXBB_MUL_W * W /\ ih r <= MAXBB_MUL_H * H /\
  iw r * ih r <= (MAXBB_MUL_W * MAXBB_MUL_H) * (W * H).
Proof. exact layer_bounded. Qed.
Print Assumptions C02_layer_within_max.

(* computing the layer box cannot panic for any box, filtered or not: saturating casts and padding, `?` on
   IntRect::from_xywh, and (since the fix of the filter-region overflow) the checked geom::to_int_rect *)
Theorem C02_layer_total : forall b nf m, layer_box b nf m <> LPanic.
Proof. exact layer_total. Qed.
Print Assumptions C02_layer_total.

(* neither render_group nor filter::apply_inner uses the panicking tiny_skia Rect::to_int_rect().unwrap() *)
Theorem C02_regions_checked : filter_to_int_rect_unwraps = false /\ layer_to_int_rect_unwraps = false.
Proof. exact filter_region_checked. Qed.
Print Assumptions C02_regions_checked.

(* boxes beyond i32 are skipped (no layer, no allocation) *)
Theorem C02_huge_filter_group_skipped :
  exists b m, valid_irect m /\ small_bboxb b = false /\ layer_box b false m = LSkip.
Proof. exact huge_filter_group_skipped. Qed.
Print Assumptions C02_huge_filter_group_skipped.

(* what the size assert!s of the filter kernels need: the region filter::apply_inner recomputes has the size
   of the layer.  Holds for a single filter whose device region is inside max_bbox ... *)
Theorem C02_filter_images_same_size : forall b m,
  small_bbox b -> valid_irect m -> filter_layer_clamped b m = false -> filter_sizes_agree b m = true.
Proof. exact filter_sizes_agree_unclamped. Qed.
Print Assumptions C02_filter_images_same_size.

(* ... and fails as soon as the layer is clamped (known class filter-size-assert, F4) *)
Theorem C02_filter_images_same_size_refuted :
  exists b m, valid_irect m /\ small_bboxb b = true /\ filter_layer_clamped b m = true /\
              filter_sizes_agree b m = false.
Proof. exact filter_sizes_agree_refuted. Qed.
Print Assumptions C02_filter_images_same_size_refuted.

(* feMorphology: the window of morphology::apply (source-derived morph_columns / morph_rows) is capped by the image
   it scans, whatever radius the document contains; the work is at most (w*h)^2 window cells - with
   C02_layer_within_max, at most (k^2 W H)^2: bounded by the canvas alone (quartic: class morphology-cost, F30) *)
Theorem C02_morphology_window_bounded : forall rx ry w h, 0 <= w -> 0 <= h ->
  0 <= morph_columns rx w <= w /\ 0 <= morph_rows ry h <= h /\ 0 <= morph_ops rx ry w h <= (w * h) * (w * h).
Proof. exact morph_ops_bounded. Qed.
Print Assumptions C02_morphology_window_bounded.

(* feTurbulence: the integer arithmetic a document can push to the edge of i32 (source-derived Gen/LeafTurb.v lists every
   intermediate result as an unbounded integer; "in i32" = no overflow panic in debug, no silent wrap in release).
   seed: every i32 seed <= 0 (incl. i32::MIN) is normalised without leaving the range, into [1, RAND_M - 1] *)
Theorem C02_turbulence_seed_in_range : forall seed, I32_MIN <= seed <= 0 ->
  Forall i32P (turb_seed_steps seed) /\ 1 <= turb_seed_norm seed <= 2147483646.
Proof. exact turb_seed_ok. Qed.
Print Assumptions C02_turbulence_seed_in_range.

(* stitchTiles: the per-octave update of the stitch box stays in range from any state, i.e. for any numOctaves *)
Theorem C02_turbulence_stitch_in_range : forall w x h y, i32P w -> i32P x -> i32P h -> i32P y ->
  Forall i32P (turb_stitch_steps w x h y) /\
  (let '(w', x', h', y') := turb_stitch_next w x h y in i32P w' /\ i32P x' /\ i32P h' /\ i32P y').
Proof. exact turb_stitch_ok. Qed.
Print Assumptions C02_turbulence_stitch_in_range.

Theorem C02_turbulence_wrap_in_range : forall b w, i32P b -> i32P w -> Forall i32P (turb_wrap_steps b w).
Proof. exact turb_wrap_ok. Qed.
Print Assumptions C02_turbulence_wrap_in_range.

(* ------------------------------------------------------------------ non-vacuity *)
(* a translucent group half outside a 100x100 canvas gets a layer *)
Example C02_nv_half_outside :
  layer_box (mk_qrect (60 # 1) (-(30 # 1)) (805 # 10) (705 # 10)) true (mk_irect (-200) (-200) 500 500)
  = LBox (mk_irect 58 (-32) 85 75).
Proof. vm_compute. reflexivity. Qed.
(* a group 10x the canvas gets the clamped box; one 3e10 wide is skipped, not a panic *)
Example C02_nv_clamped :
  layer_box (mk_qrect (-(450 # 1)) (-(450 # 1)) (1000 # 1) (1000 # 1)) true (mk_irect (-200) (-200) 500 500)
  = LBox (mk_irect (-200) (-200) 500 500).
Proof. vm_compute. reflexivity. Qed.
Example C02_nv_huge_skipped :
  layer_box (mk_qrect 0 0 (30000000000 # 1) (50 # 1)) true (mk_irect (-200) (-200) 500 500) = LSkip.
Proof. vm_compute. reflexivity. Qed.
Example C02_nv_morph_huge_radius :
  morph_columns (3000000000 # 1) 6 = 6 /\ morph_chan false (1000000000 # 1) (1000000000 # 1) 3 2 [0; 10; 0; 0; 0; 5] = [10; 10; 10; 10; 10; 10].
Proof. split; vm_compute; reflexivity. Qed.
Example C02_nv_fit_none :
  fit_to_rect (mk_irect 600 0 10 10) (mk_irect (-200) (-200) 500 500) = None.
Proof. vm_compute. reflexivity. Qed.
