(* C10  Structural constructs resolve to the same tree as their expansions.
   Property theorems only.  Source-derived: Gen/StructTables.v (FEATURES, the a->g re-tagging, the
   transform-origin product, the use / viewport transform composition, the radius clamp divisors),
   Gen/LeafViewBox.v (to_transform), Gen/SvgTables.v (EId).  Hand model: Model/Structure.v, tied by the
   `use-convert`, `switch`, `transform-origin`, `rect-radii` correspondences of tools/props/c10.py. *)
From Coq Require Import String Ascii.
From RV Require Import Model.Base Model.GeomPrims Model.ViewBoxSpec Gen.SvgTables Gen.StructTables Gen.LeafViewBox.
From RV Require Import Model.Structure Proofs.Structure.
From RV Require Import Model.ShapePath Gen.ShapePaths Proofs.ShapePath Gen.UseClip Gen.GzipMagic.
Local Open Scope Q_scope.

(* associativity, identity, and pre_concat = matrix product (right factor applied first) *)
Theorem C10_affine_monoid : forall a b c x y,
  ts_eq (ts_concat (ts_concat a b) c) (ts_concat a (ts_concat b c)) /\
  ts_eq (ts_concat ts_identity a) a /\ ts_eq (ts_concat a ts_identity) a /\
  map_x (ts_concat a b) x y == map_x a (map_x b x y) (map_y b x y) /\
  map_y (ts_concat a b) x y == map_y a (map_x b x y) (map_y b x y).
Proof.
  intros. split; [apply ts_concat_assoc|]. split; [apply ts_concat_id_l|]. split; [apply ts_concat_id_r|].
  apply ts_concat_map.
Qed.
Print Assumptions C10_affine_monoid.

(* a transform list is the product of its functions; lists concatenate to products *)
Theorem C10_transform_list : forall l m,
  ts_eq (ts_of_list (l ++ m)) (ts_concat (ts_of_list l) (ts_of_list m)) /\
  (forall t, ts_eq (ts_of_list [t]) t) /\ ts_of_list [] = ts_identity.
Proof. intros. split; [apply ts_of_list_app|]. split; [apply ts_of_list_single | reflexivity]. Qed.
Print Assumptions C10_transform_list.

Theorem C10_transform_origin : forall m dx dy x y,
  ts_eq (resolve_transform m (Some (dx, dy)))
        (ts_concat (ts_concat (from_translate dx dy) m) (from_translate (- dx) (- dy))) /\
  ts_eq (resolve_transform m (Some (dx, dy)))
        (from_row (t_sx m) (t_ky m) (t_kx m) (t_sy m)
                  (dx - t_sx m * dx - t_kx m * dy + t_tx m) (dy - t_ky m * dx - t_sy m * dy + t_ty m)) /\
  map_x (resolve_transform m (Some (dx, dy))) x y == dx + map_x m (x - dx) (y - dy) /\
  map_y (resolve_transform m (Some (dx, dy))) x y == dy + map_y m (x - dx) (y - dy) /\
  resolve_transform m None = m.
Proof.
  intros. split; [apply transform_origin_product|]. split; [apply transform_origin_matrix|].
  destruct (transform_origin_map m dx dy x y) as [A B]. split; [exact A|]. split; [exact B | reflexivity].
Qed.
Print Assumptions C10_transform_origin.

(* `use` (target neither symbol nor svg) converts to the same tree as a `g` with the use's id and style whose
   transform is the use's transform followed by translate(x, y), around the copy: same group, same children,
   transforms equal as matrices *)
Theorem C10_use_as_group : forall id tl o x y st copy,
  exists t1 t2 kids,
    convert (SUse id tl o x y st copy) = [TGroup id t1 st kids] /\
    convert (expand_use id tl o x y st copy) = [TGroup id t2 st kids] /\
    ts_eq t1 t2.
Proof. exact use_as_group. Qed.
Print Assumptions C10_use_as_group.

Theorem C10_use_as_group_list : forall id tl x y st copy,
  exists t1 t2 kids,
    convert (SUse id tl None x y st copy) = [TGroup id t1 st kids] /\
    convert (expand_use_list id tl x y st copy) = [TGroup id t2 st kids] /\
    ts_eq t1 t2.
Proof. exact use_as_group_list. Qed.
Print Assumptions C10_use_as_group_list.

(* symbol / nested svg: the generated transform is orig . translate(x, y) . to_transform(viewBox, size) with
   C17's to_transform, the size being the use-overridden one; and the new viewport's clip rectangle relates
   to the image of the viewBox as preserveAspectRatio demands *)
Theorem C10_symbol_viewport : forall orig x y vb size uw uh own,
  ts_eq (viewport_ts orig x y (Some vb) size) (ts_concat orig (ts_concat (from_translate x y) (to_transform vb size))) /\
  ts_eq (viewport_ts orig x y None size) (ts_concat orig (from_translate x y)) /\
  override_size None None own = own /\
  sw (override_size (Some uw) None own) = uw /\ sh (override_size (Some uw) None own) = sh own /\
  sw (override_size None (Some uh) own) = sw own /\ sh (override_size None (Some uh) own) = uh /\
  override_size (Some uw) (Some uh) own = {| sw := uw; sh := uh |}.
Proof.
  intros. split; [apply viewport_ts_some|]. split; [apply viewport_ts_none|]. apply override_size_spec.
Qed.
Print Assumptions C10_symbol_viewport.

Theorem C10_symbol_clip_meet : forall x y vb size,
  vb_ok vb size -> ar_align (vb_aspect vb) <> ANone -> ar_slice (vb_aspect vb) = false ->
  let t := use_viewport_ts ts_identity x y (to_transform vb size) in
  let r := vb_rect vb in let c := clip_rect x y size in
  rx c <= img_lo_x t r /\ img_hi_x t r <= rx c + rw c /\ ry c <= img_lo_y t r /\ img_hi_y t r <= ry c + rh c.
Proof. exact symbol_viewport_meet. Qed.
Print Assumptions C10_symbol_clip_meet.

Theorem C10_symbol_clip_slice : forall x y vb size,
  vb_ok vb size -> ar_align (vb_aspect vb) <> ANone -> ar_slice (vb_aspect vb) = true ->
  let t := use_viewport_ts ts_identity x y (to_transform vb size) in
  let r := vb_rect vb in let c := clip_rect x y size in
  img_lo_x t r <= rx c /\ rx c + rw c <= img_hi_x t r /\ img_lo_y t r <= ry c /\ ry c + rh c <= img_hi_y t r.
Proof. exact symbol_viewport_slice. Qed.
Print Assumptions C10_symbol_clip_slice.

Theorem C10_symbol_clip_none : forall x y vb size,
  vb_ok vb size -> ar_align (vb_aspect vb) = ANone ->
  let t := use_viewport_ts ts_identity x y (to_transform vb size) in
  let r := vb_rect vb in let c := clip_rect x y size in
  img_lo_x t r == rx c /\ img_hi_x t r == rx c + rw c /\ img_lo_y t r == ry c /\ img_hi_y t r == ry c + rh c.
Proof. exact symbol_viewport_none. Qed.
Print Assumptions C10_symbol_clip_none.

(* switch renders exactly its first passing child, inside a group formed from the switch's own attributes *)
Theorem C10_switch_first : forall user id t st l1 c e l2,
  forallb (fun k => negb (condition_passed user (fst k))) l1 = true -> condition_passed user c = true ->
  convert_switch user id t st (l1 ++ (c, e) :: l2) = group_or_splice E_Switch id t (ts_is_identity t) st (convert e) /\
  convert_switch user id t st (l1 ++ (c, e) :: l2) = convert_switch user id t st [(c, e)] /\
  switch_choice user (map fst (l1 ++ (c, e) :: l2)) = Some (length l1).
Proof.
  intros user id t st l1 c e l2 H1 H2. split; [apply switch_convert; assumption|].
  split; [apply switch_convert_single; assumption|].
  rewrite map_app. simpl. rewrite <- (map_length fst l1). apply switch_first; [|exact H2].
  rewrite forallb_forall in *. intros d Hd. apply in_map_iff in Hd as [k [E Hk]]. subst d. apply H1, Hk.
Qed.
Print Assumptions C10_switch_first.

Theorem C10_switch_none : forall user id t st l,
  forallb (fun k => negb (condition_passed user (fst k))) l = true -> convert_switch user id t st l = [].
Proof. exact switch_none. Qed.
Print Assumptions C10_switch_none.

Theorem C10_a_is_g : forall id tl o st kids,
  retag E_A = E_G /\ convert (SGroup E_A id tl o st kids) = convert (SGroup E_G id tl o st kids).
Proof. intros. split; reflexivity. Qed.
Print Assumptions C10_a_is_g.

Theorem C10_rect_radii_equiv : forall w h a b other,
  (* one radius given = both given *)
  rect_radii w h (Some a) None = rect_radii w h (Some a) (Some a) /\
  rect_radii w h None (Some a) = rect_radii w h (Some a) (Some a) /\
  (* a negative radius = an absent one *)
  (a < 0 -> rect_radii w h (Some a) other = rect_radii w h None other /\
            rect_radii w h other (Some a) = rect_radii w h other None) /\
  (* radii are clamped to half the side, and writing the clamped radii gives the same radii *)
  (0 <= a -> 0 <= b ->
   fst (rect_radii w h (Some a) (Some b)) == (if Qgtb a (w / RX_DIV) then w / RX_DIV else a) /\
   snd (rect_radii w h (Some a) (Some b)) == (if Qgtb b (h / RY_DIV) then h / RY_DIV else b)) /\
  (0 <= a -> 0 <= b -> 0 <= w -> 0 <= h ->
   let r := rect_radii w h (Some a) (Some b) in
   fst (rect_radii w h (Some (fst r)) (Some (snd r))) == fst r /\
   snd (rect_radii w h (Some (fst r)) (Some (snd r))) == snd r).
Proof.
  intros. destruct (radii_one_sided w h a) as [A B]. split; [exact A|]. split; [exact B|].
  split; [intro H; apply radii_negative_absent; exact H|].
  split; [intros; apply radii_clamped; assumption | intros; apply radii_clamp_idempotent; assumption].
Qed.
Print Assumptions C10_rect_radii_equiv.

(* the size of a use of a symbol is its width / height resolved once against the viewport (full strength since 72e1d38;
   former class use-symbol-percent-size) *)
Theorem C10_symbol_use_size : forall vp l, (symbol_use_side vp l == spec_use_side vp l)%Q.
Proof. exact symbol_use_side_spec. Qed.
Print Assumptions C10_symbol_use_size.

(* a nested svg element = a group with its own style and transform around the viewport clip group around the viewport
   transform: every leaf gets the same accumulated opacity and transform (full strength since fb5447a; former class
   nested-svg-group-attrs-twice) *)
Theorem C10_nested_svg : forall t_attr st new_ts clip k sh,
  match leaves_of (convert_nested_svg t_attr st new_ts clip [TLeaf k sh]),
        leaves_of (expand_nested_svg t_attr st new_ts clip [TLeaf k sh]) with
  | [(i, o, t)], [(j, p, u)] => i = j /\ (o == p)%Q /\ ts_eq t u
  | _, _ => False
  end.
Proof. exact nested_svg_as_groups. Qed.
Print Assumptions C10_nested_svg.

(* ---- basic shape = its equivalent path (Gen/ShapePaths.v is transcribed from shapes.rs on every run) ------- *)
(* polyline / polygon with n >= 2 points p0 .. p(n-1): exactly the segments of `M p0 L p1 .. L p(n-1) [Z]` - the same
   as convert_path yields for that path data - for EVERY point list (repeated, coinciding, closing points included) *)
Theorem C10_polyline_as_path : forall pts, (2 <= length pts)%nat ->
  convert_polyline pts = convert_path (spec_points_data false pts)
  /\ convert_polyline pts = Some (spec_points_path false pts).
Proof. exact polyline_as_path. Qed.
Print Assumptions C10_polyline_as_path.
Theorem C10_polygon_as_path : forall pts, (2 <= length pts)%nat ->
  convert_polygon pts = convert_path (spec_points_data true pts)
  /\ convert_polygon pts = Some (spec_points_path true pts).
Proof. exact polygon_as_path. Qed.
Print Assumptions C10_polygon_as_path.
(* no point is dropped or reordered: n (+1) segments, the i-th one ends in the i-th point *)
Theorem C10_points_path_complete : forall closed pts,
  (pts <> [] -> length (spec_points_path closed pts) = (length pts + (if closed then 1 else 0))%nat)
  /\ (forall i, (i < length pts)%nat -> seg_end (nth i (spec_points_path closed pts) SZ) = Some (nth i pts (0, 0))).
Proof. intros. split; [apply spec_points_path_length | apply spec_points_path_nth]. Qed.
Print Assumptions C10_points_path_complete.
Theorem C10_points_short_none : forall pts, (length pts < 2)%nat -> convert_polyline pts = None /\ convert_polygon pts = None.
Proof. exact points_short_none. Qed.
Print Assumptions C10_points_short_none.
Theorem C10_line_as_path : forall x1 y1 x2 y2,
  convert_line x1 y1 x2 y2 = convert_path [PMove x1 y1; PLine x2 y2]
  /\ convert_line x1 y1 x2 y2 = Some [SM x1 y1; SL x2 y2].
Proof. exact line_as_path. Qed.
Print Assumptions C10_line_as_path.
(* ellipse: M cx+rx,cy A .. cx,cy+ry A .. cx-rx,cy A .. cx,cy-ry A .. cx+rx,cy Z; nothing unless both radii are positive *)
Theorem C10_ellipse_as_path : forall cx cy rx ry,
  (0 < rx /\ 0 < ry -> osegs_eq (convert_ellipse cx cy rx ry) (Some (spec_ellipse_path cx cy rx ry)))
  /\ (~ (0 < rx /\ 0 < ry) -> convert_ellipse cx cy rx ry = None).
Proof. exact convert_ellipse_spec. Qed.
Print Assumptions C10_ellipse_as_path.
Theorem C10_circle_as_ellipse : forall cx cy r,
  (0 < r -> convert_circle cx cy r = convert_ellipse cx cy r r
            /\ osegs_eq (convert_circle cx cy r) (Some (spec_ellipse_path cx cy r r)))
  /\ (~ 0 < r -> convert_circle cx cy r = None).
Proof. exact circle_as_ellipse. Qed.
Print Assumptions C10_circle_as_ellipse.
(* rect with resolved, clamped radii: the SVG 1.1 9.2 path when rx <> 0, else M x,y H x+w V y+h H x Z *)
Theorem C10_rect_as_path : forall x y w h rx ry,
  (~ rx == 0 -> osegs_eq (rect_path x y w h rx ry) (Some (spec_round_rect_path x y w h rx ry)))
  /\ (rx == 0 -> rect_path x y w h rx ry = convert_path [PMove x y; PLine (x + w) y; PLine (x + w) (y + h); PLine x (y + h); PClose]).
Proof. exact rect_path_spec. Qed.
Print Assumptions C10_rect_as_path.

(* ---- use -> symbol as groups; the viewport clip decision (Gen/UseClip.v is transcribed from use_node.rs) ---------- *)
(* a use of a symbol = group(use transform, use style) > viewport clip > group(translate(x, y) . viewBox transform, symbol
   style) > copy: same accumulated opacity and transform for the content, same clips / masks / filters above it in the same
   coordinate systems - for ALL inputs (full strength since 214a8de; former class use-symbol-style-in-parent-space, whose
   witness is a must-pass pair of the oracle) *)
Theorem C10_use_symbol_as_groups : forall id orig_ts new_ts st sym_st clip k sh,
  match cleaves_of (convert_use_symbol id orig_ts new_ts st sym_st clip [TLeaf k sh]),
        cleaves_of (expand_use_symbol id orig_ts new_ts st sym_st clip [TLeaf k sh]) with
  | [(i, o, t, c)], [(j, p, u, d)] => i = j /\ (o == p)%Q /\ ts_eq t u /\ clip_set_eq c d
  | _, _ => False
  end.
Proof. exact use_symbol_as_groups. Qed.
Print Assumptions C10_use_symbol_as_groups.
Theorem C10_use_symbol_effect_order : forall id orig_ts new_ts st sym_st k sh,
  match cleaves_of (convert_use_symbol id orig_ts new_ts st sym_st None [TLeaf k sh]),
        cleaves_of (expand_use_symbol id orig_ts new_ts st sym_st None [TLeaf k sh]) with
  | [(_, _, _, c)], [(_, _, _, d)] => clip_list_eq c d
  | _, _ => False
  end.
Proof. exact use_symbol_effect_order. Qed.
Print Assumptions C10_use_symbol_effect_order.
(* with a viewport clip the use's filter ends up INSIDE the viewport clip (candidate defect, reproduced on the real code) *)
Theorem C10_use_symbol_filter_order_refuted :
  exists id orig_ts new_ts st sym_st c k sh,
    map fst (match cleaves_of (convert_use_symbol id orig_ts new_ts st sym_st (Some c) [TLeaf k sh]) with [(_, _, _, l)] => l | _ => [] end)
      = [(0%N, c); (2%N, 3%N)] /\
    map fst (match cleaves_of (expand_use_symbol id orig_ts new_ts st sym_st (Some c) [TLeaf k sh]) with [(_, _, _, l)] => l | _ => [] end)
      = [(2%N, 3%N); (0%N, c)].
Proof. exact use_symbol_filter_order_refuted. Qed.
Print Assumptions C10_use_symbol_filter_order_refuted.
(* guarded counterpart (known class use-symbol-filter-inside-viewport-clip): conversion = viewport clip, then the use's effects;
   expansion = the use's effects, then the viewport clip; same tail.  Without a filter on the use only clip-paths / masks change
   sides with the viewport clip, and those commute with a clip *)
Theorem C10_use_symbol_order_guarded : forall id orig_ts new_ts st sym_st c k sh,
  g_filter st = [] ->
  Forall (fun e => fst e <> 2%N) (effects st) /\
  exists tl tl',
    map fst (match cleaves_of (convert_use_symbol id orig_ts new_ts st sym_st (Some c) [TLeaf k sh]) with [(_, _, _, l)] => l | _ => [] end)
      = (0%N, c) :: effects st ++ tl /\
    map fst (match cleaves_of (expand_use_symbol id orig_ts new_ts st sym_st (Some c) [TLeaf k sh]) with [(_, _, _, l)] => l | _ => [] end)
      = effects st ++ (0%N, c) :: tl' /\ tl = tl'.
Proof. exact use_symbol_order_guarded. Qed.
Print Assumptions C10_use_symbol_order_guarded.
(* inheritance through use: expanding every use (any nesting, any chain length) by a group leaves every resolved property
   unchanged, and a chain of n uses hands its target the innermost value set along the chain *)
Theorem C10_inherit_through_use : forall e inh, resolved inh (expand_uses e) = resolved inh e.
Proof. exact resolved_expand. Qed.
Print Assumptions C10_inherit_through_use.
Theorem C10_inherit_use_chain : forall owns target inh,
  resolved inh (use_chain owns target) = resolved (chain_value owns inh) target.
Proof. exact resolved_chain. Qed.
Print Assumptions C10_inherit_use_chain.
(* systemLanguage: a language of the list matches iff the user has it exactly, or has the part before its FIRST '-' *)
Theorem C10_lang_matches : forall user lang,
  lang_matches user lang = true <->
  In lang user \/ exists p, prefix_before_dash lang = Some p /\ In p user.
Proof. exact lang_matches_iff. Qed.
Print Assumptions C10_lang_matches.
Theorem C10_lang_prefix : forall lang p,
  prefix_before_dash lang = Some p <->
  (exists rest, lang = (p ++ String "-"%char rest)%string) /\ prefix_before_dash p = None.
Proof. exact prefix_before_dash_spec. Qed.
Print Assumptions C10_lang_prefix.
(* gzip input is recognised by ID1 ID2 of RFC 1952 alone: every member (any CM / FLG / MTIME / XFL / OS) takes the gzip path *)
Theorem C10_gzip_magic : GZIP_MAGIC = [31; 139]%N.
Proof. reflexivity. Qed.
Print Assumptions C10_gzip_magic.
Theorem C10_viewport_clip_decision : forall (is_svg : bool) (ov : option string) us0 us1 hw hh x y w h,
  let off := match ov with Some o => existsb (String.eqb o) ["visible"; "auto"]%string | None => false end in
  let size := if is_svg then override_size us0 us1 {| sw := w; sh := h |} else {| sw := w; sh := h |} in
  get_clip_rect is_svg ov us0 us1 hw hh x y w h =
    if off || (is_svg && is_none us0 && is_none us1 && negb (hw && hh)) || negb (Qltb 0 (sw size) && Qltb 0 (sh size))
    then None else Some (clip_rect x y size).
Proof. exact viewport_clip_decision. Qed.
Print Assumptions C10_viewport_clip_decision.

(* ---- non-vacuity ---------------------------------------------------------------------------------- *)
Local Open Scope string_scope.
Definition ex_leaf := SLeaf 7%N 1%N.
Definition ex_st : gstyle := {| g_opacity := 1 # 2; g_blend := 0%N; g_isolate := false; g_clip := None; g_mask := None; g_filter := [] |}.
Example C10_nv_use :
  convert (SUse 3%N [from_scale 2 2] None 5 7 ex_st ex_leaf)
  = [TGroup 3%N (use_group_ts (ts_of_list [from_scale 2 2]) 5 7) ex_st [TLeaf 7%N 1%N]] /\
  (t_tx (use_group_ts (ts_of_list [from_scale 2 2]) 5 7) == 10)%Q.
Proof. split; [reflexivity | vm_compute; reflexivity]. Qed.
Example C10_nv_origin :
  (map_x (resolve_transform (from_scale 2 2) (Some (10, 20))) 10 20 == 10 /\
   map_x (resolve_transform (from_scale 2 2) (Some (10, 20))) 11 20 == 12)%Q.
Proof. vm_compute. split; reflexivity. Qed.
Definition c_text := {| c_element := false; c_req_ext := false; c_features := None; c_langs := None |}.
Definition c_ext := {| c_element := true; c_req_ext := true; c_features := None; c_langs := None |}.
Definition c_badfeat := {| c_element := true; c_req_ext := false; c_features := Some ["http://www.w3.org/TR/SVG11/feature#Font"]; c_langs := None |}.
Definition c_lang := {| c_element := true; c_req_ext := false; c_features := Some ["http://www.w3.org/TR/SVG11/feature#Shape"]; c_langs := Some ["de"; "en-US"] |}.
Definition c_any := {| c_element := true; c_req_ext := false; c_features := None; c_langs := None |}.
Example C10_nv_switch :
  switch_choice ["en"] [c_text; c_ext; c_badfeat; c_lang; c_any] = Some 3%nat /\
  switch_choice ["fr"] [c_text; c_ext; c_badfeat; c_lang; c_any] = Some 4%nat /\
  switch_choice ["fr"] [c_text; c_ext; c_badfeat; c_lang] = None.
Proof. vm_compute. repeat split. Qed.
Example C10_nv_radii :
  (fst (rect_radii 50 30 (Some 40) None) == 25 /\ snd (rect_radii 50 30 (Some 40) None) == 15 /\
   fst (rect_radii 50 30 (Some (-3)) (Some 5)) == 5 /\ snd (rect_radii 50 30 (Some (-3)) (Some 5)) == 5 /\
   fst (rect_radii 50 30 None None) == 0)%Q.
Proof. vm_compute. repeat split. Qed.
Example C10_nv_polygon_closed :
  convert_polygon [(0, 0); (10, 0); (10, 10); (0, 0)] = Some [SM 0 0; SL 10 0; SL 10 10; SL 0 0; SZ]
  /\ convert_polygon [(1, 1); (1, 1)] = Some [SM 1 1; SL 1 1; SZ] /\ convert_polygon [(1, 1)] = None
  /\ convert_polyline [(0, 0); (0, 0); (5, 5)] = Some [SM 0 0; SL 0 0; SL 5 5].
Proof. vm_compute. repeat split. Qed.
Example C10_nv_rect_round :
  convert_rect 0 0 50 30 (Some 4) None = Some (spec_round_rect_path 0 0 50 30 4 4)
  /\ convert_rect 0 0 0 30 None None = None.
Proof. vm_compute. split; reflexivity. Qed.
Example C10_nv_use_symbol :
  cleaves_of (convert_use_symbol 3%N (from_translate 50 0) (from_scale 2 2) ex_st plain (Some 9%N) [TLeaf 7%N 1%N])
  = [(7%N, (1 * 1 * (1 # 2) * 1)%Q, ts_concat (ts_concat (ts_concat ts_identity (from_translate 50 0)) ts_identity) (from_scale 2 2),
      [(0%N, 9%N, ts_concat ts_identity (from_translate 50 0))])] /\
  get_clip_rect true None None None true false 1 2 30 40 = None /\
  get_clip_rect true (Some "hidden") (Some 5) None false false 1 2 30 40 = Some {| rx := 1; ry := 2; rw := 5; rh := 40 |}.
Proof. repeat split. Qed.
Example C10_nv_inherit_chain :
  resolved 1%N (use_chain [Some 2%N; None; Some 5%N; None; None] (IGroup None [ILeaf 7%N None; ILeaf 8%N (Some 9%N)]))
  = [(7%N, 5%N); (8%N, 9%N)].
Proof. reflexivity. Qed.
