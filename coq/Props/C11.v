(* C11  Content that SVG says is not rendered never influences the result.
   Property theorems only.  The converter skeleton (Model/Converter.v) evaluates the SOURCE-DERIVED tables
   of Gen/ConvTables.v (regenerated from /repo on every run): element dispatch order, is_graphic,
   is_visible_element, is_condition_passed, the exits of convert_group, the shape validity tests, the
   generated-id prefixes and the svgtree attribute filter.  Every theorem holds for all instantiations of
   the abstract leaf converters (path styling, image, text, use, nested svg, clip/mask/filter resolution). *)
From Coq Require Import String.
From RV Require Import Model.Base Model.ConvBase Gen.ConvTables Model.Converter Proofs.Converter.
From RV Require Import Model.ConvCache Proofs.ConvCache.
Local Open Scope string_scope.

(* An ignorable element (text node; element that is neither graphic nor g/switch/svg - defs, gradients,
   patterns, clipPath, mask, filter, marker, symbol, ...; display:none; non-invertible transform; failing
   requiredExtensions / requiredFeatures / systemLanguage; zero-size or invalid shape without a `filter`
   attribute - with any of opacity / transform / isolation / mix-blend-mode / clip-path / mask) converts to
   nothing: the parent group AND the cache (generated-id counters, definition caches) are unchanged.
   Holds for convert_element (clip = false) and for convert_clip_path_elements (clip = true). *)
Theorem C11_ignorable_is_noop :
  forall (state : Type) (st_in_clip st_no_markers : state -> bool)
         (conv_path : tag -> attrs -> conv_t state) (conv_image : attrs -> conv_t state) (conv_text : node -> conv_t state)
         (conv_use : attrs -> option (option tag * attrs) -> conv_t state -> conv_t state -> conv_t state)
         (conv_nested_svg : attrs -> conv_t state -> conv_t state) (obj_bbox : ogroup -> option qrect)
         (res_clip res_mask : string -> state -> option qrect -> cache -> option string * cache)
         (res_filter : attrs -> state -> option qrect -> cache -> option (list string) * cache)
         (n : node) (top clip : bool) (st : state) (c : cache) (p : ogroup),
  ignorable n = true ->
  conv_elem state st_in_clip st_no_markers conv_path conv_image conv_text conv_use conv_nested_svg obj_bbox
            res_clip res_mask res_filter n top clip st c p = (c, p).
Proof. exact ignorable_is_noop. Qed.
Print Assumptions C11_ignorable_is_noop.

(* The shapes SVG declares "not rendered" for their geometry (non-positive width/height/r/rx/ry, fewer than two
   points / segments) are exactly covered by the validity tests cut out of shapes.rs. *)
Theorem C11_zero_size_is_invalid : forall t a, zero_size t a = true -> shape_valid t a = false.
Proof. exact zero_size_invalid. Qed.
Print Assumptions C11_zero_size_is_invalid.

(* ... and a zero-size / invalid shape WITH a `filter` attribute (`none`, a filter function such as blur(2), a link) and ANY
   clip-path / mask link (dd154cd; before, the clip-path / mask of such an element were resolved - and an objectBoundingBox
   mask registered in cache.masks - before the element was dropped): convert_group resolves the filters of an element
   without content first.  If that leaves the cache alone and yields no filter for an element without a bounding box
   (filter_inert: what parser/filter.rs does for filter functions as long as `filter_facts` holds - no bbox => return before
   anything, the filter id is generated after the region check -; Err for a missing link) nothing remains: no group, no
   counter moved, no cache entry. *)
Theorem C11_zero_shape_filter_noop :
  forall (state : Type) (st_in_clip st_no_markers : state -> bool)
         (conv_path : tag -> attrs -> conv_t state) (conv_image : attrs -> conv_t state) (conv_text : node -> conv_t state)
         (conv_use : attrs -> option (option tag * attrs) -> conv_t state -> conv_t state -> conv_t state)
         (conv_nested_svg : attrs -> conv_t state -> conv_t state) (obj_bbox : ogroup -> option qrect)
         (res_clip res_mask : string -> state -> option qrect -> cache -> option string * cache)
         (res_filter : attrs -> state -> option qrect -> cache -> option (list string) * cache)
         (t : tag) (a : attrs) (ch : nodes) (top clip : bool) (st : state) (c : cache) (p : ogroup),
  tag_in t impl_shape_tags = true -> shape_valid t a = false ->
  empty_has_no_bbox obj_bbox -> filter_inert state res_filter a ->
  conv_elem state st_in_clip st_no_markers conv_path conv_image conv_text conv_use conv_nested_svg obj_bbox
            res_clip res_mask res_filter (Node (Some t) a ch) top clip st c p = (c, p).
Proof. exact zero_shape_filter_noop. Qed.
Print Assumptions C11_zero_shape_filter_noop.

(* FULL strength over the property's own list (spec_nonrendered: text between elements, elements that are neither graphic
   nor g/switch/svg, display:none, invalid transform, failing conditional attribute, zero-size / invalid shape WHATEVER
   else it carries): the node converts to nothing - parent group and cache (generated-id counters, cache.clip_paths /
   masks / filters / paint) unchanged.  junk_ok n = spec_nonrendered n /\ (filter attribute present -> filter_inert). *)
Theorem C11_nonrendered_is_noop :
  forall (state : Type) (st_in_clip st_no_markers : state -> bool)
         (conv_path : tag -> attrs -> conv_t state) (conv_image : attrs -> conv_t state) (conv_text : node -> conv_t state)
         (conv_use : attrs -> option (option tag * attrs) -> conv_t state -> conv_t state -> conv_t state)
         (conv_nested_svg : attrs -> conv_t state -> conv_t state) (obj_bbox : ogroup -> option qrect)
         (res_clip res_mask : string -> state -> option qrect -> cache -> option string * cache)
         (res_filter : attrs -> state -> option qrect -> cache -> option (list string) * cache)
         (n : node) (top clip : bool) (st : state) (c : cache) (p : ogroup),
  empty_has_no_bbox obj_bbox -> junk_ok state res_filter n ->
  conv_elem state st_in_clip st_no_markers conv_path conv_image conv_text conv_use conv_nested_svg obj_bbox
            res_clip res_mask res_filter n top clip st c p = (c, p).
Proof. exact nonrendered_is_noop. Qed.
Print Assumptions C11_nonrendered_is_noop.

(* ... for any list of such nodes between any siblings ... *)
Theorem C11_nonrendered_context_free :
  forall (state : Type) (st_in_clip st_no_markers : state -> bool)
         (conv_path : tag -> attrs -> conv_t state) (conv_image : attrs -> conv_t state) (conv_text : node -> conv_t state)
         (conv_use : attrs -> option (option tag * attrs) -> conv_t state -> conv_t state -> conv_t state)
         (conv_nested_svg : attrs -> conv_t state -> conv_t state) (obj_bbox : ogroup -> option qrect)
         (res_clip res_mask : string -> state -> option qrect -> cache -> option string * cache)
         (res_filter : attrs -> state -> option qrect -> cache -> option (list string) * cache)
         (l1 junk l2 : nodes) (top clip : bool) (st : state) (c : cache) (p : ogroup),
  empty_has_no_bbox obj_bbox ->
  (forall k1 j k2, junk = napp k1 (NCons j k2) -> junk_ok state res_filter j) ->
  conv_children state st_in_clip st_no_markers conv_path conv_image conv_text conv_use conv_nested_svg obj_bbox
                res_clip res_mask res_filter (napp l1 (napp junk l2)) top clip st c p =
  conv_children state st_in_clip st_no_markers conv_path conv_image conv_text conv_use conv_nested_svg obj_bbox
                res_clip res_mask res_filter (napp l1 l2) top clip st c p.
Proof. exact nonrendered_context_free. Qed.
Print Assumptions C11_nonrendered_context_free.

(* ... and for any number of them inserted at any depth (insJ: same places as `ins`): the converted tree AND the cache -
   hence the sequence of cache registrations and every generated id rendered content receives afterwards - are those of
   the original document. *)
Theorem C11_nonrendered_tree :
  forall (state : Type) (st_in_clip st_no_markers : state -> bool)
         (conv_path : tag -> attrs -> conv_t state) (conv_image : attrs -> conv_t state) (conv_text : node -> conv_t state)
         (conv_use : attrs -> option (option tag * attrs) -> conv_t state -> conv_t state -> conv_t state)
         (conv_nested_svg : attrs -> conv_t state -> conv_t state) (obj_bbox : ogroup -> option qrect)
         (res_clip res_mask : string -> state -> option qrect -> cache -> option string * cache)
         (res_filter : attrs -> state -> option qrect -> cache -> option (list string) * cache),
  callbacks_ext state conv_use conv_nested_svg -> empty_has_no_bbox obj_bbox ->
  forall (n n' : node) (top clip : bool) (st : state) (c : cache) (p : ogroup),
  insJ (junk_ok state res_filter) n n' ->
  conv_elem state st_in_clip st_no_markers conv_path conv_image conv_text conv_use conv_nested_svg obj_bbox
            res_clip res_mask res_filter n' top clip st c p =
  conv_elem state st_in_clip st_no_markers conv_path conv_image conv_text conv_use conv_nested_svg obj_bbox
            res_clip res_mask res_filter n top clip st c p.
Proof. exact nonrendered_tree. Qed.
Print Assumptions C11_nonrendered_tree.

Theorem C11_nonrendered_forest :
  forall (state : Type) (st_in_clip st_no_markers : state -> bool)
         (conv_path : tag -> attrs -> conv_t state) (conv_image : attrs -> conv_t state) (conv_text : node -> conv_t state)
         (conv_use : attrs -> option (option tag * attrs) -> conv_t state -> conv_t state -> conv_t state)
         (conv_nested_svg : attrs -> conv_t state -> conv_t state) (obj_bbox : ogroup -> option qrect)
         (res_clip res_mask : string -> state -> option qrect -> cache -> option string * cache)
         (res_filter : attrs -> state -> option qrect -> cache -> option (list string) * cache),
  callbacks_ext state conv_use conv_nested_svg -> empty_has_no_bbox obj_bbox ->
  forall (l l' : nodes) (top clip : bool) (st : state) (c : cache) (p : ogroup),
  insJ_list (junk_ok state res_filter) true l l' ->
  conv_children state st_in_clip st_no_markers conv_path conv_image conv_text conv_use conv_nested_svg obj_bbox
                res_clip res_mask res_filter l' top clip st c p =
  conv_children state st_in_clip st_no_markers conv_path conv_image conv_text conv_use conv_nested_svg obj_bbox
                res_clip res_mask res_filter l top clip st c p.
Proof. exact nonrendered_forest. Qed.
Print Assumptions C11_nonrendered_forest.

(* What resolving a link does to the cache, over the step tables cut from mask.rs / clippath.rs: for an element without a
   bounding box an objectBoundingBox mask is REGISTERED ("mask all") - which is why convert_group must not reach the mask
   of an element it is going to drop -, the next user of that mask gets a generated id, and an objectBoundingBox clip path
   is refused before anything is generated or registered. *)
Theorem C11_mask_nobbox_registers : forall fmt d c,
  d_tag_ok d = true -> d_geom_ok d = true -> d_units_obb d = true -> d_cacheable d = false ->
  String.eqb (d_id d) "" = false -> str_in (d_id d) (c_masks c) = false ->
  mask_convert fmt d None c = (Some (d_id d), c_set_masks c (c_mask c) (d_id d :: c_masks c)).
Proof. exact mask_nobbox_registers. Qed.
Print Assumptions C11_mask_nobbox_registers.

Theorem C11_mask_second_use_generates : forall fmt d bbox c,
  d_tag_ok d = true -> d_geom_ok d = true -> d_cacheable d = false ->
  String.eqb (d_id d) "" = false -> str_in (d_id d) (c_masks c) = true ->
  forall i k, gen_id fmt (id_fuel c) "mask" (c_all_ids c) (c_mask c) = Some (i, k) ->
  d_content d (c_set_masks c k (c_masks c)) = (c_set_masks c k (c_masks c), true) -> d_content_obb d = false -> d_link d = None ->
  fst (mask_convert fmt d (Some bbox) c) = Some i.
Proof. exact mask_second_use_generates. Qed.
Print Assumptions C11_mask_second_use_generates.

Theorem C11_clip_obb_nobbox_inert : forall fmt d c,
  d_units_obb d = true -> d_cacheable d = false -> clip_convert fmt d None c = (None, c).
Proof. exact clip_obb_nobbox_inert. Qed.
Print Assumptions C11_clip_obb_nobbox_inert.

Theorem C11_filter_facts_lock : filter_facts = [FF_NoBBoxReturnsEarly; FF_GenIdAfterRegionCheck].
Proof. exact filter_facts_lock. Qed.
Print Assumptions C11_filter_facts_lock.

(* convert_children / convert_clip_path_elements do not see ignorable siblings, wherever they stand *)
Theorem C11_context_free :
  forall (state : Type) (st_in_clip st_no_markers : state -> bool)
         (conv_path : tag -> attrs -> conv_t state) (conv_image : attrs -> conv_t state) (conv_text : node -> conv_t state)
         (conv_use : attrs -> option (option tag * attrs) -> conv_t state -> conv_t state -> conv_t state)
         (conv_nested_svg : attrs -> conv_t state -> conv_t state) (obj_bbox : ogroup -> option qrect)
         (res_clip res_mask : string -> state -> option qrect -> cache -> option string * cache)
         (res_filter : attrs -> state -> option qrect -> cache -> option (list string) * cache)
         (l1 junk l2 : nodes) (top clip : bool) (st : state) (c : cache) (p : ogroup),
  all_ignorable junk = true ->
  conv_children state st_in_clip st_no_markers conv_path conv_image conv_text conv_use conv_nested_svg obj_bbox
                res_clip res_mask res_filter (napp l1 (napp junk l2)) top clip st c p =
  conv_children state st_in_clip st_no_markers conv_path conv_image conv_text conv_use conv_nested_svg obj_bbox
                res_clip res_mask res_filter (napp l1 l2) top clip st c p.
Proof. exact context_free. Qed.
Print Assumptions C11_context_free.

(* ... lifted through every container by induction on the tree: insertions at any depth (g, svg, nested
   svg, symbol and the other children of a use shadow tree, the chosen switch branch, shapes' children),
   except directly under switch, inside text, and at the root of a use shadow tree.
   callbacks_ext: the abstract `use` / nested `svg` converters only call the child conversions they are handed
   (extensionally equal callbacks give equal results) - stated as a hypothesis instead of assuming
   functional extensionality. *)
Theorem C11_context_free_tree :
  forall (state : Type) (st_in_clip st_no_markers : state -> bool)
         (conv_path : tag -> attrs -> conv_t state) (conv_image : attrs -> conv_t state) (conv_text : node -> conv_t state)
         (conv_use : attrs -> option (option tag * attrs) -> conv_t state -> conv_t state -> conv_t state)
         (conv_nested_svg : attrs -> conv_t state -> conv_t state) (obj_bbox : ogroup -> option qrect)
         (res_clip res_mask : string -> state -> option qrect -> cache -> option string * cache)
         (res_filter : attrs -> state -> option qrect -> cache -> option (list string) * cache),
  callbacks_ext state conv_use conv_nested_svg ->
  forall (n n' : node) (top clip : bool) (st : state) (c : cache) (p : ogroup),
  ins n n' ->
  conv_elem state st_in_clip st_no_markers conv_path conv_image conv_text conv_use conv_nested_svg obj_bbox
            res_clip res_mask res_filter n' top clip st c p =
  conv_elem state st_in_clip st_no_markers conv_path conv_image conv_text conv_use conv_nested_svg obj_bbox
            res_clip res_mask res_filter n top clip st c p.
Proof. exact context_free_tree. Qed.
Print Assumptions C11_context_free_tree.

Theorem C11_context_free_forest :
  forall (state : Type) (st_in_clip st_no_markers : state -> bool)
         (conv_path : tag -> attrs -> conv_t state) (conv_image : attrs -> conv_t state) (conv_text : node -> conv_t state)
         (conv_use : attrs -> option (option tag * attrs) -> conv_t state -> conv_t state -> conv_t state)
         (conv_nested_svg : attrs -> conv_t state -> conv_t state) (obj_bbox : ogroup -> option qrect)
         (res_clip res_mask : string -> state -> option qrect -> cache -> option string * cache)
         (res_filter : attrs -> state -> option qrect -> cache -> option (list string) * cache),
  callbacks_ext state conv_use conv_nested_svg ->
  forall (l l' : nodes) (top clip : bool) (st : state) (c : cache) (p : ogroup),
  ins_list true l l' ->
  conv_children state st_in_clip st_no_markers conv_path conv_image conv_text conv_use conv_nested_svg obj_bbox
                res_clip res_mask res_filter l' top clip st c p =
  conv_children state st_in_clip st_no_markers conv_path conv_image conv_text conv_use conv_nested_svg obj_bbox
                res_clip res_mask res_filter l top clip st c p.
Proof. exact context_free_forest. Qed.
Print Assumptions C11_context_free_forest.

(* The id pre-scan: ids from the reserved `vf_` namespace, inserted anywhere into the scanned ids, change no
   generated id and no counter (fmt = decimal rendering of the counter; collision-freedom of the 64-bit
   string hash on the document's ids is assumed). *)
Theorem C11_prescan_stable :
  forall (fmt : N -> string) (fuel : nat) (prefix : string) (l1 junk l2 : list string) (idx : N),
  In prefix gen_prefixes -> forallb reserved junk = true ->
  gen_id fmt fuel prefix (l1 ++ junk ++ l2) idx = gen_id fmt fuel prefix (l1 ++ l2) idx.
Proof. exact prescan_stable. Qed.
Print Assumptions C11_prescan_stable.

Theorem C11_gen_id_fresh :
  forall (fmt : N -> string) (fuel : nat) (prefix : string) (ids : list string) (idx : N) (id : string) (idx' : N),
  gen_id fmt fuel prefix ids idx = Some (id, idx') -> str_in id ids = false /\ (idx < idx')%N.
Proof. exact gen_id_fresh. Qed.
Print Assumptions C11_gen_id_fresh.

(* svgtree::parse: comments, processing instructions, text between elements, elements outside the SVG
   namespace, unknown SVG elements and `style` elements append nothing, wherever they stand; foreign-namespace
   and unknown attributes are not copied.  (Domain guard: attribute resolution `resolve` is a function of the
   element's own kept attributes - no positional CSS selectors such as :first-child.) *)
Theorem C11_svgtree_drops :
  forall (resolve : list xattr -> attrs) (parse_text_children : xnodes -> nodes) (parse_use_children : list xattr -> nodes)
         (l1 junk l2 : xnodes),
  all_xml_ignorable junk = true ->
  parse_xml_children resolve parse_text_children parse_use_children (xapp l1 (xapp junk l2)) =
  parse_xml_children resolve parse_text_children parse_use_children (xapp l1 l2).
Proof. exact svgtree_drops. Qed.
Print Assumptions C11_svgtree_drops.

Theorem C11_xml_ignorable_kinds :
  forall k ns tg sty al ch,
  k <> XK_Element \/ ns = false \/ tg = None \/ sty = true -> xml_ignorable (XNode k ns tg sty al ch) = true.
Proof. exact xml_ignorable_kinds. Qed.
Print Assumptions C11_xml_ignorable_kinds.

Theorem C11_attrs_drop :
  forall l1 junk l2,
  forallb (fun x => negb (keep_attr x)) junk = true -> kept_attrs (l1 ++ junk ++ l2) = kept_attrs (l1 ++ l2).
Proof. exact attrs_drop. Qed.
Print Assumptions C11_attrs_drop.

Theorem C11_foreign_or_unknown_attr_dropped :
  forall x, xa_ns x = ANS_Foreign \/ xa_known x = false -> keep_attr x = false.
Proof. exact keep_attr_false. Qed.
Print Assumptions C11_foreign_or_unknown_attr_dropped.

(* The XML attributes svgtree treats specially - `style`, `id` (link map) and `class` (CSS) - are looked up without a
   namespace (table cut from parse.rs): a foreign-namespace attribute with such a local name is never found. *)
Theorem C11_special_attrs_ignore_foreign :
  forall p, In p special_attr_lookups -> lookup_finds (snd p) ANS_Foreign = false.
Proof. exact special_attrs_ignore_foreign. Qed.
Print Assumptions C11_special_attrs_ignore_foreign.

Theorem C11_special_attrs_complete : map fst special_attr_lookups = [SA_Style; SA_Id; SA_Class].
Proof. exact special_attrs_complete. Qed.
Print Assumptions C11_special_attrs_complete.

(* Positional selectors (`:first-child`, `+`) look at the ELEMENT siblings only (css_facts: XmlNode delegates to roxmltree's
   prev_sibling_element / parent_element): comments, processing instructions and text inserted anywhere among the
   children change nothing they can see.  (Inserted elements legitimately do.) *)
Theorem C11_sibling_elements_stable : forall l1 junk l2,
  all_non_element junk = true -> sibling_elements (xapp l1 (xapp junk l2)) = sibling_elements (xapp l1 l2).
Proof. exact sibling_elements_stable. Qed.
Print Assumptions C11_sibling_elements_stable.

Theorem C11_css_facts_lock :
  css_facts = [CF_ParentElement; CF_PrevSiblingElement; CF_FirstChildViaPrevSibling; CF_AttrMatchNoNamespace].
Proof. exact css_facts_lock. Qed.
Print Assumptions C11_css_facts_lock.

(* Style sheets: resolve_css collects `style` elements by (SVG_NS, "style") (as fixed by 7457fef; table cut from parse.rs):
   an element named `style` in a foreign namespace, or in no namespace, is not a style sheet; an SVG one is. *)
Theorem C11_style_element_ignores_foreign :
  lookup_finds style_element_lookup ANS_Foreign = false /\ lookup_finds style_element_lookup ANS_None = false.
Proof. exact style_element_ignores_foreign. Qed.
Print Assumptions C11_style_element_ignores_foreign.

Theorem C11_style_element_finds_svg : lookup_finds style_element_lookup ANS_Svg = true.
Proof. exact style_element_finds_svg. Qed.
Print Assumptions C11_style_element_finds_svg.

(* systemLanguage (rules cut from switch.rs into sys_lang_rules): an entry passes only if it EQUALS a user language or its part
   before the first `-` does; entries that merely begin with a user language (enm, eng, en_US against en) fail, and a value
   whose entries all fail makes the element fail its test (a_syslang_ok = false => ignorable). *)
Theorem C11_syslang_boundary : forall users e,
  (forall u, In u users -> u <> e) -> (forall u, In u users -> before_dash e <> Some u) -> entry_matches users e = false.
Proof. exact syslang_boundary. Qed.
Print Assumptions C11_syslang_boundary.

Theorem C11_syslang_all_fail : forall users entries,
  (forall e, In e entries -> (forall u, In u users -> u <> e) /\ (forall u, In u users -> before_dash e <> Some u)) ->
  sys_lang_ok users entries = false.
Proof. exact syslang_all_fail. Qed.
Print Assumptions C11_syslang_all_fail.

(* "Invalid transform" covers every non-invertible matrix (427fd1e: has_valid_transform also tests the determinant;
   the conjuncts are cut from the source into valid_ts_tests): such an element has a_ts_valid = false and is ignorable. *)
Theorem C11_noninvertible_is_invalid : forall t, ts_det t == 0 -> usvg_ts_valid t = false.
Proof. exact noninvertible_is_invalid. Qed.
Print Assumptions C11_noninvertible_is_invalid.

(* Every route to content conversion passes the non-rendered filter first.  call_sites (cut from ALL of crates/usvg/src/parser/*.rs on
   every run) lists each call of convert_element / convert_children / convert_clip_path_elements / convert_group / convert_element_impl /
   convert_clip_path_elements_impl / convert_path / use_node::convert / convert_svg / its local convert_children / switch::convert /
   text::convert / image::convert with the guard in front of it: an is_visible_element test on the same subject earlier in the enclosing
   function; the enclosing function's own vetted node; the symbol child of a vetted use; or a callee that filters by itself (dispatch
   tables: D_Visible before D_Use / D_Switch / D_Group).  A new unguarded call site yields SG_None and breaks C11_routes_guarded. *)
Theorem C11_routes_guarded : routes_guarded call_sites = true.
Proof. exact routes_all_guarded. Qed.
Print Assumptions C11_routes_guarded.

Theorem C11_dispatch_guarded : dispatch_guarded elem_dispatch = true /\ dispatch_guarded clip_dispatch = true.
Proof. exact dispatch_guarded_both. Qed.
Print Assumptions C11_dispatch_guarded.

(* what the checker means, for ALL tables *)
Theorem C11_routes_reject_unguarded : forall sites callee encl,
  In (callee, encl, SG_None) sites -> routes_guarded sites = false.
Proof. exact routes_reject_unguarded. Qed.
Print Assumptions C11_routes_reject_unguarded.

Theorem C11_routes_reject_foreign_symbol : forall sites callee encl,
  In (callee, encl, SG_SymbolOfUse) sites -> symbol_site callee encl = false -> routes_guarded sites = false.
Proof. exact routes_reject_foreign_symbol. Qed.
Print Assumptions C11_routes_reject_foreign_symbol.

Theorem C11_routes_reject_unfiltered_callee : forall sites callee encl,
  In (callee, encl, SG_Internal) sites -> internally_guarded callee = false -> routes_guarded sites = false.
Proof. exact routes_reject_unfiltered_callee. Qed.
Print Assumptions C11_routes_reject_unfiltered_callee.

Theorem C11_routes_own_node_needs_vetted_callers : forall sites callee encl,
  routes_guarded sites = true -> In (callee, encl, SG_OwnNode) sites ->
  forall c2 e2 g2, In (c2, e2, g2) sites -> c2 = encl -> g2 <> SG_None /\ g2 <> SG_Internal.
Proof. exact routes_own_node_needs_vetted_callers. Qed.
Print Assumptions C11_routes_own_node_needs_vetted_callers.

Theorem C11_visible_test_sites_lock :
  visible_test_sites = ["converter::convert_doc"; "converter::convert_element"; "converter::convert_clip_path_elements";
                        "text::collect_text_chunks_impl"].
Proof. exact visible_test_sites_lock. Qed.
Print Assumptions C11_visible_test_sites_lock.

(* ------------------------------------------------------------------ non-vacuity *)
Definition ex_attrs : attrs :=
  {| a_id := "r"; a_display_none := false; a_ts_valid := true; a_ts_identity := true; a_req_ext := false;
     a_features_known := true; a_syslang_ok := true; a_opacity := 1; a_blend_normal := true; a_isolate := false;
     a_clip := None; a_mask := None; a_filter := FA_Absent;
     a_width := 10; a_height := 10; a_r := 0; a_rx := 0; a_ry := 0; a_npoints := 0 |}.
(* F26 witness: <rect width="0" height="10" opacity="0.5" clip-path="url(#c)" mask="url(#m)"/> *)
Definition ex_f26 : node :=
  Node (Some T_Rect)
    {| a_id := "z"; a_display_none := false; a_ts_valid := true; a_ts_identity := false; a_req_ext := false;
       a_features_known := true; a_syslang_ok := true; a_opacity := 1 # 2; a_blend_normal := false; a_isolate := true;
       a_clip := Some "c"; a_mask := Some "m"; a_filter := FA_Absent;
       a_width := 0; a_height := 10; a_r := 0; a_rx := 0; a_ry := 0; a_npoints := 0 |} NNil.
Definition ex_filtered_empty : node :=
  Node (Some T_Rect)
    {| a_id := "z"; a_display_none := false; a_ts_valid := true; a_ts_identity := true; a_req_ext := false;
       a_features_known := true; a_syslang_ok := true; a_opacity := 1; a_blend_normal := true; a_isolate := false;
       a_clip := None; a_mask := None; a_filter := FA_Value "f";
       a_width := 0; a_height := 10; a_r := 0; a_rx := 0; a_ry := 0; a_npoints := 0 |} NNil.
Definition ex_rect : node := Node (Some T_Rect) ex_attrs NNil.
Definition ex_defs : node := Node (Some T_Defs) ex_attrs (NCons ex_rect NNil).
Definition ex_st : sim_state := {| ss_in_clip := false; ss_valid_links := ["c"; "m"; "f"] |}.

Example C11_ex_f26_ignorable : ignorable ex_f26 = true /\ ignorable ex_defs = true /\ ignorable ex_rect = false.
Proof. vm_compute. repeat split. Qed.
(* a real rect is converted (the model does something), the F26 witness next to it leaves no trace *)
Example C11_ex_rect_converted :
  sim_children (NCons ex_f26 (NCons ex_rect (NCons ex_defs NNil))) true false ex_st empty_cache root_group =
  (empty_cache, og_push root_group (OLeaf T_Path "r")).
Proof. vm_compute. reflexivity. Qed.
(* why `filter` is excluded: an empty element with a resolvable filter keeps its group (feFlood can paint) *)
Example C11_ex_filter_on_empty_kept :
  ignorable ex_filtered_empty = false /\
  snd (sim_elem ex_filtered_empty false false ex_st empty_cache root_group) <> root_group.
Proof. split; [vm_compute; reflexivity | vm_compute; discriminate]. Qed.
Example C11_ex_ins :
  ins (Node (Some T_G) ex_attrs (NCons ex_rect NNil))
      (Node (Some T_G) ex_attrs (NCons ex_f26 (NCons ex_rect (NCons ex_defs NNil)))).
Proof.
  apply ins_intro; [discriminate|]. cbn.
  apply il_junk; [vm_compute; reflexivity|]. apply il_cons; [apply ins_same|].
  apply il_junk; [vm_compute; reflexivity|]. apply il_nil.
Qed.
(* the former witness matrix(1 2 2 4 300 300) is invalid, ordinary transforms stay valid *)
Example C11_ex_singular :
  usvg_ts_valid (from_row 1 2 2 4 300 300) = false /\ usvg_ts_valid (from_row 1 (1#2) (-(1#3)) 2 5 5) = true /\
  usvg_ts_valid (from_row 0 0 0 0 1 1) = false.
Proof. vm_compute. repeat split. Qed.
Example C11_ex_syslang :
  sys_lang_ok ["en"] ["enm"] = false /\ sys_lang_ok ["en"] ["eng"; "en_US"; "e"; "x-en"] = false /\
  sys_lang_ok ["en"] ["xx"; "en-US"] = true /\ sys_lang_ok ["en"; "de"] ["de"] = true /\ sys_lang_ok ["en-US"] ["en"] = false.
Proof. vm_compute. repeat split. Qed.
Example C11_ex_prescan :
  gen_id (fun n => if (n =? 1)%N then "1" else "2") 5 "clipPath" ["clipPath1"; "vf_9"; "x"] 0 = Some ("clipPath2", 2%N).
Proof. vm_compute. reflexivity. Qed.

(* ---- extension round 4: the witness of dd154cd.  <rect width="0" height="10" filter="none" mask="url(#m)"/> in front of
   <rect id="r" .. mask="url(#m)"/>, m an objectBoundingBox mask *)
Definition ex_zero_fm : node :=
  Node (Some T_Rect)
    {| a_id := "vf_1"; a_display_none := false; a_ts_valid := true; a_ts_identity := true; a_req_ext := false;
       a_features_known := true; a_syslang_ok := true; a_opacity := 1; a_blend_normal := true; a_isolate := false;
       a_clip := None; a_mask := Some "m"; a_filter := FA_NoneValue;
       a_width := 0; a_height := 10; a_r := 0; a_rx := 0; a_ry := 0; a_npoints := 0 |} NNil.
Definition ex_masked : node :=
  Node (Some T_Rect)
    {| a_id := "r"; a_display_none := false; a_ts_valid := true; a_ts_identity := true; a_req_ext := false;
       a_features_known := true; a_syslang_ok := true; a_opacity := 1; a_blend_normal := true; a_isolate := false;
       a_clip := None; a_mask := Some "m"; a_filter := FA_Absent;
       a_width := 10; a_height := 10; a_r := 0; a_rx := 0; a_ry := 0; a_npoints := 0 |} NNil.
Definition ex_masks : defs_t := [("m", mask_obb "m")].
Definition ex_st0 : sim_state := {| ss_in_clip := false; ss_valid_links := [] |}.
Definition ex_genv0 : genv := {| ge_cache := empty_cache; ge_g := root_group; ge_bbox := None; ge_clip := None; ge_mask := None; ge_filters := []; ge_pre := None |}.
Definition old_group_steps : list group_step :=
  [GS_EmptyNoFilterAttr; GS_ObjectBBox; GS_Clip; GS_Mask; GS_Filters; GS_NotRequired; GS_EmptyNoFilters; GS_Boxes].
(* the witness is junk in the sense of the property, outside `ignorable`; with the source's steps it leaves nothing and the
   rendered rect keeps the mask id "m" ... *)
Example C11_ex_zero_filter_mask_noop :
  spec_nonrendered ex_zero_fm = true /\ ignorable ex_zero_fm = false /\
  simc_children fmt9 [] ex_masks (NCons ex_zero_fm (NCons ex_masked NNil)) true false ex_st0 empty_cache root_group =
  simc_children fmt9 [] ex_masks (NCons ex_masked NNil) true false ex_st0 empty_cache root_group /\
  c_masks (fst (simc_children fmt9 [] ex_masks (NCons ex_masked NNil) true false ex_st0 empty_cache root_group)) = ["m"].
Proof. vm_compute. repeat split. Qed.
(* ... whereas the order of convert_group before dd154cd dropped the element only after "m" had been registered *)
Example C11_ex_old_order_registers :
  fst (fst (group_run sim_state ss_in_clip (simc_bbox) (res_clip_m fmt9 []) (res_mask_m fmt9 ex_masks) sim_filter
                      (Some T_Rect) (node_attrs ex_zero_fm) ex_st0 false root_group old_group_steps ex_genv0)) <> empty_cache /\
  group_run sim_state ss_in_clip (simc_bbox) (res_clip_m fmt9 []) (res_mask_m fmt9 ex_masks) sim_filter
            (Some T_Rect) (node_attrs ex_zero_fm) ex_st0 false root_group group_steps ex_genv0 = (empty_cache, root_group, None).
Proof. split; [vm_compute; discriminate | vm_compute; reflexivity]. Qed.
(* a second user of an objectBoundingBox mask receives mask1 *)
Example C11_ex_second_user_mask1 :
  og_ch (snd (simc_children fmt9 [] ex_masks (NCons ex_masked (NCons ex_masked NNil)) true false ex_st0 empty_cache root_group)) =
  [OGroup "" {| gp_opacity := 1; gp_ts_identity := true; gp_blend_normal := true; gp_isolate := false; gp_clip := None; gp_mask := Some "m"; gp_filters := [] |} [OLeaf T_Path "r"];
   OGroup "" {| gp_opacity := 1; gp_ts_identity := true; gp_blend_normal := true; gp_isolate := false; gp_clip := None; gp_mask := Some "mask1"; gp_filters := [] |} [OLeaf T_Path "r"]].
Proof. vm_compute. reflexivity. Qed.
Example C11_ex_insJ :
  insJ (junk_ok sim_state sim_filter) (Node (Some T_G) ex_attrs (NCons ex_masked NNil))
       (Node (Some T_G) ex_attrs (NCons ex_zero_fm (NCons ex_masked (NCons ex_f26 NNil)))).
Proof.
  apply insJ_intro; [discriminate|]. cbn.
  apply ilJ_junk; [split; [vm_compute; reflexivity | intros _ st c'; vm_compute; auto]|].
  apply ilJ_cons; [apply insJ_same|].
  apply ilJ_junk; [split; [vm_compute; reflexivity | intros H; vm_compute in H; discriminate]|]. apply ilJ_nil.
Qed.

(* seed C11-12's shape: use_node::convert called in the clip loop before the visibility test is a SG_None site *)
Example C11_ex_unguarded_site_rejected :
  routes_guarded (("use_node::convert", "converter::convert_clip_path_elements", SG_None) :: call_sites) = false /\
  In ("use_node::convert", "converter::convert_clip_path_elements", SG_VisibleBefore) call_sites.
Proof. split; [vm_compute; reflexivity | vm_compute; tauto]. Qed.
(* linked definitions: three users of <mask id="mL" mask="url(#m)"> (both objectBoundingBox): the outer id is generated BEFORE the
   linked mask is resolved (mask_steps), so the users receive mL, mask1, mask3 (mask2 / mask4 go to the copies of m) *)
Definition ex_masks_l : defs_t := [("m", mask_obb "m"); ("mL", with_link (mask_obb "mL") "m" false)].
Definition ex_masked_l : node :=
  Node (Some T_Rect)
    {| a_id := "r"; a_display_none := false; a_ts_valid := true; a_ts_identity := true; a_req_ext := false;
       a_features_known := true; a_syslang_ok := true; a_opacity := 1; a_blend_normal := true; a_isolate := false;
       a_clip := None; a_mask := Some "mL"; a_filter := FA_Absent;
       a_width := 10; a_height := 10; a_r := 0; a_rx := 0; a_ry := 0; a_npoints := 0 |} NNil.
Example C11_ex_linked_mask_ids :
  map (fun n => match n with OGroup _ p _ => gp_mask p | _ => None end)
      (og_ch (snd (simc_children fmt9 [] ex_masks_l (NCons ex_masked_l (NCons ex_masked_l (NCons ex_masked_l NNil))) true false ex_st0 empty_cache root_group))) =
  [Some "mL"; Some "mask1"; Some "mask3"].
Proof. vm_compute. reflexivity. Qed.

(* ---- final pass: conversion of definitions is demand-driven.
   For EVERY instantiation: the converted tree and the cache depend on the clip-path / mask resolvers only at the links the tree
   carries (node_free Ac Am: every clip-path link lies in Ac, every mask link in Am). *)
Theorem C11_demand_driven :
  forall (state : Type) (st_in_clip st_no_markers : state -> bool)
         (conv_path : tag -> attrs -> conv_t state) (conv_image : attrs -> conv_t state) (conv_text : node -> conv_t state)
         (conv_use : attrs -> option (option tag * attrs) -> conv_t state -> conv_t state -> conv_t state)
         (conv_nested_svg : attrs -> conv_t state -> conv_t state) (obj_bbox : ogroup -> option qrect)
         (res_clip res_mask res_clip' res_mask' : string -> state -> option qrect -> cache -> option string * cache)
         (res_filter : attrs -> state -> option qrect -> cache -> option (list string) * cache)
         (Ac Am : string -> bool),
  (forall l, Ac l = true -> forall st bb c, res_clip' l st bb c = res_clip l st bb c) ->
  (forall l, Am l = true -> forall st bb c, res_mask' l st bb c = res_mask l st bb c) ->
  callbacks_ext state conv_use conv_nested_svg ->
  forall (l : nodes) (top clip : bool) (st : state) (c : cache) (p : ogroup),
  nodes_free Ac Am l = true ->
  conv_children state st_in_clip st_no_markers conv_path conv_image conv_text conv_use conv_nested_svg obj_bbox
                res_clip' res_mask' res_filter l top clip st c p =
  conv_children state st_in_clip st_no_markers conv_path conv_image conv_text conv_use conv_nested_svg obj_bbox
                res_clip res_mask res_filter l top clip st c p.
Proof. exact demand_driven_children. Qed.
Print Assumptions C11_demand_driven.

(* Over the cache model: a mask / clipPath definition that no element of the tree and no other definition links is never
   converted - with or without it (whatever it contains, wherever it stands among the definitions) the converted tree and the
   cache are equal.  The converse (a linked definition IS converted and shows in tree and cache) is C11_ex_referenced_def_matters. *)
Theorem C11_unreferenced_mask_no_influence : forall fmt clips (m1 m2 : defs_t) k dk l top clip st c p,
  nodes_free any_key (not_key k) l = true -> no_link_to k (m1 ++ m2)%list ->
  simc_children fmt clips (m1 ++ (k, dk) :: m2)%list l top clip st c p = simc_children fmt clips (m1 ++ m2)%list l top clip st c p.
Proof. exact unreferenced_mask_no_influence. Qed.
Print Assumptions C11_unreferenced_mask_no_influence.

Theorem C11_unreferenced_clip_no_influence : forall fmt masks (m1 m2 : defs_t) k dk l top clip st c p,
  nodes_free (not_key k) any_key l = true -> no_link_to k (m1 ++ m2)%list ->
  simc_children fmt (m1 ++ (k, dk) :: m2)%list masks l top clip st c p = simc_children fmt (m1 ++ m2)%list masks l top clip st c p.
Proof. exact unreferenced_clip_no_influence. Qed.
Print Assumptions C11_unreferenced_clip_no_influence.

(* converse, by witness: the SAME definition "m", once a rendered element links it, is converted: it appears in the tree and in
   cache.masks; and the hypotheses of the theorems above are met by a non-trivial document *)
Example C11_ex_referenced_def_matters :
  nodes_free any_key (not_key "m") (NCons ex_masked NNil) = false /\
  simc_children fmt9 [] [("m", mask_obb "m")] (NCons ex_masked NNil) true false ex_st0 empty_cache root_group <>
  simc_children fmt9 [] [] (NCons ex_masked NNil) true false ex_st0 empty_cache root_group /\
  nodes_free any_key (not_key "zz") (NCons ex_masked (NCons ex_zero_fm NNil)) = true /\
  simc_children fmt9 [] [("zz", mask_obb "zz"); ("m", mask_obb "m")] (NCons ex_masked NNil) true false ex_st0 empty_cache root_group =
  simc_children fmt9 [] [("m", mask_obb "m")] (NCons ex_masked NNil) true false ex_st0 empty_cache root_group.
Proof. repeat split; try (vm_compute; reflexivity). vm_compute. discriminate. Qed.

(* seed C11-15's shape: a polygon / polyline with a single point (or none) is in the property's list and invalid for the tables cut
   from shapes.rs *)
Definition ex_poly1 (t : tag) : node :=
  Node (Some t)
    {| a_id := "p"; a_display_none := false; a_ts_valid := true; a_ts_identity := true; a_req_ext := false;
       a_features_known := true; a_syslang_ok := true; a_opacity := 1; a_blend_normal := true; a_isolate := false;
       a_clip := None; a_mask := None; a_filter := FA_Absent;
       a_width := 0; a_height := 0; a_r := 0; a_rx := 0; a_ry := 0; a_npoints := 1 |} NNil.
Example C11_ex_single_point_poly_nonrendered :
  spec_nonrendered (ex_poly1 T_Polygon) = true /\ spec_nonrendered (ex_poly1 T_Polyline) = true /\
  zero_size T_Polygon (node_attrs (ex_poly1 T_Polygon)) = true /\ shape_valid T_Polygon (node_attrs (ex_poly1 T_Polygon)) = false /\
  ignorable (ex_poly1 T_Polygon) = true /\
  sim_elem (ex_poly1 T_Polygon) true false ex_st empty_cache root_group = (empty_cache, root_group).
Proof. vm_compute. repeat split. Qed.
