(* C07  Written SVG is well-formed, self-contained and re-parsable.
   Property theorems only.  Models: Model/Writer.v (reference structure of writer.rs), Model/WriteNum.v over
   Gen/WriterNum.v (source-derived POW_VEC, index clamp, integer shortcut bound).
   Tie: correspondence ops `writer-skeleton`, `write-num` (tools/props/c07.py). *)
From RV Require Import Gen.WriterNum.
From RV Require Import Model.Tree.
From RV Require Import Model.Writer.
From RV Require Import Model.WriteNum.
From RV Require Import Proofs.Tree.
From RV Require Import Proofs.Collect.
From RV Require Import Proofs.Closure.
From RV Require Import Proofs.Writer.
From RV Require Import Proofs.WriteNum.
From RV Require Import Gen.XmlEscape.
From RV Require Import Model.XmlEscape.
From RV Require Import Proofs.XmlEscape.
From RV Require Import Gen.NumParse.
From RV Require Import Model.NumParse.
From RV Require Import Proofs.NumParse.
From Coq Require Import NArith ZArith QArith Qabs List Bool.
Import ListNotations.
Local Open Scope N_scope.

Definition pair_eq_dec : forall a b : N * N, {a = b} + {a <> b}.
Proof. decide equality; apply N.eq_dec. Defined.

(* C05's conclusions about a tree, as the writer needs them: the collections are exactly what is reachable
   (C05_collect_complete / C05_collect_sound), an object has one id (Arc identity), text nodes are what
   text/flatten.rs builds, and the ids that get written are pairwise distinct (C05_ids_unique) *)
Definition wf_refs (o : wopts) (t : tree) : Prop :=
  coll_complete t /\ coll_sound t /\ coherent t /\ texts_wf t /\ NoDup (defs_of (write o t)).

(* ---- every url(#..) / href="#.." written is defined exactly once.
   Guarded by the two known classes: feimage-empty-href (F10) and, with preserve_text, text-span-paint (F27). *)
Theorem C07_refs_closed : forall o t,
  wf_refs o t -> feimage_ok t -> (w_preserve_text o = true -> span_ok t) ->
  forall r, In r (refs_of (write o t)) -> count_occ pair_eq_dec (defs_of (write o t)) r = 1%nat.
Proof.
  intros o t (H1 & H2 & H3 & H4 & H5) Hfe Hsp r Hr.
  apply NoDup_count_occ'; auto. apply (refs_in_defs o t H1 H2 H3 H4 Hfe Hsp r Hr).
Qed.
Print Assumptions C07_refs_closed.

(* C05 => C07: for the collections that the collectors compute, completeness and soundness are theorems *)
Theorem C07_refs_closed_from_C05 : forall o root,
  let t := with_collections root in
  coherent t -> texts_wf t -> NoDup (defs_of (write o t)) ->
  feimage_ok t -> (w_preserve_text o = true -> span_ok t) ->
  forall r, In r (refs_of (write o t)) -> count_occ pair_eq_dec (defs_of (write o t)) r = 1%nat.
Proof.
  intros o root t H3 H4 H5 Hfe Hsp. apply C07_refs_closed; auto. unfold wf_refs.
  split; [apply with_collections_complete|]. split; [apply with_collections_sound|]. auto.
Qed.
Print Assumptions C07_refs_closed_from_C05.

(* ---- refuted clauses (witness trees have the shape of real parses, see known_findings.txt) *)
(* F10: an feImage whose target element ends up without an id is written as xlink:href="#" *)
Definition f10_root : group :=
  G 0 false None None []
    [NGroup (G 0 false None None
       [FD 1 5 [PR 11 0 7 [] (Some (G 0 false None None [] [NGroup (G 0 false None None [] [NPath 0 true PColor PNone])]))]]
       [NPath 0 true PColor PNone])].
Theorem C07_feimage_href_refuted :
  exists o root, let t := with_collections root in
    NoDup (defs_of (write o t)) /\ exists r, In r (refs_of (write o t)) /\ ~ In r (defs_of (write o t)).
Proof.
  exists {| w_prefix := 0; w_preserve_text := false |}, f10_root. split.
  - vm_compute. repeat constructor; simpl; intuition discriminate.
  - exists (0, 0). split; vm_compute; [auto|intuition discriminate].
Qed.
Print Assumptions C07_feimage_href_refuted.

(* F27: with preserve_text the paint of a span is referenced but not defined *)
Theorem C07_span_paint_refuted :
  exists o root, let t := with_collections root in
    w_preserve_text o = true /\ exists r, In r (refs_of (write o t)) /\ ~ In r (defs_of (write o t)).
Proof.
  exists {| w_prefix := 0; w_preserve_text := true |},
         (G 0 false None None [] [NText 0 (G 0 false None None [] [NPath 0 true (PLin 8 2) PNone]) [CH None [PP (PLin 7 1) PNone]]]).
  split; [reflexivity|]. exists (0, 1). split; vm_compute; [auto|intuition discriminate].
Qed.
Print Assumptions C07_span_paint_refuted.

(* ---- one prefix: every id and every reference is <prefix><id> with the prefix of the options *)
Theorem C07_prefix_uniform : forall o t r,
  In r (defs_of (write o t) ++ refs_of (write o t)) -> fst r = w_prefix o.
Proof.
  intros o t r Hr. apply (marks_prefix o t). apply in_app_or in Hr.
  destruct Hr as [Hr|Hr]; [apply defs_in_marks|apply refs_in_marks]; exact Hr.
Qed.
Print Assumptions C07_prefix_uniform.

(* ---- xmlns:xlink is declared whenever an xlink:href is written *)
Theorem C07_xlink_declared : forall o t,
  coll_sound t -> uses_xlink (write o t) = true -> declares_xlink (write o t) = true.
Proof. exact xlink_declared. Qed.
Print Assumptions C07_xlink_declared.

(* has_xlink, modelled with its early returns (the hx_ functions of Model/Writer.v), answers true exactly when the tree holds an image, a
   text on a path or a group with an feImage filter anywhere the field-by-field enumeration reaches *)
Theorem C07_has_xlink_exact : forall root,
  has_xlink root = true <-> exists m, In m (all_group root) /\ xlink_trigger m = true.
Proof. intro root. apply has_xlink_iff. Qed.
Print Assumptions C07_has_xlink_exact.

(* ---- the root element is <svg xmlns=..> *)
Theorem C07_root : forall o t, root_is_svg (write o t) = true.
Proof. reflexivity. Qed.
Print Assumptions C07_root.

(* ---- numbers: write_num never indexes outside POW_VEC, for every precision a u8 can hold (F11 fixed) *)
Theorem C07_write_num_total : forall p x, (0 <= p <= 255)%Z -> write_num p x <> WPanic.
Proof. intros p x [H _]. apply write_num_total. exact H. Qed.
Print Assumptions C07_write_num_total.

(* and the product rounded in write_num stays far below f32::MAX for every value that has a fraction *)
Theorem C07_write_num_no_overflow : forall x n pw,
  nth_error pow_vec n = Some pw -> (Qabs x < inject_Z (2 ^ 23))%Q ->
  (Qabs (x * inject_Z pw) < inject_Z (2 ^ 23 * 10 ^ 12))%Q.
Proof. exact no_overflow. Qed.
Print Assumptions C07_write_num_no_overflow.

(* ---- non-vacuity: the F08 witness shape (chains of three) is closed, with a prefix and without *)
Definition leaf7 : group := G 0 false None None [] [NPath 0 true PColor PNone].
Definition f08_root7 : group :=
  G 0 false None None []
    [NGroup (G 0 false (Some (CD 1 11 (Some (CD 2 12 (Some (CD 3 13 None leaf7)) leaf7)) leaf7)) None [] [NPath 21 true (PLin 9 19) PNone]);
     NGroup (G 0 false None (Some (MD 4 14 (Some (MD 5 15 (Some (MD 6 16 None leaf7)) leaf7)) leaf7)) [] [NPath 22 true PColor PNone])].
Example C07_nv_chain :
  chk_refs_closed (write {| w_prefix := 77; w_preserve_text := false |} (with_collections f08_root7)) = true /\
  length (refs_of (write {| w_prefix := 77; w_preserve_text := false |} (with_collections f08_root7))) = 7%nat.
Proof. vm_compute. split; reflexivity. Qed.
Definition wn_is (p : Z) (x v : Q) : bool := match write_num p x with WOk w => Qeq_bool w v | WPanic => false end.
Example C07_nv_num : wn_is 13 (3 # 2) (3 # 2) = true /\ wn_is 2 (1 # 3) (33 # 100) = true /\
                     wn_is 8 (inject_Z 3000000000) (inject_Z 3000000000) = true /\ wn_is 0 (-(5 # 2)) (-(3 # 1)) = true.
Proof. vm_compute. repeat split; reflexivity. Qed.

(* ---------------------------------------------------------------- strings: the xmlwriter layer (Model/XmlEscape.v; the searched
   bytes, the spliced bytes and the loop step come from the xmlwriter source, the `&` pre-replacement from writer.rs) *)

(* the in-place loop `while let Some(idx) = buf[start..].position(c) { splice(i..i+1, rep); start = i + len(rep) }` replaces every
   occurrence in the appended string exactly once and leaves what was already in the buffer alone - any buffer, any string,
   also when the replacement contains the searched byte *)
Theorem C07_escape_loop_is_replace : forall c rep pre s,
  xw_escape_in (c, rep, List.length rep) pre s = pre ++ replace_all c rep s.
Proof. exact xw_escape_in_replace. Qed.
Print Assumptions C07_escape_loop_is_replace.

(* span text (writer.rs since 94b8b4d: `&` and `>` replaced, then xmlwriter's `<`): for ALL strings the written character data has no
   raw `<`, no `]]>` (no raw `>` at all), every `&` starts a predefined entity, and an XML parser reads the original string back *)
Theorem C07_text_escape_roundtrip : forall s, unescape (escape_text s) = s.
Proof. exact text_roundtrip. Qed.
Print Assumptions C07_text_escape_roundtrip.
Theorem C07_text_escape_wf : forall s,
  char_data_wf (escape_text s) = true /\ has_cdata_end (escape_text s) = false /\ has_byte 62 (escape_text s) = false.
Proof.
  intro s. pose proof (text_wf s) as H. split; [exact H|]. split; [|exact (text_no_gt s)].
  unfold char_data_wf in H. apply andb_true_iff in H. destruct H as [_ H]. apply negb_true_iff in H. exact H.
Qed.
Print Assumptions C07_text_escape_wf.

(* attribute values (ids, references, result names): for ALL strings and both quote options the value does not contain
   the quote that terminates it *)
Theorem C07_attr_escape_no_quote : forall sq s, has_byte (quote_byte sq) (escape_attr sq s) = false.
Proof. exact attr_no_quote. Qed.
Print Assumptions C07_attr_escape_no_quote.

(* .. `&` and `<` are NOT escaped in attribute values (known class unescaped-xml-char, F42): refuted with the two witnesses
   `a<b` (not well-formed) and `a&amp;b` (well-formed, but read back as `a&b`: the id silently changes) .. *)
Theorem C07_attr_escape_refuted :
  (exists s, attr_value_wf false (escape_attr false s) = false) /\
  (exists s, attr_value_wf false (escape_attr false s) = true /\ unescape (escape_attr false s) <> s).
Proof. exact attr_raw_special_refuted. Qed.
Print Assumptions C07_attr_escape_refuted.

(* .. and guarded: without these two bytes the value is a well-formed AttValue that reads back as itself *)
Theorem C07_attr_escape_guarded : forall sq s,
  has_byte 38 s = false -> has_byte 60 s = false ->
  attr_value_wf sq (escape_attr sq s) = true /\ unescape (escape_attr sq s) = s.
Proof. exact attr_guarded. Qed.
Print Assumptions C07_attr_escape_guarded.

(* non-vacuity: the seven bytes  x & y < QUOT z QUOT  as text, and  q QUOT u APOS o  as a double- and a single-quoted attribute value *)
Example C07_nv_escape :
  escape_text [120; 38; 121; 60; 34; 122; 34] = [120; 38; 97; 109; 112; 59; 121; 38; 108; 116; 59; 34; 122; 34] /\
  escape_text [93; 93; 62] = [93; 93; 38; 103; 116; 59] /\
  escape_attr false [113; 34; 117; 39; 111] = [113; 38; 113; 117; 111; 116; 59; 117; 39; 111] /\
  escape_attr true [113; 34; 117; 39; 111] = [113; 34; 117; 38; 97; 112; 111; 115; 59; 111].
Proof. vm_compute. auto. Qed.

(* ---------------------------------------------------------------- numbers: from the attribute text to write_num (second pass)
   `impl FromValue for f32`: svgtypes::Number::from_str(value).ok() followed by the source-derived steps of Gen/NumParse.v
   (today: cast to f32, THEN the is_finite filter).  For EVERY f64 the text can denote - huge, infinite, NaN - an accepted value
   is a finite number below the f32 overflow threshold .. *)
Theorem C07_parsed_f32_finite : forall v x,
  parse_f32 v = Some x -> exists q, x = Fin q /\ (Qabs q < f32_overflow)%Q.
Proof. exact parse_f32_finite. Qed.
Print Assumptions C07_parsed_f32_finite.

(* .. so write_num (Model/WriteNum.v, over the rationals = finite by typing) applies to it and never panics *)
Theorem C07_parsed_number_written : forall p v x,
  (0 <= p <= 255)%Z -> parse_f32 v = Some x -> exists q, x = Fin q /\ write_num p q <> WPanic.
Proof.
  intros p v x Hp H. destruct (parse_f32_finite v x H) as (q & -> & _). exists q. split; [reflexivity|].
  apply write_num_total. apply Hp.
Qed.
Print Assumptions C07_parsed_number_written.

(* the order matters (seeded C07-13 moved the filter before the cast): then 1e40 is accepted as +infinity *)
Example C07_filter_before_cast_refuted :
  run_steps [PFilterFinite; PCast] (Fin (inject_Z (10 ^ 40))) false = Some (Inf false, true).
Proof. exact filter_before_cast_refuted. Qed.
Example C07_nv_parse_f32 :
  parse_f32 (Fin (3 # 2)) = Some (Fin (3 # 2)) /\ parse_f32 (Fin (inject_Z (10 ^ 40))) = None /\
  parse_f32 (Inf true) = None /\ parse_f32 NaN = None.
Proof. exact parse_f32_accepts. Qed.

(* ---------------------------------------------------------------- clip-path mode since 5d8487d (third pass): nested groups at any depth are
   entered (Model/Writer.v write_clipkids); C07_refs_closed / C07_refs_closed_from_C05 / C07_prefix_uniform / C07_xlink_declared above are
   proved over it (Proofs/Writer.v clip_content_all, allp_clip_content, xl_clip_content: mutual induction, any depth).
   What the both-clip skip costs: a path under two clipped levels is not written at all *)
Example C07_double_clip_child_dropped : forall o,
  write_clipkids o (G 0 false None None [] [NGroup (G 0 false (Some (CD 2 12 None leaf7)) None [] [NPath 5 true PColor PNone])]) (Some 11) = [] /\
  write_clipkids o (G 0 false None None [] [NGroup (G 0 false (Some (CD 2 12 None leaf7)) None [] [NPath 5 true PColor PNone])]) None <> [].
Proof. intro o. split; [reflexivity|discriminate]. Qed.
