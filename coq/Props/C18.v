(* C18  objectBoundingBox definitions resolve to the equivalent user-space definitions.
   Property theorems only.  `checked_bbox_transform`, `resolve_gradient_ts`, `resolve_pattern_rect`,
   `pattern_content_ts`, `clip_resolve_ts`, `clip_cacheable`, `prim_region_*` are the SOURCE-DERIVED definitions
   of Gen/LeafObb.v (regenerated from /repo on every run); the stateful skeletons (heap of definitions with
   reference counts, conversion cache) are in Model/Obb.v. *)
From RV Require Import Model.Base Model.GeomPrims Model.StylePrims Model.ObbPrims Gen.LeafObb Model.Obb Proofs.Obb.
From RV Require Import Model.ObbFilter Proofs.ObbFilter.
Local Open Scope Q_scope.

(* --- geometry ----------------------------------------------------------------------------- *)
(* bbox_transform r B is the image of r under from_bbox B: corners ... *)
Theorem C18_bbox_transform_is_map : forall r B r', checked_bbox_transform r B = Some r' ->
  rx r' == map_x (from_bbox B) (rx r) (ry r) /\ ry r' == map_y (from_bbox B) (rx r) (ry r) /\
  r_right r' == map_x (from_bbox B) (r_right r) (r_bottom r) /\
  r_bottom r' == map_y (from_bbox B) (r_right r) (r_bottom r).
Proof. exact bbox_transform_is_map. Qed.
Print Assumptions C18_bbox_transform_is_map.

(* ... and containment *)
Theorem C18_bbox_transform_contains : forall r B r' px py, checked_bbox_transform r B = Some r' ->
  0 < rw B -> 0 < rh B -> rx r <= px <= r_right r -> ry r <= py <= r_bottom r ->
  rx r' <= map_x (from_bbox B) px py <= r_right r' /\ ry r' <= map_y (from_bbox B) px py <= r_bottom r'.
Proof. exact bbox_transform_contains. Qed.
Print Assumptions C18_bbox_transform_contains.

Theorem C18_bbox_transform_defined : forall r B, 0 < rw r -> 0 < rh r -> 0 < rw B -> 0 < rh B ->
  exists r', checked_bbox_transform r B = Some r' /\ 0 < rw r' /\ 0 < rh r'.
Proof. exact bbox_transform_defined. Qed.
Print Assumptions C18_bbox_transform_defined.

(* the resolved gradient maps a point like the definition's transform followed by the bounding-box mapping:
   the hand-mapped userSpaceOnUse definition gradientTransform = from_bbox(B) x T *)
Theorem C18_gradient_equiv : forall T B x y,
  map_x (resolve_gradient_ts T B) x y == map_x (from_bbox B) (map_x T x y) (map_y T x y) /\
  map_y (resolve_gradient_ts T B) x y == map_y (from_bbox B) (map_x T x y) (map_y T x y).
Proof. exact gradient_equiv. Qed.
Print Assumptions C18_gradient_equiv.

Theorem C18_clip_equiv : forall T B x y,
  map_x (clip_resolve_ts T B) x y == map_x T (map_x (from_bbox B) x y) (map_y (from_bbox B) x y) /\
  map_y (clip_resolve_ts T B) x y == map_y T (map_x (from_bbox B) x y) (map_y (from_bbox B) x y).
Proof. exact clip_equiv. Qed.
Print Assumptions C18_clip_equiv.

(* regions: pattern rect (mask and filter regions go through the same checked_bbox_transform), pattern content *)
Theorem C18_region_equiv : forall rect B r', resolve_pattern_rect ObjectBoundingBox rect B = Some r' ->
  rx r' == map_x (from_bbox B) (rx rect) (ry rect) /\ ry r' == map_y (from_bbox B) (rx rect) (ry rect) /\
  rw r' == rw rect * rw B /\ rh r' == rh rect * rh B.
Proof. exact pattern_rect_equiv. Qed.
Print Assumptions C18_region_equiv.

Theorem C18_region_user_unchanged : forall rect B, resolve_pattern_rect UserSpaceOnUse rect B = Some rect.
Proof. exact pattern_rect_user. Qed.
Print Assumptions C18_region_user_unchanged.

Theorem C18_pattern_content_equiv : forall B x y,
  map_x (pattern_content_ts B) x y == x * rw B /\ map_y (pattern_content_ts B) x y == y * rh B.
Proof. exact pattern_content_equiv. Qed.
Print Assumptions C18_pattern_content_equiv.

(* filter primitive sub-regions under primitiveUnits = objectBoundingBox *)
Theorem C18_primitive_region_flood : forall x y w h B fr,
  resolve_primitive_region PK_FloodOrImage ObjectBoundingBox (Some x) (Some y) (Some w) (Some h) (Some B) fr
  = match nzrect_from_xywh x y w h with
    | Some _ => prim_region_spec_obb (Some x) (Some y) (Some w) (Some h) B fr
    | None => None
    end.
Proof. exact prim_flood_spec. Qed.
Print Assumptions C18_primitive_region_flood.

(* F41: an explicit sub-region of any other primitive is mapped through the filter region instead of the box *)
Theorem C18_primitive_region_refuted :
  exists x y w h bbox B fr,
    KnownClass_prim_subregion PK_Other ObjectBoundingBox x y w h = true /\ bbox = Some B /\
    match resolve_primitive_region PK_Other ObjectBoundingBox x y w h bbox fr, prim_region_spec_obb x y w h B fr with
    | Some a, Some b => qrect_eqb a b = false
    | _, _ => False
    end.
Proof. exact prim_other_refuted. Qed.
Print Assumptions C18_primitive_region_refuted.

Theorem C18_primitive_region_guarded : forall units x y w h bbox fr, 0 < rw fr -> 0 < rh fr ->
  units = ObjectBoundingBox -> KnownClass_prim_subregion PK_Other units x y w h = false ->
  forall B, exists r, resolve_primitive_region PK_Other units x y w h bbox fr = Some r /\
                 prim_region_spec_obb x y w h B fr = Some fr /\ qrect_eqb r fr = true.
Proof. exact prim_other_guarded. Qed.
Print Assumptions C18_primitive_region_guarded.

(* --- one definition shared by users with different boxes ---------------------------------- *)
(* any list of users of one objectBoundingBox definition d0 (cell 0): user i ends with resolve d0 B_i (or
   without paint when its box has no area); ids are pairwise distinct; the source id survives exactly when
   the last user has a box; every other id is generated (not an id of the document).  Cells given to earlier
   users are never rewritten (Proofs/Obb.v spec_stable): the only in-place write is to cell 0 by the last user. *)
Theorem C18_shared_users : forall taken d0 users,
  g_units d0 = ObjectBoundingBox -> In (g_id d0) taken -> Forall (fun u => u_h u = Some 0%nat) users ->
  forall ctr, let '(st, out) := postpass taken [d0] ctr users in
    Forall2 (resolved_for d0 (ps_heap st)) users out
    /\ NoDup (out_ids (ps_heap st) out)
    /\ (In (g_id d0) (out_ids (ps_heap st) out) <-> last_area users = true)
    /\ (forall y, In y (out_ids (ps_heap st) out) -> y = g_id d0 \/ ~ In y taken).
Proof. exact shared_users. Qed.
Print Assumptions C18_shared_users.

(* zero-size box: the paint is dropped (SVG fallback), never a definition with a degenerate transform *)
Theorem C18_no_bbox_fallback : forall taken d0 users,
  g_units d0 = ObjectBoundingBox -> In (g_id d0) taken -> Forall (fun u => u_h u = Some 0%nat) users ->
  forall ctr, let '(st, out) := postpass taken [d0] ctr users in
    Forall2 (fun u_in u_out =>
       (~ (0 < rw (u_box u_in) /\ 0 < rh (u_box u_in)) -> u_h u_out = None) /\
       (forall d, user_def st u_out = Some d ->
          exists B, 0 < rw B /\ 0 < rh B /\ g_ts d = resolve_gradient_ts (g_ts d0) B)) users out.
Proof. exact no_bbox_fallback. Qed.
Print Assumptions C18_no_bbox_fallback.

Theorem C18_from_bbox_invertible : forall B, 0 < rw B -> 0 < rh B ->
  0 < t_sx (from_bbox B) * t_sy (from_bbox B) - t_kx (from_bbox B) * t_ky (from_bbox B).
Proof. exact from_bbox_det. Qed.
Print Assumptions C18_from_bbox_invertible.

(* --- cached conversion of clip paths (F18, fixed by 18adf92) ------------------------------ *)
(* full strength: for every document (clip chains closed under links, an id names one element) and every sequence
   of users, each user is clipped with the chain resolved for ITS box, whatever was cached before *)
Theorem C18_cacheable_independent_of_bbox : forall (taken : list N) (inD : csrc -> Prop),
  (forall e link, inD (e :: link) -> link = [] \/ inD link) ->
  (forall e1 l1 e2 l2, inD (e1 :: l1) -> inD (e2 :: l2) -> ce_id e1 = ce_id e2 -> e1 :: l1 = e2 :: l2) ->
  (forall e l, inD (e :: l) -> In (ce_id e) taken) ->
  forall us ctr,
    Forall (fun p => inD (fst p)) us ->
    Forall2 (fun p r => match clip_expected (fst p) (snd p) with
                        | Some l => exists v, r = Some v /\ cconv_ts v = l
                        | None => r = None
                        end) us (clip_users taken us {| cs_cache := []; cs_ctr := ctr |}).
Proof.
  intros taken inD H1 H2 H3 us ctr Hus.
  exact (clip_users_ok taken inD H1 H2 H3 us _ (cache_ok_empty inD ctr) Hus).
Qed.
Print Assumptions C18_cacheable_independent_of_bbox.

(* the former F18 witness: the second user now gets the inner clip path resolved for its own box *)
Example C18_nv_F18_fixed :
  match clip_users [1%N; 2%N] [(f18_chain, Some f18_b1); (f18_chain, Some f18_b2)] {| cs_cache := []; cs_ctr := 0 |},
        clip_expected f18_chain (Some f18_b1), clip_expected f18_chain (Some f18_b2) with
  | [Some v1; Some v2], Some l1, Some l2 => ts_list_eqb (cconv_ts v1) l1 && ts_list_eqb (cconv_ts v2) l2 = true
  | _, _, _ => False
  end.
Proof. vm_compute. reflexivity. Qed.

(* --- paints inside the content of shared definitions (F25) -------------------------------- *)
Theorem C18_nested_content_resolved_refuted :
  exists taken heap ctr pats users,
    Forall (fun p => pt_units p = UserSpaceOnUse) pats /\
    KnownClass_shared_nested heap pats users = true /\
    nested_resolved (postpass_nested taken heap ctr pats users) users = false.
Proof. exact nested_refuted. Qed.
Print Assumptions C18_nested_content_resolved_refuted.

Theorem C18_nested_content_resolved : forall taken heap ctr pats users,
  Forall (fun p => pt_units p = UserSpaceOnUse) pats ->
  KnownClass_shared_nested heap pats users = false ->
  nested_resolved (postpass_nested taken heap ctr pats users) users = true.
Proof. exact nested_guarded. Qed.
Print Assumptions C18_nested_content_resolved.

(* --- the box of a group ------------------------------------------------------------------- *)
(* Group::calculate_object_bbox: every child that is not an empty group, zero-width / zero-height ones included
   (a nested group around a horizontal line), lies inside the box the group's clip / mask / filter is resolved with *)
Theorem C18_object_bbox_contains : forall cs B, object_bbox cs = Some B ->
  forall c, In c cs -> gc_empty_group c = false -> rect_inside (gc_box c) B.
Proof. exact object_bbox_contains. Qed.
Print Assumptions C18_object_bbox_contains.

Example C18_nv_object_bbox :
  object_bbox [ {| gc_box := {| rx := 10; ry := 10; rw := 40; rh := 20 |}; gc_empty_group := false |};
                {| gc_box := {| rx := 4; ry := 38; rw := 58; rh := 0 |}; gc_empty_group := false |};
                {| gc_box := {| rx := 0; ry := 0; rw := 0; rh := 0 |}; gc_empty_group := true |} ]
  = Some {| rx := 4; ry := 10; rw := 62 - 4; rh := 38 - 10 |}.
Proof. vm_compute. reflexivity. Qed.

(* --- non-vacuity -------------------------------------------------------------------------- *)
Definition nv_d0 : gdef := {| g_id := 5; g_units := ObjectBoundingBox; g_ts := from_row 1 0 0 1 0 0 |}.
Definition nv_users : list user :=
  [ {| u_h := Some 0%nat; u_box := {| rx := 10; ry := 10; rw := 40; rh := 20 |} |};
    {| u_h := Some 0%nat; u_box := {| rx := 0; ry := 0; rw := 0; rh := 20 |} |};
    {| u_h := Some 0%nat; u_box := {| rx := 100; ry := 5; rw := 8; rh := 8 |} |} ].
Example C18_nv_shared :
  let '(st, out) := postpass [5%N; 1%N] [nv_d0] 0 nv_users in
  map u_h out = [Some 1%nat; None; Some 0%nat] /\ out_ids (ps_heap st) out = [2%N; 5%N]
  /\ map g_units (ps_heap st) = [UserSpaceOnUse; UserSpaceOnUse].
Proof. vm_compute. repeat split; reflexivity. Qed.

Example C18_nv_bbox :
  checked_bbox_transform {| rx := 1 # 10; ry := 1 # 5; rw := 1 # 2; rh := 1 # 2 |} {| rx := 20; ry := 30; rw := 50; rh := 40 |}
  = Some {| rx := (1 # 10) * 50 + 20; ry := (1 # 5) * 40 + 30; rw := (1 # 2) * 50; rh := (1 # 2) * 40 |}.
Proof. vm_compute. reflexivity. Qed.

Example C18_nv_clip_cacheable :
  chain_cacheable f18_chain = false /\
  chain_cacheable [ {| ce_id := 1; ce_units := UserSpaceOnUse; ce_ts := ts_identity |} ] = true.
Proof. split; reflexivity. Qed.

(* === extension round 4: filters and masks =================================================== *)
(* --- primitiveUnits=objectBoundingBox: the number attributes (stdDeviation, dx/dy, radius, scale) ----------- *)
(* `resolve_param` is built from the SOURCE-DERIVED slices of filter.rs (std_dev_scaled, offset_dx/dy, shadow_dx/dy,
   displace_scale, morph_fix / morph_positive / morph_scaled / morph_default, prim_scale).  FULL strength: for every box
   with area and EVERY attribute value the stored numbers are those of the same primitive written in user space with
   its lengths mapped through the box (x lengths * width, y lengths * height, displacement scale * mean); feMorphology
   with the radius absent, negative, zero, one-zero or positive (since 4d36085 the radii are resolved before the zero
   fallbacks, since e3b9753 the fallback radius is the constant 1) *)
Theorem C18_primitive_params_equiv : forall p B, 0 < rw B -> 0 < rh B ->
  rparam_eqb (resolve_param p (rw B, rh B)) (resolve_param (map_param p B) (1, 1)) = true.
Proof. exact param_equiv. Qed.
Print Assumptions C18_primitive_params_equiv.

(* the three former witnesses on a 50x20 box now satisfy the equivalence: radius "0 3" -> (1, 60) both (4d36085);
   radius "-1 3" -> (1, 1) both, no radius -> (1, 1) both (e3b9753) *)
Example C18_nv_morph_witnesses_fixed :
  let B := {| rx := 10; ry := 10; rw := 50; rh := 20 |} in
  resolve_param (FP_morph (Some [0; 3])) (rw B, rh B) = RP_morph 1 (3 * 20) /\
  resolve_param (map_param (FP_morph (Some [0; 3])) B) (1, 1) = RP_morph 1 (3 * 20 * 1) /\
  resolve_param (FP_morph (Some [-(1); 3])) (rw B, rh B) = RP_morph 1 1 /\
  resolve_param (map_param (FP_morph (Some [-(1); 3])) B) (1, 1) = RP_morph 1 1 /\
  resolve_param (FP_morph None) (rw B, rh B) = RP_morph 1 1 /\
  resolve_param (map_param (FP_morph None) B) (1, 1) = RP_morph 1 1.
Proof. vm_compute. repeat split; reflexivity. Qed.

(* stdDeviation: the (one or two) numbers times the box size, negative products clamped to 0 *)
Theorem C18_std_dev_scaled : forall a b c sc,
  let '(x, y) := std_dev_pair a b c in
  fst (std_dev a b c sc) == (if Qleb 0 (x * sz_w sc) then x * sz_w sc else 0) /\
  snd (std_dev a b c sc) == (if Qleb 0 (y * sz_h sc) then y * sz_h sc else 0).
Proof. exact std_dev_spec. Qed.
Print Assumptions C18_std_dev_scaled.

(* every user of the list gets the parameters scaled by ITS box: the per-primitive parameters of collect_children
   depend on the user only through prim_scale *)
Theorem C18_primitive_params_per_user : forall units bbox region sc ps,
  map rp_par (collect_loop units bbox region sc ps) =
  map (fun p => resolve_param (fp_par p) sc) (firstn (length (collect_loop units bbox region sc ps)) ps).
Proof. exact collect_loop_params. Qed.
Print Assumptions C18_primitive_params_per_user.

(* --- the cache of converted filters (filter.rs convert_url) --------------------------------------------------- *)
(* for every document (an id names one filter element) and EVERY sequence of users with their boxes, starting from
   the empty cache: each user gets the filter resolved for ITS box (region through checked_bbox_transform, primitives
   through collect_children), and two results that carry the same id are the same definition: sharing happens only
   through a cache hit, which needs filterUnits = primitiveUnits = userSpaceOnUse *)
Theorem C18_filter_users : forall (taken : list N) (inD : felem -> Prop),
  (forall f1 f2, inD f1 -> inD f2 -> fe_id f1 = fe_id f2 -> f1 = f2) ->
  (forall f, inD f -> In (fe_id f) taken) ->
  forall us ctr, Forall (fun p => inD (fst p)) us ->
  let rs := fst (filter_users taken us {| fs_cache := []; fs_ctr := ctr |}) in
  Forall2 (fun p r => match filter_resolve (fst p) (snd p) with
                      | Some (rc, ps) => exists v, r = Some v /\ fv_rect v = rc /\ fv_prims v = ps
                      | None => r = None
                      end) us rs /\
  (forall v1 v2, In (Some v1) rs -> In (Some v2) rs -> fv_id v1 = fv_id v2 -> v1 = v2).
Proof. exact filter_users_shared. Qed.
Print Assumptions C18_filter_users.

Theorem C18_filter_resolve_user_space_box_free : forall f, filter_cacheable (fe_units f) (fe_punits f) = true ->
  forall b, filter_resolve f b = filter_resolve f None.
Proof. exact filter_resolve_indep. Qed.
Print Assumptions C18_filter_resolve_user_space_box_free.

(* --- the cache of converted masks (mask.rs convert; id chosen before the link is converted, mask_all) -------- *)
Theorem C18_mask_users : forall (taken : list N) (inD : msrc -> Prop),
  (forall e link, inD (e :: link) -> link = [] \/ inD link) ->
  (forall e1 l1 e2 l2, inD (e1 :: l1) -> inD (e2 :: l2) -> me_id e1 = me_id e2 -> e1 :: l1 = e2 :: l2) ->
  (forall e l, inD (e :: l) -> In (me_id e) taken) ->
  forall us ctr, Forall (fun p => inD (fst p)) us ->
    Forall2 (fun p r => match mask_expected (fst p) (snd p) with
                        | Some l => exists v, r = Some v /\ mconv_vals v = l
                        | None => r = None
                        end) us (mask_users taken us {| ms_cache := []; ms_ctr := ctr |}).
Proof.
  intros taken inD H1 H2 H3 us ctr Hus.
  exact (mask_users_ok taken inD H1 H2 H3 us _ (mcache_ok_empty inD ctr) Hus).
Qed.
Print Assumptions C18_mask_users.

(* non-vacuity: a shared user-space filter (one definition, one id) next to an objectBoundingBox one (own id per user) *)
Definition nv_blur : fprim := {| fp_kind := PK_Other; fp_x := None; fp_y := None; fp_w := None; fp_h := None;
                                 fp_par := FP_blur (Some (1 # 8)) None None |}.
Definition nv_f_user : felem := {| fe_id := 1; fe_units := UserSpaceOnUse; fe_punits := UserSpaceOnUse;
                                   fe_rect := {| rx := 0; ry := 0; rw := 200; rh := 200 |}; fe_prims := [nv_blur] |}.
Definition nv_f_obb : felem := {| fe_id := 2; fe_units := ObjectBoundingBox; fe_punits := ObjectBoundingBox;
                                  fe_rect := {| rx := -(1 # 10); ry := -(1 # 10); rw := 12 # 10; rh := 12 # 10 |}; fe_prims := [nv_blur] |}.
Example C18_nv_filter_users :
  let b1 := Some {| rx := 10; ry := 10; rw := 40; rh := 80 |} in
  let b2 := Some {| rx := 100; ry := 20; rw := 80; rh := 16 |} in
  match fst (filter_users [1%N; 2%N] [(nv_f_user, b1); (nv_f_obb, b1); (nv_f_user, b2); (nv_f_obb, b2)] {| fs_cache := []; fs_ctr := 0 |}) with
  | [Some a; Some b; Some c; Some d] =>
      map fv_id [a; b; c; d] = [1%N; 2%N; 1%N; 3%N] /\ a = c /\
      map rp_par (fv_prims b) = [RP_blur ((1 # 8) * 40) ((1 # 8) * 80)] /\ map rp_par (fv_prims d) = [RP_blur ((1 # 8) * 80) ((1 # 8) * 16)]
  | _ => False
  end.
Proof. vm_compute. repeat split; reflexivity. Qed.

Example C18_nv_mask_users :
  match mask_users [1%N; 2%N] [(m18_chain, Some f18_b1); (m18_chain, Some f18_b2); (m18_chain, None)] {| ms_cache := []; ms_ctr := 0 |} with
  | [Some [a1; a2]; Some [b1; b2]; Some [c1; c2]] =>
      map mv_id [a1; a2; b1; b2; c1; c2] = [1%N; 2%N; 3%N; 4%N; 5%N; 6%N] /\
      mv_content a2 = Some (Some (from_bbox f18_b1)) /\ mv_content b2 = Some (Some (from_bbox f18_b2)) /\
      mv_content c2 = None                            (* no box: the objectBoundingBox mask masks everything *)
  | _ => False
  end.
Proof. vm_compute. repeat split; reflexivity. Qed.

Example C18_nv_param_regular :
  resolve_param (FP_morph (Some [1 # 16; 1 # 8])) (50, 20) = RP_morph ((1 # 16) * 50) ((1 # 8) * 20) /\
  resolve_param (FP_shadow None (Some (1 # 4)) (Some (1 # 8)) None None) (40, 80) = RP_shadow (2 * 40) ((1 # 4) * 80) ((1 # 8) * 40) ((1 # 8) * 80).
Proof. vm_compute. split; reflexivity. Qed.
