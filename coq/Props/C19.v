(* C19  Exporting one node equals that node's part of the full rendering.
   Property theorems only; model: Model/Export.v (render_node of resvg/src/lib.rs as fixed by 2b7df1a, the transform a
   node's content is drawn under in render.rs, Node::abs_layer_bounding_box, Tree::node_by_id).  The exact source text of
   those functions is locked by Gen/BBoxTables.v (BF_RenderNode*, BF_NodeLayerBox, BF_NodeById). *)
From Coq Require Import String.
From RV Require Import Model.Base Model.BBox Model.Export Gen.BBoxTables Proofs.BBox Proofs.Export.
Local Open Scope Q_scope.

(* 'nothing to render' exactly when the node has no absolute layer box: never for groups, for paths / text exactly when the
   absolute STROKE box (images: the absolute box) has zero width or height - a stroked horizontal line has a layer (ece95dc) *)
Theorem C19_none_iff_zero : forall n tr,
  (render_node_ts n tr = None <-> abs_layer_bounding_box n = None) /\
  (abs_layer_bounding_box n = None <->
     match n with
     | EGroup _ _ _ _ _ => False
     | ELeaf _ _ b => ~ (bx0 b < bx1 b /\ by0 b < by1 b)
     end).
Proof. exact none_iff_zero. Qed.
Print Assumptions C19_none_iff_zero.

(* full strength (F19 fixed): the node's content is drawn under
     export transform * translate(-layer box origin) * abs_transform(node)
   i.e. exactly where the full rendering draws it, seen through the window of its absolute layer box.
   (A group's own transform must be invertible - usvg never builds groups with a singular transform except for the
   C11 class singular_transform_kept.)  With C12_abs_transform_product, abs_transform(node) is the product of the
   ancestors' transforms - except for the C12 class use_transform_twice, which C19 inherits. *)
Theorem C19_export_transform : forall n tr c,
  content_ts n tr = Some c ->
  match n with EGroup _ t _ _ _ => ts_invert t <> None | ELeaf _ _ _ => True end ->
  exists e, expected_content_ts n tr = Some e /\ ts_eq c e.
Proof. exact export_transform. Qed.
Print Assumptions C19_export_transform.

Theorem C19_export_point : forall n tr e b x y,
  expected_content_ts n tr = Some e -> abs_layer_bounding_box n = Some b ->
  map_x e x y == map_x tr (map_x (eabs n) x y - bx0 b) (map_y (eabs n) x y - by0 b) /\
  map_y e x y == map_y tr (map_x (eabs n) x y - bx0 b) (map_y (eabs n) x y - by0 b).
Proof. exact export_point. Qed.
Print Assumptions C19_export_point.

Theorem C19_export_box_origin : forall tr b x y,
  map_x (ts_concat tr (from_translate (- bx0 b) (- by0 b))) x y == map_x tr (x - bx0 b) (y - by0 b) /\
  map_y (ts_concat tr (from_translate (- bx0 b) (- by0 b))) x y == map_y tr (x - bx0 b) (y - by0 b).
Proof. exact export_box_origin. Qed.
Print Assumptions C19_export_box_origin.

(* Refinement to draw lists (render.rs, transforms only).  render_node's reconstruction of the ancestors' transform
   (parent_ts) is their product whenever abs_transform is (C12_abs_transform_product) ... *)
Theorem C19_parent_ts_is_ancestors : forall n anc,
  match n with
  | EGroup _ t a _ _ => ts_invert t <> None /\ ts_eq a (ts_concat anc t)
  | ELeaf _ a _ => ts_eq a anc
  end -> ts_eq (parent_ts n) anc.
Proof. exact parent_ts_is_ancestors. Qed.
Print Assumptions C19_parent_ts_is_ancestors.

(* ... and then the export draws exactly the draw list of the node in the full rendering - the same leaves in the same order -
   with every transform prefixed by  export transform * translate(-layer box origin): "export = the node's part of the full
   rendering seen through its layer box" is a theorem of the model up to the rasteriser (layers / opacity / clip / mask /
   filters act on the same list: C14-C16). *)
Theorem C19_export_draws_refines : forall tr b parent anc n,
  ts_eq parent anc ->
  draws_eq (export_draws tr b parent n)
           (prefix_draws (ts_concat tr (from_translate (- bx0 b) (- by0 b))) (full_draws anc n)).
Proof. exact export_draws_refines. Qed.
Print Assumptions C19_export_draws_refines.

Theorem C19_draws_prefix : forall n x c, draws_eq (draws (ts_concat x c) n) (prefix_draws x (draws c n)).
Proof. exact draws_prefix. Qed.
Print Assumptions C19_draws_prefix.

(* lookup by id: the first node in pre-order below the root that carries the id; Some exactly when a renderable node
   carries the (non-empty) id *)
Theorem C19_node_by_id_first : forall id n, nbi id n = find (fun c => String.eqb (eid c) id) (descendants n).
Proof. exact nbi_first. Qed.
Print Assumptions C19_node_by_id_first.

Theorem C19_node_by_id : forall root id n,
  node_by_id root id = Some n -> id <> ""%string /\ In n (descendants root) /\ eid n = id.
Proof. exact node_by_id_sound. Qed.
Print Assumptions C19_node_by_id.

Theorem C19_node_by_id_complete : forall root id,
  id <> ""%string -> (exists n, In n (descendants root) /\ eid n = id) -> exists n, node_by_id root id = Some n.
Proof. exact node_by_id_complete. Qed.
Print Assumptions C19_node_by_id_complete.

Theorem C19_node_by_id_none : forall root id,
  node_by_id root id = None <-> id = ""%string \/ forall n, In n (descendants root) -> eid n <> id.
Proof. exact node_by_id_none. Qed.
Print Assumptions C19_node_by_id_none.

Theorem C19_source_facts_lock : bbox_facts = bbox_facts_expected.
Proof. exact bbox_facts_lock. Qed.
Print Assumptions C19_source_facts_lock.

(* ------------------------------------------------------------------ extension round 4: the search domain of lookup by id *)
(* The tree with its sub-trees (clip-path / mask / pattern / feImage roots owned by groups and leaves: `fnode`).  tree/mod.rs
   node_by_id walks `children` only (fact BF_NodeById), so lookup on the forest IS lookup on the renderable tree ... *)
Theorem C19_forest_node_by_id_is_renderable_lookup : forall root id,
  option_map f_erase (f_node_by_id root id) = node_by_id (f_erase root) id.
Proof. exact f_node_by_id_erase. Qed.
Print Assumptions C19_forest_node_by_id_is_renderable_lookup.

(* ... it returns only renderable nodes carrying the id ... *)
Theorem C19_forest_node_by_id_renderable : forall root id x,
  f_node_by_id root id = Some x -> id <> ""%string /\ In (f_erase x) (descendants (f_erase root)) /\ fid x = id.
Proof. exact f_node_by_id_renderable. Qed.
Print Assumptions C19_forest_node_by_id_renderable.

(* ... and answers None exactly when the id is empty or no renderable node carries it, whatever ids the sub-trees carry. *)
Theorem C19_forest_node_by_id_none : forall root id,
  f_node_by_id root id = None <-> id = ""%string \/ forall n, In n (descendants (f_erase root)) -> eid n <> id.
Proof. exact f_node_by_id_none. Qed.
Print Assumptions C19_forest_node_by_id_none.

(* ------------------------------------------------------------------ non-vacuity *)
Local Open Scope string_scope.
(* F19 witness: a rect inside <g transform="translate(50,60)">: the content is drawn under translate(0,0) after the
   layer box origin (50,60) is subtracted, not under translate(-50,-60) (blank export) *)
Definition ex_f19 : enode := ELeaf "r" (from_translate 50 60) (mkbox 50 60 90 100).
Example C19_ex_f19 : content_ts ex_f19 ts_identity = Some (from_row 1 0 0 1 0 0).
Proof. vm_compute. reflexivity. Qed.
Example C19_ex_group :
  match content_ts (EGroup "g" (from_scale 2 2) (ts_concat (from_translate 10 0) (from_scale 2 2)) (mkbox 10 0 30 20) []) (from_scale 2 2) with
  | Some c => ts_eqb c (from_row 4 0 0 4 0 0)
  | None => false
  end = true.
Proof. vm_compute. reflexivity. Qed.
(* an unstroked horizontal line (stroke box = fill box 0,5 - 10,5) has nothing to render; with a stroke of width 6 it exports *)
Example C19_ex_none : render_node_ts (ELeaf "l" ts_identity (mkbox 0 5 10 5)) ts_identity = None.
Proof. vm_compute. reflexivity. Qed.
Example C19_ex_stroked_line : render_node_ts (ELeaf "l" ts_identity (mkbox 0 2 10 8)) ts_identity <> None.
Proof. vm_compute. discriminate. Qed.
Example C19_ex_draws :
  export_draws (from_scale 2 2) (mkbox 50 60 90 100) (from_translate 50 60)
               (DGroup (from_translate 1 2) [DLeaf 7; DGroup (from_scale 3 3) [DLeaf 8]]) =
  [(from_row 2 0 0 2 2 4, 7%N); (from_row 6 0 0 6 2 4, 8%N)].
Proof. vm_compute. reflexivity. Qed.
Example C19_ex_by_id :
  let t := EGroup "" ts_identity ts_identity (mkbox 0 0 1 1)
             [EGroup "a" ts_identity ts_identity (mkbox 0 0 1 1) [ELeaf "b" ts_identity (mkbox 0 0 1 1)]; ELeaf "b" ts_identity (mkbox 0 0 2 2)] in
  node_by_id t "b" = Some (ELeaf "b" ts_identity (mkbox 0 0 1 1)) /\ node_by_id t "" = None /\ node_by_id t "zz" = None.
Proof. vm_compute. repeat split. Qed.
(* a clip path whose content carries the id "c" (seed C19-12 searched there): the forest contains a node with that id, lookup
   does not find it; the renderable "b" below the clipped group is found *)
Example C19_ex_forest_by_id :
  let clip := FGroup "" ts_identity ts_identity (mkbox 0 0 1 1) [] [FLeaf "c" ts_identity (mkbox 0 0 5 5) []] in
  let t := FGroup "" ts_identity ts_identity (mkbox 0 0 1 1) []
             [FGroup "a" ts_identity ts_identity (mkbox 0 0 1 1) [clip] [FLeaf "b" ts_identity (mkbox 0 0 1 1) []]] in
  existsb (fun n => String.eqb (fid n) "c") (f_all t) = true /\ f_node_by_id t "c" = None /\
  f_node_by_id t "b" = Some (FLeaf "b" ts_identity (mkbox 0 0 1 1) []).
Proof. vm_compute. repeat split. Qed.
