(* C04  Every value in a parsed tree is resolved and valid.
   Property theorems only.  The leaf expressions (`miter_clamp`, `stroke_miterlimit_new`, `dash_reject`,
   `dash_sum_is_zero`, `dash_needs_doubling`, `stop_offset_bound`, `stops_*`, `is_valid_length`,
   `clamp_radii`, `convert_length`, `GRADIENT_MIN_STOPS`) are the SOURCE-DERIVED definitions of
   Gen/LeafStyle.v (regenerated from /repo on every run); the loop skeletons and third-party constructors
   are in Model/Style.v; the conclusions are the predicates of Model/TreeValid.v that the system-level
   oracle evaluates on the dump of every tree. *)
From RV Require Import Model.Base Model.StylePrims Gen.LeafStyle Model.TreeValid Model.Style Proofs.Style.
From RV Require Import Model.GeomPrims Model.ObbPrims Gen.LeafObb Model.Obb Proofs.Obb.
From RV Require Import Model.ObbFilter Proofs.ObbFilter.
From RV Require Import Model.FilterParPrims Gen.LeafFilterPar Model.FilterPar Proofs.FilterPar.
From RV Require Import Model.ShapePath Gen.ShapePaths Model.PathValid Proofs.PathValid.
From RV Require Import Model.MarkerPrims Gen.LeafMarkerAngle Proofs.MarkerAngle.
Local Open Scope Q_scope.

(* --- stroke ------------------------------------------------------------------------------- *)
Theorem C04_dasharray : forall l d, conv_dasharray l = Some d ->
  Nat.even (length d) = true /\ forallb xq_nonneg d = true /\ existsb xq_pos d = true.
Proof.
  intros l d H. apply dasharray_post in H. simpl in H.
  apply andb_prop in H as [H C]. apply andb_prop in H as [A B]. repeat split; assumption.
Qed.
Print Assumptions C04_dasharray.

Theorem C04_dash_finite : forall l d, conv_dasharray l = Some d -> forallb xq_finite d = true.
Proof. exact dash_finite. Qed.
Print Assumptions C04_dash_finite.

Theorem C04_miter : forall raw, exists q, stroke_miterlimit_new (miter_clamp raw) = Fin q /\ 1 <= q.
Proof.
  intro raw. destruct (miter_clamp_ge1 raw) as (q & E & H). exists q. rewrite E, miter_new_id by exact H.
  split; [reflexivity|exact H].
Qed.
Print Assumptions C04_miter.

(* the value handed to StrokeMiterlimit::new already satisfies its debug assertions (finite, >= 1) *)
Theorem C04_miter_finite : forall raw,
  xq_finite (miter_clamp raw) = true /\ valid_miter (miter_clamp raw) = true.
Proof.
  intro raw. split; [|apply miter_clamp_valid].
  destruct (miter_clamp_ge1 raw) as (q & -> & _). reflexivity.
Qed.
Print Assumptions C04_miter_finite.

Theorem C04_width : forall i s, resolve_stroke i = Some s ->
  exists q, so_width s = Fin q /\ 0 < q.
Proof.
  intros i s H. apply stroke_post in H. unfold valid_stroke, valid_width in H.
  apply andb_prop in H as [H _]. apply andb_prop in H as [H _].
  destruct (so_width s); simpl in H; try discriminate. exists q. split; [reflexivity|apply Qltb_true; exact H].
Qed.
Print Assumptions C04_width.

Theorem C04_stroke_valid : forall i s, resolve_stroke i = Some s ->
  valid_stroke (so_width s) (so_miter s) (so_dash s) = true.
Proof. exact stroke_post. Qed.
Print Assumptions C04_stroke_valid.

(* --- gradient stops ----------------------------------------------------------------------- *)
Theorem C04_stops_range : forall offs, valid_stops_range (convert_stops offs) = true.
Proof. intro offs. apply (proj1 (convert_stops_post offs)). Qed.
Print Assumptions C04_stops_range.

(* full strength (the F23 repair `max` with the preceding stop is what makes the induction go through) *)
Theorem C04_stops_sorted : forall offs, sorted_xq (convert_stops offs) = true.
Proof. intro offs. apply (proj2 (convert_stops_post offs)). Qed.
Print Assumptions C04_stops_sorted.

(* the same for every implementation of `offset - EPSILON` that is finite and not above its argument on
   [0,1] (exact rational subtraction, or the correctly rounded f32 subtraction) *)
Theorem C04_stops_sorted_any_eps : forall sub_eps : xq -> xq,
  (forall a, 0 <= a -> a <= 1 -> exists q, sub_eps (Fin a) = Fin q /\ q <= a) ->
  forall offs,
    let s := convert_stops_with stops_dup3 stops_zero2 stops_zero_new stops_shift_cond stops_shift_min0
               (fun a m => xq_max (sub_eps a) m) offs in
    valid_stops_range s = true /\ sorted_xq s = true.
Proof. exact convert_stops_any_eps. Qed.
Print Assumptions C04_stops_sorted_any_eps.

Theorem C04_gradient : forall offs rr stops r, convert_gradient offs rr = GServer stops r ->
  valid_stops stops = true /\ match r with Some v => valid_radius v = true | None => True end.
Proof. exact gradient_post. Qed.
Print Assumptions C04_gradient.

Theorem C04_radial_r : forall offs rr stops v, convert_gradient offs rr = GServer stops (Some v) ->
  exists q, v = Fin q /\ 0 < q.
Proof.
  intros offs rr stops v H. apply gradient_post in H as [_ H]. unfold valid_radius in H.
  destruct v; simpl in H; try discriminate. exists q. split; [reflexivity|apply Qltb_true; exact H].
Qed.
Print Assumptions C04_radial_r.

(* --- regions ------------------------------------------------------------------------------ *)
Theorem C04_regions : forall x y w h rc, nz_from_xywh x y w h = Some rc -> valid_region rc = true.
Proof. exact from_xywh_post. Qed.
Print Assumptions C04_regions.

Theorem C04_regions_finite : forall x y w h rc, nz_from_xywh (Fin x) (Fin y) (Fin w) (Fin h) = Some rc ->
  0 < w /\ 0 < h /\ exists w' h', xr_w rc = Fin w' /\ xr_h rc = Fin h' /\ w' == w /\ h' == h
                                  /\ xr_x rc = Fin x /\ xr_y rc = Fin y.
Proof. exact from_xywh_fin. Qed.
Print Assumptions C04_regions_finite.

Theorem C04_regions_accepts : forall x y w h,
  0 < w -> 0 < h -> - F32_MAX <= x -> - F32_MAX <= y -> w + x <= F32_MAX -> h + y <= F32_MAX ->
  w <= F32_MAX -> h <= F32_MAX ->
  exists rc, nz_from_xywh (Fin x) (Fin y) (Fin w) (Fin h) = Some rc.
Proof. exact from_xywh_accepts. Qed.
Print Assumptions C04_regions_accepts.

(* --- rect radii --------------------------------------------------------------------------- *)
Theorem C04_rect_radii : forall w h rxo ryo rx ry,
  rect_radii w h rxo ryo = Some (rx, ry) ->
  (forall a, rxo = Some a -> xq_is_nan (ra_value a) = false) ->
  (forall a, ryo = Some a -> xq_is_nan (ra_value a) = false) ->
  xq_pos w = true /\ xq_pos h = true /\
  xq_leb rx (xq_div w (Fin 2)) = true /\ xq_leb ry (xq_div h (Fin 2)) = true.
Proof. exact rect_radii_post. Qed.
Print Assumptions C04_rect_radii.

Theorem C04_rect_radii_auto : forall a, xq_sign_negative (ra_number a) = false ->
  resolve_rx_ry (Some a) None = (ra_value a, ra_value a) /\ resolve_rx_ry None (Some a) = (ra_value a, ra_value a).
Proof. exact rx_ry_auto. Qed.
Print Assumptions C04_rect_radii_auto.

(* --- text --------------------------------------------------------------------------------- *)
(* for every sequence of characters (utf8 length >= 1, new-chunk flag, first-of-text-node flag): the spans
   of every chunk are contiguous, start at 0, end at the chunk's byte length, and every span boundary is
   a sum of whole utf8 lengths (a character boundary) *)
Theorem C04_spans_tile_chunk : forall chars,
  Forall (fun c => (1 <= fst (fst c))%N) chars ->
  Forall (fun ck => chunk_ok ck = true) (collect_chunks chars).
Proof. exact collect_chunks_post. Qed.
Print Assumptions C04_spans_tile_chunk.

(* --- units -------------------------------------------------------------------------------- *)
(* convert_length returns a plain number for every unit: percentages of objectBoundingBox quantities are
   fractions, percentages of user-space quantities are resolved against the view box, absolute units do
   not depend on the context *)
Theorem C04_units_resolved_percent : forall sq n nd aid st,
  convert_length sq {| len_number := n; len_unit := U_Percent |} nd aid ObjectBoundingBox st = xq_div n (Fin 100)
  /\ convert_length sq {| len_number := n; len_unit := U_Percent |} nd A_Width UserSpaceOnUse st
     = xq_div (xq_mul (xr_w (st_view_box st)) n) (Fin 100)
  /\ convert_length sq {| len_number := n; len_unit := U_Percent |} nd A_Height UserSpaceOnUse st
     = xq_div (xq_mul (xr_h (st_view_box st)) n) (Fin 100).
Proof.
  intros. split; [apply units_percent_obb|apply units_percent_x].
Qed.
Print Assumptions C04_units_resolved_percent.

Theorem C04_units_absolute_context_free : forall sq sq' n u nd aid aid' un un' dpi vb vb',
  u <> U_Percent ->
  convert_length sq {| len_number := n; len_unit := u |} nd aid un {| st_opt := dpi; st_view_box := vb |}
  = convert_length sq' {| len_number := n; len_unit := u |} nd aid' un' {| st_opt := dpi; st_view_box := vb' |}.
Proof. exact units_absolute_context_free. Qed.
Print Assumptions C04_units_absolute_context_free.

(* --- transforms --------------------------------------------------------------------------- *)
(* usvg stores products of transforms (abs_transform, `use` placement, bounding-box mapping of resolved paint
   servers) without checking the result: the product of two finite transforms can leave the f32 range.
   Known class `computed-transform-not-finite` (witness: scale(1e30) inside scale(1e30)). *)
Theorem C04_transform_product_refuted :
  exists a b, KnownClass_product_overflow a b = true /\ valid_ts (xts_concat a b) = false.
Proof.
  destruct concat_finite_refuted as (a & b & H1 & H2). exists a, b. split; [exact H1|].
  unfold valid_ts. rewrite H2. apply andb_false_r.
Qed.
Print Assumptions C04_transform_product_refuted.

Theorem C04_transform_product_finite : forall a b,
  KnownClass_product_overflow a b = false -> valid_ts (xts_concat a b) = true.
Proof.
  intros a b H. unfold valid_ts. rewrite (concat_finite_guarded a b H).
  unfold xts_concat, ts_fin.
  destruct (ts_is_identity a); [reflexivity|]. destruct (ts_is_identity b); [reflexivity|].
  destruct (negb (ts_has_skew a) && negb (ts_has_skew b)); reflexivity.
Qed.
Print Assumptions C04_transform_product_finite.

(* --- no objectBoundingBox unit remains ------------------------------------------------------ *)
(* Paint::to_user_coordinates always leaves user-space units (in place or in the clone) ... *)
Theorem C04_resolved_paint_units : forall d B id, g_units (resolve_def d B id) = UserSpaceOnUse.
Proof. reflexivity. Qed.
Print Assumptions C04_resolved_paint_units.

(* ... every holder of a shared objectBoundingBox definition ends with a user-space definition or without paint ... *)
Theorem C04_units_resolved_users : forall taken d0 users,
  g_units d0 = ObjectBoundingBox -> In (g_id d0) taken -> Forall (fun u => u_h u = Some 0%nat) users ->
  forall ctr, let '(st, out) := postpass taken [d0] ctr users in
    Forall (fun u => match user_def st u with Some d => g_units d = UserSpaceOnUse | None => True end) out.
Proof.
  intros taken d0 users Hobb Hsrc Hat ctr.
  pose proof (shared_users taken d0 users Hobb Hsrc Hat ctr) as K.
  destruct (postpass taken [d0] ctr users) as [st out]. destruct K as [K _].
  clear - K. induction K as [|a b l l' R F IH]; constructor; [|exact IH].
  destruct R as [_ R]. unfold user_def.
  destruct (to_non_zero_rect (u_box a)).
  - destruct R as (h & d & Eh & En & Eu & _). rewrite Eh, En. exact Eu.
  - rewrite R. exact I.
Qed.
Print Assumptions C04_units_resolved_users.

(* ... but paints inside the content of a definition that has two or more references are never visited (F25):
   known class `shared-def-nested-obb` *)
Theorem C04_no_obb_remains_refuted :
  exists taken heap ctr pats users,
    Forall (fun p => pt_units p = UserSpaceOnUse) pats /\
    KnownClass_shared_nested heap pats users = true /\
    nested_resolved (postpass_nested taken heap ctr pats users) users = false.
Proof. exact nested_refuted. Qed.
Print Assumptions C04_no_obb_remains_refuted.

Theorem C04_no_obb_remains : forall taken heap ctr pats users,
  Forall (fun p => pt_units p = UserSpaceOnUse) pats ->
  KnownClass_shared_nested heap pats users = false ->
  nested_resolved (postpass_nested taken heap ctr pats users) users = true.
Proof. exact nested_guarded. Qed.
Print Assumptions C04_no_obb_remains.

(* --- the `inherit` keyword ------------------------------------------------------------------ *)
(* every attribute whose grammar accepts `inherit` (hand-reviewed list in Model/Style.v) is in the SOURCE-DERIVED table
   of attributes for which svgtree resolves the keyword: no such attribute can keep the literal value `inherit` *)
Theorem C04_inherit_table : forall a, In a expected_inherit_attrs -> inherit_resolved a = true.
Proof.
  assert (H : forallb inherit_resolved expected_inherit_attrs = true) by (vm_compute; reflexivity).
  intros a Ha. rewrite forallb_forall in H. apply H. exact Ha.
Qed.
Print Assumptions C04_inherit_table.

(* --- non-vacuity -------------------------------------------------------------------------- *)
(* the F23 witness 0.1, 0.10000004, 0.05 (exact f32 values) now normalises to a sorted list *)
Example C04_nv_F23 :
  let offs := [Fin (13421773 # 134217728); Fin (6710889 # 67108864); Fin (13421773 # 268435456)] in
  sorted_xq (convert_stops offs) = true /\ (length (convert_stops offs) = 3)%nat
  /\ xq_eqb (nth 1 (convert_stops offs) NaN) (Fin (13421773 # 134217728)) = true.
Proof. vm_compute. repeat split; reflexivity. Qed.

(* the F7 witness: miter limit 1e300 (= +inf as f32) falls back to 4; a dash list with an infinite entry is none *)
Example C04_nv_F07 :
  stroke_miterlimit_new (miter_clamp (Some PInf)) = Fin 4
  /\ conv_dasharray (Some [PInf; Fin 5]) = None
  /\ conv_dasharray (Some [Fin 5; Fin 3; Fin 2]) = Some [Fin 5; Fin 3; Fin 2; Fin 5; Fin 3; Fin 2]
  /\ conv_dasharray (Some [Fin 0; Fin 0]) = None.
Proof. vm_compute. repeat split; reflexivity. Qed.

Example C04_nv_stroke :
  exists s, resolve_stroke {| si_width := Fin 2; si_miter := Some (Fin (1 # 2)); si_dash := Some [Fin 1; Fin 2] |} = Some s
            /\ so_miter s = Fin 1 /\ so_dash s = Some [Fin 1; Fin 2].
Proof. eexists. vm_compute. repeat split; reflexivity. Qed.

Example C04_nv_regions :
  nz_from_xywh (Fin 1) (Fin 2) (Fin 0) (Fin 5) = None /\ nz_from_xywh (Fin 1) (Fin 2) (Fin 3) PInf = None
  /\ exists rc, nz_from_xywh (Fin 1) (Fin 2) (Fin 3) (Fin 5) = Some rc.
Proof. vm_compute. repeat split; try reflexivity. eexists. reflexivity. Qed.

Example C04_nv_chunks :
  collect_chunks [(2, false, true); (1, false, false); (3, false, true); (1, true, false); (4, false, true)]%N
  = [ {| ck_lens := [2; 1; 3]; ck_spans := [(0, 3); (3, 6)] |}; {| ck_lens := [1; 4]; ck_spans := [(0, 1); (1, 5)] |} ]%N.
Proof. vm_compute. reflexivity. Qed.

(* the unit table: 1in = 2.54cm = 25.4mm = 72pt = 6pc = dpi px, 1ex = em/2, x% of a bbox quantity = x/100 *)
Example C04_nv_units :
  units_table_ok (fun x => x) 3 96 10 200 100 A_Width = true
  /\ units_table_ok (fun x => x) (7 # 2) 72 16 50 80 A_Other = true.
Proof. vm_compute. split; reflexivity. Qed.

Example C04_nv_radii :
  rect_radii (Fin 10) (Fin 4) (Some {| ra_number := Fin 8; ra_value := Fin 8 |}) None = Some (Fin (10 # 2), Fin (4 # 2)).
Proof. vm_compute. reflexivity. Qed.

(* === extension round 4: the regions clause through the whole filter / mask conversion ======================== *)
(* `C04_regions` is about the constructor NonZeroRect::from_xywh.  These lift the clause to everything convert_url /
   collect_children / mask::convert emit (Model/ObbFilter.v over the SOURCE-DERIVED leaves checked_bbox_transform,
   prim_region_*, prim_scale, std_dev_scaled): for every filter element, every box and every primitive list, a produced
   filter has a region with positive size, at least one primitive, every primitive sub-region has positive size and no
   standard deviation is negative *)
Theorem C04_filter_regions : forall f bbox r ps, filter_resolve f bbox = Some (r, ps) ->
  (0 < rw r /\ 0 < rh r) /\ ps <> [] /\
  Forall (fun p => (0 < rw (rp_rect p) /\ 0 < rh (rp_rect p)) /\ rparam_nonneg (rp_par p)) ps.
Proof. exact filter_resolve_valid. Qed.
Print Assumptions C04_filter_regions.

(* ... also for what comes out of the conversion cache, for every document and every sequence of users *)
Theorem C04_filter_users_valid : forall (taken : list N) (inD : felem -> Prop),
  (forall f1 f2, inD f1 -> inD f2 -> fe_id f1 = fe_id f2 -> f1 = f2) ->
  (forall f, inD f -> In (fe_id f) taken) ->
  forall us ctr, Forall (fun p => inD (fst p)) us ->
  forall v, In (Some v) (fst (filter_users taken us {| fs_cache := []; fs_ctr := ctr |})) ->
    (0 < rw (fv_rect v) /\ 0 < rh (fv_rect v)) /\ fv_prims v <> [] /\
    Forall (fun p => (0 < rw (rp_rect p) /\ 0 < rh (rp_rect p)) /\ rparam_nonneg (rp_par p)) (fv_prims v).
Proof. exact filter_users_valid. Qed.
Print Assumptions C04_filter_users_valid.

(* every mask of every chain a user must be masked with (mask_all ones included) has a region with positive size *)
Theorem C04_mask_regions : forall c bbox l, mask_expected c bbox = Some l ->
  Forall (fun p => 0 < rw (fst p) /\ 0 < rh (fst p)) l.
Proof. exact mask_expected_valid. Qed.
Print Assumptions C04_mask_regions.

Theorem C04_primitive_region_positive : forall k u x y w h bbox fr r,
  resolve_primitive_region k u x y w h bbox fr = Some r -> 0 < rw r /\ 0 < rh r.
Proof. exact prim_region_pos. Qed.
Print Assumptions C04_primitive_region_positive.

Example C04_nv_filter_regions :
  exists r ps, filter_resolve {| fe_id := 2; fe_units := ObjectBoundingBox; fe_punits := ObjectBoundingBox;
                                 fe_rect := {| rx := -(1 # 10); ry := -(1 # 10); rw := 12 # 10; rh := 12 # 10 |};
                                 fe_prims := [ {| fp_kind := PK_Other; fp_x := None; fp_y := None; fp_w := None; fp_h := None;
                                                  fp_par := FP_blur (Some (-(1 # 8))) (Some (1 # 8)) None |} ] |}
                              (Some {| rx := 10; ry := 10; rw := 40; rh := 80 |}) = Some (r, ps)
              /\ map rp_par ps = [RP_blur 0 ((1 # 8) * 80)].
Proof. eexists. eexists. vm_compute. split; reflexivity. Qed.

(* === extension round 4, second pass ======================================================================== *)
(* --- the path clause (C04_path_len): the PathBuilder model and the builder scripts of the shapes are C10's
   (Model/ShapePath.v; Gen/ShapePaths.v transcribed from shapes.rs on every run), imported read-only ------------ *)
Module P := RV.Model.PathValid.
Module S := RV.Model.ShapePath.
Module G := RV.Gen.ShapePaths.
(* EVERY sequence of builder calls (move / line / quad / cubic / arc / close): what finish() hands out has at least two
   segments, starts with a move and never has two moves in a row; everything else is rejected (None) *)
Theorem C04_path_len : forall l : list S.bop, P.opath_valid (S.pb_finish (S.run_script l S.pb_new)) = true.
Proof. exact RV.Proofs.PathValid.script_valid. Qed.
Print Assumptions C04_path_len.

(* path data: every list of simplified segments (what svgtypes' SimplifyingPathParser yields) *)
Theorem C04_path_data_valid : forall d, P.opath_valid (G.convert_path d) = true.
Proof. exact RV.Proofs.PathValid.convert_path_valid. Qed.
Print Assumptions C04_path_data_valid.
(* what finish() rejects / accepts: moves alone never give a path; any drawing segment does *)
Theorem C04_path_data_only_moves_rejected : forall d, forallb RV.Proofs.PathValid.only_move d = true -> G.convert_path d = None.
Proof. exact RV.Proofs.PathValid.convert_path_only_moves. Qed.
Print Assumptions C04_path_data_only_moves_rejected.
Theorem C04_path_data_drawing_accepted : forall d, existsb P.draws d = true -> exists p, G.convert_path d = Some p.
Proof. exact RV.Proofs.PathValid.convert_path_draws. Qed.
Print Assumptions C04_path_data_drawing_accepted.

(* basic shapes: polyline, polygon, line, ellipse, circle, rect (rounded or not): a valid path or nothing, all inputs *)
Theorem C04_shape_paths_valid :
  (forall pts, P.opath_valid (G.convert_polyline pts) = true) /\
  (forall pts, P.opath_valid (G.convert_polygon pts) = true) /\
  (forall x1 y1 x2 y2, P.opath_valid (G.convert_line x1 y1 x2 y2) = true) /\
  (forall cx cy rx ry, P.opath_valid (G.convert_ellipse cx cy rx ry) = true) /\
  (forall cx cy r, P.opath_valid (G.convert_circle cx cy r) = true) /\
  (forall x y w h rx ry, P.opath_valid (G.rect_path x y w h rx ry) = true).
Proof. exact RV.Proofs.PathValid.shapes_valid. Qed.
Print Assumptions C04_shape_paths_valid.

Example C04_nv_path_data :
  G.convert_path [S.PMove 1 1; S.PMove 2 2; S.PLine 3 3; S.PClose; S.PLine 4 4] = Some [S.SM 2 2; S.SL 3 3; S.SZ; S.SM 2 2; S.SL 4 4]
  /\ G.convert_path [S.PMove 1 1; S.PClose] = Some [S.SM 1 1; S.SZ] /\ G.convert_path [S.PMove 1 1; S.PMove 2 2] = None
  /\ G.convert_path [S.PLine 5 5] = Some [S.SM 0 0; S.SL 5 5].
Proof. vm_compute. repeat split; reflexivity. Qed.

(* --- filter primitive parameters: the clamps and guards of parser/filter.rs (Gen/LeafFilterPar.v, rs2coq over xq) --- *)
(* stdDeviation: finite and not negative for ALL numbers and scales: NaN, infinities, products that overflow f32 *)
Theorem C04_filter_std_dev_valid : forall x y sc,
  xq_nonneg_fin (fst (xstd_dev_scaled x y sc)) = true /\ xq_nonneg_fin (snd (xstd_dev_scaled x y sc)) = true.
Proof. exact std_dev_valid. Qed.
Print Assumptions C04_filter_std_dev_valid.

(* feConvolveMatrix (since 25cbad3), FULL strength over the f32-overflow model: for ALL divisor attributes and ALL kernel
   sums (finite, +-inf from an overflowing sum or rounding step, NaN) a stored divisor is finite and is accepted by
   NonZeroF32::new (the unwrap cannot panic); otherwise the primitive becomes the transparent dummy *)
Theorem C04_convolve_divisor_finite_nonzero : forall attr ks d, convolve_divisor attr ks = Some d ->
  xq_finite d = true /\ exists v, nonzero_new d = Some v.
Proof. exact divisor_finite_nonzero. Qed.
Print Assumptions C04_convolve_divisor_finite_nonzero.
(* the former witness (nine entries of 2^108: finite sum, the rounding step overflows) is rejected now *)
Example C04_nv_convolve_overflow_fixed :
  forallb xq_finite big_kernel = true /\ xq_finite (kernel_sum big_kernel) = true /\ kernel_round (kernel_sum big_kernel) = PInf /\
  convolve_div None big_kernel = None.
Proof. exact big_kernel_rejected. Qed.
Theorem C04_convolve_order_target : forall x y tx ty vx vy,
  let '(ox, oy) := resolve_order x y in
  parse_target tx ox = Some vx -> parse_target ty oy = Some vy -> (0 < ox /\ 0 < oy /\ 0 <= vx < ox /\ 0 <= vy < oy)%Z.
Proof.
  intros x y tx ty vx vy. pose proof (order_positive x y) as [A B]. destruct (resolve_order x y) as [ox oy]. simpl in A, B.
  intros H1 H2. apply target_in_range in H1, H2. repeat split; try assumption; lia.
Qed.
Print Assumptions C04_convolve_order_target.
Theorem C04_specular_exponent_range : forall e, spec_exp_ok e = true -> exists q, e = Fin q /\ 1 <= q <= 128.
Proof. exact spec_exp_range. Qed.
Print Assumptions C04_specular_exponent_range.
Theorem C04_num_octaves_not_negative : forall attr, xq_sign_negative (num_octaves_clamped attr) = false.
Proof. exact octaves_not_negative. Qed.
Print Assumptions C04_num_octaves_not_negative.

Example C04_nv_filter_par :
  xstd_dev_scaled NaN (Fin (1 # 8)) (Fin 40, Fin 80) = (Fin 0, Fin ((1 # 8) * 80))
  /\ convolve_div None [Fin 1; Fin 1; Fin 1] = Some (Fin (3000000 / 1000000)) /\ convolve_div None [Fin 1; Fin (-(1))] = Some (Fin 1)
  /\ convolve_div (Some (Fin 0)) [Fin 1] = None /\ spec_exp_ok (Fin (257 # 2)) = false /\ parse_target None 3 = Some 1%Z
  /\ parse_target (Some 3%Z) 3 = None.
Proof. vm_compute. repeat split; reflexivity. Qed.

(* === extension round 4, final pass: the angle of orient=auto marker instances (parser/marker.rs calc_angle) =========== *)
(* `calc_angle`, `vector_angle`, `normalize` are the SOURCE-DERIVED definitions of Gen/LeafMarkerAngle.v (rs2coq over xq; atan2,
   the f32 remainder `%` and hypot are parameters).  Under the contract of the two primitives the source calls (IEEE atan2:
   NaN only for a NaN argument, otherwise a finite angle of magnitude <= pi < 4, also for zero / infinite arguments; fmod
   of a finite dividend and a non-zero finite divisor: finite, not larger than the dividend) the angle in degrees is finite for
   ALL finite vertex coordinates: coincident vertices (zero vectors: atan2(0,0), and whatever the guard `rad.is_nan()`
   has to absorb) and differences that overflow f32 included.  Round-5 seed C04-15 (direction normalised by hypot, guard
   dropped) makes this proof fail *)
Theorem C04_marker_angle_finite : forall atan2_fn frem hypot_fn : xq -> xq -> xq,
  (forall a b, xq_is_nan a = false -> xq_is_nan b = false -> exists q, atan2_fn a b = Fin q /\ - 4 <= q <= 4) ->
  (forall A a b, - A <= a <= A -> ~ b == 0 -> exists q, frem (Fin a) (Fin b) = Fin q /\ - A <= q <= A) ->
  forall x1 y1 x2 y2 x3 y3 x4 y4,
    exists q, calc_angle atan2_fn frem hypot_fn (Fin x1) (Fin y1) (Fin x2) (Fin y2) (Fin x3) (Fin y3) (Fin x4) (Fin y4) = Fin q
              /\ - 100000 <= q <= 100000.
Proof. exact calc_angle_finite. Qed.
Print Assumptions C04_marker_angle_finite.

(* the hypotheses are satisfiable, and a zero vector takes the guarded branch when atan2 yields NaN for it *)
Definition nv_atan2 (a b : xq) : xq := if xq_is_nan a || xq_is_nan b then NaN else Fin 0.
Definition nv_atan2_nan0 (a b : xq) : xq := match a, b with Fin p, Fin q => if Qeqb p 0 && Qeqb q 0 then NaN else Fin 1 | _, _ => Fin 1 end.
Definition nv_frem (a b : xq) : xq := Fin 0.
Example C04_nv_marker_angle :
  (forall a b, xq_is_nan a = false -> xq_is_nan b = false -> exists q, nv_atan2 a b = Fin q /\ - 4 <= q <= 4) /\
  (forall A a b, - A <= a <= A -> ~ b == 0 -> exists q, nv_frem (Fin a) (Fin b) = Fin q /\ - A <= q <= A) /\
  calc_angle nv_atan2_nan0 nv_frem nv_frem (Fin 20) (Fin 20) (Fin 20) (Fin 20) (Fin 20) (Fin 20) (Fin 100) (Fin 60) = Fin (0 # 262144).
Proof.
  split; [|split].
  - intros a b Ha Hb. unfold nv_atan2. rewrite Ha, Hb. exists 0. split; [reflexivity|lra].
  - intros A a b H _. exists 0. split; [reflexivity|lra].
  - vm_compute. reflexivity.
Qed.
