(* C09  Presentation resolution does not depend on how a property is spelled.
   Property theorems only.  The attribute classes, skip lists, the `resolve_inherit` default table, the
   `has_precedence` expression and the unit arms are the SOURCE-DERIVED definitions of Gen/SvgTables.v
   (regenerated from /repo on every run); `build_attrs` / `find_attribute` are the hand model of
   svgtree/parse.rs + mod.rs (Model/Cascade.v), tied to the implementation by the `cascade`
   correspondence.  `anc` (resolved attribute lists of the ancestors, parent first) is arbitrary in every
   statement = arbitrary element position; the surrounding declarations of other properties are arbitrary
   (`silent p x` only says that the rest of the element does not mention p). *)
From Coq Require Import String Permutation.
From RV Require Import Model.Base Gen.SvgTables Gen.Units Model.CascadeBase Gen.SvgInsert Model.Cascade Proofs.Cascade.
From RV Require Import Gen.ReadSites Model.CascadeSites Proofs.CascadeSites.
From RV Require Import Model.CascadeSel Proofs.CascadeSel.
From Coq Require Import Sorted.
From RV Require Import Gen.FontWeight Model.CascadeFont Proofs.CascadeFont.

(* What `attribute(a)` sees after parse_svg_element = a fold of the two-rule machine `step` over the
   declarations that mention `a` (attributes first-wins, then CSS in rule order, then style). *)
Theorem C09_cascade_spec : forall anc x a, get_attr a (build_attrs anc x) = cascade_spec anc x a.
Proof. exact build_lookup. Qed.
Print Assumptions C09_cascade_spec.

(* the fix-up block of the `insert_attribute` closure, translated from the source (Gen.SvgInsert.insert_fixup): the
   existing attribute is replaced - position kept, the new value AND the new important flag stored - exactly
   when it is not important; otherwise the new one is dropped *)
Theorem C09_insert_fixup : forall cur nw i ex,
  nth_error cur i = Some ex ->
  insert_fixup (cur ++ [nw]) i = if a_imp ex then cur else set_nth i nw cur.
Proof.
  intros cur nw i ex H. rewrite (insert_fixup_spec cur nw i ex H). destruct (a_imp ex); reflexivity.
Qed.
Print Assumptions C09_insert_fixup.

Theorem C09_lookup_perm : forall a l l',
  Permutation l l' -> NoDup (map a_name l) -> get_attr a l = get_attr a l'.
Proof. exact get_attr_perm. Qed.
Print Assumptions C09_lookup_perm.

(* XML attribute order is irrelevant (XML attribute names are distinct) *)
Theorem C09_attr_order : forall anc x l l',
  Permutation l l' -> NoDup (map fst l) ->
  forall q, get_attr q (build_attrs anc (with_attrs x l)) = get_attr q (build_attrs anc (with_attrs x l')).
Proof. exact attr_order. Qed.
Print Assumptions C09_attr_order.

Theorem C09_attr_eq_style : forall anc x p v l1 l2 s1 s2,
  silent p x = true -> x_attrs x = l1 ++ l2 -> x_style x = s1 ++ s2 ->
  is_presentation p = true -> attr_skipped (x_ignore_ids x) p v = false ->
  forall q, get_attr q (build_attrs anc (with_attrs x (l1 ++ (p, v) :: l2)))
          = get_attr q (build_attrs anc (with_style x (s1 ++ dc p v false :: s2))).
Proof. exact attr_eq_style. Qed.
Print Assumptions C09_attr_eq_style.

Theorem C09_attr_eq_css : forall anc x p v l1 l2 c1 c2,
  silent p x = true -> x_attrs x = l1 ++ l2 -> x_css x = c1 ++ c2 ->
  is_presentation p = true -> attr_skipped (x_ignore_ids x) p v = false ->
  forall q, get_attr q (build_attrs anc (with_attrs x (l1 ++ (p, v) :: l2)))
          = get_attr q (build_attrs anc (with_css x (c1 ++ dc p v false :: c2))).
Proof. exact attr_eq_css. Qed.
Print Assumptions C09_attr_eq_css.

(* every pair of spellings (attribute / CSS / style, with or without a lone !important, at any position
   of its source) gives every name the same value *)
Theorem C09_spelling_independent : forall anc x p v sp sp' n n',
  silent p x = true -> is_presentation p = true ->
  spelling_ok x sp p v = true -> spelling_ok x sp' p v = true ->
  forall q, lookup q (build_attrs anc (declare x sp n p v)) = lookup q (build_attrs anc (declare x sp' n' p v)).
Proof. exact spelling_independent. Qed.
Print Assumptions C09_spelling_independent.

(* what the code does for mix-blend-mode / isolation / font-kerning: the attribute spelling is ignored *)
Theorem C09_style_only_attr_ignored : forall anc x p v l1 l2,
  is_style_only p = true ->
  forall q, get_attr q (build_attrs anc (with_attrs x (l1 ++ (p, v) :: l2)))
          = get_attr q (build_attrs anc (with_attrs x (l1 ++ l2))).
Proof. exact style_only_attr_ignored. Qed.
Print Assumptions C09_style_only_attr_ignored.

(* attribute < CSS < style for non-important; an important declaration is never replaced (so the first
   important one wins, regardless of source order); absent sources contribute nothing *)
Theorem C09_precedence : forall anc x p oa oc os l1 l2 c1 c2 s1 s2,
  silent p x = true -> x_attrs x = l1 ++ l2 -> x_css x = c1 ++ c2 -> x_style x = s1 ++ s2 ->
  is_presentation p = true ->
  (forall va, oa = Some va -> attr_skipped (x_ignore_ids x) p va = false) ->
  get_attr p (build_attrs anc
     (with_style (with_css (with_attrs x (opt_ins l1 (option_map (pair p) oa) l2))
                           (opt_ins c1 (option_map (fun vi => dc p (fst vi) (snd vi)) oc) c2))
                 (opt_ins s1 (option_map (fun vi => dc p (fst vi) (snd vi)) os) s2)))
  = step (step (ob oa (fun va => resolve_value anc (x_tag x) p va false))
               (ob oc (fun vi => resolve_value anc (x_tag x) p (fst vi) (snd vi))))
         (ob os (fun vi => resolve_value anc (x_tag x) p (fst vi) (snd vi))).
Proof. exact sources_lookup. Qed.
Print Assumptions C09_precedence.

Theorem C09_precedence_rule : forall p v1 i1 v2 i2 st,
  step st None = st /\ step None (Some (mk p v2 i2)) = Some (mk p v2 i2) /\
  step (Some (mk p v1 false)) (Some (mk p v2 i2)) = Some (mk p v2 i2) /\
  step (Some (mk p v1 true)) (Some (mk p v2 i2)) = Some (mk p v1 true) /\
  (forall anc tag, literal tag p v1 = true -> resolve_value anc tag p v1 i1 = Some (mk p v1 i1)).
Proof.
  intros. repeat split; try reflexivity. intros. apply literal_resolve. assumption.
Qed.
Print Assumptions C09_precedence_rule.

(* two matched CSS declarations in rule order *)
Theorem C09_precedence_two_css : forall anc x p v1 i1 v2 i2 c1 c2 c3,
  silent p x = true -> x_css x = c1 ++ c2 ++ c3 -> is_presentation p = true ->
  get_attr p (build_attrs anc (with_css x (c1 ++ dc p v1 i1 :: c2 ++ dc p v2 i2 :: c3)))
  = step (resolve_value anc (x_tag x) p v1 i1) (resolve_value anc (x_tag x) p v2 i2).
Proof. exact two_css. Qed.
Print Assumptions C09_precedence_two_css.

Theorem C09_inherit_inheritable : forall anc x p sp n,
  silent p x = true -> is_presentation p = true -> is_inheritable p = true ->
  allows_inherit_value p = true -> is_dropped_on (x_tag x) p = false ->
  spelling_ok x sp p inherit_keyword = true ->
  find_value (build_attrs anc (declare x sp n p inherit_keyword)) anc p
  = match find_value (build_attrs anc x) anc p with Some v => Some v | None => inherit_default p end.
Proof. exact inherit_inheritable. Qed.
Print Assumptions C09_inherit_inheritable.

Theorem C09_inherit_noninheritable : forall anc x p sp n,
  silent p x = true -> is_presentation p = true -> is_inheritable p = false ->
  allows_inherit_value p = true -> is_dropped_on (x_tag x) p = false ->
  spelling_ok x sp p inherit_keyword = true ->
  lookup p (build_attrs anc (declare x sp n p inherit_keyword))
  = match anc with
    | parent :: _ => match lookup p parent with Some v => Some v | None => inherit_default p end
    | [] => inherit_default p
    end.
Proof. exact inherit_noninheritable. Qed.
Print Assumptions C09_inherit_noninheritable.

Theorem C09_inherit_noninheritable_copy : forall anc parent x p v sp n sp' n',
  silent p x = true -> is_presentation p = true -> is_inheritable p = false ->
  allows_inherit_value p = true ->
  spelling_ok x sp p inherit_keyword = true -> spelling_ok x sp' p v = true ->
  lookup p parent = Some v -> literal (x_tag x) p v = true ->
  lookup p (build_attrs (parent :: anc) (declare x sp n p inherit_keyword))
  = lookup p (build_attrs (parent :: anc) (declare x sp' n' p v)).
Proof. exact inherit_noninheritable_copy. Qed.
Print Assumptions C09_inherit_noninheritable_copy.

Theorem C09_default_explicit : forall anc x p d sp n sp' n',
  silent p x = true -> is_presentation p = true -> is_dropped_on (x_tag x) p = false ->
  inherit_default p = Some d -> no_inherit_source anc p = true ->
  spelling_ok x sp p inherit_keyword = true -> spelling_ok x sp' p d = true ->
  lookup p (build_attrs anc (declare x sp n p inherit_keyword)) = Some d /\
  lookup p (build_attrs anc (declare x sp' n' p d)) = Some d.
Proof. exact default_explicit. Qed.
Print Assumptions C09_default_explicit.

(* a presentation attribute - whatever it says, `inherit` included - does not matter once a matched CSS declaration
   of the property exists (full strength since the fix 7ac03db; the former class inherit-copies-important is gone) *)
Theorem C09_shadowed_attr : forall anc x p va vc ic l1 l2 c1 c2,
  silent p x = true -> x_attrs x = l1 ++ l2 -> x_css x = c1 ++ c2 ->
  is_presentation p = true -> attr_skipped (x_ignore_ids x) p va = false ->
  literal (x_tag x) p vc = true ->
  lookup p (build_attrs anc (with_css (with_attrs x (l1 ++ (p, va) :: l2)) (c1 ++ dc p vc ic :: c2)))
  = lookup p (build_attrs anc (with_css x (c1 ++ dc p vc ic :: c2))).
Proof. exact shadowed_attr. Qed.
Print Assumptions C09_shadowed_attr.

(* every stored attribute carries the important flag of the declaration that produced it (also for `inherit`) *)
Theorem C09_flag_of_declaration : forall anc tag a v imp x,
  resolve_value anc tag a v imp = Some x -> a_imp x = imp /\ a_name x = a.
Proof. intros. split; [eapply resolve_value_flag | eapply resolve_value_name]; eassumption. Qed.
Print Assumptions C09_flag_of_declaration.

(* ---- known finding: full-strength clause refuted on the faithful model, guarded version proved ---- *)
(* class inherit-relative-value: `inherit` copies the specified value, which is resolved again in the
   child's context (font-size chain of units.rs::resolve_font_size) *)
Theorem C09_inherit_font_size_refuted :
  exists dpi base c1 v k, fs_relative v = true /\
    ~ (font_size dpi base (c1 ++ Some v :: repeat None k ++ [Some v])
       == font_size dpi base (c1 ++ Some v :: repeat None k ++ [None]))%Q.
Proof. exact fs_inherit_refuted. Qed.
Print Assumptions C09_inherit_font_size_refuted.

Theorem C09_inherit_font_size_guarded : forall dpi base c1 v k,
  fs_relative v = false ->
  (font_size dpi base (c1 ++ Some v :: repeat None k ++ [Some v])
   == font_size dpi base (c1 ++ Some v :: repeat None k ++ [None]))%Q.
Proof. exact fs_inherit_guarded. Qed.
Print Assumptions C09_inherit_font_size_guarded.

(* the generated classes agree with the specification's property table: which properties inherit only
   from the direct parent, and which value `inherit` falls back to *)
Theorem C09_noninheritable_table : forall a,
  is_presentation a = true -> allows_inherit_value a = true -> is_non_inheritable a = spec_noninherited a.
Proof. exact noninherit_spec. Qed.
Print Assumptions C09_noninheritable_table.

Theorem C09_default_table : forall a, inherit_default a = spec_initial a.
Proof. exact initial_spec. Qed.
Print Assumptions C09_default_table.

(* which properties only CSS / the style attribute can set, and which image-rendering values *)
Theorem C09_style_only_table : forall a, is_style_only a = spec_style_only a.
Proof. exact style_only_spec. Qed.
Print Assumptions C09_style_only_table.

Theorem C09_css_only_values_table : css_only_ok = true.
Proof. exact css_only_spec. Qed.
Print Assumptions C09_css_only_values_table.

(* the generated tables are coherent: every default belongs to a property that accepts `inherit`, no
   default is the keyword itself; style-only and non-inheritable names are presentation properties;
   `style` / `class` are not *)
Theorem C09_tables_coherent : forall a, default_entry_ok a = true /\ class_entry_ok a = true.
Proof. intro a. split; [apply default_table_ok | apply class_table_ok]. Qed.
Print Assumptions C09_tables_coherent.

Local Open Scope Q_scope.
(* `convert_abs` is the source-derived table of units.rs::convert_length (Gen/Units.v) *)
Theorem C09_unit_equiv : forall n dpi fs,
  oq_eq (convert_abs UIn n dpi fs) (convert_abs UPx (n * dpi) dpi fs) /\
  oq_eq (convert_abs UCm (n * (254 # 100)) dpi fs) (convert_abs UIn n dpi fs) /\
  oq_eq (convert_abs UMm (n * (254 # 10)) dpi fs) (convert_abs UIn n dpi fs) /\
  oq_eq (convert_abs UPt (n * 72) dpi fs) (convert_abs UIn n dpi fs) /\
  oq_eq (convert_abs UPc (n * 6) dpi fs) (convert_abs UIn n dpi fs) /\
  oq_eq (convert_abs UPt (n * 12) dpi fs) (convert_abs UPc n dpi fs) /\
  oq_eq (convert_abs UMm (n * 10) dpi fs) (convert_abs UCm n dpi fs) /\
  oq_eq (convert_abs UNone n dpi fs) (convert_abs UPx n dpi fs).
Proof. exact unit_equiv. Qed.
Print Assumptions C09_unit_equiv.

(* font-size is resolved by its own copy of the table (units.rs::resolve_font_size): same factors *)
Theorem C09_unit_font_size : forall u n dpi parent,
  u <> UPercent -> oq_eq (convert_abs u n dpi parent) (Some (fs_step dpi parent (u, n))).
Proof. exact unit_font_size_agrees. Qed.
Print Assumptions C09_unit_font_size.
Local Close Scope Q_scope.

(* ---- equivalent notation: the converter's read sites (Gen/ReadSites.v: every read of a presentation attribute in
   crates/usvg/src/parser/*.rs with the Rust type the value is parsed with, regenerated from the source) ------------ *)
(* every function that reads a property reads it with exactly the notation set the specification gives the property *)
Theorem C09_read_sites_notation : forall s, In s read_sites -> value_site s = true ->
  is_presentation (rs_attr s) = true /\ site_class s <> NC_Unknown /\
  fn_classes s = spec_classes (rs_attr s) /\ In (site_class s) (spec_classes (rs_attr s)).
Proof.
  intros s H V. destruct (sites_classified s H) as [A B]. repeat split; try assumption.
  - apply sites_notation; assumption.
  - apply sites_in_spec; assumption.
Qed.
Print Assumptions C09_read_sites_notation.

(* any two read sites of one property: their functions accept the same notation set, and the reader of the one is
   accepted by the function of the other; for single-notation properties the two readers have the same class *)
Theorem C09_read_sites_uniform : forall s1 s2, In s1 read_sites -> In s2 read_sites -> rs_attr s1 = rs_attr s2 ->
  value_site s1 = true -> value_site s2 = true ->
  fn_classes s1 = fn_classes s2 /\ In (site_class s1) (fn_classes s2) /\
  (forall c, spec_classes (rs_attr s1) = [c] -> site_class s1 = site_class s2).
Proof.
  intros s1 s2 H1 H2 E V1 V2. destruct (sites_uniform s1 s2 H1 H2 E V1 V2) as [A B]. repeat split; try assumption.
  intros c Hc. eapply sites_same_class; eassumption.
Qed.
Print Assumptions C09_read_sites_uniform.

(* opacity, fill-opacity, stroke-opacity, stop-opacity, flood-opacity: `Opacity` (number | percentage) at every site *)
Theorem C09_opacity_family_reader : forall s, In s read_sites -> opacity_family (rs_attr s) = true -> value_site s = true ->
  rs_reader s = "Opacity"%string.
Proof. exact sites_opacity. Qed.
Print Assumptions C09_opacity_family_reader.

(* explicit inherit versus ancestor inheritance, at the converter: a property the specification inherits is never read from
   the element alone - every value site uses find_attribute, an ancestor-walking helper, or walks `.ancestors()` itself *)
Theorem C09_inherited_read_through_ancestors : forall s, In s read_sites -> value_site s = true ->
  spec_noninherited (rs_attr s) = false -> rs_walk s <> "none"%string.
Proof. exact sites_lookup. Qed.
Print Assumptions C09_inherited_read_through_ancestors.

(* the converse: a property the specification does not inherit is read from the element itself, never through find_attribute or
   an ancestor walk (text baseline properties excepted: Model.CascadeSites.text_baseline_prop) *)
Theorem C09_noninherited_read_from_element : forall s, In s read_sites -> value_site s = true ->
  spec_noninherited (rs_attr s) = true -> text_baseline_prop (rs_attr s) = false -> rs_walk s = "none"%string.
Proof. exact sites_own. Qed.
Print Assumptions C09_noninherited_read_from_element.

(* equivalent unit: every <length> / <length list> read of a presentation property is converted by units::convert_length
   (Gen.Units.convert_abs, C09_unit_equiv) - directly through a helper, by a helper call in the same function, or, for
   font-size, by resolve_font_size's own table (C09_unit_font_size) *)
Theorem C09_length_sites_converted : forall s, In s read_sites -> length_site s = true ->
  In (rs_how s) length_converters \/ rs_attr s = A_FontSize \/
  exists t, In t read_sites /\ rs_file t = rs_file s /\ rs_fn t = rs_fn s /\ rs_attr t = rs_attr s /\ In (rs_how t) length_converters.
Proof. exact sites_length. Qed.
Print Assumptions C09_length_sites_converted.

(* the checker is sound for any site table (so the obligation above is exactly `forallb site_ok read_sites = true`) *)
Theorem C09_read_sites_checker_sound : forall sites, forallb (site_ok_in sites) sites = true ->
  forall s1 s2, In s1 sites -> In s2 sites -> rs_attr s1 = rs_attr s2 -> value_site s1 = true -> value_site s2 = true ->
  fn_classes_in sites s1 = fn_classes_in sites s2 /\
  (opacity_family (rs_attr s1) = true -> rs_reader s1 = "Opacity"%string /\ rs_reader s2 = "Opacity"%string).
Proof.
  intros sites Hok s1 s2 H1 H2 E V1 V2. split.
  - apply gen_uniform; assumption.
  - intro O. split; [apply (gen_opacity sites Hok s1 H1 O V1)|]. rewrite E in O. apply (gen_opacity sites Hok s2 H2 O V2).
Qed.
Print Assumptions C09_read_sites_checker_sound.


(* ---- CSS rule lists: selector matching (simplecss over usvg's XmlNode), rule order, winner (Model/CascadeSel.v; tied by the
   `selector` correspondence and the anchors of the Element impl) ------------------------------------------------------ *)
(* the per-name machine, declaratively, for ALL candidate sequences: the first !important candidate if there is one,
   otherwise the last candidate *)
Theorem C09_cascade_winner : forall l,
  fold_left step l None = winner (somes l) /\
  (forall d, winner (somes l) = Some d -> a_imp d = true ->
     exists l1 l2, somes l = l1 ++ d :: l2 /\ forallb (fun x => negb (a_imp x)) l1 = true) /\
  (forall d, winner (somes l) = Some d -> a_imp d = false ->
     (exists l1, somes l = l1 ++ [d]) /\ forallb (fun x => negb (a_imp x)) (somes l) = true).
Proof.
  intro l. split; [apply fold_step_winner|]. split; intros d H Hi.
  - apply winner_important; assumption.
  - apply winner_plain; assumption.
Qed.
Print Assumptions C09_cascade_winner.

(* ALL rule lists, ALL element positions: what attribute(a) sees when the element's CSS declarations are those of the
   matching rules of the sheet in (specificity, source order) *)
Theorem C09_rules_cascade : forall anc x rules e a,
  get_attr a (build_attrs anc (set_css x (sheet_css rules e)))
  = fold_left step (flat_map (cand_decl anc (x_tag x) a) (sheet_css rules e) ++ flat_map (cand_decl anc (x_tag x) a) (x_style x))
                   (fold_left step_first (flat_map (cand_attr anc (x_tag x) (x_ignore_ids x) a) (x_attrs x)) None).
Proof. exact rules_lookup. Qed.
Print Assumptions C09_rules_cascade.

Theorem C09_rules_winner : forall anc x rules e a,
  flat_map (cand_attr anc (x_tag x) (x_ignore_ids x) a) (x_attrs x) = [] ->
  flat_map (cand_decl anc (x_tag x) a) (x_style x) = [] ->
  get_attr a (build_attrs anc (set_css x (sheet_css rules e)))
  = winner (somes (flat_map (cand_decl anc (x_tag x) a) (sheet_css rules e))).
Proof. exact rules_winner. Qed.
Print Assumptions C09_rules_winner.

(* the rule order is a stable sort by specificity: same rules, ascending specificity, source order among equals *)
Theorem C09_rule_order : forall rules,
  Permutation (sort_rules rules) rules /\ Sorted key_le (sort_rules rules) /\
  (forall k, filter (fun r => (rule_key r =? k)%N) (sort_rules rules) = filter (fun r => (rule_key r =? k)%N) rules).
Proof. intro rules. split; [apply sort_rules_perm|]. split; [apply sort_rules_sorted|]. intro k. apply sort_rules_stable. Qed.
Print Assumptions C09_rule_order.

(* the selector forms, for every element position: `*`, type, attribute forms (#id = [id="v"], .c = [class~="c"]),
   compound, :first-child, the other pseudo-classes, and the three combinators *)
Theorem C09_selector_forms : forall e,
  sel_matches [one None []] e = true /\
  (forall t, sel_matches [one (Some t) []] e = has_local_name e t) /\
  (forall n op, sel_matches [one None [SubAttr n op]] e = attribute_matches e n op) /\
  (forall t s1 s2, match_selector {| s_type := t; s_subs := s1 ++ s2 |} e
                   = match_selector {| s_type := t; s_subs := s1 |} e && forallb (sub_matches e) s2) /\
  (pseudo_class_matches e PFirstChild = true <-> prev_sibling_element e = None) /\
  (forall c, c <> PFirstChild -> pseudo_class_matches e c = false) /\
  (forall s c, sel_matches (s ++ [c]) e =
     match_selector (c_sel c) e &&
     match c_comb c with
     | CNone => true
     | CDescendant => existsb (sel_matches s) (ancestors_of e)
     | CChild => match parent_element e with Some p => sel_matches s p | None => false end
     | CAdjacent => match prev_sibling_element e with Some p => sel_matches s p | None => false end
     end).
Proof.
  intro e. split; [apply sel_universal|]. split; [intro; apply sel_type|]. split; [intros; apply sel_attr|].
  split; [intros; apply sel_compound|]. split; [apply first_child_iff|]. split; [intros; apply other_pseudo_never; assumption|].
  intros. apply sel_matches_snoc.
Qed.
Print Assumptions C09_selector_forms.


(* ---- font-weight over the ancestor chain (Gen/FontWeight.v: the arms of text.rs::resolve_font_weight transcribed from the
   source).  Equivalent number notation: normal = 400, bold = 700 - also UNDER descendants that say bolder / lighter ---- *)
Theorem C09_font_weight_notation : forall c c',
  Forall2 (fun v v' => v = v' \/ same_weight v v') c c' -> fw_resolve c = fw_resolve c'.
Proof. exact fw_notation. Qed.
Print Assumptions C09_font_weight_notation.

Theorem C09_font_weight_keyword_number : forall c1 c2,
  fw_resolve (c1 ++ "normal"%string :: c2) = fw_resolve (c1 ++ "400"%string :: c2) /\
  fw_resolve (c1 ++ "bold"%string :: c2) = fw_resolve (c1 ++ "700"%string :: c2).
Proof. intros. split; apply fw_replace; [exact normal_400 | exact bold_700]. Qed.
Print Assumptions C09_font_weight_keyword_number.

(* the transcribed literal arms are the specification's table; the weight never leaves [100, 900] (usize arithmetic is safe) *)
Theorem C09_font_weight_table : (forall v, fw_literal v = spec_number v) /\ (forall c, (100 <= fw_resolve c <= 900)%Z).
Proof. split; [exact fw_literal_spec | exact fw_range]. Qed.
Print Assumptions C09_font_weight_table.


(* ---- non-vacuity -------------------------------------------------------------------------------- *)
Local Open Scope string_scope.
Definition ex_parent : list attr := [mk A_Fill "green" true; mk A_Opacity "0.5" false].
Definition ex_x : xelem := xe E_Rect false [(A_Width, "10"); (A_Stroke, "blue")] [dc A_StrokeWidth "2" false] [].

(* the hypotheses of the spelling theorems are satisfiable, and the three spellings really store it *)
Example C09_nv_silent : silent A_Fill ex_x = true /\ is_presentation A_Fill = true
  /\ spelling_ok ex_x SpAttr A_Fill "red" = true.
Proof. vm_compute. repeat split. Qed.
Example C09_nv_spellings :
  lookup A_Fill (build_attrs [ex_parent] (declare ex_x SpAttr 1 A_Fill "red")) = Some "red" /\
  lookup A_Fill (build_attrs [ex_parent] (declare ex_x (SpCss true) 0 A_Fill "red")) = Some "red" /\
  lookup A_Fill (build_attrs [ex_parent] (declare ex_x (SpStyle false) 0 A_Fill "red")) = Some "red" /\
  lookup A_Fill (build_attrs [ex_parent] ex_x) = None.
Proof. vm_compute. repeat split. Qed.
(* precedence bites: CSS beats the attribute, important CSS beats style, first important wins *)
Example C09_nv_precedence :
  lookup A_Fill (build_attrs [] (xe E_Rect false [(A_Fill, "a")] [dc A_Fill "c" false] [dc A_Fill "s" false])) = Some "s" /\
  lookup A_Fill (build_attrs [] (xe E_Rect false [(A_Fill, "a")] [dc A_Fill "c" true] [dc A_Fill "s" true])) = Some "c" /\
  lookup A_Fill (build_attrs [] (xe E_Rect false [(A_Fill, "a")] [dc A_Fill "c" false] [])) = Some "c" /\
  lookup A_Fill (build_attrs [] (xe E_Rect false [] [dc A_Fill "c1" true; dc A_Fill "c2" true] [])) = Some "c1".
Proof. vm_compute. repeat split. Qed.
(* inherit: inheritable from a grand-parent, non-inheritable from the parent only, default otherwise;
   the copy takes the flag of the declaration that says inherit, not the source's *)
Example C09_nv_inherit :
  find_value (build_attrs [[]; ex_parent] (declare ex_x SpAttr 0 A_Fill "inherit")) [[]; ex_parent] A_Fill = Some "green" /\
  get_attr A_Fill (build_attrs [[]; ex_parent] (declare ex_x SpAttr 0 A_Fill "inherit")) = Some (mk A_Fill "green" false) /\
  lookup A_Opacity (build_attrs [ex_parent] (declare ex_x (SpStyle false) 0 A_Opacity "inherit")) = Some "0.5" /\
  lookup A_Opacity (build_attrs [[]; ex_parent] (declare ex_x (SpStyle false) 0 A_Opacity "inherit")) = Some "1" /\
  is_inheritable A_Fill = true /\ is_inheritable A_Opacity = false /\ no_inherit_source [[]; ex_parent] A_Opacity = true.
Proof. vm_compute. repeat split. Qed.
Example C09_nv_style_only :
  is_style_only A_MixBlendMode = true /\
  lookup A_MixBlendMode (build_attrs [] (xe E_G false [(A_MixBlendMode, "multiply")] [] [])) = None /\
  lookup A_MixBlendMode (build_attrs [] (xe E_G false [] [] [dc A_MixBlendMode "multiply" false])) = Some "multiply".
Proof. vm_compute. repeat split. Qed.
(* read sites: every opacity property is read somewhere; flood-* by feFlood AND feDropShadow, lighting-color by both
   lighting primitives; a table with one `f32` reader of flood-opacity (seeded/C09-13) is rejected by the checker *)
Example C09_nv_read_sites :
  (forall a, opacity_family a = true -> family_read a = true) /\
  readers_of A_FloodOpacity = [E_FeDropShadow; E_FeFlood] /\
  readers_of A_LightingColor = [E_FeDiffuseLighting; E_FeSpecularLighting] /\
  (let bad := [mk_site "filter.rs" "convert_drop_shadow" A_FloodOpacity "attribute" "f32" "none";
               mk_site "filter.rs" "convert_flood" A_FloodOpacity "attribute" "Opacity" "none"] in
   forallb (site_ok_in bad) bad = false) /\
  (let good := [mk_site "filter.rs" "convert_drop_shadow" A_FloodOpacity "attribute" "Opacity" "none";
                mk_site "filter.rs" "convert_flood" A_FloodOpacity "attribute" "Opacity" "none"] in
   forallb (site_ok_in good) good = true) /\
  site_lookup_ok (mk_site "marker.rs" "is_valid" A_MarkerMid "attribute" "SvgNode" "none") = false /\
  site_lookup_ok (mk_site "marker.rs" "is_valid" A_MarkerMid "find_attribute" "SvgNode" "find_attribute") = true /\
  existsb length_site read_sites = true /\
  site_own_ok (mk_site "marker.rs" "resolve" A_Overflow "find_attribute" "&str" "find_attribute") = false /\
  existsb (fun s => AId_eqb (rs_attr s) A_Overflow && value_site s) read_sites = true.
Proof.
  split; [exact family_all_read|]. destruct flood_readers as [A [_ B]]. repeat split; try assumption; vm_compute; reflexivity.
Qed.
(* rule lists: <svg><g id="i1" class="c1 c2"><rect/><rect class="c2"/></g></svg>; the id rule wins over the class rule
   whatever the source order; a lower-specificity !important wins; `g > rect + rect.c2` matches the second rect only;
   [class|="c1"] does not match "c1 c2", [class~="c2"] does *)
Definition ex_g : einfo := {| ei_tag := "g"; ei_attrs := [("id", "i1"); ("class", "c1 c2")] |}.
Definition ex_r1 : einfo := {| ei_tag := "rect"; ei_attrs := [] |}.
Definition ex_r2 : einfo := {| ei_tag := "rect"; ei_attrs := [("class", "c2")] |}.
Definition ex_svg : level := ({| ei_tag := "svg"; ei_attrs := [] |}, []).
Definition pos_g : epos := [(ex_g, []); ex_svg].
Definition pos_r1 : epos := (ex_r1, []) :: pos_g.
Definition pos_r2 : epos := (ex_r2, [ex_r1]) :: pos_g.
Definition sel_id : selector := [one None [SubAttr "id" (OpMatches "i1")]].
Definition sel_class : selector := [one None [SubAttr "class" (OpContains "c1")]].
Definition sel_adj : selector :=
  [one (Some "g") []; {| c_comb := CChild; c_sel := {| s_type := Some "rect"; s_subs := [] |} |};
   {| c_comb := CAdjacent; c_sel := {| s_type := Some "rect"; s_subs := [SubAttr "class" (OpContains "c2")] |} |}].
Definition ex_rules (imp : bool) : list rule :=
  [ {| r_sel := sel_id; r_decls := [dc A_Fill "by-id" false] |}; {| r_sel := sel_class; r_decls := [dc A_Fill "by-class" imp] |} ].
Example C09_nv_rules :
  lookup A_Fill (build_attrs [] (set_css (xe E_G false [] [] []) (sheet_css (ex_rules false) pos_g))) = Some "by-id" /\
  lookup A_Fill (build_attrs [] (set_css (xe E_G false [] [] []) (sheet_css (rev (ex_rules false)) pos_g))) = Some "by-id" /\
  lookup A_Fill (build_attrs [] (set_css (xe E_G false [] [] []) (sheet_css (ex_rules true) pos_g))) = Some "by-class" /\
  sel_matches sel_adj pos_r2 = true /\ sel_matches sel_adj pos_r1 = false /\ sel_matches sel_adj pos_g = false /\
  attribute_matches pos_g "class" (OpStartsWith "c1") = false /\ attribute_matches pos_g "class" (OpContains "c2") = true /\
  op_matches (OpStartsWith "en") "en-US" = true /\ op_matches (OpStartsWith "en") "enx" = false /\
  (specificity sel_id > specificity sel_adj)%N /\ (specificity sel_adj > specificity sel_class)%N /\
  pseudo_class_matches pos_r1 PFirstChild = true /\ pseudo_class_matches pos_r2 PFirstChild = false.
Proof. vm_compute. repeat split. Qed.
(* font-weight: the relative keywords really depend on the chain, and the big step is taken over `normal` and `400` alike *)
Example C09_nv_font_weight :
  fw_resolve ["normal"; "bolder"]%string = 700%Z /\ fw_resolve ["400"; "bolder"]%string = 700%Z /\
  fw_resolve [""; "400"; ""; "lighter"]%string = 200%Z /\ fw_resolve ["bold"; "bolder"; "bolder"; "bolder"]%string = 900%Z /\
  fw_resolve ["500"; "bolder"]%string = 600%Z /\ same_weight_b "normal" "400" = true /\ same_weight_b "bold" "400" = false.
Proof. vm_compute. repeat split. Qed.
