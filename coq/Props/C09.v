(* C09  Presentation resolution does not depend on how a property is spelled.
   Property theorems only.  The attribute classes, skip lists, the `resolve_inherit` default table, the
   `has_precedence` expression and the unit arms are the SOURCE-DERIVED definitions of Gen/SvgTables.v
   (regenerated from /repo on every run); `build_attrs` / `find_attribute` are the hand model of
   svgtree/parse.rs + mod.rs (Model/Cascade.v), tied to the implementation by the `cascade`
   correspondence.  `anc` (resolved attribute lists of the ancestors, parent first) is arbitrary in every
   statement = arbitrary element position; the surrounding declarations of other properties are arbitrary
   (`silent p x` only says that the rest of the element does not mention p). *)
From Coq Require Import String Permutation.
From RV Require Import Model.Base Gen.SvgTables Gen.Units Model.CascadeBase Gen.SvgInsert Model.Cascade Proofs.Cascade.

(* What `attribute(a)` sees after parse_svg_element = a fold of the two-rule machine `step` over the
   declarations that mention `a` (attributes first-wins, then CSS in rule order, then style). *)
Theorem C09_cascade_spec : forall anc x a, get_attr a (build_attrs anc x) = cascade_spec anc x a.
Proof. exact build_lookup. Qed.
Print Assumptions C09_cascade_spec.

(* the fix-up block of the `insert_attribute` closure, translated from the source (Gen.SvgInsert.insert_fixup): the
   existing attribute is replaced - position kept, the new value AND the new important flag stored - exactly
   when it is not important; otherwise the new one is dropped *)
Theorem C09_insert_fixup : forall cur nw i ex,
  nth_error cur i = Some ex ->
  insert_fixup (cur ++ [nw]) i = if a_imp ex then cur else set_nth i nw cur.
Proof.
  intros cur nw i ex H. rewrite (insert_fixup_spec cur nw i ex H). destruct (a_imp ex); reflexivity.
Qed.
Print Assumptions C09_insert_fixup.

Theorem C09_lookup_perm : forall a l l',
  Permutation l l' -> NoDup (map a_name l) -> get_attr a l = get_attr a l'.
Proof. exact get_attr_perm. Qed.
Print Assumptions C09_lookup_perm.

(* XML attribute order is irrelevant (XML attribute names are distinct) *)
Theorem C09_attr_order : forall anc x l l',
  Permutation l l' -> NoDup (map fst l) ->
  forall q, get_attr q (build_attrs anc (with_attrs x l)) = get_attr q (build_attrs anc (with_attrs x l')).
Proof. exact attr_order. Qed.
Print Assumptions C09_attr_order.

Theorem C09_attr_eq_style : forall anc x p v l1 l2 s1 s2,
  silent p x = true -> x_attrs x = l1 ++ l2 -> x_style x = s1 ++ s2 ->
  is_presentation p = true -> attr_skipped (x_ignore_ids x) p v = false ->
  forall q, get_attr q (build_attrs anc (with_attrs x (l1 ++ (p, v) :: l2)))
          = get_attr q (build_attrs anc (with_style x (s1 ++ dc p v false :: s2))).
Proof. exact attr_eq_style. Qed.
Print Assumptions C09_attr_eq_style.

Theorem C09_attr_eq_css : forall anc x p v l1 l2 c1 c2,
  silent p x = true -> x_attrs x = l1 ++ l2 -> x_css x = c1 ++ c2 ->
  is_presentation p = true -> attr_skipped (x_ignore_ids x) p v = false ->
  forall q, get_attr q (build_attrs anc (with_attrs x (l1 ++ (p, v) :: l2)))
          = get_attr q (build_attrs anc (with_css x (c1 ++ dc p v false :: c2))).
Proof. exact attr_eq_css. Qed.
Print Assumptions C09_attr_eq_css.

(* every pair of spellings (attribute / CSS / style, with or without a lone !important, at any position
   of its source) gives every name the same value *)
Theorem C09_spelling_independent : forall anc x p v sp sp' n n',
  silent p x = true -> is_presentation p = true ->
  spelling_ok x sp p v = true -> spelling_ok x sp' p v = true ->
  forall q, lookup q (build_attrs anc (declare x sp n p v)) = lookup q (build_attrs anc (declare x sp' n' p v)).
Proof. exact spelling_independent. Qed.
Print Assumptions C09_spelling_independent.

(* what the code does for mix-blend-mode / isolation / font-kerning: the attribute spelling is ignored *)
Theorem C09_style_only_attr_ignored : forall anc x p v l1 l2,
  is_style_only p = true ->
  forall q, get_attr q (build_attrs anc (with_attrs x (l1 ++ (p, v) :: l2)))
          = get_attr q (build_attrs anc (with_attrs x (l1 ++ l2))).
Proof. exact style_only_attr_ignored. Qed.
Print Assumptions C09_style_only_attr_ignored.

(* attribute < CSS < style for non-important; an important declaration is never replaced (so the first
   important one wins, regardless of source order); absent sources contribute nothing *)
Theorem C09_precedence : forall anc x p oa oc os l1 l2 c1 c2 s1 s2,
  silent p x = true -> x_attrs x = l1 ++ l2 -> x_css x = c1 ++ c2 -> x_style x = s1 ++ s2 ->
  is_presentation p = true ->
  (forall va, oa = Some va -> attr_skipped (x_ignore_ids x) p va = false) ->
  get_attr p (build_attrs anc
     (with_style (with_css (with_attrs x (opt_ins l1 (option_map (pair p) oa) l2))
                           (opt_ins c1 (option_map (fun vi => dc p (fst vi) (snd vi)) oc) c2))
                 (opt_ins s1 (option_map (fun vi => dc p (fst vi) (snd vi)) os) s2)))
  = step (step (ob oa (fun va => resolve_value anc (x_tag x) p va false))
               (ob oc (fun vi => resolve_value anc (x_tag x) p (fst vi) (snd vi))))
         (ob os (fun vi => resolve_value anc (x_tag x) p (fst vi) (snd vi))).
Proof. exact sources_lookup. Qed.
Print Assumptions C09_precedence.

Theorem C09_precedence_rule : forall p v1 i1 v2 i2 st,
  step st None = st /\ step None (Some (mk p v2 i2)) = Some (mk p v2 i2) /\
  step (Some (mk p v1 false)) (Some (mk p v2 i2)) = Some (mk p v2 i2) /\
  step (Some (mk p v1 true)) (Some (mk p v2 i2)) = Some (mk p v1 true) /\
  (forall anc tag, literal tag p v1 = true -> resolve_value anc tag p v1 i1 = Some (mk p v1 i1)).
Proof.
  intros. repeat split; try reflexivity. intros. apply literal_resolve. assumption.
Qed.
Print Assumptions C09_precedence_rule.

(* two matched CSS declarations in rule order *)
Theorem C09_precedence_two_css : forall anc x p v1 i1 v2 i2 c1 c2 c3,
  silent p x = true -> x_css x = c1 ++ c2 ++ c3 -> is_presentation p = true ->
  get_attr p (build_attrs anc (with_css x (c1 ++ dc p v1 i1 :: c2 ++ dc p v2 i2 :: c3)))
  = step (resolve_value anc (x_tag x) p v1 i1) (resolve_value anc (x_tag x) p v2 i2).
Proof. exact two_css. Qed.
Print Assumptions C09_precedence_two_css.

Theorem C09_inherit_inheritable : forall anc x p sp n,
  silent p x = true -> is_presentation p = true -> is_inheritable p = true ->
  allows_inherit_value p = true -> is_dropped_on (x_tag x) p = false ->
  spelling_ok x sp p inherit_keyword = true ->
  find_value (build_attrs anc (declare x sp n p inherit_keyword)) anc p
  = match find_value (build_attrs anc x) anc p with Some v => Some v | None => inherit_default p end.
Proof. exact inherit_inheritable. Qed.
Print Assumptions C09_inherit_inheritable.

Theorem C09_inherit_noninheritable : forall anc x p sp n,
  silent p x = true -> is_presentation p = true -> is_inheritable p = false ->
  allows_inherit_value p = true -> is_dropped_on (x_tag x) p = false ->
  spelling_ok x sp p inherit_keyword = true ->
  lookup p (build_attrs anc (declare x sp n p inherit_keyword))
  = match anc with
    | parent :: _ => match lookup p parent with Some v => Some v | None => inherit_default p end
    | [] => inherit_default p
    end.
Proof. exact inherit_noninheritable. Qed.
Print Assumptions C09_inherit_noninheritable.

Theorem C09_inherit_noninheritable_copy : forall anc parent x p v sp n sp' n',
  silent p x = true -> is_presentation p = true -> is_inheritable p = false ->
  allows_inherit_value p = true ->
  spelling_ok x sp p inherit_keyword = true -> spelling_ok x sp' p v = true ->
  lookup p parent = Some v -> literal (x_tag x) p v = true ->
  lookup p (build_attrs (parent :: anc) (declare x sp n p inherit_keyword))
  = lookup p (build_attrs (parent :: anc) (declare x sp' n' p v)).
Proof. exact inherit_noninheritable_copy. Qed.
Print Assumptions C09_inherit_noninheritable_copy.

Theorem C09_default_explicit : forall anc x p d sp n sp' n',
  silent p x = true -> is_presentation p = true -> is_dropped_on (x_tag x) p = false ->
  inherit_default p = Some d -> no_inherit_source anc p = true ->
  spelling_ok x sp p inherit_keyword = true -> spelling_ok x sp' p d = true ->
  lookup p (build_attrs anc (declare x sp n p inherit_keyword)) = Some d /\
  lookup p (build_attrs anc (declare x sp' n' p d)) = Some d.
Proof. exact default_explicit. Qed.
Print Assumptions C09_default_explicit.

(* a presentation attribute - whatever it says, `inherit` included - does not matter once a matched CSS declaration
   of the property exists (full strength since the fix 7ac03db; the former class inherit-copies-important is gone) *)
Theorem C09_shadowed_attr : forall anc x p va vc ic l1 l2 c1 c2,
  silent p x = true -> x_attrs x = l1 ++ l2 -> x_css x = c1 ++ c2 ->
  is_presentation p = true -> attr_skipped (x_ignore_ids x) p va = false ->
  literal (x_tag x) p vc = true ->
  lookup p (build_attrs anc (with_css (with_attrs x (l1 ++ (p, va) :: l2)) (c1 ++ dc p vc ic :: c2)))
  = lookup p (build_attrs anc (with_css x (c1 ++ dc p vc ic :: c2))).
Proof. exact shadowed_attr. Qed.
Print Assumptions C09_shadowed_attr.

(* every stored attribute carries the important flag of the declaration that produced it (also for `inherit`) *)
Theorem C09_flag_of_declaration : forall anc tag a v imp x,
  resolve_value anc tag a v imp = Some x -> a_imp x = imp /\ a_name x = a.
Proof. intros. split; [eapply resolve_value_flag | eapply resolve_value_name]; eassumption. Qed.
Print Assumptions C09_flag_of_declaration.

(* ---- known finding: full-strength clause refuted on the faithful model, guarded version proved ---- *)
(* class inherit-relative-value: `inherit` copies the specified value, which is resolved again in the
   child's context (font-size chain of units.rs::resolve_font_size) *)
Theorem C09_inherit_font_size_refuted :
  exists dpi base c1 v k, fs_relative v = true /\
    ~ (font_size dpi base (c1 ++ Some v :: repeat None k ++ [Some v])
       == font_size dpi base (c1 ++ Some v :: repeat None k ++ [None]))%Q.
Proof. exact fs_inherit_refuted. Qed.
Print Assumptions C09_inherit_font_size_refuted.

Theorem C09_inherit_font_size_guarded : forall dpi base c1 v k,
  fs_relative v = false ->
  (font_size dpi base (c1 ++ Some v :: repeat None k ++ [Some v])
   == font_size dpi base (c1 ++ Some v :: repeat None k ++ [None]))%Q.
Proof. exact fs_inherit_guarded. Qed.
Print Assumptions C09_inherit_font_size_guarded.

(* the generated classes agree with the specification's property table: which properties inherit only
   from the direct parent, and which value `inherit` falls back to *)
Theorem C09_noninheritable_table : forall a,
  is_presentation a = true -> allows_inherit_value a = true -> is_non_inheritable a = spec_noninherited a.
Proof. exact noninherit_spec. Qed.
Print Assumptions C09_noninheritable_table.

Theorem C09_default_table : forall a, inherit_default a = spec_initial a.
Proof. exact initial_spec. Qed.
Print Assumptions C09_default_table.

(* which properties only CSS / the style attribute can set, and which image-rendering values *)
Theorem C09_style_only_table : forall a, is_style_only a = spec_style_only a.
Proof. exact style_only_spec. Qed.
Print Assumptions C09_style_only_table.

Theorem C09_css_only_values_table : css_only_ok = true.
Proof. exact css_only_spec. Qed.
Print Assumptions C09_css_only_values_table.

(* the generated tables are coherent: every default belongs to a property that accepts `inherit`, no
   default is the keyword itself; style-only and non-inheritable names are presentation properties;
   `style` / `class` are not *)
Theorem C09_tables_coherent : forall a, default_entry_ok a = true /\ class_entry_ok a = true.
Proof. intro a. split; [apply default_table_ok | apply class_table_ok]. Qed.
Print Assumptions C09_tables_coherent.

Local Open Scope Q_scope.
(* `convert_abs` is the source-derived table of units.rs::convert_length (Gen/Units.v) *)
Theorem C09_unit_equiv : forall n dpi fs,
  oq_eq (convert_abs UIn n dpi fs) (convert_abs UPx (n * dpi) dpi fs) /\
  oq_eq (convert_abs UCm (n * (254 # 100)) dpi fs) (convert_abs UIn n dpi fs) /\
  oq_eq (convert_abs UMm (n * (254 # 10)) dpi fs) (convert_abs UIn n dpi fs) /\
  oq_eq (convert_abs UPt (n * 72) dpi fs) (convert_abs UIn n dpi fs) /\
  oq_eq (convert_abs UPc (n * 6) dpi fs) (convert_abs UIn n dpi fs) /\
  oq_eq (convert_abs UPt (n * 12) dpi fs) (convert_abs UPc n dpi fs) /\
  oq_eq (convert_abs UMm (n * 10) dpi fs) (convert_abs UCm n dpi fs) /\
  oq_eq (convert_abs UNone n dpi fs) (convert_abs UPx n dpi fs).
Proof. exact unit_equiv. Qed.
Print Assumptions C09_unit_equiv.

(* font-size is resolved by its own copy of the table (units.rs::resolve_font_size): same factors *)
Theorem C09_unit_font_size : forall u n dpi parent,
  u <> UPercent -> oq_eq (convert_abs u n dpi parent) (Some (fs_step dpi parent (u, n))).
Proof. exact unit_font_size_agrees. Qed.
Print Assumptions C09_unit_font_size.
Local Close Scope Q_scope.

(* ---- non-vacuity -------------------------------------------------------------------------------- *)
Local Open Scope string_scope.
Definition ex_parent : list attr := [mk A_Fill "green" true; mk A_Opacity "0.5" false].
Definition ex_x : xelem := xe E_Rect false [(A_Width, "10"); (A_Stroke, "blue")] [dc A_StrokeWidth "2" false] [].

(* the hypotheses of the spelling theorems are satisfiable, and the three spellings really store it *)
Example C09_nv_silent : silent A_Fill ex_x = true /\ is_presentation A_Fill = true
  /\ spelling_ok ex_x SpAttr A_Fill "red" = true.
Proof. vm_compute. repeat split. Qed.
Example C09_nv_spellings :
  lookup A_Fill (build_attrs [ex_parent] (declare ex_x SpAttr 1 A_Fill "red")) = Some "red" /\
  lookup A_Fill (build_attrs [ex_parent] (declare ex_x (SpCss true) 0 A_Fill "red")) = Some "red" /\
  lookup A_Fill (build_attrs [ex_parent] (declare ex_x (SpStyle false) 0 A_Fill "red")) = Some "red" /\
  lookup A_Fill (build_attrs [ex_parent] ex_x) = None.
Proof. vm_compute. repeat split. Qed.
(* precedence bites: CSS beats the attribute, important CSS beats style, first important wins *)
Example C09_nv_precedence :
  lookup A_Fill (build_attrs [] (xe E_Rect false [(A_Fill, "a")] [dc A_Fill "c" false] [dc A_Fill "s" false])) = Some "s" /\
  lookup A_Fill (build_attrs [] (xe E_Rect false [(A_Fill, "a")] [dc A_Fill "c" true] [dc A_Fill "s" true])) = Some "c" /\
  lookup A_Fill (build_attrs [] (xe E_Rect false [(A_Fill, "a")] [dc A_Fill "c" false] [])) = Some "c" /\
  lookup A_Fill (build_attrs [] (xe E_Rect false [] [dc A_Fill "c1" true; dc A_Fill "c2" true] [])) = Some "c1".
Proof. vm_compute. repeat split. Qed.
(* inherit: inheritable from a grand-parent, non-inheritable from the parent only, default otherwise;
   the copy takes the flag of the declaration that says inherit, not the source's *)
Example C09_nv_inherit :
  find_value (build_attrs [[]; ex_parent] (declare ex_x SpAttr 0 A_Fill "inherit")) [[]; ex_parent] A_Fill = Some "green" /\
  get_attr A_Fill (build_attrs [[]; ex_parent] (declare ex_x SpAttr 0 A_Fill "inherit")) = Some (mk A_Fill "green" false) /\
  lookup A_Opacity (build_attrs [ex_parent] (declare ex_x (SpStyle false) 0 A_Opacity "inherit")) = Some "0.5" /\
  lookup A_Opacity (build_attrs [[]; ex_parent] (declare ex_x (SpStyle false) 0 A_Opacity "inherit")) = Some "1" /\
  is_inheritable A_Fill = true /\ is_inheritable A_Opacity = false /\ no_inherit_source [[]; ex_parent] A_Opacity = true.
Proof. vm_compute. repeat split. Qed.
Example C09_nv_style_only :
  is_style_only A_MixBlendMode = true /\
  lookup A_MixBlendMode (build_attrs [] (xe E_G false [(A_MixBlendMode, "multiply")] [] [])) = None /\
  lookup A_MixBlendMode (build_attrs [] (xe E_G false [] [] [dc A_MixBlendMode "multiply" false])) = Some "multiply".
Proof. vm_compute. repeat split. Qed.
