(* C01  Parsing is total (partial by nature: native stack depth and wall-clock time are only observed).
   Property theorems only.  DEPTH_LIMIT / NODES_LIMIT (Gen/Consts.v), the guards and depth steps
   (Gen/LinkGuards.v) and the list of panic sites (Gen/Sites.v) are regenerated from /repo on every run. *)
From Coq Require Import ZArith NArith List Bool Lia QArith.
From RV Require Import Gen.Consts Gen.LinkGuards Model.SvgBuild Model.Links Proofs.SvgBuild Proofs.Links.
Import ListNotations.
Local Open Scope Z_scope.

(* ---- building the svgtree: the code's own depth counter makes the recursion end ---- *)
Theorem C01_build_fuel_adequate : forall x : xnode, snd (build x) <> OOut.
Proof. intro x. exact (proj1 (build_inv x)). Qed.
Print Assumptions C01_build_fuel_adequate.

Theorem C01_build_nodes_bounded : forall x : xnode, b_count (fst (build x)) <= NODES_LIMIT + 1.
Proof. intro x. exact (proj2 (proj2 (build_inv x))). Qed.
Print Assumptions C01_build_nodes_bounded.

Theorem C01_build_depth_bounded : forall x : xnode, b_maxdepth (fst (build x)) <= DEPTH_LIMIT + 2.
Proof. intro x. exact (proj1 (proj2 (build_inv x))). Qed.
Print Assumptions C01_build_depth_bounded.

(* ---- every `while let Some(id) = find..(doc) { attribute := none }` loop of the svgtree pre-pass leaves by
   itself after at most (#attributes of that name holding a reference) iterations ---- *)
Theorem C01_fix_loops_terminate : forall (d : snode),
  (forall e k, match run_loop (find_recursive_link e k) k d with (_, n, fin) => fin = true /\ (n <= count_links k d)%nat end) /\
  (forall k, match run_loop (find_recursive_pattern k) k d with (_, n, fin) => fin = true /\ (n <= count_links k d)%nat end).
Proof.
  intro d. split.
  - intros e k. pose proof (run_loop_adequate (find_recursive_link e k) k d (find_link_sound e k)) as H.
    destruct (run_loop (find_recursive_link e k) k d) as [[d' n] fin]. destruct H as (H1 & H2 & _). split; assumption.
  - intro k. pose proof (run_loop_adequate (find_recursive_pattern k) k d (find_pattern_sound k)) as H.
    destruct (run_loop (find_recursive_pattern k) k d) as [[d' n] fin]. destruct H as (H1 & H2 & _). split; assumption.
Qed.
Print Assumptions C01_fix_loops_terminate.

(* ---- the other recursions of the front end (shared with C03): HrefIter and the converter ---- *)
Theorem C01_href_iter_bounded : forall d n : snode,
  snd (href_iter d n) = false /\ (length (fst (href_iter d n)) <= S (length (sflat d)))%nat.
Proof. exact href_iter_bounded. Qed.
Print Assumptions C01_href_iter_bounded.

Theorem C01_convert_terminates : forall d : snode, convert d <> Fuel.
Proof. exact convert_terminates. Qed.
Print Assumptions C01_convert_terminates.

Theorem C01_front_end_total : forall x : xnode, parse x <> POutOfFuel.
Proof. exact parse_total. Qed.
Print Assumptions C01_front_end_total.

(* ---- guards of the validated constructors over the xq domain: `ctor x = Some v <-> condition` ---- *)
From RV Require Import Model.Base Model.Xq Proofs.Xq Gen.Sites Proofs.Ledger.
Local Open Scope Q_scope.

Theorem C01_guard_positive : forall x, x_positive x = true <-> exists q, x = XFin q /\ 0 <= q.
Proof. exact positive_iff. Qed.
Print Assumptions C01_guard_positive.

Theorem C01_guard_nonzero_positive : forall x, x_nonzero_positive x = true <-> exists q, x = XFin q /\ 0 < q.
Proof. exact nonzero_positive_iff. Qed.
Print Assumptions C01_guard_nonzero_positive.

Theorem C01_guard_normalized : forall x, x_normalized x = true <-> exists q, x = XFin q /\ 0 <= q /\ q <= 1.
Proof. exact normalized_iff. Qed.
Print Assumptions C01_guard_normalized.

Theorem C01_guard_size : forall w h, x_size w h = true <-> exists p q, w = XFin p /\ h = XFin q /\ 0 < p /\ 0 < q.
Proof. exact size_iff. Qed.
Print Assumptions C01_guard_size.

Theorem C01_guard_nonzero_rect : forall l t r b, x_nz_ltrb l t r b = true <->
  exists ql qt qr qb, l = XFin ql /\ t = XFin qt /\ r = XFin qr /\ b = XFin qb /\
                      ql < qr /\ qt < qb /\ qr - ql < F32_MAX /\ qb - qt < F32_MAX.
Proof. exact nz_ltrb_iff. Qed.
Print Assumptions C01_guard_nonzero_rect.

(* from_xywh = from_ltrb on the (overflowing) sums: an overflowing width can never produce a rectangle *)
Theorem C01_guard_from_xywh_overflow : forall x y h, x_nz_xywh (XFin x) y XPInf h = false.
Proof. intros. unfold x_nz_xywh, x_add. destruct y, (match h with XNaN => XNaN | _ => _ end); reflexivity. Qed.
Print Assumptions C01_guard_from_xywh_overflow.

(* guards established by the surrounding code at the unwrap sites that take computed values *)
Theorem C01_guard_sites :
  (forall w h, x_size w h = true -> x_positive w = true /\ x_positive h = true) /\
  (forall r, x_nonzero_positive r = true -> x_positive r = true) /\
  (forall x, x <> XNaN -> x_positive (x_bound01 x) = true).
Proof. exact (conj size_components_positive (conj valid_length_positive bound01_positive)). Qed.
Print Assumptions C01_guard_sites.

(* ---- panic-site ledger: every unwrap / expect / assert / debug_assert / unreachable / index expression of
   the C01 anchor files has an entry (proved guard, constant argument, reviewed, or registered finding), and
   the ledger has no entry for a site that no longer exists ---- *)
Theorem C01_sites_discharged :
  forallb site_discharged parser_sites = true /\ forallb entry_live ledger = true.
Proof. exact (conj sites_discharged ledger_tight). Qed.
Print Assumptions C01_sites_discharged.

(* ---- round 4 ---------------------------------------------------------------------------------------------------
   (a) validated constructors that live in /repo: the acceptance predicate is read from tree/mod.rs, the guard in front of
   every `NonZeroF32::new(v).unwrap()` from the function around the site (Gen/Totality.v); guard => acceptance. ---- *)
From RV Require Import Gen.Totality Model.Totality Proofs.Totality.
Local Close Scope Q_scope.

Theorem C01_guard_nonzero_f32 : forall x, x_nonzero_f32 x = true <-> x_approx_zero 4 x = false.
Proof. exact nonzero_f32_iff. Qed.
Print Assumptions C01_guard_nonzero_f32.

Theorem C01_nonzero_unwraps_guarded :
  forallb nonzero_site_guarded parser_sites = true /\
  (forall f g t v guard, In (f, g, t, v, guard) G_NONZERO_F32_UNWRAPS -> forall x, guard_passes guard x = true -> x_nonzero_f32 x = true).
Proof. exact (conj nonzero_sites_guarded nonzero_unwraps_safe). Qed.
Print Assumptions C01_nonzero_unwraps_guarded.

Theorem C01_guard_covers_sound : forall rejects guard, guard_covers rejects guard = true ->
  forall x, guard_passes guard x = true -> ctor_accepts rejects x = true.
Proof. exact guard_covers_sound. Qed.
Print Assumptions C01_guard_covers_sound.

(* non-vacuity: the feConvolveMatrix site exists, its guard lets the overflowed kernel sums through (+inf, -inf, NaN pass
   `approx_zero_ulps(4)`), and the constructor as written today accepts them; a constructor that also rejects non-finite
   values is not covered by that guard *)
Example C01_nv_convolve_guard :
  length G_NONZERO_F32_UNWRAPS = 1%nat /\
  forallb (fun x => guard_passes [AApproxZero 4] x && x_nonzero_f32 x) [XPInf; XNInf; XNaN; XFin 1%Q] = true /\
  guard_passes [AApproxZero 4] (XFin 0%Q) = false /\
  guard_covers [ANotFinite; AApproxZero 4] [AApproxZero 4] = false.
Proof. vm_compute. repeat split; reflexivity. Qed.

(* (b) every `loop` / `while` of parser/** and tree/mod.rs has a ledger entry for exactly its text, the shape the scanner reads
   off the source fits the entry, a loop that follows reference attributes has a PROVED termination class, and the ledger
   has no stale entry.  The proved classes: LFinder = C01_fix_loops_terminate; LVisited = the next theorem. ---- *)
Theorem C01_loops_discharged :
  forallb (loop_discharged_by loop_ledger) parser_loops = true /\ forallb loop_entry_live loop_ledger = true.
Proof. exact (conj loops_discharged loop_ledger_tight). Qed.
Print Assumptions C01_loops_discharged.

Theorem C01_visited_walk_terminates : forall (next : N -> option N) (univ : list N) (start : N),
  (forall a b, next a = Some b -> In b univ) ->
  exists chain, visited_walk next univ start = Some chain /\ (length chain <= S (length univ))%nat.
Proof. exact visited_walk_terminates. Qed.
Print Assumptions C01_visited_walk_terminates.

(* the walk that only stops at its starting node never returns on the rho-shaped chain 0 -> 1 -> 2 -> 3 -> 1 *)
Theorem C01_start_only_walk_refuted : forall fuel, walk_start_only rho_next fuel 0%N 0%N = None.
Proof. exact start_only_walk_diverges. Qed.
Print Assumptions C01_start_only_walk_refuted.

Example C01_nv_walk_rho : visited_walk rho_next [0; 1; 2; 3]%N 0%N = Some [3; 2; 1; 0]%N.
Proof. vm_compute. reflexivity. Qed.

(* recursion = the other way not to terminate: every group of directly / mutually recursive functions of the anchor files (strongly
   connected components of the generated call graph) has a ledger entry for exactly its member list; a group that follows
   reference attributes needs an explicit measure (RDepthProved = C01_build_depth_bounded / C01_build_fuel_adequate; RGuarded = depth
   limit, in-progress stack, node budget, marker instance limit); no stale entries *)
Theorem C01_recursions_discharged :
  forallb (rec_discharged_by rec_ledger) parser_recursions = true /\ forallb rec_entry_live rec_ledger = true.
Proof. exact (conj recursions_discharged rec_ledger_tight). Qed.
Print Assumptions C01_recursions_discharged.

(* `for` loops (82 in the anchor files) end when their iterator does: every iterator type implemented in the anchor files has a
   ledger entry for exactly its impl block (HrefIter = C01_href_iter_bounded; the four svgtree walks are argued, NOT proved), no
   stale entry, and no std iterator source that never ends (cycle / repeat / from_fn / successors / open range) is used *)
Theorem C01_iterators_discharged :
  forallb (iter_discharged_by iter_ledger) parser_iterators = true /\ forallb iter_entry_live iter_ledger = true /\
  parser_unbounded_sources = [].
Proof. exact iterators_discharged. Qed.
Print Assumptions C01_iterators_discharged.

(* the id generators (LGenId: converter.rs gen_*_id, filter.rs gen_result): whatever ids are taken and wherever the counter
   stands, the loop returns within |taken| + 1 iterations (the fuel) with a larger index whose id is not taken *)
Theorem C01_gen_id_terminates : forall (taken : list N) (n : N),
  exists r k, gen_id taken (S (length taken)) n = Some (r, k) /\ ~ In r taken /\ (n < r)%N.
Proof. exact gen_id_terminates. Qed.
Print Assumptions C01_gen_id_terminates.

Example C01_nv_gen_id : gen_id [1; 2; 3; 5; 7]%N 6 0%N = Some (4%N, 3%nat).
Proof. vm_compute. reflexivity. Qed.

(* (c) the definition caches: requests for cacheable definitions cause at most one conversion per definition, in any order
   and however many requests there are (requests arrive one after the other: the converter is not re-entered for a
   definition in progress because reference cycles are removed first, C03); without the lookup every request converts.
   The lookup sites and their conditions are pinned to the source. ---- *)
Theorem C01_cached_conversions_linear : forall (U : list N) (reqs : list (N * bool)),
  (forall r, In r reqs -> snd r = true /\ In (fst r) U) -> (conversions [] reqs <= length U)%nat.
Proof. exact cached_conversions_linear. Qed.
Print Assumptions C01_cached_conversions_linear.

Theorem C01_uncached_conversions_all : forall reqs cache, (forall r, In r reqs -> snd r = false) -> conversions cache reqs = length reqs.
Proof. exact uncached_conversions_all. Qed.
Print Assumptions C01_uncached_conversions_all.

From Coq Require String.
Import String.StringSyntax.
Local Open Scope string_scope.
Theorem C01_cache_sites_pinned :
  lookup_unconditional "paint" = true /\
  lookup_under "clip_paths" "cacheable" "cacheable = is_cacheable(node)" = true /\
  lookup_under "masks" "cacheable" "cacheable = is_cacheable(node)" = true /\
  lookup_under "filters" "cacheable" "cacheable = units == Units::UserSpaceOnUse && primitive_units == Units::UserSpaceOnUse" = true /\
  length G_CACHE_LOOKUPS = 4%nat /\
  G_CACHE_INSERTS = [("paint", "convert", "insert"); ("clip_paths", "convert", "insert"); ("masks", "convert", "insert");
                     ("masks", "convert", "insert"); ("filters", "convert_url", "insert")].
Proof. exact cache_sites_pinned. Qed.
Print Assumptions C01_cache_sites_pinned.
Local Close Scope string_scope.

(* 1000 requests for 3 cacheable definitions: 3 conversions; the same requests uncached: 1000 *)
Example C01_nv_cache :
  conversions [] (flat_map (fun _ => [(1, true); (2, true); (3, true); (2, true)]%N) (seq 0 250)) = 3%nat /\
  conversions [] (flat_map (fun _ => [(1, false); (2, false); (3, false); (2, false)]%N) (seq 0 250)) = 1000%nat.
Proof. vm_compute. split; reflexivity. Qed.

(* ---- "time proportional to the input" is REFUTED at the model level too (known class
   reference-fan-out-exponential): k non-cacheable masks, each referenced three times by the next, make the
   converter enter 1 + 3 + ... + 3^(k-1) definitions although the document has 4k + 2 elements ---- *)
Local Open Scope N_scope.
Definition fan_mask (i : nat) (prev : option N) : xnode :=
  XN (4 * i + 1) TMask (Some (N.of_nat i + 1)) false []
     (match prev with
      | None => [XN (4 * i + 2) TShape None false [] []]
      | Some p => [XN (4 * i + 2) TShape None false [(AMask, Some p)] [];
                   XN (4 * i + 3) TShape None false [(AMask, Some p)] [];
                   XN (4 * i + 4) TShape None false [(AMask, Some p)] []]
      end).
Fixpoint fan_masks (k : nat) : list xnode :=
  match k with
  | O => []
  | S j => fan_masks j ++ [fan_mask j (match j with O => None | S _ => Some (N.of_nat j) end)]
  end.
Definition fan_doc (k : nat) : xnode :=
  XN 0 TSvg None false [] (fan_masks k ++ [XN 1000 TShape (Some 500) false [(AMask, Some (N.of_nat k))] []]).

Example C01_cost_refuted :
  match parse (fan_doc 7) with
  | POk out log => (length (xflat (fan_doc 7)) = 28 /\ length log = 1093)%nat
  | _ => False
  end.
Proof. vm_compute. split; reflexivity. Qed.

(* ---- non-vacuity: a 3-level use chain builds to Ok with the expected node count; 1025 nested groups give Err ---- *)
Fixpoint nest (n : nat) : xnode :=
  match n with O => XN 0 TShape None false [] [] | S m => XN n TG None false [] [nest m] end.
Example C01_nv_depth_limit :
  snd (build (XN 5000 TSvg None false [] [nest 1023])) <> OErr EDepth /\
  snd (build (XN 5000 TSvg None false [] [nest 1024])) = OErr EDepth.
Proof. split; vm_compute; [discriminate|reflexivity]. Qed.

Example C01_nv_use_chain :
  match build (XN 0 TSvg None false []
                 [XN 1 TG (Some 1) false [] [XN 2 TUse None false [(AHref, Some 2)] []];
                  XN 3 TG (Some 2) false [] [XN 4 TUse None false [(AHref, Some 3)] []];
                  XN 5 TG (Some 3) false [] [XN 6 TShape None false [] []]]) with
  | (st, OOk _) => b_count st = 14%Z
  | _ => False
  end.
Proof. vm_compute. reflexivity. Qed.
