(* C02 (extension round 4): executable glue over the SOURCE-DERIVED definitions of Gen/C02Sites.v (surface-sized buffers,
   pattern tile, move of a filter primitive subregion into the region frame) and Gen/LeafLoops.v (loop bounds of the filter kernels). *)
From RV Require Import Model.Base Model.RenderPrims Gen.C02Sites Gen.LeafLoops.
From Coq Require Import String.
Local Open Scope Z_scope.

(* a chain of nested surface-sized buffers: clip of a clip child of a mask of a layer ...  every link is one of the
   generated size functions *)
Fixpoint nest (fs : list (Z * Z -> Z * Z)) (s : Z * Z) : Z * Z :=
  match fs with [] => s | f :: r => nest r (f s) end.

(* i64 range: the arithmetic of filter::translate_checked is done in i64 *)
Definition in_i64 (z : Z) : bool := (-9223372036854775808 <=? z) && (z <=? 9223372036854775807).

(* `for _ in lo..hi` runs max 0 (hi - lo) times *)
Definition range_trips (lo hi : Z) : Z := Z.max 0 (hi - lo).
(* box blur, one line of n pixels, radius r >= 1: number of writes to the output line, iterations in total *)
Definition bb_writes (r n : Z) : Z :=
  range_trips (bb_head_lo r n) (bb_head_hi r n) +
  (if bb_skip r n then 0 else range_trips (bb_mid_lo r n) (bb_mid_hi r n) + range_trips (bb_tail_lo r n) (bb_tail_hi r n)).
Definition bb_trips (r n : Z) : Z := range_trips (bb_pre_lo r n) (bb_pre_hi r n) + bb_writes r n.

(* `while cond t { t = step t }` with fuel: final value and trip count, None = fuel exhausted *)
Fixpoint while_loop (fuel : nat) (cond : Z -> bool) (step : Z -> Z) (t : Z) : option (Z * Z) :=
  if cond t then
    match fuel with
    | O => None
    | S f => match while_loop f cond step (step t) with Some (v, n) => Some (v, n + 1) | None => None end
    end
  else Some (t, 0).
(* convolve matrix, edgeMode=wrap: the source coordinate for image position p, kernel cell o *)
Definition conv_wrap (fuel : nat) (p target o dim : Z) : option (Z * Z) :=
  match while_loop fuel conv_wrap_cond (fun t => conv_wrap_step t dim) (conv_start p target o) with
  | Some (t, n) => Some (conv_wrap_fin t dim, n)
  | None => None
  end.
(* IIR blur, one column *)
Definition iir_up (fuel : nat) (w h : Z) : option (Z * Z) :=
  while_loop fuel iir_up_cond (fun y => iir_up_step y w) (iir_up_start (iir_buf_len w h) w).
Definition iir_down (fuel : nat) (w h : Z) : option (Z * Z) :=
  while_loop fuel (fun y => iir_down_cond y (iir_buf_len w h)) (fun y => iir_down_step y w) (iir_down_start w).
