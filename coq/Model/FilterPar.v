(* C04, second pass: feConvolveMatrix divisor around the source-derived slices of Gen/LeafFilterPar.v.  Executable only. *)
From RV Require Import Model.Base Model.StylePrims Model.FilterParPrims Gen.LeafFilterPar.
Local Open Scope Q_scope.

(* `matrix.iter().sum()`: f32 additions from 0, overflowing to an infinity *)
Definition kernel_sum (m : list xq) : xq := fold_left xq_add m (Fin 0).
(* the divisor handed to NonZeroF32::new(..).unwrap(), None = the primitive is replaced by the transparent dummy *)
Definition convolve_div (attr : option xq) (m : list xq) : option xq := convolve_divisor attr (kernel_round (kernel_sum m)).
Definition xq_nonneg_fin (x : xq) : bool := match x with Fin q => Qleb 0 q | _ => false end.
