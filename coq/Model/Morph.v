(* C02: filter::morphology::apply on one channel of a small image (channels are independent).  The window
   (morph_columns, morph_rows, morph_target) is SOURCE-DERIVED (Gen/LeafMorph.v); the scan itself is hand-modelled
   and tied by the `c02-morph` correspondence (real kernel through resvg::verif_hooks::kernels::morphology). *)
From RV Require Import Model.Base Model.RenderPrims Gen.LeafMorph.
Local Open Scope Z_scope.

Definition zrange (n : Z) : list Z := map Z.of_nat (seq 0 (Z.to_nat n)).
Definition pix (w h : Z) (d : list Z) (x y : Z) : option Z :=
  if (0 <=? x) && (x <? w) && (0 <=? y) && (y <? h) then nth_error d (Z.to_nat (y * w + x)) else None.

Definition morph_chan (erode : bool) (rx ry : Q) (w h : Z) (d : list Z) : list Z :=
  let cols := morph_columns rx w in
  let rows := morph_rows ry h in
  let tx0 := morph_target cols in
  let ty0 := morph_target rows in
  map (fun i =>
         let x := i mod w in
         let y := i / w in
         fold_left (fun acc oy =>
           fold_left (fun acc ox =>
             match pix w h d (x - tx0 + ox) (y - ty0 + oy) with
             | Some p => if erode then Z.min p acc else Z.max p acc
             | None => acc
             end) (zrange cols) acc) (zrange rows) (if erode then 255 else 0))
      (zrange (w * h)).

(* number of window cells visited: what the time of the kernel is proportional to *)
Definition morph_ops (rx ry : Q) (w h : Z) : Z := w * h * (morph_columns rx w * morph_rows ry h).

Fixpoint zlist_eqb (a b : list Z) : bool :=
  match a, b with
  | [], [] => true
  | x :: a', y :: b' => (x =? y) && zlist_eqb a' b'
  | _, _ => false
  end.
(* one recorded kernel call: operator, radii, size, input channel, output channel *)
Definition chk_morph (c : bool * Q * Q * Z * Z * list Z * list Z) : bool :=
  let '(erode, rx, ry, w, h, d, out) := c in zlist_eqb (morph_chan erode rx ry w h d) out.
