(* C04, extension round 4 (second pass): the path clause over the builder model of C10 (Model/ShapePath.v, imported
   read-only; the builder scripts of Gen/ShapePaths.v are transcribed from shapes.rs on every run).
   Executable definitions only. *)
From RV Require Import Model.Base Model.ShapePath Gen.ShapePaths.
Local Open Scope Q_scope.

Definition is_move (s : seg) : bool := match s with SM _ _ => true | _ => false end.
(* no two consecutive MoveTo anywhere (PathBuilder::move_to overwrites a trailing MoveTo) *)
Fixpoint no_double_move (l : list seg) : bool :=
  match l with
  | a :: r => match r with b :: _ => negb (is_move a && is_move b) && no_double_move r | [] => true end
  | [] => true
  end.
Definition starts_with_move (p : list seg) : bool := match p with SM _ _ :: _ => true | _ => false end.
(* the clause: at least two segments, starts with a move, never two moves in a row *)
Definition path_valid (p : list seg) : bool := (2 <=? length p)%nat && starts_with_move p && no_double_move p.
Definition opath_valid (o : option (list seg)) : bool := match o with Some p => path_valid p | None => true end.

(* a simplified path-data segment that draws *)
Definition draws (s : simple_seg) : bool := match s with PLine _ _ | PQuad _ _ _ _ | PCurve _ _ _ _ _ _ => true | _ => false end.
