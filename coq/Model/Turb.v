(* C02: the i32 arithmetic of filter::turbulence that a document can drive to the edge of the range (feTurbulence seed,
   numOctaves with stitchTiles).  `turb_seed_steps`, `turb_stitch_steps`, `turb_wrap_steps` (Gen/LeafTurb.v) list every
   arithmetic intermediate of the SOURCE expressions as unbounded integers: the Rust code is free of overflow (a panic
   with overflow checks, a silent wrap without) exactly when every listed step lies in the i32 range. *)
From RV Require Import Model.Base Model.RenderPrims Gen.LeafTurb.
Local Open Scope Z_scope.

Definition all_i32 (l : list Z) : bool := forallb in_i32 l.
Definition i32P (z : Z) : Prop := I32_MIN <= z <= I32_MAX.

(* iterating the per-octave stitch update, as `turbulence` does num_octaves times *)
Fixpoint stitch_iter (n : nat) (s : Z * Z * Z * Z) : bool :=
  match n with
  | O => true
  | S k => let '(w, x, h, y) := s in
           all_i32 (turb_stitch_steps w x h y) && stitch_iter k (turb_stitch_next w x h y)
  end.
(* checker used by the check on edge inputs: seed normalisation for seed <= 0, n octaves of stitch updates *)
Definition chk_turb_seed (seed : Z) : bool := if seed <=? 0 then all_i32 (turb_seed_steps seed) else true.
Definition chk_turb_stitch (n : Z) (w x h y : Z) : bool := stitch_iter (Z.to_nat n) (w, x, h, y).
