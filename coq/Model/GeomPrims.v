(* Hand-written models of the tiny-skia-path primitives that source-derived leaf functions call.
   Third-party code: modelled, tied to the implementation by the correspondence ops only. *)
From RV Require Import Model.Base.
Local Open Scope Q_scope.

Class HasWH (A : Type) := { g_width : A -> Q; g_height : A -> Q }.
#[global] Instance HasWH_rect : HasWH qrect := {| g_width := rw; g_height := rh |}.
#[global] Instance HasWH_size : HasWH qsize := {| g_width := sw; g_height := sh |}.

(* tiny_skia_path::size::size_scale_f64 *)
Definition size_scale (s1 s2 : qsize) (expand : bool) : qsize :=
  let rw := sh s2 * sw s1 / sh s1 in
  let with_h := if expand then Qleb rw (sw s2) else Qgeb rw (sw s2) in
  if negb with_h then {| sw := rw; sh := sh s2 |}
  else {| sw := sw s2; sh := sw s2 * sh s1 / sw s1 |}.
Definition size_scale_to (s1 s2 : qsize) : qsize := size_scale s1 s2 false.
Definition size_expand_to (s1 s2 : qsize) : qsize := size_scale s1 s2 true.

Definition pos_size (s : qsize) : Prop := 0 < sw s /\ 0 < sh s.
Definition pos_rect (r : qrect) : Prop := 0 < rw r /\ 0 < rh r.
