(* C04, final pass: names used by the marker-angle slices of Gen/LeafMarkerAngle.v (parser/marker.rs calc_angle) over xq.
   atan2, the f32 remainder `%` (fmod) and hypot are PARAMETERS of the generated functions: the theorems state the contract
   they rely on as explicit hypotheses (Proofs/Marker.v). *)
From RV Require Import Model.Base Model.StylePrims.
Local Open Scope Q_scope.
(* std::f32::consts::PI, FRAC_PI_2 and the factor of f32::to_degrees, exact f32 values *)
Definition F32_PI : xq := Fin (13176795 # 4194304).
Definition F32_FRAC_PI_2 : xq := Fin (13176795 # 8388608).
Definition F32_DEG : Q := 15019745 # 262144.
Definition xq_to_degrees (x : xq) : xq := xq_mul x (Fin F32_DEG).
Definition xq_abs (x : xq) : xq := match x with Fin q => Fin (Qabs_s q) | NInf => PInf | o => o end.
