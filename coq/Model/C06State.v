(* C06 (extension round 4): state that can outlive a call, histories, schedules, and sort order.
   Executable definitions only; lemmas are in Proofs/C06State.v.

   A *cell* is one piece of state that may outlive a render/parse call (one entry of the source-derived ledger
   c06_shared_sites: static, thread_local!, Mutex, OnceCell, pool, counter ...).  Every cell has a class; the class
   is the REASON why it cannot make the output depend on what happened before or concurrently:

     ImmInit     immutable after initialisation with a deterministic (const) initialiser
     ExtInput    read-only view of something the property counts as input (a file named by the document, the
                 font database handed in through Options)
     KeyedDet g  a memo keyed deterministically: the entry for key k, when present, is G g k (hit = recompute)
     NotOutput   written, but never read on a path to the output (statistics, logging)
     CallLocal   created and dropped inside one call (lives in the call's own state)
     AddrEq      an address used through equality only (Arc::ptr_eq): no content, not a cell of the machine
     Mutable     none of the above: read and written across calls  -- UNDISCHARGED

   The machine: a call is a list of instructions (chosen by the input) over an accumulator; the shared store
   persists from call to call and is shared by all threads; the local store is fresh per call.  F, G, Hc are
   arbitrary functions (the actual arithmetic of the renderer), so every theorem holds for all of them. *)
From Coq Require Import List Bool Arith PeanoNat.
Import ListNotations.

Inductive cls :=
| ImmInit | ExtInput | KeyedDet (g : nat) | NotOutput | CallLocal | AddrEq | Mutable.

Definition discharged (c : cls) : bool := match c with Mutable => false | _ => true end.

Inductive instr :=
| IPure (f : nat)            (* acc := F f acc x            (pure computation on the input) *)
| IRead (c : nat)            (* acc := Hc acc (value of c)  *)
| IWrite (c : nat)           (* value of c := acc           *)
| IMemo (c : nat) (f : nat). (* acc := memo[c][acc] or else G f acc, which is then stored *)

Section StateMachine.
  Variable F : nat -> nat -> nat -> nat.
  Variable G : nat -> nat -> nat.
  Variable Hc : nat -> nat -> nat.
  Variable classes : list cls.          (* class of cell 0, 1, ... : the ledger *)
  Variable init : nat -> nat.           (* initial value of each cell *)
  Variable prog : nat -> list instr.    (* the library: the instruction sequence a call executes on input x *)

  Definition cellv := (nat * list (nat * nat))%type.     (* plain value, memo entries *)
  Definition store := nat -> cellv.
  Definition upd (s : store) (c : nat) (v : cellv) : store := fun c' => if Nat.eqb c' c then v else s c'.
  Definition store0 : store := fun c => (init c, []).
  Fixpoint lookup (k : nat) (l : list (nat * nat)) : option nat :=
    match l with [] => None | (k', v) :: r => if Nat.eqb k k' then Some v else lookup k r end.
  Definition memo (f k : nat) (cv : cellv) : nat * cellv :=
    match lookup k (snd cv) with
    | Some v => (v, cv)
    | None => (G f k, (fst cv, (k, G f k) :: snd cv))
    end.

  Definition loc := (nat * store)%type.                  (* accumulator, call-local cells *)
  Definition loc0 : loc := (0, store0).
  Definition is_local (c : nat) : bool := match nth_error classes c with Some CallLocal => true | _ => false end.

  (* what each class permits: this is the meaning of the class *)
  Definition instr_ok (i : instr) : bool :=
    match i with
    | IPure _ => true
    | IRead c => match nth_error classes c with
                 | Some ImmInit | Some ExtInput | Some CallLocal | Some Mutable => true | _ => false end
    | IWrite c => match nth_error classes c with
                  | Some NotOutput | Some CallLocal | Some Mutable => true | _ => false end
    | IMemo c f => match nth_error classes c with
                   | Some (KeyedDet g) => Nat.eqb f g | Some CallLocal | Some Mutable => true | _ => false end
    end.

  (* local part of a step (used by both the real and the pure step, so they agree syntactically) *)
  Definition lstep (x : nat) (i : instr) (l : loc) : loc :=
    let '(acc, ls) := l in
    match i with
    | IPure f => (F f acc x, ls)
    | IRead c => (Hc acc (fst (ls c)), ls)
    | IWrite c => (acc, upd ls c (acc, snd (ls c)))
    | IMemo c f => let (v, cv) := memo f acc (ls c) in (v, upd ls c cv)
    end.
  Definition cell_of (i : instr) : option nat :=
    match i with IPure _ => None | IRead c | IWrite c | IMemo c _ => Some c end.
  Definition local_instr (i : instr) : bool :=
    match cell_of i with None => true | Some c => is_local c end.

  (* the real step: shared cells are read from / written to the shared store *)
  Definition step (x : nat) (i : instr) (l : loc) (sh : store) : loc * store :=
    if local_instr i then (lstep x i l, sh)
    else let '(acc, ls) := l in
      match i with
      | IPure f => ((F f acc x, ls), sh)
      | IRead c => ((Hc acc (fst (sh c)), ls), sh)
      | IWrite c => ((acc, ls), upd sh c (acc, snd (sh c)))
      | IMemo c f => let (v, cv) := memo f acc (sh c) in ((v, ls), upd sh c cv)
      end.

  (* the pure step: what the step does to the call's own state when no undischarged cell exists *)
  Definition pstep (x : nat) (i : instr) (l : loc) : loc :=
    if local_instr i then lstep x i l
    else let '(acc, ls) := l in
      match i with
      | IPure f => (F f acc x, ls)
      | IRead c => (Hc acc (init c), ls)
      | IWrite c => (acc, ls)
      | IMemo c f => (G f acc, ls)
      end.

  Fixpoint exec (x : nat) (p : list instr) (l : loc) (sh : store) : loc * store :=
    match p with [] => (l, sh) | i :: r => let (l', sh') := step x i l sh in exec x r l' sh' end.
  Fixpoint pexec (x : nat) (p : list instr) (l : loc) : loc :=
    match p with [] => l | i :: r => pexec x r (pstep x i l) end.

  (* one call of the library on input x in shared state sh: (output, new shared state) *)
  Definition call (x : nat) (sh : store) : nat * store :=
    let r := exec x (prog x) loc0 sh in (fst (fst r), snd r).
  Definition pure_out (x : nat) : nat := fst (pexec x (prog x) loc0).
  (* a history: the inputs processed before, one after the other, in one process *)
  Definition hrun (h : list nat) (sh : store) : store := fold_left (fun s x => snd (call x s)) h sh.

  (* ---- N threads over one shared store, any schedule -------------------------------------------------- *)
  Record thread := { t_x : nat; t_prog : list instr; t_loc : loc }.
  Definition spawn (x : nat) : thread := {| t_x := x; t_prog := prog x; t_loc := loc0 |}.
  Definition tstep (th : thread) (sh : store) : thread * store :=
    match t_prog th with
    | [] => (th, sh)
    | i :: r => let (l', sh') := step (t_x th) i (t_loc th) sh in
                ({| t_x := t_x th; t_prog := r; t_loc := l' |}, sh')
    end.
  Fixpoint set_nth (l : list thread) (n : nat) (t : thread) : list thread :=
    match l, n with
    | [], _ => []
    | _ :: r, O => t :: r
    | a :: r, S m => a :: set_nth r m t
    end.
  (* a schedule is the list of thread indices that take the next step, in order *)
  Fixpoint interleave (sched : list nat) (ths : list thread) (sh : store) : list thread * store :=
    match sched with
    | [] => (ths, sh)
    | t :: r => match nth_error ths t with
                | None => interleave r ths sh
                | Some th => let (th', sh') := tstep th sh in interleave r (set_nth ths t th') sh'
                end
    end.
  Definition final (th : thread) : loc := pexec (t_x th) (t_prog th) (t_loc th).
  Definition thread_ok (th : thread) : bool := forallb instr_ok (t_prog th).
End StateMachine.

(* ---- order of sorted containers ------------------------------------------------------------------------
   Vec::sort / sort_by / sort_by_key / sort_by_cached_key are STABLE: modelled by insertion sort (a function).
   sort_unstable* may return any sorted permutation: modelled as "some list that is a sorted permutation". *)
Section SortModel.
  Variable A : Type.
  Variable key : A -> nat.
  Fixpoint sinsert (a : A) (l : list A) : list A :=
    match l with
    | [] => [a]
    | b :: r => if Nat.leb (key a) (key b) then a :: b :: r else b :: sinsert a r
    end.
  Fixpoint ssort (l : list A) : list A := match l with [] => [] | a :: r => sinsert a (ssort r) end.
  Definition keyfilter (k : nat) (l : list A) : list A := filter (fun a => Nat.eqb (key a) k) l.
End SortModel.

(* the CSS cascade as usvg applies it (parse.rs: `for rule in &style_sheet.rules { .. insert_attribute .. }`, rules
   sorted by specificity by simplecss): the LAST matching rule wins.  A rule = (specificity, value). *)
Definition cascade (rules : list (nat * nat)) : option nat := option_map snd (last (map Some rules) None).
Definition css_value (source_order : list (nat * nat)) : option nat := cascade (ssort _ fst source_order).
