(* Model of usvg::writer::write_num over exact rationals (f32 rounding of finite values idealised):
   an integral value is written exactly (through `as i32` below the source-derived bound, as is above it);
   any other value is rounded half away from zero to `precision` decimals, the precision indexing the
   source-derived POW_VEC (clamped or not, as the source says).  Executable Gallina only. *)
From RV Require Import Gen.WriterNum.
From Coq Require Import ZArith QArith Qround Qabs List Bool.
Import ListNotations.
Local Open Scope Z_scope.

Inductive wres := WOk (v : Q) | WPanic.

Definition I32_MIN : Z := -2147483648.
Definition I32_MAX : Z := 2147483647.
(* Rust `x as i32` of an integral float: saturating *)
Definition as_i32 (z : Z) : Z := Z.max I32_MIN (Z.min I32_MAX z).

Definition is_integral (x : Q) : bool := (Qnum x mod Zpos (Qden x) =? 0).
(* f32::round: half away from zero *)
Definition roundQ (x : Q) : Z :=
  if Qle_bool 0 x then Qfloor (x + (1 # 2)) else - Qfloor (- x + (1 # 2)).
Definition truncQ (x : Q) : Z := if Qle_bool 0 x then Qfloor x else - Qfloor (- x).

(* POW_VEC[(precision as usize).min(POW_VEC.len() - 1)]  /  POW_VEC[precision as usize] *)
Definition pow_index (precision : Z) : Z :=
  if pow_index_clamped then Z.min precision (Z.of_nat (length pow_vec) - 1) else precision.

Definition write_num (precision : Z) (x : Q) : wres :=
  if is_integral x then
    match int_shortcut_bound with
    | Some b => if Qle_bool (inject_Z b) (Qabs x) then WOk x else WOk (inject_Z (as_i32 (truncQ x)))
    | None => WOk (inject_Z (as_i32 (truncQ x)))
    end
  else
    match nth_error pow_vec (Z.to_nat (pow_index precision)) with
    | Some pw => WOk (inject_Z (roundQ (x * inject_Z pw)) / inject_Z pw)
    | None => WPanic
    end.

(* boolean form of the error bound, for the search phase *)
Definition Qabs' (a : Q) : Q := if Qle_bool 0 a then a else - a.
Definition chk_write_num (precision : Z) (x : Q) : bool :=
  match write_num precision x with
  | WOk v =>
      match nth_error pow_vec (Z.to_nat (pow_index precision)) with
      | Some pw => Qle_bool (Qabs' (v - x) * (2 # 1) * inject_Z pw) 1
      | None => false
      end
  | WPanic => false
  end.
