(* C09: value notation accepted at the converter's READ SITES of presentation attributes.

   Gen/ReadSites.v lists every read of a presentation attribute in crates/usvg/src/parser/*.rs with the Rust
   type the value is parsed with (regenerated from the source on every run).  Here: the notation class of a
   reader type, the specification table `spec_classes` (which notations a property accepts: SVG 1.1 / CSS
   property index, hand-transcribed), and the boolean checkers the theorems of Proofs/CascadeSites.v are
   decided with.  No proofs in this file. *)
From Coq Require Import String.
From RV Require Import Model.Base Gen.SvgTables Gen.Units Model.CascadeBase Gen.SvgInsert Model.Cascade Gen.ReadSites.
Local Open Scope string_scope.

Inductive nclass :=
| NC_Opacity       (* <number> | <percentage>, clamped to 0..1 *)
| NC_Number        (* <number> only *)
| NC_Length        (* <length>: number with an optional unit *)
| NC_LengthList
| NC_Color         (* <color>: names, #rgb[a], #rrggbb[aa], rgb[a](), hsl[a]() *)
| NC_Paint         (* none | currentColor | <color> | url() [fallback] | context-* *)
| NC_Link          (* url(#id) / none *)
| NC_Transform
| NC_Origin
| NC_PaintOrder
| NC_Keyword       (* a keyword set matched literally (enum FromValue, `&str` compared with literals) *)
| NC_Presence      (* has_attribute: no value is read *)
| NC_Unknown.

Definition nclass_idx (c : nclass) : N :=
  match c with
  | NC_Opacity => 0 | NC_Number => 1 | NC_Length => 2 | NC_LengthList => 3 | NC_Color => 4 | NC_Paint => 5
  | NC_Link => 6 | NC_Transform => 7 | NC_Origin => 8 | NC_PaintOrder => 9 | NC_Keyword => 10
  | NC_Presence => 11 | NC_Unknown => 12
  end%N.
Definition nclass_eqb (a b : nclass) : bool := N.eqb (nclass_idx a) (nclass_idx b).

Definition str_in (s : string) (l : list string) : bool := existsb (String.eqb s) l.

(* reader type (as written by tools/gen_readsites.py) -> notation class *)
Definition reader_class (r : string) : nclass :=
  if String.eqb r "Opacity" then NC_Opacity
  else if str_in r ["f32"; "f64"] then NC_Number
  else if String.eqb r "Length" then NC_Length
  else if String.eqb r "Vec<Length>" then NC_LengthList
  else if str_in r ["svgtypes::Color"; "&str>svgtypes::Color"] then NC_Color
  else if str_in r ["svgtypes::Paint"; "&str>svgtypes::Paint"] then NC_Paint
  else if String.eqb r "SvgNode" then NC_Link
  else if str_in r ["Transform"; "svgtypes::Transform"; "&str>svgtypes::Transform"] then NC_Transform
  else if str_in r ["TransformOrigin"; "svgtypes::TransformOrigin"] then NC_Origin
  else if String.eqb r "svgtypes::PaintOrder" then NC_PaintOrder
  else if str_in r ["&str"; "_"] then NC_Keyword
  else if prefix "enum:" r then NC_Keyword
  else if String.eqb r "presence" then NC_Presence
  else NC_Unknown.

Definition site_class (s : read_site) : nclass := reader_class (rs_reader s).
Definition value_site (s : read_site) : bool := negb (nclass_eqb (site_class s) NC_Presence).

(* the opacity family: <number> | <percentage> everywhere *)
Definition opacity_family (a : AId) : bool :=
  match a with
  | A_Opacity | A_FillOpacity | A_StrokeOpacity | A_StopOpacity | A_FloodOpacity => true
  | _ => false
  end.

(* SPECIFICATION: the notation classes a presentation property is read with, in nclass_idx order *)
Definition spec_classes (a : AId) : list nclass :=
  match a with
  | A_Opacity | A_FillOpacity | A_StrokeOpacity | A_StopOpacity | A_FloodOpacity => [NC_Opacity]
  | A_StrokeMiterlimit => [NC_Number]
  | A_StrokeWidth | A_StrokeDashoffset | A_LetterSpacing | A_WordSpacing => [NC_Length]
  | A_StrokeDasharray => [NC_LengthList]
  | A_FontSize | A_BaselineShift => [NC_Length; NC_Keyword]
  | A_Fill | A_Stroke | A_BackgroundColor => [NC_Paint]
  | A_Color | A_FloodColor | A_StopColor | A_LightingColor => [NC_Color]
  | A_ClipPath | A_Mask | A_MarkerStart | A_MarkerMid | A_MarkerEnd => [NC_Link]
  | A_Transform => [NC_Transform]
  | A_TransformOrigin => [NC_Origin]
  | A_PaintOrder => [NC_PaintOrder]
  | _ => [NC_Keyword]
  end.

Definition same_fn (s t : read_site) : bool :=
  String.eqb (rs_file s) (rs_file t) && String.eqb (rs_fn s) (rs_fn t).

(* the notation classes with which the function of site `s` reads the attribute of `s`, in nclass_idx order *)
Definition all_classes : list nclass :=
  [NC_Opacity; NC_Number; NC_Length; NC_LengthList; NC_Color; NC_Paint; NC_Link; NC_Transform; NC_Origin;
   NC_PaintOrder; NC_Keyword; NC_Unknown].
Definition fn_classes_in (sites : list read_site) (s : read_site) : list nclass :=
  filter (fun c => existsb (fun t => same_fn s t && AId_eqb (rs_attr t) (rs_attr s) && nclass_eqb (site_class t) c) sites)
         all_classes.
Definition fn_classes (s : read_site) : list nclass := fn_classes_in read_sites s.

Fixpoint nclist_eqb (l m : list nclass) : bool :=
  match l, m with
  | [], [] => true
  | a :: l', b :: m' => nclass_eqb a b && nclist_eqb l' m'
  | _, _ => false
  end.

(* one site: a presentation attribute, a known reader; a value site reads exactly the specified notation set in its
   function; the opacity family is read as `Opacity` *)
Definition site_ok_in (sites : list read_site) (s : read_site) : bool :=
  is_presentation (rs_attr s) &&
  negb (nclass_eqb (site_class s) NC_Unknown) &&
  (if value_site s
   then nclist_eqb (fn_classes_in sites s) (spec_classes (rs_attr s)) &&
        (if opacity_family (rs_attr s) then String.eqb (rs_reader s) "Opacity" else true)
   else true).
Definition site_ok (s : read_site) : bool := site_ok_in read_sites s.

(* ---- inheritance: an INHERITED property (specification table Model.Cascade.spec_noninherited) is never read from the
   element alone: the site uses find_attribute, a helper that walks the ancestors (resolve_length), or its function
   walks `.ancestors()` before the read (rs_walk, source-derived) ---- *)
Definition walks (s : read_site) : bool := negb (String.eqb (rs_walk s) "none").
Definition site_lookup_ok (s : read_site) : bool :=
  implb (value_site s && negb (spec_noninherited (rs_attr s))) (walks s).

(* the converse: a property the specification does NOT inherit is read from the element itself (rs_walk = none) - reading it with
   find_attribute / from an ancestor would apply an ancestor's value (overflow, opacity, filter, flood-*, ...).  Exceptions, as
   usvg's text layout resolves them: the baseline properties of a text chunk are taken from the span's element or its parent
   (find_attribute's non-inheritable branch) and baseline-shift is accumulated along the ancestors. *)
Definition text_baseline_prop (a : AId) : bool :=
  match a with A_DominantBaseline | A_AlignmentBaseline | A_BaselineShift => true | _ => false end.
Definition site_own_ok (s : read_site) : bool :=
  implb (value_site s && spec_noninherited (rs_attr s) && negb (text_baseline_prop (rs_attr s))) (negb (walks s)).

(* ---- units: a <length> is converted by units::convert_length (source-derived arms: Gen.Units.convert_abs) - through one of
   the helpers anchored by the generator, in the same function (baseline-shift), or by resolve_font_size's own copy of
   the table (font-size; Gen.SvgTables fs_Px .. fs_Percent) ---- *)
Definition length_converters : list string :=
  ["resolve_length"; "resolve_valid_length"; "convert_length"; "convert_user_length"; "try_convert_length"; "convert_list"].
Definition length_site (s : read_site) : bool :=
  nclass_eqb (site_class s) NC_Length || nclass_eqb (site_class s) NC_LengthList.
Definition site_length_ok_in (sites : list read_site) (s : read_site) : bool :=
  implb (length_site s)
        (str_in (rs_how s) length_converters || AId_eqb (rs_attr s) A_FontSize ||
         existsb (fun t => same_fn s t && AId_eqb (rs_attr t) (rs_attr s) && str_in (rs_how t) length_converters) sites).
Definition site_length_ok (s : read_site) : bool := site_length_ok_in read_sites s.

(* positions of the failing sites (for the check's search) *)
Fixpoint bad_sites_from (i : N) (l : list read_site) : list N :=
  match l with
  | [] => []
  | s :: l' => if site_ok s && site_lookup_ok s && site_own_ok s && site_length_ok s then bad_sites_from (i + 1)%N l'
               else i :: bad_sites_from (i + 1)%N l'
  end.
Definition bad_sites : list N := bad_sites_from 0%N read_sites.

(* every opacity-family property is read somewhere (non-vacuity of the family obligation) *)
Definition family_read (a : AId) : bool :=
  existsb (fun s => AId_eqb (rs_attr s) a && value_site s) read_sites.

(* element kinds: every filter primitive kind that reads flood-* / lighting-color (source-derived dispatch) *)
Definition fn_elements (fn : string) : list EId :=
  match find (fun p => String.eqb (fst p) fn) site_elements with Some p => snd p | None => [] end.
Definition readers_of (a : AId) : list EId :=
  flat_map (fun s => if AId_eqb (rs_attr s) a && value_site s then fn_elements (rs_fn s) else []) read_sites.
