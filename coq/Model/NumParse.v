(* Model of `impl FromValue for f32` (crates/usvg/src/parser/svgtree/mod.rs): how the text of a number attribute becomes
   the f32 the tree stores and the writer prints.  The steps (cast to f32, finiteness filter) and THEIR ORDER come from
   Gen/NumParse.v.  A float is a rational or an infinity / NaN; rounding of finite values is idealised (only finiteness
   and the overflow threshold matter here).  Executable Gallina only. *)
From RV Require Import Gen.NumParse.
From Coq Require Import QArith Qabs List Bool.
Import ListNotations.
Local Open Scope Q_scope.

Inductive fv := Fin (q : Q) | Inf (negative : bool) | NaN.
Definition is_fin (v : fv) : bool := match v with Fin _ => true | _ => false end.

(* round-to-nearest-even: an f64 of magnitude >= 2^128 - 2^103 (f32::MAX + half an ulp; the tie goes to the even 2^128) becomes infinite *)
Definition f32_overflow : Q := inject_Z (2 ^ 128 - 2 ^ 103).
(* `v as f32` *)
Definition cast32 (v : fv) : fv :=
  match v with
  | Fin q => if Qle_bool f32_overflow (Qabs q) then Inf (negb (Qle_bool 0 q)) else Fin q
  | x => x
  end.

(* the Option pipeline; `narrow` = has the value been cast to f32 yet *)
Fixpoint run_steps (steps : list pstep) (v : fv) (narrow : bool) : option (fv * bool) :=
  match steps with
  | [] => Some (v, narrow)
  | PCast :: r => run_steps r (if narrow then v else cast32 v) true
  | PFilterFinite :: r => if is_fin v then run_steps r v narrow else None
  end.
(* <f32 as FromValue>::parse on the f64 that svgtypes::Number::from_str produced *)
Definition parse_f32 (v : fv) : option fv :=
  match run_steps f32_parse_steps v false with
  | Some (x, true) => Some x
  | _ => None                       (* a pipeline without a cast does not type-check in Rust *)
  end.

(* correspondence: the tree holds `got` for an attribute whose default is 0 (`.unwrap_or(0.0)`) *)
Definition chk_parsed (v : fv) (got : option Q) : bool :=
  match parse_f32 v, got with
  | Some (Fin q), Some g => Qle_bool (Qabs (q - g)) (Qabs q * (1 # 1000000))
  | None, Some g => Qeq_bool g 0
  | _, _ => false                   (* a non-finite parse result, or a non-finite number in the tree *)
  end.
(* model-level search: the parse result is finite *)
Definition chk_parse_finite (v : fv) : bool :=
  match parse_f32 v with Some x => is_fin x | None => true end.
